"""C10 — dependencies resolve by the documented fallback policy, from verified sources.

(a) `DependencyFallbacksHolder.lookup` (real code, in-process, table-driven stubs for
    `find_external_dependency` / `do_subproject` / the wrap `[provide]` tables) on the cross product of
    circumstances and on lookup sequences <= 3, against (i) the Lean model `MesonModel.DepPolicy.lookup`
    (outcome, effects, world after) and (ii) the documented policy as a Python decision table
    (`c10_dep.Policy`) plus the three direct clauses (forced => system not consulted, nofallback =>
    nothing configured, repeated lookups agree).
(c) `coredata.DependencyCache` (real object over a real OptionStore) on histories of option changes / put / get / clear on both
    machines, against the Lean model `MesonModel.DepPolicy.Cache` (type -> option table re-extracted from the live source)
    and the cache clause read directly; the lookups of (a) run over the real DependencyCache, with entries left by earlier
    configurations under other search paths and `--reconfigure` steps inside a sequence; a real
    `meson setup` / `--reconfigure -Dpkg_config_path=…` leg runs in every tier.
(b) `wrap.Resolver.resolve` (real code, in-process) on local fixtures with every corruption class at each
    acquisition location and a fault at each step, against the Lean step machine
    `MesonModel.DepPolicy.Wrap.resolve` and the three wrap clauses evaluated on what really happened.
(d) the wrap-*file* layer (`harness/c10_wrapfile.py`): generated `subprojects/` trees read by the real `wrap.Resolver`
    (`load_wraps`, `add_wrap`, `[wrap-redirect]`, `load_and_merge`, `find_dep_provider`, `get_varname`,
    `find_program_provider`) against the Lean model `MesonModel.DepPolicy.WrapFile` (same file texts, same listing order)
    and against the clauses of the Wrap manual read directly (provider table is a function or the load raises; implicit
    provide; programs; existing entries win on merge); then lookups of (a) over the *real* Resolver loaded from generated
    wrap files instead of the stub tables.
Thorough tier adds end-to-end `meson setup --backend=none` runs.

Readings of the documents where they are silent (kept identical in the Lean `policy`):
 R1  a fallback subproject that is already configured answers alone (found / not-found), the system is
     not consulted afterwards (comment in `_get_subproject_dep`; candidate order of `_get_candidates`);
 R2  with `allow_fallback` unset and an optional lookup a wrap `[provide]` entry is still the fallback
     when its subproject is already part of the build;
 R3  names are tried in order; for each, an override first, then a dependency cached from a previous run.
 R5  a result cached by an earlier configuration (CoreData.deps) is reused only while the search path that produced it is
     unchanged: pkg_config_path for pkg-config results, cmake_prefix_path for CMake results, neither for the others;
     `--clearcache` forgets everything; a change of the other option does not invalidate.
 R4  overrides and remembered results are per identifier: name + `static` flavour + the other identifying keywords of
     dependency() (harvested from `get_dep_identifier` on every run; `method` does not identify an override).
     meson.override_dependency(static: s) in a project with default_library dl answers a lookup with `static: σ` iff
     σ is absent, or s = σ, or s is absent and dl is σ's flavour or `both` (docs/yaml/builtins/meson.yaml: "if not
     specified it is assumed dep_object follows default_library").
The worlds are *built through the real registration API*: every override of a world is a
`MesonMain.override_dependency_method` call (main project, configured subprojects, and subprojects configured by the
lookup — with the default_library a `static:` lookup forces on them); the resulting table is compared with the
documented rule (oracle) and with the Lean model `Register.overrideDependency` (correspondence). Each lookup is then
compared with the Lean `lookup`/`policy` on the slice of the real tables at the lookup's identifier flavour.
"""
from __future__ import annotations

import hashlib
import itertools
import json
import multiprocessing
import os
import subprocess
import sys
import typing as T

from . import common
from .common import Ctx
from . import c10_dep as D
from . import c10_wrap as WR
from . import c10_cache as CA
from . import c10_wrapfile as WF

ID = 'C10'
LEVEL = 'proof'
LEAN_TARGETS = ['MesonModel.Props.C10']
AREAS = ['dep']
PINS = [
    'mesonbuild.interpreter.dependencyfallbacks:DependencyFallbacksHolder',
    'mesonbuild.wrap.wrap:Resolver._resolve',
    'mesonbuild.wrap.wrap:Resolver.resolve',
    'mesonbuild.wrap.wrap:Resolver.check_can_download',
    'mesonbuild.wrap.wrap:Resolver._get_file',
    'mesonbuild.wrap.wrap:Resolver._get_file_internal',
    'mesonbuild.wrap.wrap:Resolver._download',
    'mesonbuild.wrap.wrap:Resolver.get_data_with_backoff',
    'mesonbuild.wrap.wrap:Resolver.get_data',
    'mesonbuild.wrap.wrap:Resolver.check_hash',
    'mesonbuild.wrap.wrap:Resolver.hash_file',
    'mesonbuild.wrap.wrap:Resolver.apply_patch',
    'mesonbuild.wrap.wrap:Resolver.apply_diff_files',
    'mesonbuild.wrap.wrap:Resolver.copy_tree',
    'mesonbuild.wrap.wrap:Resolver.find_dep_provider',
    'mesonbuild.wrap.wrap:Resolver.get_varname',
    'mesonbuild.wrap:WrapMode',
    'mesonbuild.wrap.wrap:WrapType',
    'mesonbuild.wrap.wrap:PackageDefinition',
    'mesonbuild.wrap.wrap:Resolver.load_wraps',
    'mesonbuild.wrap.wrap:Resolver.add_wrap',
    'mesonbuild.wrap.wrap:Resolver.load_wrapdb',
    'mesonbuild.wrap.wrap:Resolver.merge_wraps',
    'mesonbuild.wrap.wrap:Resolver.load_and_merge',
    'mesonbuild.wrap.wrap:Resolver.find_program_provider',
    'mesonbuild.wrap.wrap:Resolver.get_directory',
    'mesonbuild.interpreter.mesonmain:MesonMain.override_dependency_method',
    'mesonbuild.interpreter.mesonmain:MesonMain._override_dependency_impl',
    'mesonbuild.dependencies.detect:get_dep_identifier',
    'mesonbuild.coredata:DependencyCache',
    'mesonbuild.coredata:DependencySubCache',
    'mesonbuild.coredata:DependencyCacheType',
]
TRUSTED = [
    'stubs of find_external_dependency / Interpreter.do_subproject (its build file = a list of real meson.override_dependency calls) / Resolver.find_dep_provider+get_varname in harness/c10_dep.py '
    '(the Lean world mirrors these stubs); end-to-end runs in the thorough tier exercise the real ones',
    'instrumented externals of wrap.py (urlopen, open-for-hash, os.rename, os.mkdir, shutil.unpack_archive, shutil.copy2, Popen_safe) '
    'in harness/c10_wrap.py; archive contents abstracted to (sha, unpacks, creates dir, has build file)',
    'version constraints are abstract in the theorems (any `sat`); the driver instantiates them with the C19 model',
    'domain: lower-case ASCII dependency names; wrap-file wraps only (git/hg/svn and real network not modelled); '
    'faults are exceptions (not process kills)',
    'wrap-file layer: ASCII wrap files with \\n line ends and no continuation lines (the model answers `unsupported` for a non-blank, '
    'non-comment line that starts with white space; such cases are skipped), redirect targets are relative, no Cargo.lock; '
    'configparser (CPython 3.12 RawConfigParser._read) is modelled on that grammar, its errors are one class; directory listings are '
    'passed to the model in the order os.walk returned them',
]

NPROC = min(16, os.cpu_count() or 4)

# ------------------------------------------------------------------------------------------ (a) generators

D2 = ['d2', True, '2.0']
D1 = ['d1', True, '1.0']
DNF = ['dnf', False, 'undefined']
V2 = ['v2', True, '2.0']
V1 = ['v1', True, '1.0']
VU = ['vu', True, 'undefined']
VNF = ['vnf', False, 'undefined']
SUBC = [({'foo': D2}, {}), ({'foo': D1}, {}), ({'foo': DNF}, {}), ({}, {'foo_dep': V2}), ({}, {'foo_dep': V1}),
        ({}, {'foo_dep': VU}), ({}, {'foo_dep': VNF}), ({}, {'foo_dep': 'notdep'}), ({}, {})]
CUR_PATHS = {'pkg': ['/pa'], 'cmake': []}
OLD_PKG = {'pkg': ['/old'], 'cmake': []}          # an earlier configuration searched pkg-config files elsewhere
OLD_CMAKE = {'pkg': ['/pa'], 'cmake': ['/oldc']}   # ... or only had another cmake_prefix_path (irrelevant to pkg-config results)
# (overrides made by the main project, cache entries stored under the present paths, entries stored by earlier configurations)
PRE = [({}, {}, []), ({'foo': [['o2', True, '2.0'], True]}, {}, []), ({'foo': [['o1', True, '1.0'], True]}, {}, []),
       ({'foo': [['onf', False, 'undefined'], True]}, {}, []), ({}, {'foo': ['sys:foo@1.0', True, '1.0']}, []),
       ({}, {'foo': ['sys:foo@2.0', True, '2.0']}, []),
       ({}, {}, [('foo', ['sys:foo@1.0', True, '1.0'], OLD_PKG)]), ({}, {}, [('foo', ['sys:foo@2.0', True, '2.0'], OLD_PKG)]),
       ({}, {}, [('foo', ['sys:foo@2.0', True, '2.0'], OLD_CMAKE)])]
FBK = ['none', 'x1', 'x2', 'empty', 'p0', 'pv', 'x1pv']
FB_OF = {'none': None, 'x1': ['foosub'], 'x2': ['foosub', 'foo_dep'], 'empty': [], 'p0': None, 'pv': None, 'x1pv': ['foosub']}
SYSV = [None, '1.0', '2.0']
SST = [('no', 'ok'), ('no', 'fail'), ('found', 'ok'), ('disabled', 'ok')]
FFF = [[], ['foo'], ['foosub']]
WANTED = [[], ['>=2.0']]


OPST = [None, True, False]            # `static:` keyword of the override_dependency calls of the cell
DLIB = ['shared', 'static', 'both']   # default_library of the project that registers
RST = [None, True, False]             # `static:` keyword of the lookup


def cell(sysv, fbk, sst, sc, pre, wm, fff, wanted, req, allow, opst, dl, rst) -> T.Optional[T.Tuple[dict, dict]]:
    fw = {'wrap_mode': wm, 'fff': list(fff), 'main_dl': dl, 'ops': [], 'paths': json.loads(json.dumps(CUR_PATHS)),
          'system': {} if sysv is None else {'foo': sysv}, 'provides': {}, 'subprojects': {}}
    fw['history'] = [{'name': n, 'dep': d, 'paths': json.loads(json.dumps(CUR_PATHS))} for n, d in pre[1].items()] + \
                    [{'name': n, 'dep': d, 'paths': json.loads(json.dumps(pa))} for n, d, pa in pre[2]]
    for n, (d, _explicit) in pre[0].items():
        fw['ops'].append({'name': n, 'dep': d, 'static': opst, 'native': False})
    if fbk == 'p0':
        fw['provides']['foo'] = ['foosub', None]
    if fbk in ('pv', 'x1pv'):
        fw['provides']['foo'] = ['foosub', 'foo_dep']
    st, cf = sst
    sub_ops = [{'name': n, 'dep': d, 'static': opst, 'native': False} for n, d in sc[0].items()]
    fw['subprojects']['foosub'] = {'state': st, 'configure': cf, 'dl': dl, 'ops': sub_ops, 'vars': dict(sc[1])}
    if st == 'found' and D.register_ops(D.register_ops({}, fw['ops'], dl), sub_ops, dl) is None:
        return None
    r = {'names': ['foo'], 'wanted': list(wanted), 'required': req, 'allow_fallback': allow, 'fallback': FB_OF[fbk],
         'static': rst, 'extra': {}}
    return fw, r


DIMS = [SYSV, FBK, SST, SUBC, PRE, D.WRAP_MODES, FFF, WANTED, [True, False], [None, True, False], OPST, DLIB, RST]


def n_cells() -> int:
    n = 1
    for d in DIMS:
        n *= len(d)
    return n


def cell_at(i: int):
    idx = []
    for d in reversed(DIMS):
        idx.append(d[i % len(d)])
        i //= len(d)
    return cell(*reversed(idx))


NAMES = ['foo', 'bar']
SPS = ['foosub', 'foo', 'barsub']
VERS = ['1.0', '2.0', 'undefined']


def rdep(rng, tag):
    f = rng.random() < 0.8
    v = rng.choice(VERS) if f else 'undefined'
    return [f'{tag}{rng.randint(0, 3)}@{v}' if f else f'{tag}nf{rng.randint(0, 1)}', f, v]


def rpaths(rng) -> dict:
    return {'pkg': rng.choice([[], ['/pa'], ['/pb'], ['/pa', '/pb']]), 'cmake': rng.choice([[], [], ['/ca'], ['/pa']])}


def rop(rng, name, tag) -> dict:
    return {'name': name, 'dep': rdep(rng, tag), 'static': rng.choice([None, None, True, False]), 'native': rng.random() < 0.1}


def rworld(rng) -> dict:
    fw = {'wrap_mode': rng.choice(D.WRAP_MODES), 'fff': rng.choice([[], [], ['foo'], ['foosub'], ['bar', 'foo'], ['barsub']]),
          'main_dl': rng.choice(DLIB), 'ops': [], 'history': [], 'paths': rpaths(rng), 'system_type': {},
          'system': {}, 'provides': {}, 'subprojects': {}}
    table: dict = {}
    for n in NAMES:
        fw['system_type'][n] = rng.choice(['pkgconfig', 'pkgconfig', 'cmake', 'other'])
        if rng.random() < 0.4:
            fw['system'][n] = rng.choice(VERS[:2])
        for _ in range(rng.choice([0, 0, 0, 1, 1, 2])):
            v = rng.choice(VERS[:2])
            fw['history'].append({'name': n, 'dep': [f'sys:{n}@{v}', True, v],
                                  'paths': json.loads(json.dumps(fw['paths'])) if rng.random() < 0.4 else rpaths(rng)})
        for _ in range(rng.choice([0, 0, 0, 1, 1, 2])):
            op = rop(rng, n, 'o')
            t = D.register_ops(table, [op], fw['main_dl'])
            if t is not None:
                table = t
                fw['ops'].append(op)
        if rng.random() < 0.5:
            fw['provides'][n] = [rng.choice(SPS), rng.choice([None, 'foo_dep', 'bar_dep'])]
    for sp in SPS:
        if rng.random() < 0.75:
            st = rng.choice(['no', 'no', 'found', 'disabled'])
            s = {'state': st, 'configure': rng.choice(['ok', 'ok', 'fail']), 'dl': rng.choice(DLIB), 'ops': [], 'vars': {}}
            for n in NAMES:
                for _ in range(rng.choice([0, 0, 1, 1, 2])):
                    s['ops'].append(rop(rng, n, 's' + sp[0]))
            for v in ['foo_dep', 'bar_dep']:
                if rng.random() < 0.5:
                    s['vars'][v] = rdep(rng, 'v' + sp[0]) if rng.random() < 0.85 else 'notdep'
            if st == 'found':
                t = D.register_ops(table, s['ops'], s['dl'])
                if t is None:
                    s['ops'] = []
                else:
                    table = t
            fw['subprojects'][sp] = s
    return fw


def rreq(rng) -> dict:
    k = rng.random()
    if k < 0.6:
        names = [rng.choice(NAMES)]
    elif k < 0.9:
        names = rng.sample(NAMES, 2)
    else:   # malformed stream
        names = rng.choice([[], ['foo', 'foo'], ['fo=o'], [''], ['foo>1'], ['bar', '']])
    fb = rng.choice([None, None, None, ['foosub'], ['foosub', 'foo_dep'], ['foo'], ['barsub', 'bar_dep'], [], ['a', 'b', 'c'], ['nosuch']])
    extra = {}
    if rng.random() < 0.15:
        kws = [k for k in D.ident_keywords() if k not in ('static', '__convertors__')]
        kw = rng.choice(kws)
        extra[kw] = D.ident_keywords()[kw]
    return {'names': names, 'wanted': rng.choice([[], [], ['>=2.0'], ['<2.0'], ['>=1.0', '<2.0']]), 'required': rng.random() < 0.5,
            'allow_fallback': rng.choice([None, None, True, False]) if fb is None or rng.random() < 0.1 else None, 'fallback': fb,
            'static': rng.choice([None, None, True, False]), 'extra': extra}


def rseq(rng) -> T.Tuple[dict, T.List[dict]]:
    w = rworld(rng)
    reqs = [rreq(rng) for _ in range(rng.randint(1, 3))]
    if len(reqs) > 1 and rng.random() < 0.4:
        reqs[rng.randrange(1, len(reqs))] = dict(reqs[0])
    if len(reqs) == 3 and rng.random() < 0.2:
        reqs[2] = dict(reqs[0])
    if rng.random() < 0.3:
        # a history across configurations: reconfigure with other search paths / another system / --clearcache
        op = {'op': 'reconfigure', 'paths': rpaths(rng) if rng.random() < 0.8 else json.loads(json.dumps(w['paths'])),
              'system': {n: rng.choice(VERS[:2]) for n in NAMES if rng.random() < 0.5}, 'clearcache': rng.random() < 0.15}
        k = rng.randint(1, len(reqs))
        reqs = reqs[:k] + [op] + [dict(r) for r in (reqs[k:] or reqs[:1])] + ([dict(reqs[0])] if rng.random() < 0.5 else [])
    return w, reqs


# ------------------------------------------------------------------------------------------ (a) evaluation

def designation(w: dict, r: dict) -> T.Tuple[bool, T.Optional[str]]:
    """(forced, fallback subproject) as the statement of C10 defines them — independent of code and model"""
    names = r['names']
    fb, allow = r['fallback'], r['allow_fallback']
    forced = w['wrap_mode'] == 'forcefallback' or any(n in w['fff'] for n in names)
    sp = None
    if fb:
        sp = fb[0] or None
        forced = forced or (sp in w['fff'])
    elif fb is None and allow is not False:
        for n in names:
            p = w['provides'].get(n)
            if p:
                forced = forced or p[0] in w['fff']
                if allow is True or r['required'] or forced or w['subprojects'].get(p[0], {}).get('state') == 'found':
                    sp = p[0]
                break
    return forced, sp


def eval_seq(item: T.Tuple[dict, T.List[dict]]):
    """run one configuration on the implementation: the override_dependency calls of the world through the real
    MesonMain.override_dependency_method, then the lookups.
    -> (per-step canonical results, oracle hits, outcome tags, per-step policy results, per-step model lines)"""
    fw, reqs = item
    s = D.Session(fw)
    p = D.FullPolicy(fw)
    res, hits, tags, outs, pol, lines = [], [], [], [], [], []
    st0 = s.state()
    if s.setup_errors:
        hits.append(('override-registration', 'meson.override_dependency() refused a fresh name: ' + '; '.join(s.setup_errors), -1))
    elif D.canon_state(st0) != D.canon_state(p.state):
        missing = sorted(set(p.state['table']) - set(st0['table']))
        extra = sorted(set(st0['table']) - set(p.state['table']))
        hits.append(('override-registration',
                     'after the meson.override_dependency() calls the override table is not what "follows default_library" '
                     f'prescribes: missing {missing} unexpected {extra}', -1))
    for i, r in enumerate(reqs):
        if r.get('op') == 'reconfigure':
            s.reconfigure(r)
            p.reconfigure(r)
            outs = [None] * len(outs)       # the repeat clause speaks of one configuration
            outs.append(None)
            if D.canon_state(s.state()) != D.canon_state(p.state):
                hits.append(('policy-state', 'state at the start of the next configuration differs from what the policy prescribes', i))
            continue
        before = s.state()
        wb = D.make_slice(s.world, before, r)
        out, eff = s.lookup(r)
        after = s.state()
        wa = D.make_slice(s.world, after, r)
        pt = dict(p.state['table'])
        pout = p.decide(r)
        sp = D.Policy(wb)
        spo = sp.decide(r)
        pol.append(D.canon_out(spo) + ('' if spo == 'error' else '~' + D.canon_world_enc(sp.w)))
        lines.append(D.line_seq(wb, [r]))
        cls = 'error' if out.startswith('error') else out
        outs.append(cls)
        tags.append(out.split(':')[0] if not out.startswith('error') else out)
        res.append(D.canon_out(out) + '~' + D.canon_effects(eff) + '~' + D.canon_world_enc(wa))
        if cls != pout:
            hits.append(('policy', f'dependency() gave {out}, the documented policy prescribes {pout}', i))
        elif cls != 'error' and D.canon_state(after) != D.canon_state(p.state):
            hits.append(('policy-state', 'overrides/cache/subprojects after the lookup differ from what the policy prescribes', i))
        valid = not out.startswith('error:Inv') and len(set(r['names'])) == len(r['names']) and all(r['names'])
        if valid:
            forced, spn = designation(wb, r)
            if forced and spn and any(e.startswith('system:') for e in eff):
                hits.append(('forced-consults-system', 'fallback is forced but the system was consulted: ' + ','.join(eff), i))
            if forced and spn and out.startswith('found:sys:') and not any(r_n in wb['overrides'] for r_n in r['names']):
                hits.append(('forced-returns-system', 'fallback is forced but a system dependency was returned', i))
            if wb['wrap_mode'] == 'nofallback' and not forced and any(e.startswith('configure:') for e in eff):
                hits.append(('nofallback-configures', 'wrap_mode=nofallback but a subproject was configured: ' + ','.join(eff), i))
            # an overridden dependency wins: the first name is overridden (for this static flavour, by the documented
            # registration rule) with a found dependency that satisfies the constraint
            if r['names'] and args_ok(r):
                ov = pt.get(D.tkey(False, r['names'][0], D.flavour(r.get('static'), r.get('extra') or {}, False)))
                if ov and ov[0][1] and D.vsat(ov[0][2], r['wanted']):
                    if out != 'found:' + ov[0][0]:
                        hits.append(('override-does-not-win', f'{r["names"][0]!r} is overridden with {ov[0][0]} for this lookup '
                                     f'(static: {r.get("static")}) but dependency() gave {out}', i))
                    elif any(e.startswith(('system:', 'configure:')) for e in eff):
                        hits.append(('override-does-not-win', 'the name is overridden but the lookup went on: ' + ','.join(eff), i))
        for j in range(i):
            if reqs[j] == r and outs[j] is not None:
                if outs[j].startswith('found:') and cls != outs[j]:
                    hits.append(('repeat-differs', f'same arguments returned {outs[j]} then {cls}', i))
                if j == i - 1 and cls != outs[j]:
                    hits.append(('repeat-differs', f'immediately repeated lookup returned {outs[j]} then {cls}', i))
        if cls == 'error':
            break
    return res, hits, tags, pol, lines


def norm_sub_error(canon: str) -> str:
    """an exception out of a subproject that is being configured is whatever that subproject raised (the stub of
    do_subproject raises InterpreterException for a refused override, its own class otherwise): one class"""
    parts = canon.split('~')
    if parts[0] == 'error:InterpreterException' and len(parts) > 1 and parts[1].split(',')[-1].startswith('configure:'):
        parts[0] = 'error:SubprojectConfigureError'
    return '~'.join(parts)


def args_ok(r: dict) -> bool:
    fb, allow = r['fallback'], r['allow_fallback']
    return not (fb is not None and (allow is not None or len(fb) > 2))


def eval_chunk(items):
    return [eval_seq(it) for it in items]


def pool_map(fn, items: list, chunk: int) -> list:
    chunks = [items[i:i + chunk] for i in range(0, len(items), chunk)]
    if len(chunks) <= 1:
        return [fn(c) for c in chunks]
    with multiprocessing.get_context('fork').Pool(NPROC) as pool:
        return pool.map(fn, chunks)


def vkey(cls: str, case: T.Any) -> str:
    return cls + ':' + hashlib.sha1(json.dumps(case, sort_keys=True, default=repr).encode()).hexdigest()[:12]


def run_dep(ctx: Ctx) -> None:
    rng = ctx.rng
    items: T.List[T.Tuple[dict, T.List[dict]]] = []
    total = n_cells()
    kws = [k for k in D.ident_keywords() if k != '__convertors__']
    ctx.extra['identifier_keywords'] = kws
    n_pick = 400000 if ctx.tier == 'thorough' else (40000 if ctx.deep else 15000)
    for i in sorted(rng.sample(range(total), n_pick)):
        c = cell_at(i)
        if c is None:
            continue
        w, r = c
        items.append((w, [r, dict(r)]))       # every cell is looked up twice (repeat clause)
    # every identifying keyword of dependency() (harvested from get_dep_identifier) x registration flavour x default_library
    for kw in kws:
        for opst in OPST:
            for dl in DLIB:
                for where in ('main', 'sub-found', 'sub-fallback'):
                    for sysv in (None, '1.0'):
                        fw = {'wrap_mode': 'default', 'fff': [], 'main_dl': rng.choice(DLIB) if where != 'main' else dl, 'ops': [],
                              'cache': {}, 'system': {} if sysv is None else {'foo': sysv}, 'provides': {}, 'subprojects': {}}
                        op = {'name': 'foo', 'dep': D2, 'static': opst, 'native': False}
                        if where == 'main':
                            fw['ops'].append(op)
                        else:
                            fw['subprojects']['foosub'] = {'state': 'found' if where == 'sub-found' else 'no', 'configure': 'ok',
                                                           'dl': dl, 'ops': [op], 'vars': {}}
                        vals = [None, True, False] if kw == 'static' else [D.ident_keywords()[kw]]
                        for val in vals:
                            r = {'names': ['foo'], 'wanted': [], 'required': False, 'allow_fallback': None,
                                 'fallback': ['foosub'] if where == 'sub-fallback' else None,
                                 'static': val if kw == 'static' else None, 'extra': {} if kw == 'static' else {kw: val}}
                            items.append((fw, [r, dict(r), dict(r, static=None, extra={})]))
    n_struct = len(items)
    for _ in range(250000 if ctx.tier == 'thorough' else ctx.scale(12000, 25000)):
        items.append(rseq(rng))
    results = [x for part in pool_map(eval_chunk, items, 2000) for x in part]
    ctx.count(sum(len(r[0]) for r in results))
    ctx.extra['dep_cells_total'] = total
    ctx.extra['dep_cells_run'] = n_struct
    ctx.extra['dep_sequences'] = len(items) - n_struct
    for (w, reqs), (res, hits, tags, _pol, _lines) in zip(items, results):
        for t in tags:
            ctx.tag('dep:' + t)
        for r in reqs[:1]:
            ctx.tag('dep:lookup-static-' + str(r.get('static')))
        for cls, msg, i in hits:
            case = {'kind': 'dep', 'world': w, 'requests': reqs, 'at': i}
            ctx.violation(vkey(cls, case), f'{cls}: {msg}', case)
    if ctx.model_available:
        flat = [(w, reqs, k, res[k], pol[k], lines[k]) for (w, reqs), (res, _h, tags, pol, lines) in zip(items, results)
                for k in range(len(res))]
        answers = ctx.driver('dep', [f[5] for f in flat])
        pol_answers = ctx.driver('dep', ['pol ' + f[5][4:] for f in flat])
        for (w, reqs, k, canon, pol, _line), ans, pans in zip(flat, answers, pol_answers):
            if norm_sub_error(canon) != norm_sub_error(ans):
                ctx.disagreement({'kind': 'dep', 'world': w, 'requests': reqs, 'at': k, 'impl': canon, 'model': ans})
            if not canon.startswith('error:InvalidArguments'):
                ctx.seen_nontrivial(('dep', ans))
            # the Lean decision table `policy` against the Python decision table, and against the Lean `lookup`
            # (the latter is theorem `lookup_eq_policy`; running it is only a test of the statement's reading)
            lean_pol = pans if not pans.startswith('error') else 'error'
            if lean_pol != pol:
                ctx.disagreement({'kind': 'policy-table', 'world': w, 'requests': reqs, 'at': k, 'python_policy': pol, 'lean_policy': lean_pol})
            o, _e, wd = ans.split('~')
            lk = 'error' if o.startswith('error') else o + '~' + wd
            if lk != lean_pol:
                ctx.disagreement({'kind': 'lean-lookup-vs-lean-policy', 'world': w, 'requests': reqs, 'at': k,
                                  'lookup': lk, 'policy': lean_pol})
        ctx.extra['policy_table_cells_compared'] = len(flat)
        run_registration(ctx, items)
    for it in items[::max(1, len(items) // 4)][:4]:
        ctx.sample({'kind': 'dep', 'world': it[0], 'requests': it[1]})


def enc_ops(ops: T.List[dict], dl: str) -> str:
    return ','.join(f"{D.enc(o['name']) if o['name'] else 'E'}:{D.enc_dep(o['dep'])}:{D.stag(o['static'])}:{int(o['native'])}:{dl}" for o in ops)


def run_registration(ctx: Ctx, items) -> None:
    """`MesonMain.override_dependency_method` against the Lean model `Register.overrideDependency` on the registration
    sequences of the worlds (main project, then every configured subproject)"""
    seen = {}
    for w, _reqs in items:
        seq = [(w['ops'], w['main_dl'])] + [(st['ops'], st['dl']) for st in w['subprojects'].values() if st['state'] == 'found']
        line = 'reg ' + '/'.join(enc_ops(o, dl) for o, dl in seq if o)
        if line not in seen and any(o for o, _ in seq):
            seen[line] = w
    lines = list(seen)
    answers = ctx.driver('dep', lines)
    for line, ans in zip(lines, answers):
        w = seen[line]
        s = D.Session(w)
        real = 'error' if s.setup_errors else ','.join(sorted(
            f"{k.split('|')[0]}|{D.enc(k.split('|')[1])}|{k.split('|')[2]}={D.enc(v[0][0])}" for k, v in s.state()['table'].items()))
        ctx.count()
        if real != ans:
            ctx.disagreement({'kind': 'registration', 'world': w, 'impl': real, 'model': ans})
    ctx.extra['registration_sequences_compared'] = len(lines)


# ------------------------------------------------------------------------------------------ (b) generators

S_IDS = [1, 2, 3, 4, 5]
P_IDS = [11, 12, 13]
LABELS = ['hash.s', 'hash.p', 'rename.s', 'rename.p', 'mkdir', 'pre.s', 'pre.p', 'post.s', 'post.p', 'unpack2', 'copytree',
          'cachedcopy', 'diff.0', 'diff.1'] + [f'fetch.{w}.{fb}.{i}' for w in 'sp' for fb in (0, 1) for i in (0, 5)]


def base_case() -> dict:
    """good wrap: source from packagefiles without build file? no: source 1 via packagefiles, no patch"""
    return {'cfg': {'nodownload': False, 'source': {'filename': True, 'url': False, 'fallback_url': False, 'hash': 1},
                    'patch': None, 'patch_directory': False, 'lead': False},
            'env': {'dir': None, 'cached_dir': None,
                    'source': {'cache': None, 'pkg': 1, 'url': 'W', 'fallback_url': 'W'},
                    'patch': {'cache': None, 'pkg': None, 'url': 'W', 'fallback_url': 'W'},
                    'patch_dir': None, 'diffs': []},
            'faults': {}}


def place(case: dict, what: str, loc: str, cid: int, rec) -> dict:
    """put content `cid` at acquisition location `loc` for `what`, with recorded hash `rec`"""
    c = json.loads(json.dumps(case))
    good = 1 if what == 'source' else 11
    fc = {'filename': True, 'url': loc != 'pkg', 'fallback_url': loc in ('fb-after-fail', 'fb-after-badhash'), 'hash': rec}
    fe = {'cache': None, 'pkg': None, 'url': 'W', 'fallback_url': 'W'}
    if loc == 'pkg':
        fe['pkg'] = cid
    elif loc == 'cache':
        fe['cache'] = cid
        fe['url'] = good
    elif loc == 'url':
        fe['url'] = cid
    elif loc == 'fb-after-fail':
        fe['url'] = 'W'
        fe['fallback_url'] = cid
    elif loc == 'fb-after-badhash':
        fe['url'] = 2 if what == 'source' else 12
        fe['fallback_url'] = cid
    c['cfg'][what] = fc
    c['env'][what] = fe
    return c


def structured_wrap_cases(ctx: Ctx) -> T.List[dict]:
    out = []
    locs = ['pkg', 'cache', 'url', 'fb-after-fail', 'fb-after-badhash']
    for what, ids in (('source', S_IDS), ('patch', P_IDS)):
        good = ids[0]
        for loc in locs:
            for cid in ids:
                for rec in (good, 'bogus', None):
                    base = base_case()
                    if what == 'patch':
                        base['env']['source']['pkg'] = 2      # source without build file: the patch brings it
                        base['cfg']['source']['hash'] = 2
                        base['env']['diffs'] = [[True, True]]
                    c0 = place(base, what, loc, cid, rec)
                    variants = [({}, False)]
                    labs = list(enumerate(LABELS)) if ctx.tier == 'thorough' else ctx.rng.sample(list(enumerate(LABELS)), 10 if ctx.deep else 6)
                    for k, lab in labs:
                        variants.append(({lab: 'os' if k % 2 == 0 else 'other'}, False))
                        if ctx.tier == 'thorough':
                            variants.append(({lab: 'other' if k % 2 == 0 else 'os'}, False))
                    variants.append(({}, True))
                    for faults, nd in variants:
                        c = json.loads(json.dumps(c0))
                        c['faults'] = faults
                        c['cfg']['nodownload'] = nd
                        out.append(c)
    # patch / diff failures after a good unpack, with and without a build file in the source
    for src in (1, 2):
        for diffs in ([[True, False]], [[False, True]], [[True, True], [True, False]], [[True, True]]):
            for pd in (None, 'build', 'nobuild'):
                for lab in [None, 'diff.0', 'diff.1', 'copytree']:
                    c = base_case()
                    c['env']['source']['pkg'] = src
                    c['cfg']['source']['hash'] = src
                    c['env']['diffs'] = diffs
                    c['cfg']['patch_directory'] = pd is not None
                    c['env']['patch_dir'] = pd
                    if lab:
                        c['faults'] = {lab: 'other'}
                    out.append(c)
    return out


def rcase(rng) -> dict:
    lead = rng.random() < 0.15

    def fc(what):
        url = rng.random() < 0.6
        ids = S_IDS if what == 'source' else P_IDS
        return {'filename': rng.random() < 0.95, 'url': url, 'fallback_url': url and rng.random() < 0.5,
                'hash': rng.choice(ids + [ids[0]] * 4 + ['bogus', None])}

    def fe(what):
        ids = S_IDS if what == 'source' else P_IDS

        def pick():
            return rng.choice(ids + [ids[0]] * 4)
        return {'cache': pick() if rng.random() < 0.3 else None, 'pkg': pick() if rng.random() < 0.7 else None,
                'url': rng.choice(['W', 'O']) if rng.random() < 0.25 else pick(),
                'fallback_url': rng.choice(['W', 'O']) if rng.random() < 0.25 else pick()}
    cfg = {'nodownload': rng.random() < 0.2, 'source': fc('source'), 'patch': fc('patch') if rng.random() < 0.5 else None,
           'patch_directory': rng.random() < 0.15, 'lead': lead}
    env = {'dir': rng.choice([None] * 8 + ['file', 'empty', 'build']), 'cached_dir': rng.choice([None] * 8 + ['build', 'nobuild']),
           'source': fe('source'), 'patch': fe('patch'), 'patch_dir': rng.choice([None, 'build', 'nobuild']),
           'diffs': [[rng.random() < 0.9, rng.random() < 0.7] for _ in range(rng.choice([0, 0, 0, 1, 2]))]}
    labels = LABELS + [f'fetch.{w}.{fb}.{i}' for w in 'sp' for fb in (0, 1) for i in range(1, 5)]
    faults = {}
    for _ in range(rng.choice([0, 0, 1, 1, 2, 8])):
        faults[rng.choice(labels)] = rng.choice(['os', 'other'])
    return {'cfg': cfg, 'env': env, 'faults': faults}


def wrap_chunk(cases):
    return [WR.run_case(c) for c in cases]


def run_wrap(ctx: Ctx) -> None:
    rng = ctx.rng
    cases = structured_wrap_cases(ctx)
    n_struct = len(cases)
    cases += [rcase(rng) for _ in range(20000 if ctx.tier == 'thorough' else ctx.scale(700, 1500))]
    results = [x for part in pool_map(wrap_chunk, cases, 60) for x in part]
    ctx.count(len(cases))
    ctx.extra['wrap_cases_structured'] = n_struct
    ctx.extra['wrap_cases_random'] = len(cases) - n_struct
    for c, (canon, hits) in zip(cases, results):
        ctx.tag('wrap:' + canon.split(';')[0])
        if 'rmtree' in canon:
            ctx.tag('wrap:failed-patch-cleanup')
        if 'used.' in canon:
            ctx.tag('wrap:archive-unpacked')
        for cls, msg in hits:
            case = {'kind': 'wrap', 'case': c}
            ctx.violation(vkey(cls, case), f'{cls}: {msg}', case)
    if ctx.model_available:
        answers = ctx.driver('dep', [WR.line_wrap(c) for c in cases])
        for c, (canon, _h), ans in zip(cases, results, answers):
            if canon != ans:
                ctx.disagreement({'kind': 'wrap', 'case': c, 'impl': canon, 'model': ans})
            ctx.seen_nontrivial(('wrap', ans, json.dumps(c['cfg'], sort_keys=True)))
    for c in cases[::max(1, len(cases) // 3)][:3]:
        ctx.sample({'kind': 'wrap', 'case': c})


# ------------------------------------------------------------------------------------------ (c) the dependency cache

def gen_tables(ctx: Ctx) -> None:
    CA.gen_table_file(ctx)
    WF.gen_table_file(ctx)


# ------------------------------------------------------------------------------------------ (d) wrap files -> provider tables

def wf_chunk(cases):
    return WF.eval_chunk(cases)


def run_wrapfiles(ctx: Ctx) -> None:
    """generated subprojects/ trees read by the real wrap.Resolver against the Lean model of the wrap-file layer and the
    clauses of the manual; then lookups whose [provide] tables are the real Resolver over generated wrap files"""
    rng = ctx.rng
    cases = WF.structured_cases()
    n_struct = len(cases)
    n = 12000 if ctx.tier == 'thorough' else ctx.scale(900, 3000)
    cases += [WF.plain_case(rng) if k % 2 == 0 else WF.odd_case(rng) for k in range(n)]
    results = [x for part in pool_map(wf_chunk, cases, 100) for x in part]
    ctx.count(len(cases))
    ctx.extra['wrapfile_cases_structured'] = n_struct
    ctx.extra['wrapfile_cases_random'] = len(cases) - n_struct
    for c, (canon, hits, _line) in zip(cases, results):
        ctx.tag('wrapfile:' + ('ok' if canon.startswith('ok~') else canon.split('~')[0]))
        if c.get('decl') is not None:
            ctx.tag('wrapfile:plain')
        if c.get('merges'):
            ctx.tag('wrapfile:merged')
        for cls, msg in hits:
            case = {'kind': 'wrapfile', 'case': c}
            ctx.violation(vkey(cls, case), f'{cls}: {msg}', case)
    if ctx.model_available:
        answers = ctx.driver('dep', [r[2] for r in results])
        for c, (canon, _h, _line), ans in zip(cases, results, answers):
            if ans in ('ERR:unsupported', 'MERR:unsupported'):
                ctx.tag('wrapfile:outside-modelled-grammar')
                continue
            if canon != ans:
                ctx.disagreement({'kind': 'wrapfile', 'case': c, 'impl': canon, 'model': ans})
            ctx.seen_nontrivial(('wrapfile', ans.split('~')[0], ans.split('~')[2] if ans.count('~') >= 2 else ''))
    for c in cases[n_struct::max(1, len(cases) // 3)][:3]:
        ctx.sample({'kind': 'wrapfile', 'case': c})
    # composition: dependency() over the real Resolver loaded from generated wrap files
    items = []
    comp = []
    for _ in range(4000 if ctx.tier == 'thorough' else ctx.scale(600, 1500)):
        wfc, provides = WF.compose_case(rng)
        w = rworld(rng)
        w['provides'] = provides
        w['wrapfiles'] = wfc['files']
        reqs = [rreq(rng) for _ in range(rng.randint(1, 2))]
        if rng.random() < 0.5:
            reqs.append(dict(reqs[0]))
        items.append((w, reqs))
        comp.append((wfc, provides))
    results = [x for part in pool_map(eval_chunk, items, 200) for x in part]
    wres = [x for part in pool_map(wf_chunk, [c for c, _p in comp], 200) for x in part]
    ctx.count(sum(len(r[0]) for r in results))
    ctx.extra['composed_lookups_over_real_resolver'] = sum(len(r[0]) for r in results)
    for (w, reqs), (res, hits, tags, _pol, _lines) in zip(items, results):
        for t in tags:
            ctx.tag('compose:' + t.split(':')[0])
        for cls, msg, i in hits:
            case = {'kind': 'dep', 'world': w, 'requests': reqs, 'at': i}
            ctx.violation(vkey(cls, case), f'{cls} (provider tables from real wrap files): {msg}', case)
    if ctx.model_available:
        flat = [(w, reqs, k, res[k], lines[k]) for (w, reqs), (res, _h, _t, _pol, lines) in zip(items, results) for k in range(len(res))]
        answers = ctx.driver('dep', [f[4] for f in flat])
        for (w, reqs, k, canon, _line), ans in zip(flat, answers):
            if norm_sub_error(canon) != norm_sub_error(ans):
                ctx.disagreement({'kind': 'dep', 'world': w, 'requests': reqs, 'at': k, 'impl': canon, 'model': ans})
        # the table the Lean lookup ran on is the one the Lean wrap-file model derives from the file texts
        wans = ctx.driver('dep', [r[2] for r in wres])
        for (wfc, provides), (canon, _h, _l), ans in zip(comp, wres, wans):
            if canon != ans:
                ctx.disagreement({'kind': 'wrapfile', 'case': wfc, 'impl': canon, 'model': ans})
            want = ';'.join(sorted(WF.e(k) + '>' + WF.e(v[0]) for k, v in provides.items()))
            got = ';'.join(sorted(ans.split('~')[2].split(';'))) if ans.count('~') >= 3 else ans
            if want != got:
                ctx.disagreement({'kind': 'wrapfile-provides', 'case': wfc, 'declared': provides, 'model': ans})


def run_cache(ctx: Ctx) -> None:
    """the real coredata.DependencyCache over a real OptionStore: op sequences against the property read directly
    and against the Lean model (which uses the type -> option table extracted from the live source)"""
    rng = ctx.rng
    seqs = CA.exhaustive_ops()
    n_ex = len(seqs)
    for k in range(20000 if ctx.tier == 'thorough' else ctx.scale(2500, 8000)):
        seqs.append(CA.rand_ops(rng, rng.randint(4, 16), k % 2 == 0))
    results = [x for part in pool_map(CA.eval_chunk, seqs, 500) for x in part]
    ctx.count(len(seqs))
    ctx.extra['cache_sequences_exhaustive'] = n_ex
    ctx.extra['cache_sequences_random'] = len(seqs) - n_ex
    for ops, (canon, hits) in zip(seqs, results):
        ctx.tag('cache:hit' if any(a != '-' for a in canon.split(',')) else 'cache:miss-only')
        for cls, msg, i in hits:
            case = {'kind': 'cache', 'ops': ops, 'at': i}
            ctx.violation(vkey(cls, case), f'{cls}: {msg}', case)
    if ctx.model_available:
        answers = ctx.driver('dep', [CA.enc_ops(o) for o in seqs])
        for ops, (canon, _h), ans in zip(seqs, results, answers):
            if canon != ans:
                ctx.disagreement({'kind': 'cache', 'ops': ops, 'impl': canon, 'model': ans})
            ctx.seen_nontrivial(('cache', ans, len(ops)))


def run_e2e_reconfigure(ctx: Ctx, variants: T.List[str]) -> None:
    """real `meson setup --backend=none` then `--reconfigure` with another pkg_config_path / an empty one /
    another cmake_prefix_path / --clearcache: every configuration must answer dependency('c10foo') from what the
    system offers NOW (documented policy in the world of the current configuration), else the wrap [provide] fallback"""
    meson = [sys.executable, os.path.join(common.REPO, 'meson.py')]
    for variant in variants:
        root = common.scratch_dir('mverif-c10r-')
        try:
            src, bld = os.path.join(root, 'src'), os.path.join(root, 'b')
            dirs = {k: os.path.join(root, 'pc_' + k) for k in ('a', 'b', 'empty')}
            for k, d in dirs.items():
                os.makedirs(d)
            for k, ver in (('a', '1.0'), ('b', '2.0')):
                with open(os.path.join(dirs[k], 'c10foo.pc'), 'w') as f:
                    f.write(f'Name: c10foo\nDescription: x\nVersion: {ver}\nLibs:\nCflags:\n')
            os.makedirs(os.path.join(src, 'subprojects', 'c10sub'))
            with open(os.path.join(src, 'meson.build'), 'w') as f:
                f.write("project('main', 'c')\nd = dependency('c10foo', method: 'pkg-config', required: false, allow_fallback: true)\n"
                        "message('RESULT found=@0@ version=@1@'.format(d.found(), d.found() ? d.version() : '-'))\n")
            with open(os.path.join(src, 'subprojects', 'c10sub', 'meson.build'), 'w') as f:
                f.write("project('c10sub', 'c', version: '9.9')\nmeson.override_dependency('c10foo', declare_dependency(version: '9.9'))\n")
            with open(os.path.join(src, 'subprojects', 'c10sub.wrap'), 'w') as f:
                f.write('[wrap-file]\ndirectory = c10sub\n\n[provide]\ndependency_names = c10foo\n')
            env = dict(os.environ)
            env['PYTHONPATH'] = common.REPO
            env['CMAKE'] = os.path.join(root, 'no-cmake-here')
            for k in ('PKG_CONFIG_PATH', 'PKG_CONFIG_LIBDIR', 'CMAKE_PREFIX_PATH'):
                env.pop(k, None)
            env['PKG_CONFIG_LIBDIR'] = dirs['empty']
            # (arguments, what the system offers under them)
            plan = [(['setup', '--backend=none', f'-Dpkg_config_path={dirs["a"]}', bld, src], '1.0')]
            if variant == 'pkg-path':
                plan += [(['setup', '--reconfigure', f'-Dpkg_config_path={dirs["b"]}', bld, src], '2.0'),
                         (['setup', '--reconfigure', f'-Dpkg_config_path={dirs["empty"]}', bld, src], None),
                         (['setup', '--reconfigure', f'-Dpkg_config_path={dirs["a"]}', bld, src], '1.0')]
            elif variant == 'cmake-path':
                plan += [(['setup', '--reconfigure', f'-Dcmake_prefix_path={dirs["b"]}', bld, src], '1.0')]
            elif variant == 'clearcache':
                plan += [(['setup', '--reconfigure', '--clearcache', f'-Dpkg_config_path={dirs["b"]}', bld, src], '2.0')]
            elif variant == 'configure':
                plan += [(['configure', f'-Dpkg_config_path={dirs["b"]}', bld], 'skip'),
                         (['setup', '--reconfigure', bld, src], '2.0')]
            for n, (args, sysver) in enumerate(plan):
                p = subprocess.run(meson + args, env=env, stdout=subprocess.PIPE, stderr=subprocess.STDOUT, text=True, timeout=300)
                ctx.count()
                if sysver == 'skip':
                    continue
                got = [l.split('RESULT ')[1].strip() for l in p.stdout.splitlines() if 'RESULT ' in l]
                # allow_fallback: true — nothing on the system now => the wrap [provide] fallback (9.9)
                exp = f'found=true version={sysver}' if sysver else 'found=true version=9.9'
                ctx.tag('e2e:reconfigure-' + variant)
                case = {'kind': 'e2e-reconfigure', 'variant': variant, 'step': n, 'args': [a.replace(root, '<tmp>') for a in args]}
                if p.returncode != 0 or not got:
                    ctx.violation(vkey('e2e-reconfigure-error', case), f'meson failed: {p.stdout[-300:]}', case)
                elif got[0] != exp:
                    ctx.violation(vkey('e2e-stale-cache', case),
                                  f'end-to-end, configuration {n} ({" ".join(case["args"][:3])}): dependency(\'c10foo\') gave "{got[0]}", '
                                  f'the system of this configuration prescribes "{exp}"', case)
        finally:
            common.rmtree(root)


# ------------------------------------------------------------------------------------------ end-to-end (thorough)

def e2e_project(root: str, sysver: T.Optional[str], call: str, sub_version: str = '3.0') -> T.Dict[str, str]:
    os.makedirs(os.path.join(root, 'pc'))
    os.makedirs(os.path.join(root, 'src', 'subprojects', 'foosub'))
    if sysver:
        with open(os.path.join(root, 'pc', 'foo.pc'), 'w') as f:
            f.write(f'Name: foo\nDescription: foo\nVersion: {sysver}\nLibs: -lfoo\nCflags:\n')
    with open(os.path.join(root, 'src', 'meson.build'), 'w') as f:
        f.write("project('main', 'c')\n"
                f"d = {call}\n"
                "message('RESULT found=@0@ type=@1@ version=@2@'.format(d.found(), d.type_name(), d.found() ? d.version() : '-'))\n"
                f"e = {call}\n"
                "message('REPEAT same=@0@'.format(d.found() == e.found() and d.type_name() == e.type_name()))\n")
    with open(os.path.join(root, 'src', 'subprojects', 'foosub', 'meson.build'), 'w') as f:
        f.write(f"project('foosub', 'c', version: '{sub_version}')\nfoo_dep = declare_dependency(version: '{sub_version}')\n"
                "meson.override_dependency('foo', foo_dep)\n")
    with open(os.path.join(root, 'src', 'subprojects', 'foosub.wrap'), 'w') as f:
        f.write('[wrap-file]\ndirectory = foosub\n\n[provide]\ndependency_names = foo\n')
    return {'PKG_CONFIG_LIBDIR': os.path.join(root, 'pc'), 'PKG_CONFIG_PATH': ''}


def run_e2e(ctx: Ctx) -> None:
    """a few real `meson setup --backend=none` runs: real pkg-config, real subproject, real wrap [provide]"""
    grid = []
    for sysver in (None, '1.0', '2.0'):
        for wm in ('default', 'nofallback', 'forcefallback'):
            for call, fbkind in (("dependency('foo', required: false)", 'implicit-optional'),
                                 ("dependency('foo', required: false, allow_fallback: true)", 'implicit-allowed'),
                                 ("dependency('foo', version: '>=2.0', required: false, fallback: 'foosub')", 'explicit'),
                                 ("dependency('foo', required: false, allow_fallback: false)", 'none'),
                                 # with a detection method: the subproject's override must still be found (fixed cc19239)
                                 ("dependency('foo', method: 'pkg-config', required: false, allow_fallback: true)", 'implicit-allowed')):
            # CMAKE is pointed at a missing binary below: with --backend=none the cmake detection method raises
            # MesonBugException (no CMake generator for that backend), which is outside C10
                grid.append((sysver, wm, call, fbkind))
    for sysver, wm, call, fbkind in grid:
        root = common.scratch_dir('mverif-c10e-')
        try:
            env = dict(os.environ)
            env.update(e2e_project(root, sysver, call))
            env['PYTHONPATH'] = common.REPO
            env['CMAKE'] = os.path.join(root, 'no-cmake-here')
            p = subprocess.run([sys.executable, os.path.join(common.REPO, 'meson.py'), 'setup', '--backend=none',
                                f'--wrap-mode={wm}', os.path.join(root, 'b'), os.path.join(root, 'src')],
                               env=env, stdout=subprocess.PIPE, stderr=subprocess.STDOUT, text=True, timeout=300)
            out = p.stdout
            got = None
            for line in out.splitlines():
                if 'RESULT found=' in line:
                    got = line.split('RESULT ')[1].strip()
            want_ver = '>=2.0' in call
            sys_ok = sysver is not None and (not want_ver or sysver == '2.0')
            forced = wm == 'forcefallback'
            designated = fbkind in ('implicit-allowed', 'explicit') or (fbkind == 'implicit-optional' and forced)
            if designated and forced:
                exp = 'found=true type=internal version=3.0'
            elif sys_ok:
                exp = f'found=true type=pkgconfig version={sysver}'
            elif designated and wm != 'nofallback':
                exp = 'found=true type=internal version=3.0'
            else:
                exp = 'found=false type=not-found version=-'
            ctx.count()
            ctx.tag('e2e:' + exp.split(' ')[1])
            case = {'kind': 'e2e', 'system': sysver, 'wrap_mode': wm, 'call': call}
            if p.returncode != 0 or got is None:
                ctx.violation(vkey('e2e-error', case), f'meson setup failed (rc={p.returncode}) for an optional lookup: {out[-300:]}', case)
            elif got != exp:
                ctx.violation(vkey('e2e-policy', case), f'end-to-end: got "{got}", documented policy prescribes "{exp}"', case)
            elif 'REPEAT same=true' not in out:
                ctx.violation(vkey('e2e-repeat', case), 'end-to-end: repeated lookup differs', case)
        finally:
            common.rmtree(root)


def witness_method_kwarg(ctx: Ctx) -> None:
    """`dependency('foo', method: 'pkg-config')` after `meson.override_dependency('foo', d)`: the override must win
    (dependency.yaml: "returned unconditionally"). Real holder, stubbed world, the `method` keyword passed through."""
    from mesonbuild.dependencies.base import DependencyMethods
    w = {'wrap_mode': 'default', 'fff': [], 'main_dl': 'shared', 'ops': [{'name': 'foo', 'dep': ['ov', True, '1.0'], 'static': None, 'native': False}],
         'cache': {}, 'system': {}, 'provides': {}, 'subprojects': {}}
    s = D.Session(w)
    I = D._Impl
    saved = I.dependencies.find_external_dependency
    I.dependencies.find_external_dependency = s.find_external_dependency
    try:
        df = I.DF.DependencyFallbacksHolder(s.interp, ['foo'], s.HOST, None, None)
        d = df.lookup({'native': s.HOST, 'version': [], 'required': False, 'method': DependencyMethods.PKGCONFIG})
    finally:
        I.dependencies.find_external_dependency = saved
    ctx.count()
    got = 'found:' + getattr(d, 'ident', '?') if d.found() else 'notfound'
    if got != 'found:ov':
        ctx.violation('override-ignored-with-method-kwarg',
                      f"dependency('foo', method: 'pkg-config', required: false) returned {got} although 'foo' is overridden "
                      "(get_dep_identifier keys the override on the method keyword)",
                      {'kind': 'witness', 'world': w, 'call': "dependency('foo', method: 'pkg-config', required: false)"})
    # write side: the result of a lookup with a method keyword is what later lookups of the name return,
    # and meson.override_dependency() afterwards sees the name as resolved
    w2 = {'wrap_mode': 'default', 'fff': [], 'main_dl': 'shared', 'ops': [], 'cache': {}, 'system': {'foo': '1.0'}, 'provides': {}, 'subprojects': {}}
    s2 = D.Session(w2)
    I.dependencies.find_external_dependency = s2.find_external_dependency
    try:
        df = I.DF.DependencyFallbacksHolder(s2.interp, ['foo'], s2.HOST, None, None)
        d1 = df.lookup({'native': s2.HOST, 'version': [], 'required': False, 'method': DependencyMethods.PKGCONFIG})
    finally:
        I.dependencies.find_external_dependency = saved
    ctx.count()
    if d1.found() and I.dependencies.get_dep_identifier('foo', {'native': s2.HOST}) not in s2.build.dependency_overrides[s2.HOST]:
        ctx.violation('implicit-override-keyed-on-method',
                      "after dependency('foo', method: 'pkg-config') succeeded, 'foo' is not recorded as resolved for lookups and "
                      "override_dependency() without that keyword",
                      {'kind': 'witness', 'world': w2, 'call': "dependency('foo', method: 'pkg-config', required: false)"})


def run_e2e_static(ctx: Ctx) -> None:
    """real `meson setup`: a subproject configured through subproject() overrides `foo` without a `static:` keyword;
    the main project's default_library is shared/static/both; the system also has `foo` 1.0. Every lookup whose
    static flavour the override stands for must return the override (9.9, internal), the others the system's."""
    for dl in DLIB:
        root = common.scratch_dir('mverif-c10s-')
        try:
            os.makedirs(os.path.join(root, 'pc'))
            os.makedirs(os.path.join(root, 'src', 'subprojects', 'prov'))
            with open(os.path.join(root, 'pc', 'foo.pc'), 'w') as f:
                f.write('Name: foo\nDescription: foo\nVersion: 1.0\nLibs:\nCflags:\n')
            with open(os.path.join(root, 'src', 'meson.build'), 'w') as f:
                f.write(f"project('top', default_options: ['default_library={dl}'])\nsubproject('prov')\n"
                        "a = dependency('foo', method: 'pkg-config')\nb = dependency('foo', method: 'pkg-config', static: true)\n"
                        "c = dependency('foo', method: 'pkg-config', static: false)\n"
                        "message('VERS @0@ @1@ @2@'.format(a.version(), b.version(), c.version()))\n")
            with open(os.path.join(root, 'src', 'subprojects', 'prov', 'meson.build'), 'w') as f:
                f.write("project('prov', version: '9.9')\nmeson.override_dependency('foo', declare_dependency())\n")
            env = dict(os.environ)
            env.update({'PKG_CONFIG_LIBDIR': os.path.join(root, 'pc'), 'PKG_CONFIG_PATH': '', 'PYTHONPATH': common.REPO,
                        'CMAKE': os.path.join(root, 'no-cmake-here')})
            p = subprocess.run([sys.executable, os.path.join(common.REPO, 'meson.py'), 'setup', '--backend=none',
                                os.path.join(root, 'b'), os.path.join(root, 'src')],
                               env=env, stdout=subprocess.PIPE, stderr=subprocess.STDOUT, text=True, timeout=300)
            got = [l.split('VERS ')[1].strip() for l in p.stdout.splitlines() if 'VERS ' in l]
            exp = ' '.join(['9.9', '9.9' if dl in ('static', 'both') else '1.0', '9.9' if dl in ('shared', 'both') else '1.0'])
            ctx.count()
            ctx.tag('e2e:static-' + dl)
            case = {'kind': 'e2e-static', 'default_library': dl}
            if p.returncode != 0 or not got:
                ctx.violation(vkey('e2e-static-error', case), f'meson setup failed: {p.stdout[-300:]}', case)
            elif got[0] != exp:
                ctx.violation(vkey('e2e-override-does-not-win', case),
                              f'end-to-end, default_library={dl}: plain/static/shared lookups gave versions "{got[0]}", '
                              f'the override (9.9) must win where it stands for the flavour: "{exp}"', case)
        finally:
            common.rmtree(root)


# ------------------------------------------------------------------------------------------ entry points

def run(ctx: Ctx) -> None:
    ctx.rule = ('(a) every cell of the single-name cross product system{absent,1.0,2.0} x fallback{none,explicit,explicit+var,[],provide,'
                'provide+var,explicit+provide} x subproject{unconfigured ok/failing, configured, disabled} x 9 subproject contents x '
                '6 prior override/cache states x 5 wrap modes x 3 force_fallback_for x 2 constraints x required x allow_fallback, each looked up '
                'twice (quick: 15000 sampled cells of the 22M-cell product incl. static: of override x default_library x static: of lookup; thorough/pin change: all), plus random worlds with two names and sequences <= 3 incl. '
                'malformed arguments; (b) every corruption class {good, other valid archive, garbage, wrong top directory} x location '
                '{packagefiles, cache, URL, fallback URL after failure, fallback URL after bad hash} x recorded hash {good, bogus, none} x '
                '(no fault | one fault at each of 22 fault points (quick: 6 sampled) | nodownload), for source and patch, plus random cases with up to 8 faults; '
                '(d) 17 structured subprojects/ trees (one per clause of the [provide] section of the manual) + random trees: 1-4 wrap files from structural '
                'descriptions with neutral text noise / text-level oddities, bare and ignored directories, redirect chains, nested subprojects/ merged, wrapdb.json; '
                'lookups over the real Resolver loaded from generated wrap files. '
                'Non-trivial = distinct model answers (outcome+effects+state), excluding argument errors.')
    witness_method_kwarg(ctx)
    run_dep(ctx)
    run_cache(ctx)
    run_e2e_reconfigure(ctx, ['pkg-path'] if ctx.tier != 'thorough' else ['pkg-path', 'cmake-path', 'clearcache', 'configure'])
    run_wrap(ctx)
    run_wrapfiles(ctx)
    if ctx.tier == 'thorough':
        run_e2e(ctx)
    if ctx.tier == 'thorough' or ctx.deep:
        run_e2e_static(ctx)
    ctx.assumptions += TRUSTED


def search(ctx: Ctx, disagreements: T.List[dict]) -> None:
    """failing-input search around the cases on which model and implementation differ"""
    rng = ctx.rng
    items = []
    wraps = []
    for d in disagreements[:20]:
        if d.get('kind') == 'dep':
            w, reqs = d['world'], d['requests']
            for wm in D.WRAP_MODES:
                for fff in FFF:
                    for req in (True, False):
                        w2 = json.loads(json.dumps(w))
                        w2['wrap_mode'], w2['fff'] = wm, fff
                        rs = [dict(r, required=req) for r in reqs]
                        items.append((w2, (rs + rs)[:4]))
        if d.get('kind') in ('dep', 'registration', 'policy-table'):
            w, reqs = d['world'], d.get('requests') or [{'names': ['foo'], 'wanted': [], 'required': False, 'allow_fallback': None,
                                                       'fallback': None, 'static': None, 'extra': {}}]
            names = sorted({o['name'] for o in w['ops']} | {o['name'] for st in w['subprojects'].values() for o in st['ops']})
            for dl in DLIB:
                for rst in RST:
                    w2 = json.loads(json.dumps(w))
                    w2['main_dl'] = dl
                    for st in w2['subprojects'].values():
                        st['dl'] = dl
                    rs = [dict(r, static=rst) for r in reqs]
                    rs += [dict(rs[0], names=[n], static=rst) for n in names if n]
                    items.append((w2, rs[:6]))
        elif d.get('kind') in ('wrapfile', 'wrapfile-provides'):
            pass
        elif d.get('kind') == 'wrap':
            c = d['case']
            wraps.append(c)
            for lab in LABELS:
                c2 = json.loads(json.dumps(c))
                c2['faults'] = {lab: 'other'}
                wraps.append(c2)
            c3 = json.loads(json.dumps(c))
            c3['cfg']['nodownload'] = True
            wraps.append(c3)
    for _ in range(20000 if not disagreements else 5000):
        items.append(rseq(rng))
    for (w, reqs), (_c, hits, _t, _p, _l) in zip(items, [x for part in pool_map(eval_chunk, items, 1000) for x in part]):
        for cls, msg, i in hits:
            case = {'kind': 'dep', 'world': w, 'requests': reqs, 'at': i}
            ctx.violation(vkey(cls, case), f'{cls}: {msg}', case)
    # the dependency cache: more histories, type-stable and not
    cseqs = [CA.rand_ops(rng, rng.randint(4, 18), k % 2 == 0) for k in range(6000)] + CA.exhaustive_ops()
    for ops, (_canon, hits) in zip(cseqs, [x for part in pool_map(CA.eval_chunk, cseqs, 500) for x in part]):
        for cls, msg, i in hits:
            case = {'kind': 'cache', 'ops': ops, 'at': i}
            ctx.violation(vkey(cls, case), f'{cls}: {msg}', case)
    wfs = WF.structured_cases() + [WF.plain_case(rng) for _ in range(3000)]
    for c, (_canon, hits, _l) in zip(wfs, [x for part in pool_map(wf_chunk, wfs, 100) for x in part]):
        for cls, msg in hits:
            case = {'kind': 'wrapfile', 'case': c}
            ctx.violation(vkey(cls, case), f'{cls}: {msg}', case)
    for _ in range(1500):
        wfc, provides = WF.compose_case(rng)
        w = rworld(rng)
        w['provides'], w['wrapfiles'] = provides, wfc['files']
        item = (w, [rreq(rng), rreq(rng)])
        for cls, msg, i in eval_seq(item)[1]:
            case = {'kind': 'dep', 'world': w, 'requests': item[1], 'at': i}
            ctx.violation(vkey(cls, case), f'{cls} (provider tables from real wrap files): {msg}', case)
    wraps += [rcase(rng) for _ in range(600)]
    for c, (_canon, hits) in zip(wraps, [x for part in pool_map(wrap_chunk, wraps, 40) for x in part]):
        for cls, msg in hits:
            case = {'kind': 'wrap', 'case': c}
            ctx.violation(vkey(cls, case), f'{cls}: {msg}', case)


def replay(ctx: Ctx, rep: dict) -> None:
    case = rep.get('case') or (rep.get('correspondence_disagreements') or [{}])[0]
    print('replay', rep.get('what', ''), json.dumps(case)[:2000])
    if case.get('kind') == 'dep':
        canon, hits, tags, _pol, lines = eval_seq((case['world'], case['requests']))
        print('impl  :', canon)
        print('oracle:', hits or 'ok')
        if ctx.model_available:
            print('model :', ctx.driver('dep', lines))
        for cls, msg, i in hits:
            ctx.violation(vkey(cls, {'kind': 'dep', 'world': case['world'], 'requests': case['requests'], 'at': i}), f'{cls}: {msg}', case)
    elif case.get('kind') == 'cache':
        canon, hits = CA.eval_ops(case['ops'])
        print('impl  :', canon)
        print('oracle:', hits or 'ok')
        if ctx.model_available:
            print('model :', ctx.driver('dep', [CA.enc_ops(case['ops'])])[0])
        for cls, msg, i in hits:
            ctx.violation(vkey(cls, case), f'{cls}: {msg}', case)
    elif case.get('kind') == 'wrapfile':
        canon, hits, wline = WF.run_case(case['case'])
        print('impl  :', canon)
        print('oracle:', hits or 'ok')
        if ctx.model_available:
            print('model :', ctx.driver('dep', [wline])[0])
        for cls, msg in hits:
            ctx.violation(vkey(cls, case), f'{cls}: {msg}', case)
    elif case.get('kind') == 'wrap':
        canon, hits = WR.run_case(case['case'])
        print('impl  :', canon)
        print('oracle:', hits or 'ok')
        if ctx.model_available:
            print('model :', ctx.driver('dep', [WR.line_wrap(case['case'])])[0])
        for cls, msg in hits:
            ctx.violation(vkey(cls, case), f'{cls}: {msg}', case)
