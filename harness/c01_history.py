"""C01 — history independence: the value of an expression never depends on what was evaluated EARLIER in the
same run (memoisation keyed by ==/hash, where 1 == True, 0 == False, '' / [] / {} are all falsy, results cached
on tree nodes, class-level state, ...).

Every modelled operation — every binary operator of the grid, unary operators and truth contexts, indexing,
`in` / `not in`, container literals and ==, dictionary keys, stringification through .format() / f-strings /
message(), every METHODS entry of every primitive holder (harvested from the live classes) with the value as
receiver, as argument and as keyword argument, and the variable functions — is evaluated on a value `v`
  * alone, FROM SCRATCH: in a process forked from a worker that has not evaluated anything yet, one fork per
    expression (so not even a process-global cache can carry anything over),
  * right after the same operation on an equal-but-differently-typed value `u` (`r1 = C(u); r2 = C(v)`),
    in both orders, and
  * through ONE tree node evaluated twice (`foreach x : [u, v]` ... `C(x)`), in both orders,
  * and once more alone at the very end, in the worker that has by then evaluated the whole family.
The oracle is type-exact equality of each outcome (value, messages, error class) with the from-scratch outcome.
No model in the loop; the combined programs also go to the Lean evaluator as ordinary correspondence cases.
"""
from __future__ import annotations

import os
import typing as T

from . import c01_gen

Viol = T.Tuple[str, str, dict]

# pairs (u, v): equal under Python's == / hash, or "the same when looked at carelessly"
PAIRS = [('1', 'true'), ('0', 'false'), ("''", '[]'), ('[]', '{}'), ('false', "''"), ('[1]', '[true]'), ('[0, 1]', '[false, true]'),
         ("{'a': 1}", "{'a': true}"), ('[[1]]', '[[true]]'), ("'1'", '1'), ("'true'", 'true'), ("'a'", "['a']"),
         ('[]', '[[]]'), ('1', '[1]'), ("{'a': 0, 'b': ''}", "{'a': false, 'b': []}"), ('0', "''"), ("'0'", '0'),
         ('true', '[true]'), ("{'a': [1]}", "{'a': [true]}"), ('2', '2')]

X = '§x§'        # the value's place in a context
R = '§R§'        # the result variable's name

PARTNERS = ['1', 'true', "'a'"]
RECV = {'int': ['5'], 'bool': ['true'], 'str': ["'a1 true,0'"], 'arr': ['[1, true, [0], \'1\']'], 'dict': ["{'a': 1, '1': true, '': 0}"]}


def contexts(method_names: T.Dict[str, T.List[str]]) -> T.List[T.Tuple[str, str]]:
    """(tag, statement template).  The template assigns the context's value to the variable R"""
    out: T.List[T.Tuple[str, str]] = []

    def E(tag: str, expr: str) -> None:
        out.append((tag, f'{R} = {expr}'))
    for op in c01_gen.BINOPS:
        for p in PARTNERS:
            E(f'bin:{op}:left:{p}', f'{X} {op} {p}')
            E(f'bin:{op}:right:{p}', f'{p} {op} {X}')
        E(f'bin:{op}:both', f'{X} {op} {X}')
    E('un:not', f'not {X}')
    E('un:neg', f'-({X})')
    E('tern:cond', f'{X} ? 1 : 2')
    E('tern:branch', f'true ? {X} : 0')
    out.append(('if:cond', f'{R} = 0\nif {X}\n  {R} = 1\nelse\n  {R} = 2\nendif'))
    out.append(('foreach:items', f'{R} = []\nforeach e_ : {X}\n  {R} += [e_]\nendforeach'))
    E('idx:array-by-x', f'[7, 8][{X}]')
    E('idx:str-by-x', f"'ab'[{X}]")
    E('idx:dict-by-x', f"{{'1': 'one', 'true': 'T', '': 'E', 'a': 'A', '0': 'Z'}}[{X}]")
    E('idx:x-by-0', f'{X}[0]')
    E('idx:x-by-a', f"{X}['a']")
    E('idx:range-by-x', f'range(3)[{X}]')
    # stringification
    E('fmt:top', f"'<@0@>'.format({X})")
    E('fmt:twice', f"'@0@|@1@|@0@'.format({X}, {X})")
    E('fmt:in-array', f"'@0@'.format([{X}, {X}])")
    E('fmt:in-dict', f"'@0@'.format({{'k': {X}}})")
    E('fmt:nested', f"'@0@'.format([[{X}], {{'k': [{X}]}}])")
    E('fmt:template', f"{X}.format(1, true)")
    out.append(('fstr', f"x_ = {X}\n{R} = f'<@x_@|@x_@>'"))
    out.append(('fstr:multiline', f"x_ = {X}\n{R} = f'''<@x_@>'''"))
    out.append(('msg:top', f'message({X})\n{R} = 0'))
    out.append(('msg:two', f'message({X}, {X})\n{R} = 0'))
    out.append(('msg:in-array', f'message([{X}, [{X}]])\n{R} = 0'))
    out.append(('msg:in-dict', f"message({{'k': {X}}})\n{R} = 0"))
    # containers, equality inside containers, membership
    E('lit:array', f'[{X}, {X}]')
    E('lit:dict-value', f"{{'k': {X}}}")
    E('lit:dict-key', f'{{{X}: 1}}')
    E('eq:array-vs-int', f'[{X}] == [1]')
    E('eq:array-vs-bool', f'[{X}] == [true]')
    E('eq:array-vs-zero', f'[{X}] == [0]')
    E('eq:array-vs-false', f'[{X}] == [false]')
    E('eq:array-vs-empty-str', f"[{X}] == ['']")
    E('eq:array-vs-empty-array', f'[{X}] == [[]]')
    E('eq:dict', f"{{'k': {X}}} == {{'k': 1}}")
    E('eq:dict-bool', f"{{'k': {X}}} != {{'k': true}}")
    E('in:x-in-ints', f'{X} in [1, 0]')
    E('in:x-in-bools', f'{X} in [true, false]')
    E('in:x-in-mixed', f"{X} in ['', [], 'a', [1]]")
    E('in:int-in-x-array', f'1 in [{X}]')
    E('in:bool-in-x-array', f'true in [{X}]')
    E('notin:x', f'{X} not in [0, false]')
    E('in:x-in-dict', f"{X} in {{'1': 1, 'true': 2, '': 3, 'a': 4}}")
    E('in:x-in-str', f"{X} in 'a1 true'")
    E('plus:array-append', f'[0] + {X}')
    E('plus:dict-merge', f"{{'a': 5}} + {X}")
    out.append(('plusassign:array', f'{R} = [0]\n{R} += {X}'))
    out.append(('plusassign:self', f'{R} = {X}\n{R} += {X}'))
    # functions of the core language
    out.append(('set_get_variable', f"set_variable('q_', {X})\n{R} = get_variable('q_')"))
    E('get_variable:fallback', f"get_variable('nope_', {X})")
    E('get_variable:name', f'get_variable({X}, 7)')
    E('is_variable', f'is_variable({X})')
    E('range', f'range({X})[0]')
    out.append(('assert', f'assert({X})\n{R} = 0'))
    # every method of every primitive holder: the value as receiver, as argument, as keyword argument
    for t, names in sorted(method_names.items()):
        if t not in RECV:
            continue
        for m in names:
            E(f'm:{t}.{m}:recv', f'{X}.{m}()')
            E(f'm:{t}.{m}:recv-arg', f'{X}.{m}({X})')
            for recv in RECV[t]:
                E(f'm:{t}.{m}:arg1', f'{recv}.{m}({X})')
                E(f'm:{t}.{m}:arg12', f'{recv}.{m}({X}, {X})')
                E(f'm:{t}.{m}:arg2', f'{recv}.{m}(0, {X})')
                E(f'm:{t}.{m}:arg2s', f"{recv}.{m}('a', {X})")
    E('kw:to_string-fill', f'5.to_string(fill: {X})')
    E('kw:to_string-format', f'5.to_string(format: {X})')
    E('kw:slice-step', f'[1, 2, 3].slice(step: {X})')
    return out


def covered(ctxs: T.List[T.Tuple[str, str]], method_names: T.Dict[str, T.List[str]]) -> T.List[str]:
    """operators / methods of the live tables that no context exercises (vacuity check)"""
    tags = {t for t, _ in ctxs}
    missing = []
    for op in c01_gen.BINOPS:
        if f'bin:{op}:both' not in tags:
            missing.append(f'operator {op}')
    for t, names in method_names.items():
        if t in RECV:
            for m in names:
                if f'm:{t}.{m}:recv' not in tags or f'm:{t}.{m}:arg1' not in tags:
                    missing.append(f'{t}.{m}')
    return missing


def stmt(tpl: str, value: str, res: str) -> str:
    return tpl.replace(X, value).replace(R, res)


def alone_program(tpl: str, v: str) -> str:
    return stmt(tpl, v, 'r') + '\n'


def seq_program(tpl: str, u: str, v: str) -> str:
    return stmt(tpl, u, 'r1') + '\n' + stmt(tpl, v, 'r2') + '\n'


def loop_program(tpl: str, u: str, v: str) -> str:
    body = '\n'.join('  ' + l for l in stmt(tpl, 'x', 'r').split('\n'))
    return f'acc = []\nforeach x : [{u}, {v}]\n{body}\n  acc += [r]\nendforeach\n'


# ---------------------------------------------------------------- outcomes

def parse_answer(ans: str) -> T.Tuple[str, T.Dict[str, str], T.List[str]]:
    """canonical answer of c01_impl -> (status: 'OK' or the error class, variables, messages)"""
    parts = ans.split('|')
    head = parts[0]
    if head == 'OK':
        vs = dict(kv.split('=', 1) for kv in parts[1].split(';') if '=' in kv) if len(parts) > 1 else {}
        msgs = [m for m in parts[2].split(',')] if len(parts) > 2 and parts[2] else []
        return 'OK', vs, msgs
    cls = head.split(':')[1] if head.startswith('ERR:') and head.count(':') >= 2 else head
    msgs = [m for m in parts[1].split(',')] if len(parts) > 1 and parts[1] else []
    return cls, {}, msgs


def pretty(canon: T.Optional[str]) -> str:
    """a canonical value (`s60.49`, `i1`, `t`, `[..]`) in readable form"""
    import re
    if canon is None:
        return '<unset>'

    def dec(m: T.Any) -> str:
        body = m.group(1)
        return repr(''.join(chr(int(x)) for x in body.split('.')) if body else '')
    t = re.sub(r'(?<![0-9a-zA-Z.])s((?:[0-9]+(?:\.[0-9]+)*)?)', dec, canon)
    t = re.sub(r'(?<![0-9a-zA-Z\'.])i(-?[0-9]+)', r'\1', t)
    t = re.sub(r"(?<![0-9a-zA-Z'.])t(?![0-9a-zA-Z'])", 'true', t)
    return re.sub(r"(?<![0-9a-zA-Z'.])f(?![0-9a-zA-Z'])", 'false', t)


def fresh_eval(im: T.Any, code: str) -> T.Optional[str]:
    """the canonical answer of `code`, evaluated in a fork of THIS process (which must not have evaluated
    anything yet): a from-scratch evaluation as far as interpreter state goes.  None = could not be obtained"""
    try:
        r, w = os.pipe()
    except OSError:
        return None
    try:
        pid = os.fork()
    except OSError:
        os.close(r)
        os.close(w)
        return None
    if pid == 0:
        code_ = 1
        try:
            os.close(r)
            try:
                ans = im.run(code)[0]
            except BaseException as e:   # parse errors and anything else: an outcome, not a crash
                ans = 'PARSE:' + type(e).__name__
            data = ans.encode('utf-8', 'backslashreplace')
            while data:
                n = os.write(w, data)
                data = data[n:]
            code_ = 0
        finally:
            os._exit(code_)
    os.close(w)
    chunks = []
    try:
        while True:
            b = os.read(r, 65536)
            if not b:
                break
            chunks.append(b)
    finally:
        os.close(r)
        try:
            _pid, status = os.waitpid(pid, 0)
        except OSError:
            status = 1
    if status != 0 or not chunks:
        return None
    return b''.join(chunks).decode('utf-8', 'replace')


def here_eval(im: T.Any, code: str) -> str:
    try:
        return im.run(code)[0]
    except (MemoryError, RecursionError):
        return 'ERR:MemoryError:0|'
    except BaseException as e:
        if isinstance(e, (KeyboardInterrupt, SystemExit)):
            raise
        return 'PARSE:' + type(e).__name__


def judge(form: str, tag: str, u: str, v: str, prog: str, ans: str, alone: T.Dict[str, str], progs: T.Dict[str, str]) -> T.List[Viol]:
    """compare the outcome of a combined program with the from-scratch outcomes of its two halves"""
    au, av = alone[u], alone[v]
    su, vu, mu = parse_answer(au)
    sv, vv, mv = parse_answer(av)
    st, vs, ms = parse_answer(ans)
    case = {'program': prog, 'form': form, 'context': tag, 'first_value': u, 'second_value': v,
            'alone': [progs[u], progs[v]], 'alone_answers': [au, av], 'answer': ans}
    key = f'history:{tag}:{u}:{v}:{form}'

    def bad(what: str) -> T.List[Viol]:
        return [(key, what, case)]
    if su.startswith('PARSE') or sv.startswith('PARSE'):
        return []
    if su != 'OK':
        if st != su or ms != mu:
            return bad(f'`{progs[u].strip()}` alone (from scratch) ends with {su}; as the first step of a longer run it gives {st}')
        return []
    if sv != 'OK':
        if st != sv or ms != mu + mv:
            return bad(f'`{progs[v].strip()}` alone (from scratch) ends with {sv}; evaluated after the same operation on {u} it gives {st}')
        return []
    if st != 'OK':
        return bad(f'both halves succeed from scratch, the combined run ends with {st}')
    if ms != mu + mv:
        return bad(f'message() output depends on what was evaluated before: from scratch {[pretty(m) for m in mu + mv]}, '
                   f'combined {[pretty(m) for m in ms]}')
    if form == 'seq':
        if vs.get('r1') != vu.get('r') or vs.get('r2') != vv.get('r'):
            which = progs[v].strip() if vs.get('r1') == vu.get('r') else progs[u].strip()
            return bad(f'the value of `{which}` depends on what was evaluated before it: from scratch '
                       f'{pretty(vu.get("r"))} / {pretty(vv.get("r"))}, in sequence {pretty(vs.get("r1"))} / {pretty(vs.get("r2"))}')
        return []
    want = f'[{vu.get("r")},{vv.get("r")}]'
    if vs.get('acc') != want:
        return bad(f'one expression evaluated twice in a loop, on {u} then on {v}, gives {pretty(vs.get("acc"))}; '
                   f'each value from scratch gives {pretty(want)}')
    return []


def run_shard(im: T.Any, method_names: T.Dict[str, T.List[str]], shard: int, nshards: int, pairs: T.List[T.Tuple[str, str]]
              ) -> T.Tuple[T.List[Viol], T.List[T.Tuple[str, str, str]], T.Dict[str, int]]:
    """-> (violations, combined programs [(tag, code, answer)] for the correspondence stream, counters).
    `im` must not have evaluated any program yet."""
    ctxs = [c for i, c in enumerate(contexts(method_names)) if i % max(1, nshards) == shard]
    values = sorted({x for p in pairs for x in p})
    viol: T.List[Viol] = []
    counters = {'fresh_ok': 0, 'fresh_failed': 0, 'combined': 0, 'contexts': len(ctxs)}
    # phase 1: every alone evaluation, each in its own fork of the still untouched worker
    fresh: T.Dict[T.Tuple[str, str], T.Optional[str]] = {}
    for tag, tpl in ctxs:
        for v in values:
            a = fresh_eval(im, alone_program(tpl, v))
            fresh[(tag, v)] = a
            counters['fresh_ok' if a is not None else 'fresh_failed'] += 1
    # phase 2: the combined programs, one after the other in this worker (history accumulates on purpose)
    combined: T.List[T.Tuple[str, str, str]] = []
    for tag, tpl in ctxs:
        for u, v in pairs:
            for a, b in ((u, v), (v, u)):
                if fresh[(tag, a)] is None or fresh[(tag, b)] is None:
                    continue
                alone = {a: fresh[(tag, a)], b: fresh[(tag, b)]}
                progs = {a: alone_program(tpl, a), b: alone_program(tpl, b)}
                for form, prog in (('seq', seq_program(tpl, a, b)), ('loop', loop_program(tpl, a, b))):
                    ans = here_eval(im, prog)
                    counters['combined'] += 1
                    combined.append((f'history:{form}', prog, ans))
                    viol += judge(form, tag, a, b, prog, ans, alone, progs)   # type: ignore[arg-type]
    # phase 3: alone again, in the worker that has now seen everything
    for tag, tpl in ctxs:
        for v in values:
            a = fresh[(tag, v)]
            if a is None:
                continue
            prog = alone_program(tpl, v)
            again = here_eval(im, prog)
            if parse_answer(again) != parse_answer(a):
                viol.append((f'history:{tag}:{v}:late', f'`{prog.strip()}` evaluated from scratch gives {a}; evaluated at the end of a long '
                             f'run (same process, fresh variable table) it gives {again}',
                             {'program': prog, 'form': 'late', 'context': tag, 'second_value': v, 'alone': [prog],
                              'alone_answers': [a], 'answer': again}))
    return viol, combined, counters


def recheck(im: T.Any, case: dict) -> bool:
    """replay of one recorded history violation: does it still fail?  (`im` fresh)"""
    alone_progs = case.get('alone') or []
    prog = case.get('program')
    if not isinstance(prog, str) or not alone_progs:
        return False
    fresh = [fresh_eval(im, p) for p in alone_progs]
    if any(f is None for f in fresh):
        return False
    form = case.get('form')
    if form == 'late':
        # pollute first with the equal-but-differently-typed neighbours, then evaluate
        for u, v in PAIRS:
            for x in (u, v):
                here_eval(im, prog.replace(case.get('second_value', '\0'), x))
        return parse_answer(here_eval(im, prog)) != parse_answer(fresh[0])   # type: ignore[arg-type]
    u, v = case.get('first_value'), case.get('second_value')
    if not isinstance(u, str) or not isinstance(v, str) or len(fresh) != 2:
        return False
    ans = here_eval(im, prog)
    alone = {u: fresh[0], v: fresh[1]}
    progs = {u: alone_progs[0], v: alone_progs[1]}
    return bool(judge(str(form), str(case.get('context')), u, v, prog, ans, alone, progs))   # type: ignore[arg-type]
