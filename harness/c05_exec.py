"""Reference executor of a generated `build.ninja` (C05): graph, schedules, real execution, hermetic replay.

Layout of one project slot (all paths are fixed for the life of the slot because `build.ninja` holds absolute paths):

    <root>/src      the project                         (never written by a build step; checked)
    <root>/build    the *active* build directory        (every command runs with cwd = this directory, like ninja)
    <root>/conf     snapshot of build/ right after `meson setup`  (= "configure-time outputs")
    <root>/ref      build/ after the reference full build

A *step* is one `build` statement.  Steps that are executed: every statement whose rule is not `phony`, except
 * the regeneration statements (rule REGENERATE_BUILD: `build.ninja`, `reconfigure`),
 * the backend's utility commands, recognisable by an output named `meson-internal__…` (test, benchmark, install, dist,
   uninstall, clean, clean-ctlist, coverage*, scan-build, clang-format*, clang-tidy*, run_target()s — commands that never
   produce their "output"), and everything that (transitively) depends on one of these (the phony aliases `test`, …).
`phony` statements are no-op steps (they still order things).  `restat`, `generator`, `pool`, `description` are ignored;
`rspfile` is written before and removed after the command; a `deps = gcc` depfile is read and removed; the directories
of a step's outputs are created before it runs (as ninja does).
"""
from __future__ import annotations

import hashlib
import os
import re
import shutil
import subprocess
import typing as T

from . import c05_ninja as nj

STRACE_SYSCALLS = 'open,openat,stat,lstat,access,faccessat,faccessat2,newfstatat,statx,execve,readlink,readlinkat,chdir'


# ---------------------------------------------------------------- graph

class BuildGraph:
    def __init__(self, text: str):
        self.man = nj.read_manifest(text)
        self.edges: T.List[dict] = self.man['edges']
        self.n = len(self.edges)
        self.producer: T.Dict[str, int] = {}
        self.dup_outputs: T.List[str] = []
        for e in self.edges:
            for o in e['outs'] + e['impl_outs']:
                if o in self.producer:
                    self.dup_outputs.append(o)
                self.producer[o] = e['idx']
        self.preds: T.List[T.List[int]] = []
        for e in self.edges:
            ps: T.List[int] = []
            for i in e['ins'] + e['impl_ins'] + e['order_ins']:
                p = self.producer.get(i)
                if p is not None and p not in ps:
                    ps.append(p)
            self.preds.append(ps)
        self.succs: T.List[T.List[int]] = [[] for _ in range(self.n)]
        for i, ps in enumerate(self.preds):
            for p in ps:
                self.succs[p].append(i)
        self._anc: T.Dict[int, T.FrozenSet[int]] = {}
        # excluded: utility commands and what hangs off them
        base = set()
        for e in self.edges:
            if e['rule'] == 'REGENERATE_BUILD' or any(os.path.basename(o).startswith('meson-internal__') for o in e['outs']):
                base.add(e['idx'])
        excl = set(base)
        todo = list(base)
        while todo:
            x = todo.pop()
            for s in self.succs[x]:
                if s not in excl:
                    excl.add(s)
                    todo.append(s)
        self.excluded = excl
        self.included = [i for i in range(self.n) if i not in excl]
        self.exec_steps = [i for i in self.included if self.edges[i]['rule'] != 'phony']

    def ancestors(self, i: int) -> T.FrozenSet[int]:
        """steps that the graph orders before step i (transitive closure of `preds`), iterative"""
        if i in self._anc:
            return self._anc[i]
        seen: T.Set[int] = set()
        todo = list(self.preds[i])
        while todo:
            x = todo.pop()
            if x in seen:
                continue
            seen.add(x)
            if x in self._anc:
                seen |= self._anc[x]
            else:
                todo += self.preds[x]
        r = frozenset(seen)
        self._anc[i] = r
        return r

    def acyclic(self) -> bool:
        return all(i not in self.ancestors(i) for i in range(self.n))

    def all_outs(self, i: int) -> T.List[str]:
        e = self.edges[i]
        return e['outs'] + e['impl_outs']

    def name(self, i: int) -> str:
        e = self.edges[i]
        return f"#{i}:{e['rule']}:{','.join(self.all_outs(i))}"

    def is_valid_schedule(self, order: T.Sequence[int], steps: T.Optional[T.Sequence[int]] = None) -> bool:
        """every step of `steps` (default: the included ones) exactly once, each after all its direct predecessors"""
        steps = self.included if steps is None else steps
        if sorted(order) != sorted(steps):
            return False
        done: T.Set[int] = set()
        inset = set(steps)
        for i in order:
            if any(p in inset and p not in done for p in self.preds[i]):
                return False
            done.add(i)
        return True

    def kahn(self, key: T.Callable[[int, T.List[int]], int]) -> T.List[int]:
        """a complete valid schedule of the included steps; `key(ready_list)` picks the next ready step"""
        inc = set(self.included)
        missing = {i: sum(1 for p in self.preds[i] if p in inc) for i in self.included}
        ready = sorted(i for i in self.included if missing[i] == 0)
        order: T.List[int] = []
        while ready:
            x = key(ready)
            ready.remove(x)
            order.append(x)
            for s in self.succs[x]:
                if s in inc:
                    missing[s] -= 1
                    if missing[s] == 0:
                        ready.append(s)
        return order

    def depth(self) -> T.Dict[int, int]:
        d: T.Dict[int, int] = {}
        for i in self.kahn(lambda r: min(r)):
            d[i] = 1 + max([d[p] for p in self.preds[i] if p in d], default=0)
        return d

    def kind(self, i: int) -> str:
        r = self.edges[i]['rule']
        if r == 'phony':
            return 'phony'
        if r == 'CUSTOM_COMMAND' or r == 'CUSTOM_COMMAND_DEP':
            return 'custom'
        if r.endswith('_COMPILER') or r.endswith('_PCH'):
            return 'compile'
        if r.endswith('_LINKER') or r == 'STATIC_LINKER' or 'LINKER' in r:
            return 'link'
        return 'other'


def schedules(g: BuildGraph, rng, n_random: int) -> T.List[T.Tuple[str, T.List[int]]]:
    """the adversarial complete schedules"""
    depth = g.depth()
    height: T.Dict[int, int] = {}
    for i in reversed(g.kahn(lambda r: min(r))):
        height[i] = 1 + max([height[s] for s in g.succs[i] if s in height], default=0)
    kind_rank = {'compile': 0, 'link': 1, 'other': 2, 'phony': 3, 'custom': 4}
    res = [
        ('reverse-declaration', g.kahn(lambda r: max(r))),
        # steps with long ancestor chains as late as possible (all shallow steps first) …
        ('deepest-last', g.kahn(lambda r: min(r, key=lambda i: (depth[i], -i)))),
        # … and the opposite: chase one chain to its end before starting anything else
        ('deepest-first', g.kahn(lambda r: max(r, key=lambda i: (depth[i], i)))),
        # producers (custom commands, generators) as late as the graph allows, compiles as early as it allows
        ('compiles-first', g.kahn(lambda r: min(r, key=lambda i: (kind_rank[g.kind(i)], -i)))),
        # steps nobody waits for long first
        ('lowest-first', g.kahn(lambda r: min(r, key=lambda i: (height[i], -i)))),
    ]
    for k in range(n_random):
        res.append((f'random-{k}', g.kahn(lambda r: rng.choice(r))))
    return res


# ---------------------------------------------------------------- running commands

def clean_env() -> T.Dict[str, str]:
    e = {k: v for k, v in os.environ.items() if k in ('PATH', 'HOME', 'TMPDIR', 'USER', 'LOGNAME', 'SHELL')}
    e['LANG'] = 'C'
    e['LC_ALL'] = 'C'
    e['PYTHONDONTWRITEBYTECODE'] = '1'
    e['PYTHONHASHSEED'] = '0'
    return e


def file_digest(path: str) -> str:
    try:
        if os.path.islink(path):
            return 'LINK:' + os.readlink(path)
        if os.path.isdir(path):
            return 'DIR'
        h = hashlib.sha256()
        with open(path, 'rb') as f:
            h.update(f.read())
        return h.hexdigest()[:24]
    except OSError:
        return 'MISSING'


class Slot:
    def __init__(self, root: str):
        self.root = root
        self.src = os.path.join(root, 'src')
        self.build = os.path.join(root, 'build')
        self.conf = os.path.join(root, 'conf')
        self.ref = os.path.join(root, 'ref')
        self.trace = os.path.join(root, 'trace')
        self.env = clean_env()

    def reset_build(self) -> None:
        shutil.rmtree(self.build, ignore_errors=True)
        subprocess.run(['cp', '-a', self.conf, self.build], check=True)

    def snapshot_conf(self) -> None:
        shutil.rmtree(self.conf, ignore_errors=True)
        subprocess.run(['cp', '-a', self.build, self.conf], check=True)

    def keep_ref(self) -> None:
        shutil.rmtree(self.ref, ignore_errors=True)
        os.rename(self.build, self.ref)

    def copy_from_ref(self, rel: str) -> bool:
        """bring one output of the reference build into the active build dir"""
        s = os.path.join(self.ref, rel)
        d = os.path.join(self.build, rel)
        if not os.path.lexists(s):
            return False
        os.makedirs(os.path.dirname(d), exist_ok=True)
        if os.path.isdir(s) and not os.path.islink(s):
            shutil.copytree(s, d, symlinks=True, dirs_exist_ok=True)
        else:
            shutil.copy2(s, d, follow_symlinks=False)
        return True

    def run_step(self, g: BuildGraph, i: int, trace: bool = False, timeout: int = 120) -> dict:
        """execute step i in the active build dir -> {'rc','out','digests','reads'(traced paths)|None,'depfile_deps'}"""
        e = g.edges[i]
        if e['rule'] == 'phony':
            return {'rc': 0, 'out': '', 'digests': {}, 'probes': None, 'depfile_deps': []}
        c = nj.edge_command(g.man, e)
        for o in g.all_outs(i):
            # ninja creates the directories of a statement's outputs before it starts the command (Builder::StartEdge)
            os.makedirs(os.path.dirname(os.path.join(self.build, o)), exist_ok=True)
        if c['rspfile']:
            rp = os.path.join(self.build, c['rspfile'])
            os.makedirs(os.path.dirname(rp), exist_ok=True)
            with open(rp, 'w', encoding='utf-8', newline='') as f:
                f.write(c['rspfile_content'])
        argv = ['/bin/sh', '-c', c['command']]
        if trace:
            shutil.rmtree(self.trace, ignore_errors=True)
            os.makedirs(self.trace)
            argv = ['strace', '-ff', '-yy', '-s', '8192', '-e', 'trace=' + STRACE_SYSCALLS,
                    '-o', os.path.join(self.trace, 't')] + argv
        try:
            p = subprocess.run(argv, cwd=self.build, env=self.env, stdin=subprocess.DEVNULL, stdout=subprocess.PIPE,
                               stderr=subprocess.STDOUT, timeout=timeout)
            rc, out = p.returncode, p.stdout.decode('utf-8', errors='replace')
        except subprocess.TimeoutExpired:
            rc, out = -9, 'timeout'
        if c['rspfile'] and rc == 0:
            try:
                os.unlink(os.path.join(self.build, c['rspfile']))
            except OSError:
                pass
        deps: T.List[str] = []
        if c['depfile']:
            dp = os.path.join(self.build, c['depfile'])
            try:
                with open(dp, encoding='utf-8', errors='surrogateescape') as f:
                    deps = nj.parse_depfile(f.read())
                if c['deps'] == 'gcc':
                    os.unlink(dp)
            except OSError:
                pass
        probes = None
        if trace:
            probes = read_traces(self.trace, self.build)
            shutil.rmtree(self.trace, ignore_errors=True)
        digests = {o: file_digest(os.path.join(self.build, o)) for o in g.all_outs(i)}
        if e['rule'].endswith('_PCH'):
            # gcc's precompiled headers are not reproducible byte for byte (they are a dump of compiler memory);
            # only their existence is compared, the objects compiled with them are compared in full
            digests = {o: ('PRESENT' if d != 'MISSING' else d) for o, d in digests.items()}
        return {'rc': rc, 'out': out[-3000:], 'digests': digests, 'probes': probes,
                'depfile_deps': [nj.canon(d) for d in deps], 'command': c['command']}


# ---------------------------------------------------------------- strace output

_LINE = re.compile(r'^(\w+)\((.*)\)\s+=\s+(-?\d+|\?)(.*)$')
_STR = re.compile(r'"((?:[^"\\]|\\.)*)"')
_DIRFD = re.compile(r'^(?:AT_FDCWD|\d+)<((?:[^>\\]|\\.)*)>')


def _unescape(s: str) -> str:
    try:
        return s.encode('latin-1', 'backslashreplace').decode('unicode_escape').encode('latin-1', 'replace').decode('utf-8', 'replace')
    except Exception:
        return s


def read_traces(tdir: str, cwd: str) -> T.Dict[str, str]:
    """{path relative to `cwd` (only paths below it): 'ok' | 'miss' | 'write'} over all traced processes.
    'ok' wins over 'miss'; an open for writing/creating counts as 'write' only if the path was never read."""
    res: T.Dict[str, str] = {}
    pre = cwd.rstrip('/') + '/'
    for fn in sorted(os.listdir(tdir)):
        pcwd = cwd
        with open(os.path.join(tdir, fn), encoding='utf-8', errors='replace') as f:
            for line in f:
                m = _LINE.match(line)
                if not m:
                    continue
                call, args, ret, tail = m.groups()
                sm = _STR.search(args)
                if not sm:
                    continue
                path = _unescape(sm.group(1))
                base = pcwd
                dm = _DIRFD.match(args)
                if dm:
                    base = _unescape(dm.group(1))
                if call == 'chdir':
                    if ret == '0':
                        pcwd = os.path.normpath(os.path.join(pcwd, path))
                    continue
                ap = os.path.normpath(os.path.join(base, path))
                if not (ap + '/').startswith(pre):
                    continue
                rel = ap[len(pre):] if ap != cwd else '.'
                okk = not ret.startswith('-')
                if call in ('open', 'openat') and re.search(r'O_WRONLY|O_RDWR|O_CREAT|O_TRUNC', args) and okk \
                        and not re.search(r'O_RDWR', args):
                    kind = 'write'
                elif okk:
                    kind = 'ok'
                elif 'ENOENT' in tail or 'ENOTDIR' in tail:
                    kind = 'miss'
                else:
                    continue
                old = res.get(rel)
                if old is None or (kind == 'ok') or (old == 'write' and kind == 'miss'):
                    if not (old == 'ok'):
                        res[rel] = kind
    return res


def tree_digest(top: str) -> str:
    h = hashlib.sha256()
    for dp, dns, fns in os.walk(top):
        dns.sort()
        for fn in sorted(fns):
            p = os.path.join(dp, fn)
            h.update(os.path.relpath(p, top).encode('utf-8', 'surrogateescape'))
            h.update(file_digest(p).encode())
    return h.hexdigest()[:24]


# ---------------------------------------------------------------- the per-project decision

def _finding(key: str, what: str, **detail) -> dict:
    return {'key': key, 'what': what, 'detail': detail}


def _nonancestor_probes(g: BuildGraph, s: int, probes: T.Dict[str, str]) -> T.List[T.Tuple[str, int, str]]:
    """(path, producing step t, how) for traced paths that are outputs of a step that is neither s, nor an ancestor of s,
    nor a descendant of s (a descendant can never have run before s)"""
    anc = g.ancestors(s)
    res = []
    for p, how in sorted(probes.items()):
        t = g.producer.get(p)
        if t is None or t == s or t in anc or how == 'write':
            continue
        if s in g.ancestors(t) or t in g.excluded:
            continue
        res.append((p, t, how))
    return res


def reference_build(slot: Slot, g: BuildGraph) -> dict:
    """declaration-order build; a failing step is retried after everything else was built to tell a missing edge
    (succeeds later) from a project that cannot build at all"""
    inc = set(g.included)
    missing = {i: sum(1 for p in g.preds[i] if p in inc) for i in g.included}
    ready = sorted(i for i in g.included if missing[i] == 0)
    done: T.List[int] = []
    digests: T.Dict[str, str] = {}
    failed: T.List[T.Tuple[int, T.List[int], str, str]] = []   # (step, done-at-failure, output, command)
    findings: T.List[dict] = []

    def finish(x: int, r: dict) -> None:
        done.append(x)
        digests.update(r['digests'])
        for s in g.succs[x]:
            if s in inc:
                missing[s] -= 1
                if missing[s] == 0:
                    ready.append(s)
    slot.reset_build()
    while ready or failed:
        if ready:
            x = min(ready)
            ready.remove(x)
            r = slot.run_step(g, x)
            if r['rc'] == 0:
                finish(x, r)
            else:
                failed.append((x, list(done), r['out'], r.get('command', '')))
            continue
        progress = False
        for item in list(failed):
            x, done_then, out, cmd = item
            if len(done) == len(done_then):
                continue
            r = slot.run_step(g, x)
            if r['rc'] == 0:
                failed.remove(item)
                extra = [t for t in done if t not in done_then and g.edges[t]['rule'] != 'phony']
                findings.append(_finding(
                    f'needs-non-ancestor:{g.kind(x)}',
                    f'step {g.name(x)} fails when exactly its declared ancestors (and other earlier steps) have run, '
                    f'and succeeds once non-ancestors have run',
                    step=g.name(x), command=cmd, output=out[-1500:],
                    schedule_prefix=[g.name(t) for t in done_then if g.edges[t]['rule'] != 'phony'],
                    ran_in_between=[g.name(t) for t in extra]))
                finish(x, r)
                progress = True
                break
        if not progress and not ready:
            break
    return {'done': done, 'digests': digests, 'findings': findings,
            'broken': [(g.name(x), out[-1500:], cmd) for x, _d, out, cmd in failed],
            'broken_steps': [x for x, _d, _o, _c in failed]}


def hermetic_replay(slot: Slot, g: BuildGraph, s: int, ref_digests: T.Dict[str, str], extra_steps: T.Sequence[int] = (),
                    trace: bool = True) -> dict:
    """run step s in a build dir holding the configure-time files and the outputs of its declared ancestors (+ extra_steps)"""
    slot.reset_build()
    have = set(g.ancestors(s))
    for t in extra_steps:
        have.add(t)
        have |= g.ancestors(t)
    have.discard(s)
    for a in sorted(have):
        for o in g.all_outs(a):
            if ref_digests.get(o, 'MISSING') != 'MISSING':
                slot.copy_from_ref(o)
    return slot.run_step(g, s, trace=trace)


def run_schedule(slot: Slot, g: BuildGraph, order: T.Sequence[int]) -> dict:
    slot.reset_build()
    digests: T.Dict[str, str] = {}
    for k, i in enumerate(order):
        r = slot.run_step(g, i)
        if r['rc'] != 0:
            return {'ok': False, 'failed': i, 'pos': k, 'out': r['out'], 'command': r.get('command', ''), 'digests': digests}
        digests.update(r['digests'])
    # a later step may have rewritten an earlier output: digest at the end
    final_digests(slot, g, digests)
    return {'ok': True, 'digests': digests}


def final_digests(slot: Slot, g: BuildGraph, digests: T.Dict[str, str]) -> None:
    for o in list(digests):
        if digests[o] != 'PRESENT':
            digests[o] = file_digest(os.path.join(slot.build, o))


def run_parallel(slot: Slot, g: BuildGraph, jobs: int, rng) -> dict:
    """really concurrent execution: up to `jobs` enabled steps in flight; returns the completion order as the linearisation"""
    from concurrent.futures import ThreadPoolExecutor, wait, FIRST_COMPLETED
    slot.reset_build()
    inc = set(g.included)
    missing = {i: sum(1 for p in g.preds[i] if p in inc) for i in g.included}
    ready = [i for i in g.included if missing[i] == 0]
    digests: T.Dict[str, str] = {}
    started: T.List[int] = []
    finished: T.List[int] = []
    fail = None
    with ThreadPoolExecutor(max_workers=jobs) as ex:
        flying: T.Dict[T.Any, int] = {}
        while (ready or flying) and fail is None:
            while ready and len(flying) < jobs:
                x = rng.choice(ready)
                ready.remove(x)
                started.append(x)
                flying[ex.submit(slot.run_step, g, x)] = x
            dn, _ = wait(list(flying), return_when=FIRST_COMPLETED)
            for f in dn:
                x = flying.pop(f)
                r = f.result()
                if r['rc'] != 0:
                    fail = {'ok': False, 'failed': x, 'pos': len(finished), 'out': r['out'], 'command': r.get('command', ''),
                            'digests': digests, 'started': started, 'finished': finished}
                    break
                finished.append(x)
                digests.update(r['digests'])
                for s in g.succs[x]:
                    if s in inc:
                        missing[s] -= 1
                        if missing[s] == 0:
                            ready.append(s)
        if fail is not None:
            wait(list(flying))
            return fail
    final_digests(slot, g, digests)
    return {'ok': True, 'digests': digests, 'started': started, 'finished': finished}


def check_built_project(slot: Slot, text: str, rng, n_random: int, jobs: int = 4, budget_steps: int = 400) -> dict:
    """everything after `meson setup`: reference build, hermetic replay of every step, adversarial schedules"""
    g = BuildGraph(text)
    res: dict = {'status': 'ok', 'findings': [], 'n_edges': g.n, 'n_exec': len(g.exec_steps), 'kinds': {},
                 'excluded': sorted(set(o for i in g.excluded for o in g.edges[i]['outs'])),
                 'schedules': [], 'anc': {}, 'replays': 0, 'counter_replays': 0, 'probe_candidates': 0}
    for i in g.exec_steps:
        k = g.kind(i)
        res['kinds'][k] = res['kinds'].get(k, 0) + 1
    if g.dup_outputs or not g.acyclic():
        res['status'] = 'ill-formed'       # C04's business
        return res
    if len(g.exec_steps) > budget_steps:
        res['status'] = 'too-big'
        return res
    slot.snapshot_conf()
    src_before = tree_digest(slot.src)
    ref = reference_build(slot, g)
    res['findings'] += ref['findings']
    if ref['broken']:
        # a step that fails even after everything that can be built has been built: no schedule at all succeeds.
        # Look at what it wanted: a path that nobody produces although a statement produces the same file name
        # elsewhere is a command line that disagrees with the graph about where an output lives.
        res['status'] = 'broken'
        res['broken'] = ref['broken']
        x = ref['broken_steps'][0]
        r = slot.run_step(g, x, trace=True)
        misplaced = []
        for p, how in sorted((r['probes'] or {}).items()):
            if how == 'miss' and p not in g.producer:
                same = sorted(o for o in g.producer if os.path.basename(o) == os.path.basename(p) and o != p)
                if same:
                    misplaced.append((p, same[0], g.name(g.producer[same[0]])))
        for d in g.edges[x]['ins'] + g.edges[x]['impl_ins'] + g.edges[x]['order_ins']:
            if d not in g.producer and not os.path.lexists(os.path.join(slot.build, d)):
                same = sorted(o for o in g.producer if os.path.basename(o) == os.path.basename(d) and o != d)
                if same and not any(m[0] == d for m in misplaced):
                    misplaced.append((d, same[0], g.name(g.producer[same[0]])))
        res['broken_detail'] = {'step': g.name(x), 'kind': g.kind(x), 'command': r.get('command', ''), 'output': r['out'][-1500:],
                                'misplaced': misplaced,
                                'declared_inputs_nobody_produces': [d for d in g.edges[x]['ins'] + g.edges[x]['impl_ins'] +
                                                                    g.edges[x]['order_ins'] if d not in g.producer and
                                                                    not os.path.lexists(os.path.join(slot.build, d))]}
        return res
    digests = ref['digests']
    res['ref_order'] = ref['done']
    slot.keep_ref()
    res['schedules'].append(('reference', ref['done']))
    # (a) hermetic replay per step
    for s in g.exec_steps:
        r = hermetic_replay(slot, g, s, digests)
        res['replays'] += 1
        mine = {o: digests.get(o) for o in g.all_outs(s)}
        cands = _nonancestor_probes(g, s, r['probes'] or {})
        if r['rc'] != 0:
            need = [(p, g.name(t)) for p, t, how in cands]
            res['findings'].append(_finding(
                f'hermetic-fail:{g.kind(s)}' + (f'<-{g.kind(cands[0][1])}' if cands else ''),
                f'step {g.name(s)} fails when given only the source tree, configure-time files and the outputs of its '
                f'declared ancestors' + (f'; it looks for {need[0][0]} produced by non-ancestor {need[0][1]}' if need else ''),
                step=g.name(s), command=r.get('command', ''), output=r['out'][-1500:], missing=need,
                ancestors=[g.name(a) for a in sorted(g.ancestors(s)) if g.edges[a]['rule'] != 'phony']))
            continue
        if r['digests'] != mine:
            res['findings'].append(_finding(
                f'hermetic-diff:{g.kind(s)}',
                f'step {g.name(s)} produces different bytes when given only its declared ancestors\' outputs',
                step=g.name(s), command=r.get('command', ''), got=r['digests'], want=mine,
                probes=[(p, g.name(t), how) for p, t, how in cands]))
            continue
        # it looked at (absent) outputs of non-ancestors: would their presence change the result?
        seen_t = set()
        for p, t, how in cands:
            res['probe_candidates'] += 1
            if t in seen_t:
                continue
            seen_t.add(t)
            r2 = hermetic_replay(slot, g, s, digests, extra_steps=[t], trace=False)
            res['counter_replays'] += 1
            if r2['rc'] != 0 or r2['digests'] != mine:
                res['findings'].append(_finding(
                    f'present-sensitive:{g.kind(s)}<-{g.kind(t)}',
                    f'step {g.name(s)} behaves differently when the output {p} of non-ancestor {g.name(t)} already exists',
                    step=g.name(s), other=g.name(t), path=p, rc=r2['rc'], output=r2['out'][-1000:],
                    got=r2['digests'], want=mine))
    # (b) adversarial complete schedules
    scheds = schedules(g, rng, n_random)
    for name, order in scheds:
        if not g.is_valid_schedule(order):
            res['findings'].append(_finding('harness-invalid-schedule', f'{name} is not a valid schedule', order=order))
            continue
        res['schedules'].append((name, order))
        r = run_schedule(slot, g, order)
        _judge_schedule(g, res, name, order, r, digests)
    if jobs > 1:
        r = run_parallel(slot, g, jobs, rng)
        name = f'parallel-j{jobs}'
        order = r['finished'] if r['ok'] else r['finished'] + [r['failed']]
        if r['ok']:
            res['schedules'].append((name, r['finished']))
        _judge_schedule(g, res, name, order, r, digests)
    if tree_digest(slot.src) != src_before:
        res['src_modified'] = True
    for s in g.included:
        res['anc'][s] = sorted(g.ancestors(s))
    res['included'] = g.included
    return res


def _judge_schedule(g: BuildGraph, res: dict, name: str, order: T.Sequence[int], r: dict, digests: T.Dict[str, str]) -> None:
    if not r['ok']:
        x = r['failed']
        res['findings'].append(_finding(
            f'schedule-fail:{g.kind(x)}',
            f'step {g.name(x)} fails under the valid schedule {name}',
            schedule=name, step=g.name(x), command=r['command'], output=r['out'][-1500:],
            prefix=[g.name(t) for t in order[:r['pos']] if g.edges[t]['rule'] != 'phony'],
            not_yet_run=[g.name(t) for t in g.exec_steps if t not in order[:r['pos']] and t != x]))
        return
    diff = sorted(o for o in digests if r['digests'].get(o) != digests[o])
    if diff:
        x = g.producer[diff[0]]
        res['findings'].append(_finding(
            f'schedule-diff:{g.kind(x)}',
            f'output {diff[0]} of {g.name(x)} differs between the reference order and the valid schedule {name}',
            schedule=name, differing=diff, order=[g.name(t) for t in order if g.edges[t]['rule'] != 'phony']))
