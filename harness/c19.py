"""C19 — version comparison is a consistent order; constraint logic is sound."""
from __future__ import annotations

import itertools
import operator
import typing as T

from .common import Ctx, enc, enc_list

ID = 'C19'
LEVEL = 'proof'
LEAN_TARGETS = ['MesonModel.Props.C19']
AREAS = ['ver']
PINS = [
    'mesonbuild.interpreter.primitives.string:StringHolder.version_compare_method',
    'mesonbuild.interpreter.primitives.string:MesonVersionStringHolder.version_compare_method',
    'mesonbuild.utils.universal:Version',
    'mesonbuild.utils.universal:_version_extract_cmpop',
    'mesonbuild.utils.universal:version_compare',
    'mesonbuild.utils.universal:version_compare_many',
    'mesonbuild.utils.universal:Range',
    'mesonbuild.utils.universal:version_check_to_range',
    'mesonbuild.utils.universal:version_compare_condition_with_min',
    'mesonbuild.interpreterbase.interpreterbase:InterpreterBase.evaluate_if',
    'mesonbuild.interpreterbase.interpreterbase:InterpreterBase.evaluate_notstatement',
    'mesonbuild.interpreterbase.interpreterbase:InterpreterBase.evaluate_andstatement',
    'mesonbuild.interpreterbase.interpreterbase:InterpreterBase.evaluate_orstatement',
    'mesonbuild.interpreterbase.interpreterbase:InterpreterBase.evaluate_comparison',
    'mesonbuild.interpreter.dependencyfallbacks:DependencyFallbacksHolder._check_version',
    'mesonbuild.interpreter.interpreter:Interpreter.check_program_version',
    'mesonbuild.dependencies.base:ExternalDependency._check_version',
    'mesonbuild.interpreterbase.decorators:FeatureCheckBase.use',
    'mesonbuild.interpreterbase.decorators:FeatureCheckBase.get_target_version',
    'mesonbuild.interpreter.interpreter:Interpreter.handle_meson_version',
]
TRUSTED = ['Python primitive comparisons on int/str/bool/len are the orders the model uses (Nat order, code-point lexicographic)',
           'domain: ASCII strings plus non-ASCII code points that CPython classes as neither digit, letter nor space; '
           'digit runs shorter than 4300 characters',
           'if/elif conditions are built from meson.version().version_compare() calls, booleans, not / and / or / parentheses and '
           '== / != with a boolean literal; a version check whose result flows through a ternary, a function or method argument '
           'or a container is outside the generated domain (evaluate_if\'s tmp_meson_version mechanism is a heuristic there)']

COMPONENTS = ['0', '1', '2', '10', '01', 'a', 'b', 'rc', 'B']
SEPS = ['.', '-', '', '+']
OPS = ['>=', '<=', '!=', '==', '=', '>', '<', '']
OPFN = {'>=': operator.ge, '<=': operator.le, '!=': operator.ne, '==': operator.eq, '=': operator.eq,
        '>': operator.gt, '<': operator.lt, '': operator.eq}
WS = ['', ' ', '\t ', '  ']
JUNK = list(' .-_+~:^/\\!<>=\t\n\x0b\x1c\x1f#@é€中') + list('09azAZ')


def impl():
    from mesonbuild.utils import universal as U
    return U


def harvested_literals() -> T.List[str]:
    """Short string constants that occur in the CURRENT source of the anchored functions. A special case keyed on a
    particular version text (a magic word) necessarily names that text in the code, so it ends up in the pool."""
    import ast
    import inspect
    import textwrap
    from .common import pin_hash  # noqa: F401  (same resolution rules as the pins)
    import importlib
    out: T.Set[str] = set()
    for spec in PINS:
        modname, qual = spec.split(':')
        try:
            obj: T.Any = importlib.import_module(modname)
            for part in qual.split('.'):
                obj = getattr(obj, part)
            tree = ast.parse(textwrap.dedent(inspect.getsource(inspect.unwrap(obj) if callable(obj) else obj)))
        except Exception:
            continue
        for n in ast.walk(tree):
            if isinstance(n, ast.Constant) and isinstance(n.value, str) and 0 < len(n.value) <= 16 and '\n' not in n.value:
                out.add(n.value)
                out.add(n.value.strip())
    return sorted(x for x in out if x)


def small_versions() -> T.List[str]:
    out = list(COMPONENTS)
    out += harvested_literals()
    for a in COMPONENTS:
        for s in SEPS:
            for b in COMPONENTS:
                out.append(a + s + b)
    return sorted(set(out))


def rand_version(rng, maxc=5) -> str:
    n = rng.randint(0, maxc)
    s = ''
    for i in range(n):
        s += rng.choice(COMPONENTS + [str(rng.randint(0, 300)), 'alpha', 'Z'])
        if i + 1 < n or rng.random() < 0.15:
            s += rng.choice(SEPS + ['..', '_', ' '])
    return s


def rand_junk(rng, maxlen=8) -> str:
    return ''.join(rng.choice(JUNK) for _ in range(rng.randint(0, maxlen)))


def show_v(v) -> str:
    return ' '.join(('n%d' % t) if isinstance(t, int) else 'a' + t for t in v._v)


def show_range(r) -> str:
    def ov(v):
        return 'None' if v is None else '[' + show_v(v) + ']'
    return f'{ov(r.min)};{int(r.min_eq)};{ov(r.max)};{int(r.max_eq)};{int(r.is_empty)}'


def range_arg(spec) -> str:
    mn, mne, mx, mxe, ie = spec
    return ','.join(['0' if mn is None else '1', '' if mn is None else enc(mn), str(int(mne)),
                     '0' if mx is None else '1', '' if mx is None else enc(mx), str(int(mxe)), str(int(ie))])


def mk_range(U, spec):
    mn, mne, mx, mxe, ie = spec
    return U.Range(min=None if mn is None else U.Version(mn), min_eq=mne,
                   max=None if mx is None else U.Version(mx), max_eq=mxe, is_empty=ie)


def rand_range_spec(rng, pool):
    mn = rng.choice(pool) if rng.random() < 0.7 else None
    mx = rng.choice(pool) if rng.random() < 0.7 else None
    if mn is not None and mx is not None and rng.random() < 0.25:
        mx = mn
    return (mn, rng.random() < 0.5, mx, rng.random() < 0.5, rng.random() < 0.08)


def rand_check(rng, pool) -> str:
    return rng.choice(OPS) + rng.choice(WS) + rng.choice(pool) + rng.choice(['', ' '])


# ------------------------------------------------------------------ property oracle (implementation only)

def oracle_pair(U, a: str, b: str) -> T.Optional[str]:
    x, y = U.Version(a), U.Version(b)
    lt, gt, le, ge, eq, ne = x < y, x > y, x <= y, x >= y, x == y, x != y
    if [lt, eq, gt].count(True) != 1:
        return f'trichotomy fails: lt={lt} eq={eq} gt={gt}'
    if le != (lt or eq):
        return '<= is not (< or ==)'
    if ge != (gt or eq):
        return '>= is not (> or ==)'
    if ne == eq:
        return '!= is not the negation of =='
    if lt != (y > x):
        return 'a<b differs from b>a'
    if eq and hash(x) != hash(y):
        return 'equal versions hash differently'
    return None


def oracle_triple(U, a, b, c) -> T.Optional[str]:
    x, y, z = U.Version(a), U.Version(b), U.Version(c)
    if x < y and y < z and not x < z:
        return '< not transitive'
    if x <= y and y <= z and not x <= z:
        return '<= not transitive'
    return None


def oracle_component(U, p, m, n, s, t, w) -> T.Optional[str]:
    """p ends in a separator; m,n ints; s,t suffixes starting with a separator; w letters"""
    x, y = U.Version(p + str(m) + s), U.Version(p + str(n) + t)
    if m != n and (x < y) != (m < n):
        return 'numeric components do not compare numerically'
    if m != n and (x > y) != (m > n):
        return 'numeric components do not compare numerically'
    a = U.Version(p + w + s)
    if not (a < y and y > a):
        return 'numeric component does not rank above alphabetic'
    base = U.Version(p + str(m))
    longer = U.Version(p + str(m) + '.' + str(n))
    if not (base < longer):
        return 'longer version with equal prefix is not greater'
    return None


def oracle_vc(U, a, op, ws, b) -> T.Optional[str]:
    got = U.version_compare(a, op + ws + b)
    want = OPFN[op](U.Version(a), U.Version(b))
    if got != want:
        return f'version_compare({a!r},{op + ws + b!r})={got}, order says {want}'
    return None


def oracle_many(U, a, conds) -> T.Optional[str]:
    ok, nf, f = U.version_compare_many(a, conds)
    each = [U.version_compare(a, c) for c in conds]
    if ok != all(each):
        return 'constraint list result is not the conjunction'
    if nf != [c for c, e in zip(conds, each) if not e] or f != [c for c, e in zip(conds, each) if e]:
        return 'found/not_found lists wrong'
    return None


def oracle_ranges(U, ra, rb, probes) -> T.Optional[str]:
    i = ra.intersect(rb)
    for p in probes:
        if (p in i) != ((p in ra) and (p in rb)):
            return f'intersect membership differs for {p}'
    al = ra.always(rb)
    if al is True and any((p in ra) and (p not in rb) for p in probes):
        return 'always() said True but a member fails inner'
    if al is False and any((p in ra) and (p in rb) for p in probes):
        return 'always() said False but a member satisfies inner'
    return None


def oracle_c2r(U, checks, start, probes_s) -> T.Optional[str]:
    r = U.version_check_to_range(list(checks), start)
    for ps in probes_s:
        p = U.Version(ps)
        sat = all(U.version_compare(ps, c) for c in checks)
        if p in start and sat and p not in r:
            return f'range misses {ps} which satisfies every check'
        if p in r:
            if p not in start:
                return f'range contains {ps} outside start'
            for c in checks:
                op, _ = U._version_extract_cmpop(c)
                if op is not operator.ne and not U.version_compare(ps, c):
                    return f'range contains {ps} violating {c!r}'
    return None


# ------------------------------------------------------------------ run

def run(ctx: Ctx) -> None:
    U = impl()
    rng = ctx.rng
    ctx.rule = ('exhaustive pairs over all versions of <=2 components (9-symbol alphabet x 4 separators), '
                'random versions/junk beyond; all 8 operator spellings; random check lists and range pairs. '
                'A case is non-trivial when its canonical (kind, model-answer) pair has a result other than the '
                'most common one for its kind, counted distinct by input.')
    small = small_versions()
    pool = small + [rand_version(rng) for _ in range(ctx.scale(300, 3000))] + \
        [rand_junk(rng) for _ in range(ctx.scale(200, 2000))]
    pool = sorted(set(pool))
    cases: T.List[T.Tuple[str, T.Any, str, str]] = []  # (kind, input, protocol line, impl answer)

    def add(kind, inp, line, ans):
        cases.append((kind, inp, line, ans))

    # tokens
    for s in pool:
        add('tok', s, f'tok {enc(s)}', show_v(U.Version(s)))
    # exhaustive pairs over the small set (+ random pairs from pool)
    pairs = list(itertools.product(small, small)) if True else []
    if not ctx.deep:
        # quick: every pair of the <=2 component set is 110k; keep all (cheap)
        pass
    pairs += [(rng.choice(pool), rng.choice(pool)) for _ in range(ctx.scale(20000, 300000))]
    for a, b in pairs:
        x, y = U.Version(a), U.Version(b)
        ans = ''.join(str(int(v)) for v in (x < y, x > y, x <= y, x >= y, x == y, x != y, hash(x) == hash(y)))
        add('cmp', (a, b), f'cmp {enc(a)}|{enc(b)}', ans)
        msg = oracle_pair(U, a, b)
        if msg:
            ctx.violation(f'pair:{a!r}:{b!r}', msg, {'a': a, 'b': b})
    ctx.exhaustive = False
    # triples
    for _ in range(ctx.scale(60000, 600000)):
        a, b, c = rng.choice(small), rng.choice(small), rng.choice(pool)
        msg = oracle_triple(U, a, b, c)
        ctx.count()
        if msg:
            ctx.violation(f'triple:{a!r}:{b!r}:{c!r}', msg, {'a': a, 'b': b, 'c': c})
    # component rules
    for _ in range(ctx.scale(20000, 200000)):
        p = rng.choice(['', '1.', 'a-', '2.0.', 'x.1.'])
        m, n = rng.randint(0, 120), rng.randint(0, 120)
        s = rng.choice(['', '.1', '-rc', '.0.0'])
        t = rng.choice(['', '.1', '-rc', '.9'])
        w = rng.choice(['a', 'rc', 'Z', 'zz'])
        ctx.count()
        msg = oracle_component(U, p, m, n, s, t, w)
        if msg:
            ctx.violation(f'component:{p!r}:{m}:{n}:{s!r}:{t!r}:{w!r}', msg, dict(p=p, m=m, n=n, s=s, t=t, w=w))
    # version_compare with every operator spelling
    for _ in range(ctx.scale(40000, 400000)):
        a, b = rng.choice(pool), rng.choice(pool)
        op, ws = rng.choice(OPS), rng.choice(WS)
        if (ws + b).strip()[:1] in ('<', '>', '=', '!') or (ws + b)[:1] in ('<', '>', '=', '!'):
            continue  # the oracle needs an unambiguous operator spelling; raw texts are covered below
        add('vc', (a, op + ws + b), f'vc {enc(a)}|{enc(op + ws + b)}', str(int(U.version_compare(a, op + ws + b))))
        msg = oracle_vc(U, a, op, ws, b)
        if msg:
            ctx.violation(f'vc:{a!r}:{op + ws + b!r}', msg, {'a': a, 'cond': op + ws + b})
    # raw second arguments (any text), correspondence only
    for _ in range(ctx.scale(10000, 100000)):
        a, c = rng.choice(pool), rng.choice(['', '>', '<', '=', '!', '>=', '=>', '==', '!=', '<=']) + rand_junk(rng, 5)
        add('vc', (a, c), f'vc {enc(a)}|{enc(c)}', str(int(U.version_compare(a, c))))
    # constraint lists
    for _ in range(ctx.scale(8000, 80000)):
        a = rng.choice(pool)
        conds = [rand_check(rng, small) for _ in range(rng.randint(0, 5))]
        ok, nf, f = U.version_compare_many(a, conds)
        add('many', (a, conds), f'many {enc(a)}|{enc_list(conds)}',
            f'{int(ok)};{enc_list(nf)};{enc_list(f)}')
        msg = oracle_many(U, a, conds)
        if msg:
            ctx.violation(f'many:{a!r}:{conds!r}', msg, {'a': a, 'conds': conds})
    # ranges
    probes_s = rng.sample(small, 14) + ['', '0', '1', '2', '10', '1.0', '1.a']
    probes = [U.Version(p) for p in probes_s]
    for _ in range(ctx.scale(15000, 150000)):
        sa, sb = rand_range_spec(rng, small), rand_range_spec(rng, small)
        ra, rb = mk_range(U, sa), mk_range(U, sb)
        add('mkrange', sa, f'mkrange {range_arg(sa)}', show_range(ra))
        add('intersect', (sa, sb), f'intersect {range_arg(sa)}|{range_arg(sb)}', show_range(ra.intersect(rb)))
        add('always', (sa, sb), f'always {range_arg(sa)}|{range_arg(sb)}', str(ra.always(rb)))
        p = rng.choice(probes_s)
        add('contains', (sa, p), f'contains {range_arg(sa)}|{enc(p)}', str(int(U.Version(p) in ra)))
        m = rng.choice(small)
        add('cwmr', (sa, m), f'cwmr {range_arg(sa)}|{enc(m)}',
            str(int(U.version_compare_condition_with_min(ra, m))))
        msg = oracle_ranges(U, ra, rb, probes)
        if msg:
            ctx.violation(f'range:{sa!r}:{sb!r}', msg, {'a': sa, 'b': sb})
    for _ in range(ctx.scale(10000, 100000)):
        checks = [rand_check(rng, small) for _ in range(rng.randint(0, 5))]
        st = rand_range_spec(rng, small) if rng.random() < 0.5 else (None, False, None, False, False)
        rs = mk_range(U, st)
        add('c2r', (checks, st), f'c2r {enc_list(checks)}|{range_arg(st)}',
            show_range(U.version_check_to_range(list(checks), rs)))
        msg = oracle_c2r(U, checks, rs, probes_s)
        if msg:
            ctx.violation(f'c2r:{checks!r}:{st!r}', msg, {'checks': checks, 'start': st})
        c = rand_check(rng, small)
        m = rng.choice(small)
        add('cwm', (c, m), f'cwm {enc(c)}|{enc(m)}', str(int(U.version_compare_condition_with_min(c, m))))

    # ---- interpreter level: 'x'.version_compare(...) and meson.version().version_compare(...)
    try:
        interp_stream(ctx, U, add, small)
    except Exception as e:  # harness-side problem with the in-process interpreter: note it, do not crash
        ctx.notes.append(f'interpreter stream unavailable: {type(e).__name__}: {e}')
    try:
        gate_stream(ctx, U, add, small)
    except Exception as e:
        ctx.notes.append(f'feature-gate stream unavailable: {type(e).__name__}: {e}')
    try:
        from . import c19_entry
        c19_entry.entry_stream(ctx, U, add)
    except Exception as e:
        ctx.notes.append(f'entry-point stream unavailable: {type(e).__name__}: {e}')
        ctx.obligation_failed('entry_point_stream_runs', f'{type(e).__name__}: {e}')

    # ---- correspondence: model driver on the same inputs
    ctx.count(len(cases))
    if getattr(ctx, 'model_available', True):
        answers = ctx.driver('ver', [c[2] for c in cases])
        common_ans: T.Dict[str, T.Dict[str, int]] = {}
        for (kind, inp, _line, impl_ans), model_ans in zip(cases, answers):
            ctx.tag('kind:' + kind)
            common_ans.setdefault(kind, {}).setdefault(model_ans, 0)
            common_ans[kind][model_ans] += 1
            if impl_ans is not None and impl_ans != model_ans:
                ctx.disagreement({'kind': kind, 'input': inp, 'impl': impl_ans, 'model': model_ans})
        top = {k: max(v, key=v.get) for k, v in common_ans.items()}
        for (kind, inp, _line, _ia), model_ans in zip(cases, answers):
            if model_ans != top[kind]:
                ctx.seen_nontrivial((kind, repr(inp)))
    for c in cases[::max(1, len(cases) // 8)][:8]:
        ctx.sample({'kind': c[0], 'input': c[1], 'impl': c[3]})
    ctx.assumptions += TRUSTED


def _lit(s: str) -> T.Optional[str]:
    """meson single-quoted literal for s, or None when s needs escapes we do not want to involve here"""
    if any(c in s for c in "'\\\n\r") or any(ord(c) < 32 for c in s):
        return None
    return "'" + s + "'"


def interp_stream(ctx: Ctx, U, add, small) -> None:
    """The string method `version_compare` of the real interpreter (primitives/string.py) must be the
    conjunction of its constraints, and meson.version().version_compare() must narrow the project's version
    range to exactly version_check_to_range(constraints)."""
    from . import c01_impl
    rng = ctx.rng
    impl_i = c01_impl.Impl()
    try:
        from mesonbuild import coredata
        for _ in range(ctx.scale(1500, 15000)):
            a = rng.choice(small)
            conds = [rand_check(rng, small) for _ in range(rng.randint(1, 3))]
            lits = [_lit(a)] + [_lit(c) for c in conds]
            if None in lits:
                continue
            code = f"x = {lits[0]}.version_compare({', '.join(lits[1:])})\n"
            ans, vs = impl_i.run(code)
            ctx.count()
            want = all(U.version_compare(a, c) for c in conds)
            if vs is None or vs.get('x') is not want:
                ctx.violation(f'interp:{a!r}:{conds!r}', f"'{a}'.version_compare{tuple(conds)} in the interpreter gave {ans.split('|')[0]}, "
                              f'each constraint says {want}', {'a': a, 'conds': conds})
            add('many', (a, conds), f'many {enc(a)}|{enc_list(conds)}', None if vs is None else
                f"{int(bool(vs.get('x')))};{enc_list([c for c in conds if not U.version_compare(a, c)])};"
                f"{enc_list([c for c in conds if U.version_compare(a, c)])}")
        # meson.version().version_compare narrows tmp_meson_version to the range of its constraints
        for _ in range(ctx.scale(300, 3000)):
            conds = [c for c in (rand_check(rng, ['0.50', '1.0', '1.2.0', '1.3', '2.0', coredata.version]) for _ in range(rng.randint(1, 3)))
                     if not c.strip().startswith('!')]
            lits = [_lit(c) for c in conds]
            if not conds or None in lits:
                continue
            code = f"x = meson.version().version_compare({', '.join(lits)})\n"
            impl_i.reset()
            try:
                impl_i.interp.evaluate_codeblock(impl_i.parse(code))
            except Exception as e:
                ctx.notes.append(f'meson.version() stream: {type(e).__name__}')
                break
            ctx.count()
            got = impl_i.interp.tmp_meson_version
            want_r = U.version_check_to_range(list(conds))
            if got is None or show_range(got) != show_range(want_r):
                ctx.violation(f'interp-range:{conds!r}', 'meson.version().version_compare() recorded a range other than '
                              'version_check_to_range(constraints)', {'conds': conds})
            want_b = all(U.version_compare(coredata.version, c) for c in conds)
            xv = impl_i.unhold(impl_i.interp.variables['x'])
            if xv is not want_b:
                ctx.violation(f'interp-mv:{conds!r}', 'meson.version().version_compare() result is not the conjunction', {'conds': conds})
    finally:
        impl_i.close()



# ------------------------------------------------------------------ the range algebra as evaluate_if applies it

class GateGen:
    """if/elif/else skeletons whose conditions are meson.version().version_compare(...) calls, plain booleans
    or both; every block holds probes `message('P<n>')`.  Statically known per probe: the constraint lists of
    the enclosing clauses that make a version check (its path)."""

    def __init__(self, rng, cv: str) -> None:
        self.rng = rng
        self.cv = cv
        self.n = 0
        self.lines: T.List[str] = []
        self.toks: T.List[str] = []
        self.ktoks: T.List[str] = []          # the same skeleton with every clause condition as an expression (driver)
        # per probe: the enclosing clauses that make a version check, outside in; each
        # {'exact': constraint list when the condition is one plain check, else None,
        #  'pos': constraint lists of the checks that count positively, 'all': those of every check}
        self.paths: T.Dict[int, T.List[dict]] = {}
        self.clause_lines: T.Dict[int, T.Tuple[T.Optional[dict], T.List[dict]]] = {}
        self.pool = ['0.40', '0.50.0', '0.63', '1.0', '1.2.0', '1.3', cv, '2.0', '99']
        self.kinds: T.Set[str] = set()

    def cond(self, U) -> T.Tuple[str, T.Optional[dict], bool, str]:
        """-> (text, info about the version checks in it or None, truth value, expression for the driver)"""
        from . import c19_entry
        rng = self.rng
        k = rng.random()
        if k < 0.42:
            checks = []
            while not checks:
                checks = [c for c in (rand_check(rng, self.pool) for _ in range(rng.choice([1, 1, 1, 2])))
                          if not c.strip().startswith('!') and _lit(c) is not None]
            val = all(U.version_compare(self.cv, c) for c in checks)
            txt = 'meson.version().version_compare(' + ', '.join(_lit(c) for c in checks) + ')'
            kx = 'c' + enc_list(checks)
            form = rng.choice(['plain', 'plain', 'and-t', 'or-f', 'paren'])
            if form == 'and-t':
                txt, kx = txt + ' and t', 'a/' + kx + '/t'
            elif form == 'or-f':
                txt, kx = txt + ' or f', 'o/' + kx + '/f'
            elif form == 'paren':
                txt = '(' + txt + ')'
            self.kinds.add('vc:' + form + ':' + ('T' if val else 'F'))
            return txt, {'exact': checks, 'pos': [checks], 'all': [checks]}, val, kx
        if k < 0.72:
            e = c19_entry.gen_expr(rng, U, self.cv, self.pool, 2)
            shape = ''.join(ch for ch in e.k.replace('/', '') if ch in 'naoqctf')[:6]
            self.kinds.add('expr:' + ''.join(sorted(set(ch for ch in shape if ch in 'naoq'))) + ':' + ('T' if e.val else 'F'))
            if not e.allc:
                return e.txt, None, e.val, e.k
            return e.txt, {'exact': None, 'pos': e.pos, 'all': e.allc}, e.val, e.k
        val = rng.random() < 0.5
        form = rng.choice(['lit', 'var', 'cmp'])
        txt = {'lit': 'true' if val else 'false', 'var': 't' if val else 'f', 'cmp': '1 == 1' if val else '1 == 2'}[form]
        self.kinds.add('plain:' + ('T' if val else 'F'))
        return txt, None, val, 't' if val else 'f'

    def tok(self, t: str, k: T.Optional[str] = None) -> None:
        self.toks.append(t)
        self.ktoks.append(t if k is None else k)

    def block(self, U, depth: int, path: T.List[dict], in_loop: bool = False) -> None:
        rng = self.rng
        for _ in range(rng.randint(1, 3)):
            k = rng.random()
            if depth < 3 and k < 0.5:
                self.ifstmt(U, depth, path, in_loop)
            elif depth < 3 and k < 0.62:
                n = rng.choice([1, 2])
                self.lines.append('foreach it_%d : %s' % (depth, '[1]' if n == 1 else '[1, 2]'))
                self.tok(f'L{n}')
                self.block(U, depth + 1, path, True)
                self.lines.append('endforeach')
                self.tok('M')
                self.kinds.add('loop')
            elif k < 0.72 and (in_loop or rng.random() < 0.15):
                # leave the block early: break / continue inside a foreach, subdir_done() anywhere
                kind = rng.choice(['b', 'c', 'c', 'd'] if in_loop else ['d'])
                self.lines.append({'b': 'break', 'c': 'continue', 'd': 'subdir_done()'}[kind])
                self.tok('X' + kind)
                self.kinds.add('exit:' + kind + (':gated' if path else ':plain'))
            else:
                self.n += 1
                self.paths[self.n] = list(path)
                self.lines.append(f"message('P{self.n}')")
                self.tok(f'P{self.n}')

    def ifstmt(self, U, depth: int, path: T.List[dict], in_loop: bool = False) -> None:
        rng = self.rng
        self.tok('I')
        nclauses = rng.choice([1, 1, 2, 2, 3])
        for i in range(nclauses):
            txt, info, val, kx = self.cond(U)
            self.lines.append(('if ' if i == 0 else 'elif ') + txt)
            self.clause_lines[len(self.lines)] = (info, list(path))
            self.tok(f'C{int(val)}:', 'K:' + kx)
            self.block(U, depth + 1, path + ([info] if info else []), in_loop)
        if rng.random() < 0.6:
            self.lines.append('else')
            self.tok('E')
            self.block(U, depth + 1, path, in_loop)
        self.lines.append('endif')
        self.tok('F')


def gate_expected_sequence(toks: T.List[str]) -> T.Tuple[T.List[int], str]:
    """probe ids in execution order and the way the file is left ('' or 'done'), from the truth values and the
    break/continue/subdir_done() statements alone (reference evaluation of the skeleton)"""
    pos = 0

    def skip_block() -> None:
        block(False)

    def block(run: bool) -> T.Tuple[T.List[int], str]:
        """-> (probes, signal); parses one block; when `run` is False or after a signal the rest is only parsed"""
        nonlocal pos
        out: T.List[int] = []
        sig = ''
        while pos < len(toks):
            t = toks[pos]
            live = run and not sig
            if t.startswith('P'):
                pos += 1
                if live:
                    out.append(int(t[1:]))
            elif t.startswith('X'):
                pos += 1
                if live:
                    sig = t[1]
            elif t in ('L1', 'L2'):
                pos += 1
                start = pos
                o1, s1 = block(live)
                end = pos
                if pos < len(toks) and toks[pos] == 'M':
                    pos += 1
                if live:
                    out += o1
                    if s1 == 'd':
                        sig = 'd'
                    elif s1 != 'b' and t == 'L2':
                        save = pos
                        pos = start
                        o2, s2 = block(True)
                        assert pos == end
                        pos = save
                        out += o2
                        if s2 == 'd':
                            sig = 'd'
            elif t == 'I':
                pos += 1
                taken = False
                while pos < len(toks) and toks[pos].startswith('C'):
                    val = toks[pos][1] == '1'
                    pos += 1
                    o, s_ = block(live and not taken and val)
                    if live and not taken and val:
                        out += o
                        sig = s_
                    taken = taken or val
                if pos < len(toks) and toks[pos] == 'E':
                    pos += 1
                    o, s_ = block(live and not taken)
                    if live and not taken:
                        out += o
                        sig = s_
                if pos < len(toks) and toks[pos] == 'F':
                    pos += 1
            else:
                break
        return out, sig
    out, sig = block(True)
    return out, ('done' if sig == 'd' else '')


def gate_stream(ctx: Ctx, U, add, small) -> None:
    """While the block of an if/elif clause runs, the project's version range (what FeatureNew/FeatureDeprecated
    read) must be the range in force outside narrowed by the version checks of that clause's own condition and of
    the enclosing clauses — nothing from a sibling clause or an earlier statement — and it must be back afterwards.
    The range in force is read off the real interpreter at every message() call."""
    import copy
    from . import c01_impl
    from mesonbuild import coredata, mesonlib, mlog
    rng = ctx.rng
    impl_i = c01_impl.Impl()
    log: T.List[T.Tuple[int, T.Any]] = []
    warns: T.List[T.Tuple[str, int]] = []
    prev_log, prev_warn = mlog.log, mlog.warning

    def cap_log(*args: T.Any, **kw: T.Any) -> None:
        if args and isinstance(args[0], mlog.AnsiDecorator) and args[0].text == 'Message:' and len(args) > 1 \
                and str(args[1]).startswith('P'):
            log.append((int(str(args[1])[1:]), copy.deepcopy(mesonlib.project_meson_versions.get(impl_i.interp.subproject))))

    def cap_warn(*args: T.Any, **kw: T.Any) -> None:
        txt = ' '.join(str(a) for a in args)
        if 'Conditional on version' in txt:
            loc = kw.get('location')
            warns.append((txt, getattr(loc, 'lineno', -1)))

    cv = coredata.version
    grid = sorted(set(small[::7] + ['0', '0.39', '0.40', '0.45', '0.50', '0.50.0', '0.50.1', '0.63', '0.63.0', '0.99', '1', '1.0',
                                    '1.0.0', '1.0.1', '1.2', '1.2.0', '1.2.1', '1.3', '1.3.0', '1.5', cv, cv + '.1', '2.0', '2.0.0',
                                    '2.1', '98', '99', '99.0', '100']))
    kinds: T.Set[str] = set()
    try:
        mlog.log, mlog.warning = cap_log, cap_warn
        for _ in range(ctx.scale(1200, 12000)):
            pv = rng.choice(['>=0.50', '>=0.63.0', '>= 1.0', '>=1.3', '>0.40'])
            g = GateGen(rng, cv)
            g.lines += ['t = true', 'f = false']
            g.block(U, 0, [])
            code = '\n'.join(g.lines) + '\n'
            prog = ';'.join(g.ktoks)
            del log[:], warns[:]
            impl_i.reset()
            mesonlib.project_meson_versions[impl_i.interp.subproject] = U.version_check_to_range([pv])
            left = ''
            try:
                impl_i.interp.evaluate_codeblock(impl_i.parse(code))
            except BaseException as e:
                if isinstance(e, (KeyboardInterrupt, SystemExit)):
                    raise
                if type(e).__name__ == 'SubdirDoneRequest':
                    left = 'done'
                else:
                    ctx.disagreement({'kind': 'gate', 'input': [pv, code], 'impl': f'ERR:{type(e).__name__}', 'model': 'runs'})
                    continue
            finally:
                after = mesonlib.project_meson_versions.get(impl_i.interp.subproject)
            ctx.count()
            kinds |= g.kinds
            case = {'pv': pv, 'code': code}
            # --- oracle 1: the executed probes are the ones the truth values select, in order
            want_seq, want_left = gate_expected_sequence(g.toks)
            if [n for n, _ in log] != want_seq or left != want_left:
                ctx.violation(f'gate-seq:{pv}:{code!r}', f'blocks executed {[n for n, _ in log]} (left: {left!r}), the conditions '
                              f'and break/continue/subdir_done() select {want_seq} (left: {want_left!r})', case)
                continue
            # --- oracle 2: the range in force at every executed statement
            #   (a) contains the version that is running (the conditions evaluated the way they did FOR that version);
            #   (b) stays inside the project constraint;
            #   (c) contains every version that satisfies the project constraint and every positively counted check
            #       of the enclosing clauses;
            #   (d) is EXACTLY project constraint + enclosing checks when every enclosing condition is one plain check
            bad = None
            for n, r in log:
                if r is None or not hasattr(r, 'intersect'):
                    bad = f'P{n}: no version range in force'
                    break
                path = g.paths[n]
                if U.Version(cv) not in r:
                    bad = (f'P{n}: this statement is being executed by meson {cv}, but the range in force there ({r}) does not '
                           f'contain {cv} (a version check that does not hold for the running version narrowed the range)')
                    break
                exact = all(p['exact'] is not None for p in path)
                for vs in grid:
                    inside = U.Version(vs) in r
                    in_pv = U.version_compare(vs, pv)
                    if inside and not in_pv:
                        bad = f'P{n}: version {vs} is in the range in force ({r}) but violates the project constraint {pv!r}'
                        break
                    want_pos = in_pv and all(U.version_compare(vs, c) for p in path for cl in p['pos'] for c in cl)
                    if want_pos and not inside:
                        bad = (f'P{n}: version {vs} is not in the range in force ({r}) although it satisfies the project '
                               f"constraint {pv!r} and every version check of the enclosing clauses {[p['all'] for p in path]}")
                        break
                    if exact and inside != want_pos:
                        bad = (f"P{n}: version {vs} is {'in' if inside else 'not in'} the range in force ({r}) although it "
                               f"{'satisfies' if want_pos else 'does not satisfy'} the project constraint {pv!r} and the checks "
                               f"of the enclosing clauses {[p['exact'] for p in path]}")
                        break
                if bad:
                    break
            if bad is None and (after is None or show_range(after) != show_range(U.version_check_to_range([pv]))):
                bad = (f'the range in force after the statements ({after}) is not the project range {pv!r} any more '
                       '(a narrowed range outlived its block)')
            # --- oracle 3: "always evaluates to" verdicts only at clauses that make a check, and only when true of every/no version
            seen_lines: T.Set[int] = set()
            for txt, ln in warns:
                if bad:
                    break
                # line numbers: 2 header lines precede the skeleton lines, g.lines is 1-based as written
                cl = g.clause_lines.get(ln)
                if cl is None or cl[0] is None:
                    bad = f'line {ln}: "{txt}" reported at a clause whose condition makes no version check'
                    break
                seen_lines.add(ln)   # (a clause inside a foreach is evaluated once per iteration: repeats are fine)
                info, path = cl
                members = [vs for vs in grid if U.version_compare(vs, pv) and
                           all(U.version_compare(vs, c) for p in path for pl in p['pos'] for c in pl)]
                if not all(p['exact'] is not None for p in path):
                    continue   # the enclosing range is only bounded from both sides, not determined: nothing exact to demand
                sats = [[vs for vs in members if all(U.version_compare(vs, c) for c in checks)] for checks in info['all']]
                if 'evaluates to true' in txt and not any(len(sat) == len(members) for sat in sats):
                    bad = f"line {ln}: said always true, but no version check of the condition {info['all']} holds for all of {members[:6]}…"
                if 'evaluates to false' in txt and not any(not sat for sat in sats):
                    bad = f"line {ln}: said always false, but every version check of the condition {info['all']} holds for some version in range"
            if bad:
                ctx.violation(f'gate:{pv}:{code!r}', bad, case)
            add('gate', [pv, code], f'gatex {enc(pv)}|{enc(cv)}|{prog}', '&'.join(f'{n}:{show_range(r)}' for n, r in log) + ('#done' if left else ''))
            if any(g.paths[n] for n, _ in log):
                ctx.seen_nontrivial(('gate', code))
            if any(p['exact'] is None for n, _ in log for p in g.paths[n]):
                ctx.tag('gate:probe-under-compound-condition')
        for k in sorted(kinds):
            ctx.tag('gate-cond:' + k)
    finally:
        mlog.log, mlog.warning = prev_log, prev_warn
        mesonlib.project_meson_versions.pop(impl_i.interp.subproject, None)
        impl_i.close()


def neighbours(s: str) -> T.Iterable[str]:
    yield s
    for i in range(len(s)):
        yield s[:i] + s[i + 1:]
    for i in range(len(s) + 1):
        for ch in '0a.':
            yield s[:i] + ch + s[i:]


def strings_of(x) -> T.List[str]:
    out = []
    if isinstance(x, str):
        out.append(x)
    elif isinstance(x, (list, tuple)):
        for y in x:
            out += strings_of(y)
    return out


def search(ctx: Ctx, disagreements: T.List[dict]) -> None:
    """failing-input search: the property's predicates on the implementation, around the inputs on
    which model and implementation differ (and over the small exhaustive set when a proof broke)."""
    if ctx.violations:
        return   # the oracle pass already produced a concrete failing input on the implementation
    U = impl()
    seeds: T.List[str] = []
    for d in disagreements:
        if d.get('kind') in ('gate',):
            continue   # whole programs are not version strings; their failing inputs come from the gate oracle itself
        seeds += [x for x in strings_of(d.get('input')) if len(x) <= 64]
    seeds = list(dict.fromkeys(seeds))[:40]
    near = list(dict.fromkeys(itertools.chain.from_iterable(neighbours(s) for s in seeds)))[:600]
    small = small_versions()
    rng = ctx.rng
    for a in near:
        for b in near[:200] + rng.sample(small, 40):
            for (x, y) in ((a, b), (b, a)):
                msg = oracle_pair(U, x, y)
                if msg:
                    ctx.violation(f'pair:{x!r}:{y!r}', msg, {'a': x, 'b': y})
                    return
            for op in OPS:
                if b.strip()[:1] in ('=', '<', '>', '!'):
                    continue
                msg = oracle_vc(U, a, op, '', b)
                if msg:
                    ctx.violation(f'vc:{a!r}:{op + b!r}', msg, {'a': a, 'cond': op + b})
                    return
    for a in near[:60]:
        for b in near[:60]:
            for c in near[:60]:
                msg = oracle_triple(U, a, b, c)
                if msg:
                    ctx.violation(f'triple:{a!r}:{b!r}:{c!r}', msg, {'a': a, 'b': b, 'c': c})
                    return
    probes_s = (near[:30] + rng.sample(small, 20))
    probes = [U.Version(p) for p in probes_s]
    for d in disagreements:
        inp = d.get('input')
        try:
            if d['kind'] in ('intersect', 'always'):
                msg = oracle_ranges(U, mk_range(U, inp[0]), mk_range(U, inp[1]), probes)
                if msg:
                    ctx.violation(f'range:{inp[0]!r}:{inp[1]!r}', msg, {'a': inp[0], 'b': inp[1]})
                    return
            if d['kind'] == 'c2r':
                msg = oracle_c2r(U, inp[0], mk_range(U, inp[1]), probes_s)
                if msg:
                    ctx.violation(f'c2r:{inp[0]!r}:{inp[1]!r}', msg, {'checks': inp[0], 'start': inp[1]})
                    return
            if d['kind'] == 'many':
                msg = oracle_many(U, inp[0], inp[1])
                if msg:
                    ctx.violation(f'many:{inp[0]!r}', msg, {'a': inp[0], 'conds': inp[1]})
                    return
        except Exception as e:  # an escaping exception is not what C19 is about; note it
            ctx.notes.append(f'search: {type(e).__name__} on {d["kind"]}')
    # random deeper pass for ranges
    for _ in range(20000):
        sa, sb = rand_range_spec(rng, near[:50] + small), rand_range_spec(rng, near[:50] + small)
        msg = oracle_ranges(U, mk_range(U, sa), mk_range(U, sb), probes)
        if msg:
            ctx.violation(f'range:{sa!r}:{sb!r}', msg, {'a': sa, 'b': sb})
            return
        checks = [rand_check(rng, near[:30] + small) for _ in range(rng.randint(1, 4))]
        msg = oracle_c2r(U, checks, mk_range(U, sa), probes_s)
        if msg:
            ctx.violation(f'c2r:{checks!r}:{sa!r}', msg, {'checks': checks, 'start': sa})
            return


def replay(ctx: Ctx, rep: dict) -> None:
    U = impl()
    case = rep.get('case', {})
    print('replay', rep.get('what'), case)
    if 'entry' in case:
        from . import c19_entry
        print('entry point', case['entry'], 'receiver', case.get('receiver'), 'constraints', case.get('conds'))
        print('each constraint on the implementation:', [U.version_compare(case.get('receiver', ''), c) for c in case.get('conds', [])])
        print('model:', ctx.driver('ver', [f"entry {case['entry']}|{enc(case.get('receiver', ''))}|{enc_list(case.get('conds', []))}"]))
    if 'code' in case:
        print('project constraint', case.get('pv'))
        print(case['code'])
    if 'a' in case and 'b' in case and isinstance(case['a'], str):
        print('impl oracle:', oracle_pair(U, case['a'], case['b']))
        print('model:', ctx.driver('ver', [f'cmp {enc(case["a"])}|{enc(case["b"])}']))
