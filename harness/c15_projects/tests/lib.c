int l1(void) { return 0; }
