int l3(void) { return 0; }
