int l2(void) { return 0; }
