int f2(void) { return 0; }
