int o(void) { return 0; }
