/* hdr/p.h */
