/* hdr/nested/q.h */
