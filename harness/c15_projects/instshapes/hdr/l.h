/* hdr/l.h */
