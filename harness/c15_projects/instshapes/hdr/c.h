/* hdr/c.h */
