/* hdr/s.h */
