/* hdr/top.h */
