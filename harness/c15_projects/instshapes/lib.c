int lf(void) { return 1; }
