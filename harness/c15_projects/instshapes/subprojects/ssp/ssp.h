/* subprojects/ssp/ssp.h */
