int sf(void) { return 1; }
