/* sub/sh.h */
