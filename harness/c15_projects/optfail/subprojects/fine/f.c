int f(void){return 0;}
