int lib3(void) { return 1; }
