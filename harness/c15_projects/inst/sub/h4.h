/* sub/h4.h */
