/* sub/h3.h */
