/* subprojects/isp/isp.h */
