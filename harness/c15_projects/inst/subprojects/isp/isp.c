int isp(void) { return 2; }
