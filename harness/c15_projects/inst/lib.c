int lib(void) { return 1; }
