int lib4(void) { return 1; }
