int lib2(void) { return 1; }
