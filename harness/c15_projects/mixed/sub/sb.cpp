int sb(){return 0;}
