int sb2(){return 0;}
