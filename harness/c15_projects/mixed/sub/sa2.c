int sa2(void){return 0;}
