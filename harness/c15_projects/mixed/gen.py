#!/usr/bin/env python3
import sys
for p in sys.argv[1:]:
    if not p.startswith('-'):
        open(p, 'w').write('/* generated */\n')
