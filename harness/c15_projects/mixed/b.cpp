int fb(){return 0;}
