int lcpp(){return 0;}
