int l2cpp(){return 0;}
