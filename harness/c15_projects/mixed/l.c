int lc(void){return 0;}
