"""Producer-form matrix for C05: SEVERAL outputs of ONE producer reaching one consumer by different routes and in different forms.

A step that makes more than one file (a custom_target() with a header and a source among its outputs, a generator() list)
can be handed to a build target in many ways, and whatever the way, every output that the documented semantics hands over
must be ordered before the compile statements of the consumer:

  producer        custom_target() whose outputs are laid out [c, h] / [h, c] / [h, h, c] / [c, h, h] (position of the header
                  among the outputs varies), or generator() lists with outputs ['@BASENAME@.c', '@BASENAME@.h']
  reference form  the whole target `ct`, one output `ct[i]`, for generators a list `g.process(..)` of one or of two inputs;
                  the same list object a second time
  route           positional source, `sources:` keyword, `declare_dependency(sources: ..)`, the same one level further down
                  (`declare_dependency(dependencies: d)`), one dependency object that carries several references, a target fed
                  through import('sourceset')
  sequence        every ordered pair of references of a producer (an index then another index, an index then the whole target,
                  the whole target then an index, the same reference twice), singles, and (thorough) random longer sequences

For every cell the consumer's own C file **includes every header the sequence hands over and calls the function of every
generated source it hands over** (the union over the sequence — repeating or mixing forms never takes anything away), so a
reference that is dropped, merged with another one or deduplicated by the wrong key leaves either a compile statement that
includes a header no declared ancestor produces (hermetic replay fails) or a link statement with an undefined function (fails
under every schedule).  Nothing here knows how the implementation stores the references.
"""
from __future__ import annotations

import itertools
import os
import typing as T

TOOL_PY = open(os.path.join(os.path.dirname(__file__), 'c05_projects', 'tool.py'), encoding='utf-8').read()

LAYOUTS: T.Dict[str, T.Tuple[str, ...]] = {
    'ch': ('c', 'h'),
    'hc': ('h', 'c'),
    'hhc': ('h', 'h', 'c'),
    'chh': ('c', 'h', 'h'),
}
ROUTES = ['pos', 'kw', 'dep', 'dep2', 'depshared', 'sourceset']
CONSUMERS = ['static_library', 'executable', 'static_library', 'shared_library', 'static_library', 'both_libraries']

Ref = T.Union[str, int]     # 'W' = the whole custom target, i = ct[i]


def ref_pairs(n: int) -> T.List[T.Tuple[Ref, Ref]]:
    refs: T.List[Ref] = ['W'] + list(range(n))
    return [(a, b) for a in refs for b in refs]


def priv_dir(kind: str, name: str) -> str:
    """the private directory of a target in the build root (both_libraries: the shared half holds the compile statements, the
    static half takes its objects — b_staticpic is on in these projects)"""
    return {'executable': f'{name}.p', 'static_library': f'lib{name}.a.p', 'shared_library': f'lib{name}.so.p',
            'both_libraries': f'lib{name}.so.p'}[kind]


def new_state() -> dict:
    return {'pos': [], 'kw': [], 'deps': [], 'shared': [], 'tpos': [], 'tkw': [], 'tdeps': [], 'tshared': [],
            'tlw': [], 'tlwh': [], 'link_kw': [], 'assign': None}


LINK_HOWS = ['link_with', 'link_whole', 'dep-link_with', 'dep-link_whole', 'dep2-link_with']


class FormGen:
    def __init__(self, rng):
        self.rng = rng
        self.files: T.Dict[str, str] = {'tool.py': TOOL_PY}
        self.root: T.List[str] = ["project('c05 forms', 'c')", "tool = find_program('tool.py')",
                                  "inc_root = include_directories('.')", "ssmod = import('sourceset')"]
        self.sub: T.List[str] = ["inc_gen = include_directories('.')"]
        self.use_sub = False
        self.n = 0
        self.cells: T.List[dict] = []
        self.cons = itertools.cycle(CONSUMERS)
        # the abstract target table of the project (what the Lean derivation model is run on): dependency records and
        # target records refer to each other by index; a generated element is ('C', dir, outs) / ('I', dir, out) / ('L', outs)
        self.tdeps: T.List[dict] = []
        self.ttgts: T.List[dict] = []
        self.libs: T.List[dict] = []
        self.root.append("g = generator(tool, output: ['@BASENAME@.c', '@BASENAME@.h'], "
                         "arguments: ['gen', '@INPUT@', '@OUTPUT0@', '@OUTPUT1@'])")

    def nid(self) -> int:
        self.n += 1
        return self.n

    # ---- producers
    def custom_target(self, layout: str, in_sub: bool) -> dict:
        k = self.nid()
        kinds = LAYOUTS[layout]
        outs = [f'fp{k}_{i}.{x}' for i, x in enumerate(kinds)]
        var = f'fp{k}'
        line = (f"{var} = custom_target('{var}', output: [{', '.join(repr(o) for o in outs)}], "
                f"command: [tool, 'multi', '@OUTPUT@'])")
        if in_sub:
            self.sub.append(line)
            self.use_sub = True
        else:
            self.root.append(line)
        return {'var': var, 'layout': layout, 'outs': outs, 'kinds': kinds, 'inc': 'inc_gen' if in_sub else 'inc_root',
                'dir': 'gen' if in_sub else ''}

    def new_dep(self, **kw) -> int:
        self.tdeps.append(dict({'sources': [], 'deps': [], 'libs': [], 'whole': []}, **kw))
        return len(self.tdeps) - 1

    # ---- placing one reference on a consumer
    def place(self, out: T.List[str], expr: str, route: str, st: dict, gen: tuple) -> None:
        """st collects: positional args, `sources:` items, dependency expressions, the sources of the shared dependency
        (and the same in table form: 'tpos'/'tkw' generated elements, 'tdeps' dependency indices, 'tshared')"""
        if route == 'pos':
            st['pos'].append(expr)
            st['tpos'].append(gen)
        elif route == 'kw':
            st['kw'].append(expr)
            st['tkw'].append(gen)
        elif route == 'dep':
            v = f'fd{self.nid()}'
            out.append(f'{v} = declare_dependency(sources: {expr})')
            st['deps'].append(v)
            st['tdeps'].append(self.new_dep(sources=[gen]))
        elif route == 'dep2':
            v = f'fd{self.nid()}'
            out.append(f'{v}_i = declare_dependency(sources: [{expr}])')
            out.append(f'{v} = declare_dependency(dependencies: {v}_i)')
            st['deps'].append(v)
            st['tdeps'].append(self.new_dep(deps=[self.new_dep(sources=[gen])]))
        elif route == 'depshared':
            st['shared'].append(expr)
            st['tshared'].append(gen)
        else:
            raise AssertionError(route)

    def consumer(self, out: T.List[str], k: int, kind: str, body: str, st: dict, incs: T.List[str], sourceset: bool) -> None:
        name = f'fc{k}'
        self.files[f'{name}.c'] = body
        deps = list(st['deps'])
        tdeps = list(st['tdeps'])
        if st['shared']:
            v = f'fs{k}'
            out.append(f"{v} = declare_dependency(sources: [{', '.join(st['shared'])}])")
            deps.append(v)
            tdeps.append(self.new_dep(sources=list(st['tshared'])))
        self.ttgts.append({'name': name, 'kind': kind, 'priv': priv_dir(kind, name), 'sources': st['tpos'] + st['tkw'],
                           'deps': tdeps, 'linkWith': list(st.get('tlw', [])), 'linkWhole': list(st.get('tlwh', []))})
        incs = sorted(set(incs))
        if sourceset:
            # everything the cell hands over goes through a source set: sources as if_true, dependencies as `when:`
            out.append(f'ss{k} = ssmod.source_set()')
            srcs = [f"files('{name}.c')"] + st['pos'] + st['kw']
            when = f"when: [{', '.join(deps)}], " if deps else ''
            out.append(f"ss{k}.add({when}if_true: [{', '.join(srcs)}])")
            out.append(f'sc{k} = ss{k}.apply(configuration_data())')
            kw = f", include_directories: [{', '.join(incs)}]" if incs else ''
            out.append(f"{kind}('{name}', sc{k}.sources(), dependencies: sc{k}.dependencies(){kw})")
            return
        args = [repr(name), repr(f'{name}.c')] + st['pos']
        if st['kw']:
            args.append(f"sources: [{', '.join(st['kw'])}]")
        if deps:
            args.append(f"dependencies: [{', '.join(deps)}]")
        if incs:
            args.append(f"include_directories: [{', '.join(incs)}]")
        args += st.get('link_kw', [])
        out.append((st['assign'] + ' = ' if st.get('assign') else '') + f"{kind}({', '.join(args)})")

    @staticmethod
    def body(k: int, hdrs: T.List[str], macros: T.List[str], funcs: T.List[str], main: bool) -> str:
        t = ''.join(f'#include "{h}"\n' for h in hdrs)
        t += ''.join(f'int {f}(void);\n' for f in funcs)
        expr = ' + '.join([str(k)] + macros + [f + '()' for f in funcs])
        if main:
            return t + f'int main(void) {{ return ({expr}) == -1; }}\n'
        return t + f'int fc{k}_fn(void) {{ return {expr}; }}\n'

    # ---- one cell over a custom target
    def ct_cell(self, prod: dict, seq: T.List[T.Tuple[Ref, str]], kind: T.Optional[str] = None) -> None:
        k = self.nid()
        kind = kind or next(self.cons)
        st = new_state()
        sourceset = any(r == 'sourceset' for _x, r in seq)
        got: T.Set[int] = set()
        for ref, route in seq:
            expr = prod['var'] if ref == 'W' else f"{prod['var']}[{ref}]"
            got |= set(range(len(prod['outs']))) if ref == 'W' else {T.cast(int, ref)}
            gen = ('C', prod['dir'], list(prod['outs'])) if ref == 'W' else ('I', prod['dir'], prod['outs'][T.cast(int, ref)])
            self.place(self.root, expr, 'pos' if route == 'sourceset' else route, st, gen)
        hdrs = [prod['outs'][i] for i in sorted(got) if prod['kinds'][i] == 'h']
        funcs = [prod['outs'][i][:-2] for i in sorted(got) if prod['kinds'][i] == 'c']
        body = self.body(k, hdrs, [h[:-2].upper() for h in hdrs], funcs, kind == 'executable')
        self.consumer(self.root, k, kind, body, st, [prod['inc']] if hdrs else [], sourceset)
        self.cells.append({'consumer': f'fc{k}', 'kind': kind, 'producer': 'custom_target:' + prod['layout'],
                           'sequence': [[r, route] for r, route in seq], 'headers': hdrs, 'functions': funcs})

    # ---- one cell over generator lists
    def gen_cell(self, seq: T.List[T.Tuple[T.Tuple[str, ...], str]], kind: T.Optional[str] = None) -> None:
        """seq: ((input stems…) or ('=',) for "the previous list object again", route)"""
        k = self.nid()
        kind = kind or next(self.cons)
        st = new_state()
        sourceset = any(r == 'sourceset' for _x, r in seq)
        idents: T.List[str] = []
        last = None
        desc = []
        gen: tuple = ('L', [])
        for stems, route in seq:
            if stems == ('=',) and last:
                var = last
                desc.append(['same-list', route])
            else:
                names = []
                for s in stems:
                    ident = f'fg{k}{s}'
                    self.files[ident + '.in'] = ident + '\n'
                    names.append(ident)
                idents += names
                var = f'fl{self.nid()}'
                self.root.append(f"{var} = g.process({', '.join(repr(n + '.in') for n in names)})")
                last = var
                desc.append([f'list-of-{len(names)}', route])
                gen = ('L', [n + e for n in names for e in ('.c', '.h')])
            self.place(self.root, var, 'pos' if route == 'sourceset' else route, st, gen)
        hdrs = [i + '.h' for i in idents]
        body = self.body(k, hdrs, [i.upper() for i in idents], idents, kind == 'executable')
        self.consumer(self.root, k, kind, body, st, [], sourceset)
        self.cells.append({'consumer': f'fc{k}', 'kind': kind, 'producer': 'generator', 'sequence': desc,
                           'headers': hdrs, 'functions': idents})

    # ---- libraries with generator-made headers, and consumers that reach them through the link closure
    def lib_cell(self, kind: str, link: T.Sequence[T.Tuple[int, str]] = ()) -> int:
        """a library whose own source includes the header of its generator list (and those of the libraries it links);
        -> its index in self.libs"""
        k = self.nid()
        ident = f'fl{k}g'
        self.files[ident + '.in'] = ident + '\n'
        st = new_state()
        st['assign'] = f'flib{k}'
        self.place(self.root, f"g.process('{ident}.in')", 'pos', st, ('L', [ident + '.c', ident + '.h']))
        reach = self.link_into(st, link)
        hdrs = [ident + '.h'] + [h for h, _m in reach]
        body = self.body(k, hdrs, [ident.upper()] + [m for _h, m in reach], [ident], False)
        self.consumer(self.root, k, kind, body, st, ['inc_root'] if reach else [], False)
        me = {'var': f'flib{k}', 'tgt': len(self.ttgts) - 1, 'kind': kind,
              'reach': [(priv_dir(kind, f'fc{k}') + '/' + ident + '.h', ident.upper())] + reach}
        self.libs.append(me)
        self.cells.append({'consumer': f'fc{k}', 'kind': kind, 'producer': 'generator-in-library',
                           'sequence': [[h, 'link:' + how] for (i, how), h in zip(link, [self.libs[i]['var'] for i, _ in link])],
                           'headers': hdrs, 'functions': [ident]})
        return len(self.libs) - 1

    def link_into(self, st: dict, link: T.Sequence[T.Tuple[int, str]]) -> T.List[T.Tuple[str, str]]:
        """how ∈ link_with | link_whole | dep-link_with | dep-link_whole | dep2-link_with; -> reached (header path, macro)"""
        reach: T.List[T.Tuple[str, str]] = []
        lw, lwh = [], []
        for i, how in link:
            lb = self.libs[i]
            reach += [x for x in lb['reach'] if x not in reach]
            if how == 'link_with':
                lw.append(lb['var'])
                st['tlw'].append(lb['tgt'])
            elif how == 'link_whole':
                lwh.append(lb['var'])
                st['tlwh'].append(lb['tgt'])
            else:
                v = f'fd{self.nid()}'
                whole = how.endswith('link_whole')
                self.root.append(f"{v} = declare_dependency({'link_whole' if whole else 'link_with'}: {lb['var']})")
                d = self.new_dep(**{'whole' if whole else 'libs': [lb['tgt']]})
                if how.startswith('dep2'):
                    self.root.append(f'{v}_o = declare_dependency(dependencies: {v})')
                    v, d = v + '_o', self.new_dep(deps=[d])
                st['deps'].append(v)
                st['tdeps'].append(d)
        if lw:
            st['link_kw'].append(f"link_with: [{', '.join(lw)}]")
        if lwh:
            st['link_kw'].append(f"link_whole: [{', '.join(lwh)}]")
        return reach

    def reach_cell(self, link: T.Sequence[T.Tuple[int, str]], kind: T.Optional[str] = None) -> None:
        """a consumer whose only source includes every generator-made header of the libraries it reaches"""
        k = self.nid()
        kind = kind or next(self.cons)
        st = new_state()
        reach = self.link_into(st, link)
        body = self.body(k, [h for h, _m in reach], [m for _h, m in reach], [], kind == 'executable')
        self.consumer(self.root, k, kind, body, st, ['inc_root'], False)
        self.cells.append({'consumer': f'fc{k}', 'kind': kind, 'producer': 'generator-in-library',
                           'sequence': [[self.libs[i]['var'], 'link:' + how] for i, how in link],
                           'headers': [h for h, _m in reach], 'functions': []})

    def finish(self) -> dict:
        lines = list(self.root)
        if self.use_sub:
            # the producers of gen/ are needed by consumers of the root: enter the directory right after the prelude
            lines.insert(5, "subdir('gen')")
            self.files['gen/meson.build'] = '\n'.join(self.sub) + '\n'
        self.files['meson.build'] = '\n'.join(lines) + '\n'
        feats = sorted({'forms:producer:' + c['producer'] for c in self.cells})
        return {'files': self.files, 'form_cells': self.cells, 'features': feats,
                'table': {'deps': self.tdeps, 'tgts': self.ttgts}}


GEN_SEQS: T.List[T.List[T.Tuple[T.Tuple[str, ...], str]]] = [
    [(('a',), 'pos')],
    [(('a', 'b'), 'pos')],
    [(('a',), 'pos'), (('b',), 'dep')],
    [(('a',), 'dep'), (('b',), 'pos')],
    [(('a',), 'dep'), (('b',), 'dep2')],
    [(('a',), 'depshared'), (('b',), 'depshared')],
    [(('a',), 'kw'), (('b', 'c'), 'pos')],
    [(('a',), 'sourceset'), (('b',), 'dep')],
]


def route_pair(rng, first: bool) -> T.Tuple[str, str]:
    """a pair of routes; sourceset applies to the whole cell"""
    a = rng.choice(ROUTES[:5])
    b = rng.choice(ROUTES[:5])
    if rng.random() < 0.12:
        a = 'sourceset'
    return a, b


def gen_layout(rng, layout: str, n_long: int = 0, generator_cells: bool = False, extra: float = 0.0,
               singles: bool = True) -> dict:
    """one project: every ordered pair of references (and every single one) of a custom target with the given output layout,
    each pair under a random pair of routes but with (positional, positional) and (positional, dependency) guaranteed for the
    pairs of two *different* references; plus `n_long` random longer sequences; plus the generator cells"""
    g = FormGen(rng)
    prod = g.custom_target(layout, in_sub=rng.random() < 0.5)
    prod2 = g.custom_target(layout, in_sub=rng.random() < 0.5)
    n = len(prod['outs'])
    refs: T.List[Ref] = ['W'] + list(range(n))
    for r in refs if singles else []:
        g.ct_cell(prod, [(r, rng.choice(ROUTES))])
    fixed = itertools.cycle([('pos', 'pos'), ('pos', 'dep'), ('dep', 'pos'), ('dep', 'dep'), ('kw', 'dep2'), ('depshared', 'depshared')])
    for a, b in ref_pairs(n):
        p = rng.choice([prod, prod2])
        if a != b:
            g.ct_cell(p, list(zip((a, b), next(fixed))))
            if rng.random() < extra:
                g.ct_cell(p, list(zip((a, b), route_pair(rng, True))))
        else:
            g.ct_cell(p, list(zip((a, b), route_pair(rng, True))))
    for _ in range(n_long):
        ln = rng.choice([3, 3, 4])
        seq = [(rng.choice(refs), rng.choice(ROUTES[:5])) for _ in range(ln)]
        if rng.random() < 0.15:
            seq[0] = (seq[0][0], 'sourceset')
        g.ct_cell(rng.choice([prod, prod2]), seq)
    if generator_cells:
        for seq in GEN_SEQS:
            g.gen_cell(seq)
        reach_cells(g, rng)
    spec = g.finish()
    spec['features'].append('forms:layout:' + layout)
    return spec


def reach_cells(g: FormGen, rng) -> None:
    """libraries with generator-made headers: a static one, a library of random kind on top of it, and consumers that reach
    them by every way of linking"""
    a = g.lib_cell('static_library')
    b = g.lib_cell(rng.choice(['static_library', 'shared_library']), [(a, rng.choice(['link_with', 'link_whole', 'dep-link_with']))])
    for how in LINK_HOWS:
        lb = rng.choice([a, a, b])
        if how.endswith('link_whole') and g.libs[lb]['kind'] != 'static_library':
            lb = a
        g.reach_cell([(lb, how)])
    g.reach_cell([(b, 'link_with')], 'executable')


def gen_random(rng, n_cells: int) -> dict:
    """random cells over all layouts (used with option variants: unity, default_library)"""
    g = FormGen(rng)
    prods = [g.custom_target(lay, in_sub=rng.random() < 0.5) for lay in LAYOUTS]
    for _ in range(n_cells):
        if rng.random() < 0.2:
            g.gen_cell(rng.choice(GEN_SEQS))
            continue
        p = rng.choice(prods)
        refs: T.List[Ref] = ['W'] + list(range(len(p['outs'])))
        ln = rng.choice([2, 2, 2, 3])
        seq = [(rng.choice(refs), rng.choice(ROUTES[:5])) for _ in range(ln)]
        if rng.random() < 0.12:
            seq[0] = (seq[0][0], 'sourceset')
        g.ct_cell(p, seq)
    spec = g.finish()
    spec['features'].append('forms:random')
    return spec


# ---------------------------------------------------------------- the table, for the Lean derivation model

CLS = {'source': 0, 'object': 1, 'library': 2, 'header': 3, 'other': 4}
KIND = {'executable': 0, 'static_library': 1, 'both_libraries': 2, 'shared_library': 2}


def classify(name: str) -> T.Tuple[int, bool]:
    """what the live suffix tests of the backend say about a file name, asked in the order of generate_target's loop;
    -> (class, consistent): `is_header` (the only test get_generated_headers makes) must agree with the cascade"""
    from mesonbuild import compilers, modules
    if compilers.is_source(name):
        c = 'source'
    elif compilers.is_object(name):
        c = 'object'
    elif compilers.is_library(name) or modules.is_module_library(name):
        c = 'library'
    elif compilers.is_header(name):
        c = 'header'
    else:
        c = 'other'
    return CLS[c], bool(compilers.is_header(name)) == (c == 'header')


def encode_table(table: dict, enc: T.Callable[[str], str]) -> T.Tuple[str, bool]:
    """-> (request line of the driver command `hdeps`, every name classified consistently)"""
    ok = True

    def out(name: str) -> str:
        nonlocal ok
        c, good = classify(name)
        ok = ok and good
        return f'{enc(name)}^{c}'

    def gen(g: tuple) -> str:
        if g[0] == 'C':
            return f"C!{enc(g[1])}!{'~'.join(out(o) for o in g[2])}"
        if g[0] == 'I':
            return f'I!{enc(g[1])}!{out(g[2])}'
        return f"L!{'~'.join(out(o) for o in g[1])}"

    def nats(l: T.Sequence[int]) -> str:
        return ' '.join(str(x) for x in l)

    ds = ';'.join(':'.join([','.join(gen(g) for g in d['sources']), nats(d['deps']), nats(d['libs']), nats(d['whole'])])
                  for d in table['deps'])
    ts = ';'.join(':'.join([str(KIND[t['kind']]), enc(t['priv']), ','.join(gen(g) for g in t['sources']), nats(t['deps']),
                            nats(t['linkWith']), nats(t['linkWhole'])]) for t in table['tgts'])
    return f'hdeps {ds}|{ts}', ok
