"""C17 — the introduced-value family: strings that a rewriter COMMAND brings into the build file (as opposed to text that
is already there and is merely re-printed).

A command hands its values to code that BUILDS StringNodes (MTypeStr.new_node, MTypeStrList._new_element_node,
add_src_or_extra, target_add); how such a node is spelled in the file is decided by different code than for a parsed
literal (raw_value is whatever the builder put there). The family is the product

    command kinds that introduce a string  ×  hostile value alphabet

The kinds are harvested from the live `rewriter_func_kwargs` (every (function, keyword) whose modifier class builds
strings, for `set` and — list-valued — `add`), plus default-options set, src_add, extra_files_add, target_add (source
names and the target name). The alphabet covers what needs escaping or is layout-hostile: quote, backslash at the end /
in the middle / doubled / before a quote, every backslash sequence the live ESCAPE_SEQUENCE_SINGLE_RE decodes (harvested),
raw newline / CR / tab, blanks before a newline, non-ASCII, '@', leading / trailing blanks, '#', double quotes, brackets.

Judged by the ordinary C17 oracle (harness/c17.py oracle_step: the file parses, the addressed keyword / source set read
back by the real parser is EXACTLY the requested value, everything else unchanged) plus `info`.
"""
from __future__ import annotations

import os
import re
import typing as T

BASE_HEAD = "project('demo', version: '1.0', license: ['MIT'], default_options: ['warning_level=1'])\nn = 3\n"
BASE_DEP = "dep0 = dependency('zdep0', version: ['>=1.0'], modules: ['core'], required: false)\n"
BASE_TGT = ("t0 = executable('t0', 's0.c', 's1.c', extra_files: ['e0.txt'], c_args: ['-DK=\\'v\\'', 'a\\\\b', 'é'], "
            "install: not (n == 3))  # keep\nz = 1\n")
# the same statements with every string keyword the `kwargs` command knows already PRESENT (set replaces a node)
FULL_HEAD = ("project('demo', version: '1.0', license: ['MIT'], license_files: ['COPYING'], meson_version: '>=0.50', "
             "subproject_dir: 'sp', default_options: ['warning_level=1'])\nn = 3\n")
FULL_DEP = ("dep0 = dependency('zdep0', version: ['>=1.0'], modules: ['core'], required: false, language: 'c', method: 'auto', "
            "not_found_message: 'nf')\n")
FULL_TGT = ("t0 = executable('t0', 's0.c', 's1.c', extra_files: ['e0.txt'], c_args: ['-DK=\\'v\\'', 'a\\\\b', 'é'], "
            "install_dir: 'dir/x', build_rpath: 'r', install_rpath: 'ir', install: not (n == 3))  # keep\nz = 1\n")

POOL = ['s%d.c' % i for i in range(4)]
EPOOL = ['e%d.txt' % i for i in range(2)]


def harvest_escape_letters() -> T.List[str]:
    """every single character c for which the LIVE string-literal decoder turns backslash+c into something else"""
    from mesonbuild import mparser
    out = []
    for o in range(0x20, 0x7f):
        c = chr(o)
        raw = 'p\\' + c + 'q'
        try:
            v = mparser.StringNode(mparser.Token('string', '', 0, 0, 0, None, raw)).value
        except Exception:
            v = None
        if v != raw:
            out.append(c)
    return out


def alphabet() -> T.List[T.Tuple[str, str]]:
    """(class, value)"""
    vals: T.List[T.Tuple[str, str]] = [
        ('quote', "it's"), ('quote', "'"), ('quote', "'x'"), ('quote', "a''"),
        ('backslash-end', 'C:/dir\\'), ('backslash-end', '\\'),
        ('backslash-mid', 'a\\d'), ('backslash-mid', 'C:\\new\\table'), ('backslash-double', 'a\\\\b'),
        ('backslash-quote', "a\\'b"), ('backslash-quote', "\\'"),
        ('escape-form', '\\x41z'), ('escape-form', '\\101z'), ('escape-form', '\\u00e9z'), ('escape-form', '\\U0001F600'),
        ('escape-form', '\\N{DEGREE SIGN}'),
        ('newline', 'l1\nl2'), ('newline', 'end\n'), ('cr', 'a\rb'), ('cr', 'a\r\nb'), ('blank-newline', 'a \nb'),
        ('tab', 'a\tb'), ('formfeed', 'a\x0cb'),
        ('non-ascii', 'é中😀'), ('non-ascii', 'naïve'),
        ('at', '@0@'), ('at', '@BASENAME@'), ('at', '@'), ('at', 'a@b@c'),
        ('blank', ' lead'), ('blank', 'trail '), ('blank', ' '), ('blank', 'a  b'),
        ('other', 'say "hi"'), ('other', 'a#b'), ('other', "'''"), ('other', 'x, y'), ('other', '[a]'), ('other', 'k: v'),
        ('other', '$ORIGIN/../lib'), ('other', '%s{}'), ('other', 'plain'),
        ('identifier', 'foo.bar'), ('identifier', '3dview'), ('identifier', 'c++lib'), ('identifier', 'a-b c'),
    ]
    for c in harvest_escape_letters():
        vals.append(('escape-letter', 'p\\' + c + 'q'))
    seen: T.Set[str] = set()
    out = []
    for k, v in vals:
        if v not in seen:
            seen.add(v)
            out.append((k, v))
    return out


def introduced_strings(cmd: T.Dict[str, T.Any]) -> T.List[str]:
    """the string values a command asks to write into the build file"""
    typ, op = cmd.get('type'), cmd.get('operation')
    out: T.List[str] = []
    if typ == 'kwargs' and op in ('set', 'add'):
        for v in (cmd.get('kwargs') or {}).values():
            for x in (v if isinstance(v, list) else [v]):
                if isinstance(x, str):
                    out.append(x)
    elif typ == 'default_options' and op == 'set':
        out += [str(v) for v in (cmd.get('options') or {}).values()]
    elif typ == 'target' and op in ('src_add', 'extra_files_add', 'target_add'):
        out += [x for x in cmd.get('sources', []) if isinstance(x, str)]
        if op == 'target_add':
            out.append(str(cmd.get('target')))
    return out


def introduced_hazards(cmd: T.Dict[str, T.Any]) -> T.Set[str]:
    """recorded defects of AstPrinter that an introduced value runs into exactly like a re-printed one (same code path)"""
    keys: T.Set[str] = set()
    for s in introduced_strings(cmd):
        if '\r' in s:
            keys.add('reprint:carriage-return-in-string-printed-raw')
        if re.search(r'\s\n', s):
            keys.add('reprint:whitespace-before-newline-in-string-lost')
    return keys


def harvest_kinds() -> T.List[T.Tuple[str, str, str, str]]:
    """(function, keyword, 'str' | 'list', modifier class name) from the live table"""
    from mesonbuild import rewriter as RW
    out = []
    for fn, kws in sorted(RW.rewriter_func_kwargs.items()):
        for k, cls in sorted(kws.items()):
            probe: T.Any = None
            try:
                probe = cls.new_node('x')
            except Exception:
                probe = None
            M = type(probe).__name__
            if M == 'StringNode':
                shape = 'list' if issubclass(cls, RW.MTypeList) else 'str'
                out.append((fn, k, shape, cls.__name__))
    return out


_IDS = {'project': '/', 'target': 't0', 'dependency': 'dep0'}


def _mk(label: str, text: str, cmds: T.List[T.Dict[str, T.Any]], klass: str, value: str, extra_files: T.List[str]) -> T.Dict[str, T.Any]:
    files = {f: '' for f in POOL + EPOOL + ['new0.c', 'newe0.txt']}
    for x in extra_files:            # the named file exists (a replayed case creates it too: meta.allfiles)
        if x:
            files[os.path.normpath(x)] = ''
    files['meson.build'] = text
    return {'files': files, 'cmds': cmds, 'mode': 'single', 'prints': False, 'script': len(cmds) > 1, 'intro': label,
            'intro_class': klass, 'intro_value': value,
            'meta': {'pool': POOL, 'extra_pool': EPOOL, 'shared': [], 'targets': {}, 'deps': {}, 'project': {},
                     'hazard': 'introduced', 'allfiles': sorted({os.path.normpath(x) for x in extra_files if x})}}


def cases(values: T.Optional[T.List[T.Tuple[str, str]]] = None) -> T.List[T.Dict[str, T.Any]]:
    vals = alphabet() if values is None else values
    out: T.List[T.Dict[str, T.Any]] = []
    plain, full = BASE_HEAD + BASE_DEP + BASE_TGT, FULL_HEAD + FULL_DEP + FULL_TGT
    kinds = harvest_kinds()
    for klass, v in vals:
        for fn, key, shape, _cls in kinds:
            ident = _IDS.get(fn)
            if ident is None:
                continue
            for variant, text in (('absent', plain), ('present', full)):
                if key == 'default_options' and variant == 'present':
                    continue
                head = {'type': 'kwargs', 'function': fn, 'id': ident}
                # entries of default_options are `key=value` texts: the hostile part is the value of a free-form option
                lv, lplain = (('mandir=' + v, 'werror=true') if key == 'default_options' else (v, 'plain'))
                if shape == 'str':
                    out.append(_mk(f'kwargs-set:{fn}.{key}:{variant}', text,
                                   [dict(head, operation='set', kwargs={key: v})], klass, v, []))
                else:
                    if variant == 'absent':
                        out.append(_mk(f'kwargs-set-list:{fn}.{key}', text,
                                       [dict(head, operation='set', kwargs={key: [lv, lplain]})], klass, v, []))
                    else:
                        # add, then remove the same value again: the list must be what it was
                        out.append(_mk(f'kwargs-add-list:{fn}.{key}', text,
                                       [dict(head, operation='add', kwargs={key: [lv]}),
                                        dict(head, operation='remove', kwargs={key: [lv]})], klass, v, []))
        for opt in ('mandir',):
            out.append(_mk(f'default-options-set:{opt}', plain,
                           [{'type': 'default_options', 'operation': 'set', 'options': {opt: v}},
                            {'type': 'default_options', 'operation': 'delete', 'options': {opt: None}}], klass, v, []))
        if v.strip() and os.path.normpath(v) == v and not v.startswith('/'):
            # a file name: add it, `info` must report it, removing it again restores the source set
            for text_label, text in (('inline', plain),
                                     ('files', plain.replace("'s0.c', 's1.c', extra_files: ['e0.txt']",
                                                             "files('s0.c', 's1.c'), extra_files: files('e0.txt')"))):
                out.append(_mk(f'src_add:{text_label}', text,
                               [{'type': 'target', 'target': 't0', 'operation': 'src_add', 'sources': [v]},
                                {'type': 'target', 'target': 't0', 'operation': 'src_rm', 'sources': [v]}], klass, v, [v]))
                out.append(_mk(f'extra_files_add:{text_label}', text,
                               [{'type': 'target', 'target': 't0', 'operation': 'extra_files_add', 'sources': [v]},
                                {'type': 'target', 'target': 't0', 'operation': 'extra_files_rm', 'sources': [v]}], klass, v, [v]))
            out.append(_mk('target_add:source-name', plain,
                           [{'type': 'target', 'target': 'nx', 'operation': 'target_add', 'sources': [v, 'new0.c'],
                             'target_type': 'executable', 'subdir': ''},
                            {'type': 'target', 'target': 'nx', 'operation': 'src_rm', 'sources': [v]}], klass, v, [v]))
        if v.strip() and '/' not in v:
            for tt in ('executable', 'static_library'):
                out.append(_mk(f'target_add:target-name:{tt}', plain,
                               [{'type': 'target', 'target': v, 'operation': 'target_add', 'sources': ['new0.c'],
                                 'target_type': tt, 'subdir': ''},
                                {'type': 'target', 'target': v, 'operation': 'src_add', 'sources': ['s1.c']},
                                {'type': 'target', 'target': v, 'operation': 'target_rm'}], klass, v, []))
    return out
