"""C13 — compiler argument lists honour the append/override/dedup contract.

Implementation under test: `mesonbuild.arglist.CompilerArgs`, `CLikeCompilerArgs`, `DCompilerArgs`
(real classes, in-process, stub compiler).  Model: `lean/MesonModel/ArgList/Model.lean` through
`mvdriver-arglist`.  Oracle: the eager reference list of the property statement, re-implemented here in
Python from the statement (no Lean in the loop), applied to the real objects' results.
"""
from __future__ import annotations

import itertools
import os
import typing as T

from . import common
from .common import Ctx, enc, enc_list, dec_list

ID = 'C13'
LEVEL = 'proof'
LEAN_TARGETS = ['MesonModel.Props.C13']
AREAS = ['arglist']
PINS = [
    'mesonbuild.arglist:CompilerArgs',
    'mesonbuild.arglist:Dedup',
    'mesonbuild.compilers.mixins.clike:CLikeCompilerArgs',
    'mesonbuild.compilers.d:DCompilerArgs',
    'mesonbuild.build:BuildTarget.get_single_compile_base_args',
    'mesonbuild.build:BuildTarget._generate_single_compile_base_args',
    'mesonbuild.compilers.compilers:Compiler.unix_args_to_native',
    'mesonbuild.compilers.compilers:Compiler._unix_args_to_native',
    'mesonbuild.backend.backends:Backend.generate_basic_compiler_args',
    'mesonbuild.backend.backends:Backend.escape_extra_args',
    'mesonbuild.backend.ninjabackend:NinjaBackend._generate_single_compile',
    'mesonbuild.backend.ninjabackend:NinjaBackend._generate_single_compile_target_args',
]
TRUSTED = [
    'stub compiler: unix_args_to_native is the identity, get_default_include_dirs returns fixed absolute paths',
    'os.path.realpath is the identity on the generated -isystem paths (absolute, normalised, no symlinks, '
    'or relative names that do not resolve into a default directory); os.path.isabs is "starts with /"',
    'arguments are str without newline handling differences beyond ASCII; batches are lists of str '
    '(a bare str or a non-iterable passed to += is outside the domain)',
    'integer indices only for []/del/insert (no slices)',
    'sharing: the reference-level Lean model assumes separation (Sep) of list objects; on the implementation the harness checks after '
    'every operation that no two live objects and no object and caller-owned list share a list object (id), and the frame conditions',
    'end-to-end leg: fake nasm/ninja programs on PATH, real gcc detection; ARGS read from build.ninja with a line regex',
    'real-compiler to_native leg: gcc/clang found on this machine by meson\'s own detection; other linker flavours are the real compiler '
    'object with its `linker` attribute replaced by an uninitialised instance of the real linker class; os.path.realpath (CPython) decides '
    'which generated paths name a default include directory, for the model and for the oracle',
    'assembly leg: the real Backend.generate_basic_compiler_args / NinjaBackend._generate_single_compile_target_args / '
    '_generate_single_compile / BuildTarget._generate_single_compile_base_args run on uninitialised real target and backend objects whose '
    'argument sources (compiler.get_*_args, build.get_project_args, ...) return the generated abstract groups; generate_inc_dir and the '
    'vala branches are outside (not generated)',
]

GEN_PATH = os.path.join(common.LEAN, 'MesonModel', 'Generated', 'ArgTables.lean')
TABLE_FIELDS = [('prependPrefixes', 'prepend_prefixes'), ('dedup2Prefixes', 'dedup2_prefixes'),
                ('dedup2Suffixes', 'dedup2_suffixes'), ('dedup2Args', 'dedup2_args'),
                ('dedup1Prefixes', 'dedup1_prefixes'), ('dedup1Suffixes', 'dedup1_suffixes'),
                ('dedup1Args', 'dedup1_args'), ('alwaysDedupArgs', 'always_dedup_args')]
DEFAULT_DIRS = ['/nonexistent-mverif/include', '/nonexistent-mverif/sys']


# ------------------------------------------------------------------ implementation side

KNOWN_NAMES = {'CompilerArgs': 'base', 'CLikeCompilerArgs': 'clike', 'DCompilerArgs': 'd'}
_CLASSES: T.Dict[str, T.Any] = {}


def classes():
    """`CompilerArgs` and every subclass that exists in the tree, found reflectively after importing all
    of `mesonbuild.compilers` and `mesonbuild.linkers`; the three known ones keep their short names"""
    if _CLASSES:
        return _CLASSES
    import importlib
    import pkgutil
    import re as _re
    from mesonbuild import arglist
    import mesonbuild.compilers
    import mesonbuild.linkers
    for pkg in (mesonbuild.compilers, mesonbuild.linkers):
        for m in pkgutil.walk_packages(pkg.__path__, pkg.__name__ + '.'):
            try:
                importlib.import_module(m.name)
            except Exception:      # a module that cannot be imported here defines no class we could run
                pass
    found = [arglist.CompilerArgs]
    todo = [arglist.CompilerArgs]
    while todo:
        c = todo.pop()
        for sub in c.__subclasses__():
            if sub not in found and sub.__module__.startswith('mesonbuild.'):
                found.append(sub)
                todo.append(sub)
    out: T.Dict[str, T.Any] = {}
    for c in sorted(found, key=lambda c: (c.__name__ not in KNOWN_NAMES, c.__module__, c.__name__)):
        name = KNOWN_NAMES.get(c.__name__) or _re.sub(r'[^a-z0-9]', '', c.__name__.lower())
        while name in out:
            name += 'x'
        out[name] = c
    for need in ('base', 'clike', 'd'):
        if need not in out:
            raise LookupError(f'class for {need!r} not found')
    _CLASSES.update(out)
    return _CLASSES


def native_kind(cls) -> str:
    """which `to_native` the class uses: 'plain' (CompilerArgs), 'clike' (CLikeCompilerArgs) or 'unknown'"""
    cl = classes()
    if cls.to_native is cl['base'].to_native:
        return 'plain'
    if cls.to_native is cl['clike'].to_native:
        return 'clike'
    return 'unknown'


_STUBS: T.Dict[T.Tuple[bool, bool], T.Any] = {}


def stub_compiler(gnu: bool, dirs: bool):
    """a `Compiler` instance that was never initialised: only what `to_native` touches exists"""
    key = (gnu, dirs)
    if key in _STUBS:
        return _STUBS[key]
    from mesonbuild.compilers import compilers as C
    from mesonbuild.linkers import linkers as L

    class StubCompiler(C.Compiler):
        language = 'c'
        id = 'stub'

        def __init__(self):  # deliberately no super().__init__
            lk_cls = L.GnuBFDDynamicLinker if gnu else L.AppleDynamicLinker
            self.linker = lk_cls.__new__(lk_cls)

        def unix_args_to_native(self, args):
            return list(args)

        def get_default_include_dirs(self):
            return list(DEFAULT_DIRS) if dirs else []

        def __repr__(self):
            return 'StubCompiler'
    for n in list(getattr(StubCompiler, '__abstractmethods__', ())):
        setattr(StubCompiler, n, lambda self, *a, **k: None)
    StubCompiler.__abstractmethods__ = frozenset()
    _STUBS[key] = StubCompiler()
    return _STUBS[key]


# ------------------------------------------------------------------ generated tables

def _lean_char(c: str) -> str:
    o = ord(c)
    if 32 <= o < 127 and c not in "'\\":
        return "'" + c + "'"
    return f'Char.ofNat {o}'


def _lean_str(s: str) -> str:
    return '[' + ', '.join(_lean_char(c) for c in s) + ']'


def tables_of(cls) -> T.Dict[str, T.List[str]]:
    out = {}
    for lean_name, py_name in TABLE_FIELDS:
        v = getattr(cls, py_name)
        if not isinstance(v, (tuple, list)) or not all(isinstance(x, str) for x in v):
            raise TypeError(f'{cls.__name__}.{py_name} is not a tuple of str')
        out[lean_name] = list(v)
    return out


def gen_tables(ctx: Ctx) -> None:
    cl = classes()
    lines = ['/- GENERATED by harness/c13.py gen_tables from the live Python classes; do not edit. -/',
             'import MesonModel.ArgList.Model', '', 'namespace MesonModel.Generated', 'open MesonModel.ArgList', '']
    for name in cl:
        t = tables_of(cl[name])
        lines.append(f'/-- `{cl[name].__module__}.{cl[name].__name__}` -/')
        lines.append(f'def {name}Tables : Tables where')
        for lean_name, _ in TABLE_FIELDS:
            lines.append(f'  {lean_name} := [' + ', '.join(_lean_str(s) for s in t[lean_name]) + ']')
        lines.append('')
    lines.append('/-- every class found reflectively: name, uses the C-like `to_native`, tables -/')
    lines.append('def allTables : List (String × Bool × Tables) := [' + ', '.join(
        f'("{n}", {"true" if native_kind(c) == "clike" else "false"}, {n}Tables)' for n, c in cl.items()) + ']')
    lines.append('')
    for n, c in cl.items():
        if native_kind(c) == 'unknown':
            ctx.notes.append(f'{n}: to_native is overridden by a method the model does not mirror; to_native is not compared for it')
    ctx.notes.append('classes found: ' + ', '.join(f'{n}={c.__module__}.{c.__name__}' for n, c in cl.items()))
    from mesonbuild import arglist
    from mesonbuild.compilers.mixins import clike
    lines.append('/-- advisory pins (pattern strings are not proof obligations) -/')
    lines.append('def dedup1RegexPattern : String := ' + _lean_string_lit(arglist.CompilerArgs.dedup1_regex.pattern))
    lines.append('def groupFlagsPattern : String := ' + _lean_string_lit(clike.GROUP_FLAGS.pattern))
    lines += ['', 'end MesonModel.Generated', '']
    text = '\n'.join(lines)
    os.makedirs(os.path.dirname(GEN_PATH), exist_ok=True)
    old = open(GEN_PATH, encoding='utf-8').read() if os.path.exists(GEN_PATH) else None
    if old != text:
        tmp = GEN_PATH + f'.{os.getpid()}.tmp'
        with open(tmp, 'w', encoding='utf-8') as f:
            f.write(text)
        os.replace(tmp, GEN_PATH)
        ctx.notes.append('ArgTables.lean regenerated (content changed)')
    for cname, c in cl.items():
        if c.dedup1_regex.pattern != arglist.CompilerArgs.dedup1_regex.pattern:
            ctx.notes.append(f'{cname}: dedup1_regex overridden (advisory)')


def _lean_string_lit(s: str) -> str:
    out = ['"']
    for c in s:
        if c == '"':
            out.append('\\"')
        elif c == '\\':
            out.append('\\\\')
        elif c == '\n':
            out.append('\\n')
        elif 32 <= ord(c) < 127:
            out.append(c)
        else:
            out.append('\\u{%x}' % ord(c))
    out.append('"')
    return ''.join(out)


# ------------------------------------------------------------------ scripts
#
# A script is a list of tuples (mirrors `HOp` of the model):
#   ('new', [args])  ('newfrom', i)  ('copy', i)  ('add', i, [args])  ('radd', [args], i)
#   ('iaddobj', i, j)  ('eqobj', i, j)
#   ('on', i, name, *params) with name in
#     iadd/extend [args], append a, appd a, extd [args], extl [args], ins k a, set k a, del k, get k,
#     iter, cp, len, eql [args], nat 0/1

IADD_FAMILY = ('iadd', 'extend', 'append')


def e_item(a: str) -> str:
    return 's' + enc(a)


def e_list(l: T.Iterable[str]) -> str:
    return ','.join(e_item(x) for x in l)


def d_list(f: str) -> T.List[str]:
    return [common.dec(w[1:]) for w in f.split(',') if w]


def op_text(op: tuple) -> str:
    k = op[0]
    if k == 'new':
        return 'new:' + e_list(op[1])
    if k in ('newfrom', 'copy'):
        return f'{k}:{op[1]}'
    if k == 'add':
        return f'add:{op[1]}:{e_list(op[2])}'
    if k == 'radd':
        return f'radd:{e_list(op[1])}:{op[2]}'
    if k in ('iaddobj', 'eqobj'):
        return f'{k}:{op[1]}:{op[2]}'
    assert k == 'on'
    i, name, ps = op[1], op[2], op[3:]
    if name in ('iadd', 'extend'):
        return f'on:{i}:iadd:{e_list(ps[0])}'
    if name in ('extd', 'extl', 'eql'):
        return f'on:{i}:{name}:{e_list(ps[0])}'
    if name in ('append', 'appd', 'remove', 'index', 'count', 'contains'):
        return f'on:{i}:{name}:{e_item(ps[0])}'
    if name in ('ins', 'set'):
        return f'on:{i}:{name}:{ps[0]}:{e_item(ps[1])}'
    if name in ('del', 'get', 'nat', 'pop'):
        return f'on:{i}:{name}:{ps[0]}'
    return f'on:{i}:{name}'


def script_line(cls: str, gnu: bool, dirs: bool, script: T.List[tuple]) -> str:
    return f'run {cls}|{int(gnu)}|{e_list(DEFAULT_DIRS) if dirs else ""}|' + ';'.join(op_text(o) for o in lower(script))


def show_state(o) -> str:
    return f'C{e_list(o._container)}!P{e_list(list(o.pre))}!Q{e_list(o.post)}!N{int(o.needs_override_check)}'


def apply_on(o, name: str, ps: tuple) -> T.Tuple[T.Any, str]:
    """one single-object operation on the real object -> (object, canonical output)"""
    if name == 'iadd':
        o += ps[0]
        return o, '-'
    if name == 'extend':
        o.extend(ps[0])
        return o, '-'
    if name == 'append':
        o.append(ps[0])
        return o, '-'
    if name == 'appd':
        o.append_direct(ps[0])
        return o, '-'
    if name == 'extd':
        o.extend_direct(ps[0])
        return o, '-'
    if name == 'extl':
        o.extend_preserving_lflags(ps[0])
        return o, '-'
    if name == 'ins':
        o.insert(ps[0], ps[1])
        return o, '-'
    try:
        if name == 'set':
            o[ps[0]] = ps[1]
            return o, '-'
        if name == 'del':
            del o[ps[0]]
            return o, '-'
        if name == 'get':
            return o, 'A' + e_item(o[ps[0]])
    except IndexError:
        return o, 'E'
    if name == 'iter':
        return o, 'L' + e_list(list(o))
    if name == 'cp':
        return o, 'L' + e_list(o.copy()._container)
    if name == 'len':
        return o, f'N{len(o)}'
    if name == 'eql':
        return o, 'B' + str(int(o == ps[0]))
    if name == 'nat':
        return o, 'L' + e_list(o.to_native(copy=bool(ps[0])))
    # collections.abc.MutableSequence mixin methods
    try:
        if name == 'rev':
            o.reverse()
            return o, '-'
        if name == 'revd':
            return o, 'L' + e_list(list(reversed(o)))
        if name == 'pop':
            return o, 'A' + e_item(o.pop(ps[0]))
        if name == 'remove':
            o.remove(ps[0])
            return o, '-'
        if name == 'index':
            return o, f'N{o.index(ps[0])}'
        if name == 'count':
            return o, f'N{o.count(ps[0])}'
        if name == 'contains':
            return o, 'B' + str(int(ps[0] in o))
        if name == 'clear':
            o.clear()
            return o, '-'
    except IndexError:
        return o, 'E'
    except ValueError:
        return o, 'V'
    raise ValueError(name)


def clone(o):
    """an independent object in the same (un-flushed) state; used to look at the eager value without
    disturbing the lazy object under test"""
    import collections
    c = type(o)(o.compiler, list(o._container))
    c.pre = collections.deque(o.pre)
    c.post = list(o.post)
    c.needs_override_check = o.needs_override_check
    return c


def peek(o) -> T.List[str]:
    return list(clone(o))


class Hooks:
    """observer called around every operation of the real run (the oracle lives here)"""
    def before(self, objs, op): ...
    def after(self, objs, op, out, new_index): ...


# ---- external (caller-owned) lists.  A list parameter of an operation is either a literal list or a
# reference 'x:<k>' to the k-th external list: the SAME Python list object is then handed to the class.
#   ('xlist', [args])            the caller creates a list
#   ('xmut', k, 'append', a) | ('xmut', k, 'pop') | ('xmut', k, 'set0', a) | ('xmut', k, 'clear')
#                                the caller changes its own list afterwards
LIST_ON_OPS = ('iadd', 'extend', 'extd', 'extl', 'eql')


def is_ref(p) -> bool:
    return isinstance(p, str) and p.startswith('x:')


def x_apply(lst: T.List[str], op: tuple) -> None:
    kind = op[2]
    if kind == 'append':
        lst.append(op[3])
    elif kind == 'pop':
        if lst:
            lst.pop()
    elif kind == 'set0':
        if lst:
            lst[0] = op[3]
    elif kind == 'clear':
        lst.clear()


def lower(script: T.List[tuple]) -> T.List[tuple]:
    """the value-level script (what the model and the reference oracle see): references replaced by the
    value the external list has at that moment, caller-side operations dropped"""
    shadow: T.List[T.List[str]] = []
    out: T.List[tuple] = []

    def val(p):
        if is_ref(p):
            k = int(p[2:])
            return list(shadow[k]) if k < len(shadow) else []
        return list(p)
    for op in script:
        k = op[0]
        if k == 'xlist':
            shadow.append(list(op[1]))
        elif k == 'xmut':
            if op[1] < len(shadow):
                x_apply(shadow[op[1]], op)
        elif k == 'new':
            out.append(('new', val(op[1])))
        elif k == 'add':
            out.append(('add', op[1], val(op[2])))
        elif k == 'radd':
            out.append(('radd', val(op[1]), op[2]))
        elif k == 'on' and op[2] in LIST_ON_OPS:
            out.append(('on', op[1], op[2], val(op[3])))
        else:
            out.append(tuple(op))
    return out


def raw_state(o) -> tuple:
    return (tuple(o._container), tuple(o.pre), tuple(o.post), o.needs_override_check)


class Frame:
    """model-independent frame oracle: an operation changes only its receiver.  External lists keep their
    value unless the caller itself changes them; objects that do not take part keep their raw state; operands
    keep their eager value; no two live objects and no object and external list share a list object."""

    def __init__(self, ctx: Ctx, cname: str, script):
        self.ctx, self.cname, self.script = ctx, cname, script
        self.step = 0

    @staticmethod
    def roles(op) -> T.Tuple[T.Set[int], T.Set[int]]:
        k = op[0]
        if k == 'on':
            return {op[1]}, set()
        if k in ('copy', 'newfrom', 'add'):
            return set(), {op[1]}
        if k == 'radd':
            return set(), {op[2]}
        if k == 'iaddobj':
            return {op[1]}, {op[2]} - {op[1]}
        if k == 'eqobj':
            return set(), {op[1], op[2]}
        return set(), set()

    def snap(self, objs, ext, op):
        self.ext0 = [list(x) for x in ext]
        self.raw0 = [raw_state(o) for o in objs]
        _w, operands = self.roles(op)
        self.peek0 = {n: peek(objs[n]) for n in operands if n < len(objs)}

    def check(self, objs, ext, op) -> None:
        k = op[0]
        case = {'class': self.cname, 'script': self.script[:self.step + 1]}
        # external lists
        want = [list(x) for x in self.ext0]
        if k == 'xmut' and op[1] < len(want):
            x_apply(want[op[1]], op)
        for n, (x, w) in enumerate(zip(ext, want)):
            if x != w:
                self.ctx.violation('frame:external-list-modified',
                                   f'the caller\'s list x:{n} was changed by {op[:3]}: {w} -> {x}', {**case, 'list': n})
        # objects
        writers, operands = self.roles(op)
        for n in range(len(self.raw0)):
            if n in writers:
                continue
            if n in operands:
                if peek(objs[n]) != self.peek0[n]:
                    self.ctx.violation('frame:operand-changed', f'object {n} is only read by {op[:3]} but its list changed: '
                                       f'{self.peek0[n]} -> {peek(objs[n])}', {**case, 'object': n})
            elif raw_state(objs[n]) != self.raw0[n]:
                self.ctx.violation('frame:other-object-changed', f'object {n} takes no part in {op[:3]} but changed: '
                                   f'{self.raw0[n]} -> {raw_state(objs[n])}', {**case, 'object': n})
        # sharing
        owners: T.Dict[int, str] = {id(x): f'x:{n}' for n, x in enumerate(ext)}
        for n, o in enumerate(objs):
            for part in (o._container, o.post):
                if id(part) in owners:
                    self.ctx.violation('alias:list-shared', f'object {n} shares a list object with {owners[id(part)]} after {op[:3]}',
                                       {**case, 'object': n})
                owners[id(part)] = f'object {n}'
        self.step += 1


def exec_impl(cls, compiler, script: T.List[tuple], eager: bool = False, hooks: T.Optional[Hooks] = None,
              frame: T.Optional[Frame] = None) -> T.Tuple[T.List[str], T.List[T.Any]]:
    """run a (raw) script on the real class; one output per value-level operation (see `lower`)"""
    objs: T.List[T.Any] = []
    ext: T.List[T.List[str]] = []
    outs: T.List[str] = []
    lowered = lower(script) if hooks else []
    li = 0

    def real(p):
        if is_ref(p):
            k = int(p[2:])
            return ext[k] if k < len(ext) else []
        return list(p)
    for op in script:
        k = op[0]
        out = '-'
        new_index = None
        if frame:
            frame.snap(objs, ext, op)
        if k == 'xlist':
            ext.append(list(op[1]))
        elif k == 'xmut':
            if op[1] < len(ext):
                x_apply(ext[op[1]], op)
        if k in ('xlist', 'xmut'):
            if frame:
                frame.check(objs, ext, op)
            continue
        if k == 'new':
            objs.append(cls(compiler, real(op[1])))
            new_index = len(objs) - 1
        elif k in ('newfrom', 'copy', 'add', 'radd'):
            i = op[2] if k == 'radd' else op[1]
            if i < len(objs):
                if k == 'newfrom':
                    objs.append(cls(compiler, objs[i]))
                elif k == 'copy':
                    objs.append(objs[i].copy())
                elif k == 'add':
                    objs.append(objs[i] + real(op[2]))
                else:
                    objs.append(real(op[1]) + objs[i])
                new_index = len(objs) - 1
        elif k == 'iaddobj':
            i, j = op[1], op[2]
            if j < len(objs) and i < len(objs):
                objs[i] += objs[j]
            elif j < len(objs):
                iter(objs[j])
        elif k == 'eqobj':
            i, j = op[1], op[2]
            if i < len(objs) and j < len(objs):
                out = 'B' + str(int(objs[i] == objs[j]))
            elif i < len(objs):
                objs[i].flush_pre_post()
        else:
            i = op[1]
            if i < len(objs):
                ps = tuple(op[3:])
                if op[2] in LIST_ON_OPS:
                    ps = (real(ps[0]),) + ps[1:]
                objs[i], out = apply_on(objs[i], op[2], ps)
        if frame:
            frame.check(objs, ext, op)
        if eager:
            for o in objs:
                o.flush_pre_post()
        outs.append(out)
        if hooks:
            hooks.after(objs, lowered[li], out, new_index)
            li += 1
    return outs, objs


def impl_answer(outs, objs) -> str:
    return ';'.join(outs) + '#' + '@'.join(show_state(o) for o in objs)


# ------------------------------------------------------------------ property oracle (implementation only)
#
# Written from the property statement: the eager reference list.  Kinds of arguments:
#   prepend      : goes in front (`-I`, `-L`)
#   'O' override : only the highest-precedence occurrence survives
#   'U' once-only: a repeat is dropped
#   'N'          : never de-duplicated
# For the C-like class the statement fixes the kinds of the alphabet (EXPECT_CLIKE); for the base and D
# classes the kinds follow the class attributes, evaluated by `ref_kind` (own reading of the attribute
# meaning: exact prefix => N, dedup2 => O, dedup1 => U).

EXPECT_CLIKE: T.Dict[str, T.Tuple[bool, str]] = {
    '-Ia': (True, 'O'), '-Ib': (True, 'O'), '-I/abs/inc': (True, 'O'), '-La': (True, 'O'), '-Lb': (True, 'O'),
    '-Dx': (False, 'O'), '-Dx=1': (False, 'O'), '-Dy': (False, 'O'), '-Ux': (False, 'O'),
    '-isystem/i': (False, 'O'), '-isystemj': (False, 'O'),
    '-isystem/nonexistent-mverif/include': (False, 'O'), '-isystem=/nonexistent-mverif/sys': (False, 'O'),
    '-lfoo': (False, 'U'), '-lm': (False, 'U'), '-lbar': (False, 'U'), 'x.a': (False, 'U'), '/abs/liby.so': (False, 'U'),
    '/abs/libz.so.1': (False, 'U'), 'libw.so.1.2.3': (False, 'U'), 'v.dll': (False, 'U'), 'u.lib': (False, 'U'),
    't.dylib': (False, 'U'), '-pthread': (False, 'U'), '-c': (False, 'U'), '-pipe': (False, 'U'),
    '-Wl,-rpath,/r': (False, 'U'), '-Wl,-lq': (False, 'U'), '-Wl,--export-dynamic': (False, 'U'),
    '-O2': (False, 'N'), '-Wall': (False, 'N'), '-Wl,--as-needed': (False, 'N'), 'main.o': (False, 'N'),
    '/abs/obj.o': (False, 'N'), '': (False, 'N'), '-I': (True, 'N'), '-D': (False, 'N'), '-l': (False, 'N'),
    '-isystem': (False, 'N'), '/nonexistent-mverif/include': (False, 'N'), 'foo.so.1': (False, 'N'),
    '-L/abs/x.a': (True, 'O'), '-Lx.a': (True, 'O'),
}


# ---- documentation-level reference classifier (plain Python, no `re`, nothing read from the live classes).
# Written from the property text and the comments of the classes:
#   * once-only: `-lfoo`, the documented dedup1 prefixes and arguments, a *library file* -- a name ending in
#     .lib/.dll/.so/.dylib/.a, or "a .so of the form path/to/libfoo.so.0.1.0": a path with a component that starts
#     with `lib`, ending in `.so` followed by at most three dot-separated numeric components of any length;
#   * override-type: the documented dedup2 prefixes (`-I -isystem -L -D -U` for C-like, `-I` for D);
#   * prepend-type: `-I`, `-L` (C-like and D);
#   * an argument that *is* one of those prefixes is defined by what follows it and is never de-duplicated.
DIGITS = '0123456789'
DOC_SUFFIXES = ('.lib', '.dll', '.so', '.dylib', '.a')
DOC_TABLES: T.Dict[str, T.Dict[str, T.Tuple[str, ...]]] = {
    'base': {'prepend': (), 'dedup2_prefixes': (), 'dedup1_prefixes': (), 'dedup1_args': ()},
    'clike': {'prepend': ('-I', '-L'), 'dedup2_prefixes': ('-I', '-isystem', '-L', '-D', '-U'),
              'dedup1_prefixes': ('-l', '-Wl,-l', '-Wl,-rpath,', '-Wl,-rpath-link,'),
              'dedup1_args': ('-c', '-S', '-E', '-pipe', '-pthread', '-Wl,--export-dynamic')},
    'd': {'prepend': ('-I', '-L'), 'dedup2_prefixes': ('-I',), 'dedup1_prefixes': (), 'dedup1_args': ()},
}
# arguments on which the documentation-level reference and the unchanged HEAD legitimately differ: one entry per
# (class, argument), never a family
DOC_EXCLUSIONS: T.Set[T.Tuple[str, str]] = set()


def numeric_tail_heads(t: str) -> T.List[str]:
    """`t` with 0, 1, 2, 3 trailing `.<digits>` components removed (as far as they exist)"""
    parts = t.split('.')
    out = [t]
    for k in (1, 2, 3):
        if len(parts) - k < 1:
            break
        c = parts[len(parts) - k]
        if not c or any(ch not in DIGITS for ch in c):
            break
        out.append('.'.join(parts[:len(parts) - k]))
    return out


def doc_versioned_so(a: str) -> bool:
    """path/to/libfoo.so[.N[.N[.N]]]: some path component starts with `lib`, no line break after it"""
    for t in ([a, a[:-1]] if a.endswith('\n') else [a]):
        for head in numeric_tail_heads(t):
            if not head.endswith('.so'):
                continue
            stem = head[:-3]
            for i in range(len(stem) - 2):
                if stem.startswith('lib', i) and (i == 0 or stem[i - 1] in '/\\') and '\n' not in stem[i:]:
                    return True
    return False


def doc_library_like(a: str) -> bool:
    """what `to_native` puts inside --start-group/--end-group: a shared library file that is not passed through
    `-Wl,`, a `-l`/`-Wl,-l` argument, a static archive"""
    ends = [a, a[:-1]] if a.endswith('\n') else [a]
    if not a.startswith('-Wl,'):
        for t in ends:
            if '\n' not in t and any(h.endswith('.so') for h in numeric_tail_heads(t)):
                return True
    if a.startswith('-l') or a.startswith('-Wl,-l'):
        return True
    return any(t.endswith('.a') for t in ends)


def ref_kind(cls, cname: str, a: str) -> T.Tuple[bool, str]:
    doc = DOC_TABLES.get(cname)
    if doc is None or (cname, a) in DOC_EXCLUSIONS:
        # a class the documentation above does not know (found reflectively): its own attributes, our reading
        doc = {'prepend': tuple(cls.prepend_prefixes), 'dedup2_prefixes': tuple(cls.dedup2_prefixes),
               'dedup1_prefixes': tuple(cls.dedup1_prefixes), 'dedup1_args': tuple(cls.dedup1_args)}
    prepend = any(a.startswith(p) for p in doc['prepend'])
    if a in doc['dedup1_prefixes'] or a in doc['dedup2_prefixes']:
        return prepend, 'N'
    if any(a.startswith(p) for p in doc['dedup2_prefixes']):
        return prepend, 'O'
    if a in doc['dedup1_args'] or any(a.startswith(p) for p in doc['dedup1_prefixes']) or \
            any(a.endswith(sfx) for sfx in DOC_SUFFIXES) or doc_versioned_so(a):
        return prepend, 'U'
    return prepend, 'N'


def kind_name(k: T.Tuple[bool, str]) -> str:
    return ('prepend+' if k[0] else '') + {'O': 'override', 'U': 'unique', 'N': 'nodedup'}[k[1]]


def ref_add(kind: T.Callable[[str], T.Tuple[bool, str]], L: T.List[str], batch: T.List[str]) -> T.List[str]:
    """eager meaning of `L += batch` per the statement"""
    acc: T.List[str] = []
    for a in batch:
        if kind(a)[1] == 'U' and (a in L or a in acc):
            continue                      # a repeat of a once-only argument is dropped
        acc.append(a)
    front = [a for a in acc if kind(a)[0]]
    back = [a for a in acc if not kind(a)[0]]
    # identical override-type arguments: front-most survives in the front block, last in the back block
    f2: T.List[str] = []
    for a in front:
        if kind(a)[1] == 'O' and a in f2:
            continue
        f2.append(a)
    b2: T.List[str] = []
    for idx, a in enumerate(back):
        if kind(a)[1] == 'O' and a in back[idx + 1:]:
            continue
        b2.append(a)
    again = {a for a in acc if kind(a)[1] == 'O'}
    return f2 + [a for a in L if a not in again] + b2


def ref_append_direct(kind, L, a):
    return ref_add(kind, L, [a]) if a.startswith('/') else L + [a]


def ref_native(cname: str, gnu: bool, dirs: bool, L: T.List[str],
               is_default: T.Optional[T.Callable[[str], bool]] = None) -> T.List[str]:
    if native_kind(classes()[cname]) != 'clike':
        return list(L)
    if is_default is None:
        is_default = DEFAULT_DIRS.__contains__
    out = list(L)
    if gnu:
        libs = [i for i, a in enumerate(out) if doc_library_like(a)]
        if len(libs) >= 2 and libs[-1] > libs[0]:
            out.insert(libs[-1] + 1, '-Wl,--end-group')
            out.insert(libs[0], '-Wl,--start-group')
    if dirs:
        keep = []
        skip = False
        for i, a in enumerate(out):
            if skip:
                skip = False
                continue
            if a == '-isystem':
                if i + 1 < len(out) and is_default(out[i + 1]):
                    skip = True
                    continue
            elif a.startswith('-isystem='):
                if is_default(a[9:]):
                    continue
            elif a.startswith('-isystem') and is_default(a[8:]):
                continue
            keep.append(a)
        out = keep
    return out


def norm_index(n: int, i: int) -> T.Optional[int]:
    if i < 0:
        i += n
    return i if 0 <= i < n else None


class Oracle(Hooks):
    """keeps the eager reference list of every object and compares it with the eager value of the real
    object after every operation (looked at through a clone, so the lazy object is not disturbed)"""

    def __init__(self, ctx: Ctx, cls, cname: str, gnu: bool, dirs: bool, script, always):
        self.ctx, self.cls, self.cname, self.gnu, self.dirs, self.script = ctx, cls, cname, gnu, dirs, script
        self.refs: T.List[T.List[str]] = []
        self.always = always
        self.kind = lambda a: ref_kind(cls, cname, a)
        self.has_x = any(o[0] in ('xlist', 'xmut') for o in script)
        self.step = 0
        self.failed = False

    def report(self, clause: str, arg: T.Optional[str], what: str, extra: dict) -> None:
        kn = kind_name(self.kind(arg)) if arg is not None else '-'
        key = f'{self.cname}:{clause}:{kn}'
        self.failed = True
        self.ctx.violation(key, what, {'class': self.cname, 'gnu': self.gnu, 'dirs': self.dirs,
                                       'script': self.script if self.has_x else self.script[:self.step + 1], **extra})

    def report_key(self, key: str, what: str, extra: dict) -> None:
        self.failed = True
        self.ctx.violation(key, what, {'class': self.cname, 'gnu': self.gnu, 'dirs': self.dirs,
                                       'script': self.script if self.has_x else self.script[:self.step + 1], **extra})

    def diff(self, i: int, real: T.List[str], op) -> None:
        ref = self.refs[i]
        if real == ref:
            return
        sr, sf = set(real), set(ref)
        cnt = lambda l, a: sum(1 for x in l if x == a)  # noqa: E731
        extra = {'object': i, 'impl': real, 'reference': ref}
        for a in sorted(sf - sr):
            self.report('lost', a, f'argument {a!r} lost by {op[:3]}', extra)
            break
        else:
            for a in sorted(sr - sf):
                self.report('invented', a, f'argument {a!r} invented by {op[:3]}', extra)
                break
            else:
                bad = [a for a in sorted(sr) if cnt(real, a) != cnt(ref, a)]
                if bad:
                    a = bad[0]
                    k = self.kind(a)[1]
                    clause = {'U': 'once-only-repeated' if cnt(real, a) > cnt(ref, a) else 'once-only-lost',
                              'O': 'override-survivor-count', 'N': 'multiplicity'}[k]
                    self.report(clause, a, f'{a!r} occurs {cnt(real, a)} times, eager meaning has {cnt(ref, a)}', extra)
                else:
                    j = next(x for x in range(len(real)) if real[x] != ref[x])
                    a = real[j]
                    clause = 'override-survivor-position' if 'O' in (self.kind(real[j])[1], self.kind(ref[j])[1]) else 'order'
                    self.report(clause, a, f'order differs from the eager meaning at index {j}', extra)
        self.refs[i] = list(real)   # resynchronise so that later steps are judged on their own

    def before(self, objs, op):
        pass

    def after(self, objs, op, out, new_index):
        k = op[0]
        K = self.kind
        refs = self.refs
        n = len(refs)
        if k == 'new':
            refs.append(list(op[1]))
        elif k in ('newfrom', 'copy') and op[1] < n:
            refs.append(list(refs[op[1]]))
        elif k == 'add' and op[1] < n:
            refs.append(ref_add(K, refs[op[1]], list(op[2])))
        elif k == 'radd' and op[2] < n:
            refs.append(ref_add(K, list(op[1]), refs[op[2]]))
        elif k == 'iaddobj' and op[1] < n and op[2] < n:
            refs[op[1]] = ref_add(K, refs[op[1]], list(refs[op[2]]))
        elif k == 'eqobj' and op[1] < n and op[2] < n:
            want = 'B' + str(int(refs[op[1]] == refs[op[2]]))
            if out != want:
                self.report_key('CompilerArgs.__eq__:other-not-flushed',
                                f'a == b gave {out[1:]} but the eager lists compare {want[1:]}',
                                {'a': refs[op[1]], 'b': refs[op[2]]})
        elif k == 'on' and op[1] < n:
            i, name, ps = op[1], op[2], op[3:]
            L = refs[i]
            if name in ('iadd', 'extend'):
                refs[i] = ref_add(K, L, list(ps[0]))
            elif name == 'append':
                refs[i] = ref_add(K, L, [ps[0]])
            elif name == 'appd':
                refs[i] = ref_append_direct(K, L, ps[0])
            elif name == 'extd':
                for a in ps[0]:
                    L = ref_append_direct(K, L, a)
                refs[i] = L
            elif name == 'extl':
                lf = [a for a in ps[0] if a not in self.always and (a.startswith('-l') or a.startswith('-L'))]
                nf = [a for a in ps[0] if not (a not in self.always and (a.startswith('-l') or a.startswith('-L')))]
                L = ref_add(K, L, nf)
                for a in lf:
                    L = ref_append_direct(K, L, a)
                refs[i] = L
            elif name == 'ins':
                L = list(L)
                L.insert(ps[0], ps[1])
                refs[i] = L
            elif name in ('set', 'del', 'get'):
                j = norm_index(len(L), ps[0])
                want = 'E'
                if j is not None:
                    L = list(L)
                    if name == 'set':
                        L[j] = ps[1]
                        want = '-'
                    elif name == 'del':
                        del L[j]
                        want = '-'
                    else:
                        want = 'A' + e_item(L[j])
                    refs[i] = L
                if out != want:
                    self.report('read', None, f'{name} gave {out}, eager meaning gives {want}', {'object': i})
            elif name in ('iter', 'cp'):
                if out != 'L' + e_list(L):
                    self.report('read', None, f'{name} differs from the eager list',
                                {'object': i, 'impl': d_list(out[1:]), 'reference': L})
            elif name == 'eql':
                if out != 'B' + str(int(L == list(ps[0]))):
                    self.report('read', None, '== list differs from the eager meaning', {'object': i})
            elif name == 'nat':
                want = ref_native(self.cname, self.gnu, self.dirs, L)
                if out != 'L' + e_list(want):
                    self.report('to_native', None, 'to_native differs from list + group markers - default -isystem',
                                {'object': i, 'impl': d_list(out[1:]), 'reference': want})
                if not ps[0]:
                    refs[i] = want          # copy=False works on the object itself
            elif name == 'len':
                if out != f'N{len(L)}':
                    self.report_key('CompilerArgs.__len__:counts-pending', f'len() gave {out[1:]}, the eager list has {len(L)} arguments',
                                    {'object': i, 'reference': L})
            elif name in ('rev', 'revd', 'pop', 'remove', 'index', 'count', 'contains', 'clear'):
                L = list(L)
                want = '-'
                if name == 'rev':
                    L.reverse()
                elif name == 'revd':
                    want = 'L' + e_list(list(reversed(L)))
                elif name == 'pop':
                    j = norm_index(len(L), ps[0])
                    want = 'E' if j is None else 'A' + e_item(L.pop(j))
                elif name == 'remove':
                    if ps[0] in L:
                        L.remove(ps[0])
                    else:
                        want = 'V'
                elif name == 'index':
                    want = f'N{L.index(ps[0])}' if ps[0] in L else 'V'
                elif name == 'count':
                    want = f'N{L.count(ps[0])}'
                elif name == 'contains':
                    want = 'B' + str(int(ps[0] in L))
                else:
                    L = []
                refs[i] = L
                if out != want:
                    if name in ('rev', 'revd') and out == 'E':
                        # reverse()/reversed() take their bound from len()
                        self.report_key('CompilerArgs.__len__:counts-pending', f'{name} raised IndexError (bound taken from len())',
                                        {'object': i, 'reference': L})
                    else:
                        self.report('mixin-' + name, None, f'{name} gave {out}, eager meaning gives {want}', {'object': i})
        # eager value of every touched object, seen through a clone
        for i in range(min(len(objs), len(refs))):
            self.diff(i, peek(objs[i]), op)
        self.step += 1


# ------------------------------------------------------------------ generators

ALPHA_CLIKE = list(EXPECT_CLIKE)
ALPHA_SMALL = ['-Ia', '-Ib', '-La', '-Dx', '-Ux', '-isystem/i', '-lfoo', 'x.a', '-pthread', '-O2', 'main.o', '-Lx.a',
               '/abs/liby.so', '-lm']
WEIRD = ['', ' ', '-', '-I', '-L', '-D', '-U', '-l', '-isystem', 'a.so\n', 'libx.so.1\n', 'libx.so.1\n\n', 'lib\n.so',
         'x\nliba.so.2', 'C:\\libfoo.so.1', 'dir/libfoo.so.12.3.4', 'dir/libfoo.so.1.2.3.4', 'libfoo.so.', 'libfoo.so.a',
         'xlibfoo.so.1', '/lib.so.1', 'lib.so.1', '-Wl,libq.so', '-Wl,x.a', '-Wl,-lz', 'é.a', '-Iü', '中.so', 'a:b;c|d,e',
         '-isystem=', '-isystem=/nonexistent-mverif/include', '-isystem /nonexistent-mverif/include', '.a', '.so', 'so',
         '-L' + 'y' * 40 + '.a', 'lib.so.1.so', 'liby.so.01.002', '-llib.so', '.a\n', 'x.lib', 'x.dll', 'x.dylib', '-E', '-S',
         '-Wl,-rpath-link,/q', '-Wl,-rpath,', '-Wl,-l']
FRAGS = ['lib', '.so', '.a', '.', '1', '23', '/', '\\', '-', 'l', 'I', 'L', 'D', 'Wl,', 'x', '\n', 'isystem', '=', ' ', 'é', '0']


def rand_arg(rng, alpha) -> str:
    r = rng.random()
    if r < 0.80:
        return rng.choice(alpha)
    if r < 0.92:
        return rng.choice(WEIRD)
    return ''.join(rng.choice(FRAGS) for _ in range(rng.randint(1, 6)))


def rand_batch(rng, alpha, maxn=4) -> T.List[str]:
    n = rng.choice([0, 1, 1, 2, 2, 2, 3, 3, 4][:maxn * 2 + 1])
    b = [rand_arg(rng, alpha) for _ in range(n)]
    if b and rng.random() < 0.25:
        b.append(rng.choice(b))        # repeats inside one batch are where the queues matter
    return b


def rand_index(rng) -> int:
    return rng.choice([0, 0, 1, 2, 3, -1, -1, -2, 5, -7, 100, -100])


def rand_on(rng, i: int, alpha, reads=True) -> tuple:
    r = rng.random()
    if r < 0.34:
        return ('on', i, rng.choice(['iadd', 'extend']), rand_batch(rng, alpha))
    if r < 0.42:
        return ('on', i, 'append', rand_arg(rng, alpha))
    if r < 0.48:
        return ('on', i, 'appd', rand_arg(rng, alpha))
    if r < 0.54:
        return ('on', i, 'extd', rand_batch(rng, alpha))
    if r < 0.60:
        return ('on', i, 'extl', rand_batch(rng, alpha))
    if r < 0.66:
        return ('on', i, 'ins', rand_index(rng), rand_arg(rng, alpha))
    if r < 0.69:
        return ('on', i, 'set', rand_index(rng), rand_arg(rng, alpha))
    if r < 0.72:
        return ('on', i, 'del', rand_index(rng))
    if r < 0.75:
        return ('on', i, 'get', rand_index(rng))
    if r < 0.83:
        return ('on', i, 'iter')
    if r < 0.86:
        return ('on', i, 'cp')
    if r < 0.89:
        return ('on', i, 'len')
    if r < 0.91:
        return ('on', i, 'eql', rand_batch(rng, alpha))
    if r < 0.955:
        m = rng.choice(['rev', 'revd', 'pop', 'remove', 'index', 'count', 'contains', 'clear', 'rev', 'revd'])
        if m == 'pop':
            return ('on', i, 'pop', rng.choice([-1, -1, 0, 1, 5, -9]))
        if m in ('remove', 'index', 'count', 'contains'):
            return ('on', i, m, rand_arg(rng, alpha))
        return ('on', i, m)
    return ('on', i, 'nat', rng.choice([0, 1, 1]))


def rand_script(rng, alpha, maxlen=14) -> T.List[tuple]:
    init = rand_batch(rng, alpha)
    if rng.random() < 0.3:
        init = init + init[:2]            # raw duplicates in the initial container
    s: T.List[tuple] = [('new', init)]
    nobj = 1
    for _ in range(rng.randint(1, maxlen)):
        r = rng.random()
        i = rng.randrange(nobj)
        if r < 0.80:
            s.append(rand_on(rng, i, alpha))
            continue
        if r < 0.84:
            s.append(('copy', i))
        elif r < 0.87:
            s.append(('newfrom', i))
        elif r < 0.91:
            s.append(('add', i, rand_batch(rng, alpha)))
        elif r < 0.94:
            s.append(('radd', rand_batch(rng, alpha), i))
        elif r < 0.97:
            s.append(('iaddobj', i, rng.randrange(nobj)))
            continue
        elif r < 0.99:
            s.append(('eqobj', i, rng.randrange(nobj)))
            continue
        else:
            s.append(('new', rand_batch(rng, alpha)))
        nobj += 1
    return s


def alias_script(rng, alpha, maxlen=10) -> T.List[tuple]:
    """2-3 objects built from / fed with the SAME caller-owned lists, the caller changing them in between"""
    plain = [a for a in alpha if not a.startswith(('-I', '-L', '-D', '-U', '-isystem'))] or alpha
    pick = (lambda: rand_arg(rng, plain)) if rng.random() < 0.6 else (lambda: rand_arg(rng, alpha))
    s: T.List[tuple] = [('xlist', [pick() for _ in range(rng.randint(0, 4))])]
    nx, nobj = 1, 0
    if rng.random() < 0.4:
        s.append(('xlist', [pick() for _ in range(rng.randint(0, 3))]))
        nx = 2
    for _ in range(rng.randint(3, maxlen)):
        r = rng.random()
        x = f'x:{rng.randrange(nx)}'
        if nobj == 0 or r < 0.22:
            s.append(('new', x))
            nobj += 1
            continue
        i = rng.randrange(nobj)
        if r < 0.30:
            s.append(('xmut', rng.randrange(nx), 'append', pick()) if rng.random() < 0.6 else
                     ('xmut', rng.randrange(nx), rng.choice(['pop', 'clear'])))
        elif r < 0.42:
            s.append(('on', i, rng.choice(['iadd', 'extend', 'extd', 'extl', 'eql']), x))
        elif r < 0.47:
            s.append(('add', i, x))
            nobj += 1
        elif r < 0.52:
            s.append(('radd', x, i))
            nobj += 1
        elif r < 0.62:
            s.append(('on', i, rng.choice(['iter', 'len', 'revd'])))
        elif r < 0.70:
            s.append(('on', i, 'ins', rand_index(rng), pick()))
        elif r < 0.76:
            s.append(('on', i, 'appd', pick()))
        elif r < 0.84:
            s.append(('on', i, 'nat', rng.choice([0, 0, 1])))
        elif r < 0.88:
            s.append(('copy', i))
            nobj += 1
        elif r < 0.92:
            s.append(('on', i, rng.choice(['rev', 'clear'])))
        else:
            s.append(('on', i, 'iadd', [pick() for _ in range(rng.randint(1, 3))]))
    for i in range(nobj):
        s.append(('on', i, 'iter'))
    return s


CORPUS: T.List[T.Tuple[str, T.List[tuple]]] = [
    # the pattern of BuildTarget.get_single_compile_base_args: one long-lived list, a fresh object per source
    ('base', [('xlist', ['-O2', '-g']), ('new', 'x:0'), ('on', 0, 'iadd', ['-DA', '-w']), ('on', 0, 'iter'),
              ('new', 'x:0'), ('on', 1, 'iadd', ['-DA', '-w']), ('on', 1, 'iter'), ('new', 'x:0'), ('on', 2, 'iter')]),
    ('clike', [('xlist', ['-O2', '-g']), ('new', 'x:0'), ('on', 0, 'iadd', ['-w']), ('on', 0, 'iter'), ('new', 'x:0'), ('on', 1, 'iter')]),
    ('base', [('xlist', ['a', 'b']), ('new', 'x:0'), ('on', 0, 'ins', 0, 'z'), ('on', 0, 'appd', 'q'), ('on', 0, 'nat', 0),
              ('xmut', 0, 'append', 'c'), ('on', 0, 'iter'), ('new', 'x:0'), ('on', 1, 'iadd', 'x:0'), ('on', 1, 'extd', 'x:0'),
              ('add', 1, 'x:0'), ('radd', 'x:0', 1), ('on', 1, 'iter'), ('xmut', 0, 'clear'), ('on', 2, 'iter'), ('on', 3, 'iter')]),
    # the class docstring
    ('clike', [('new', ['-Lfoo', '-lbar']), ('on', 0, 'iadd', ['-Lpho', '-lbaz']), ('on', 0, 'iter')]),
    ('clike', [('new', ['-Ifoo', '-Ibar']), ('add', 0, ['-Ifez', '-Ibaz', '-Werror']), ('on', 1, 'iter')]),
    ('clike', [('new', ['-Ifez', '-Ibaz', '-Werror']), ('add', 0, ['-Ifoo', '-Ibar']), ('on', 1, 'iter')]),
    # upstream internaltests test_compiler_args_class
    ('clike', [('new', ['-I.', '-I./tests/', '-DMACRO', '-Iboo']), ('on', 0, 'iadd', ['-I.', '-I./tests2/']),
               ('on', 0, 'iter'), ('on', 0, 'iadd', ['-DMACRO', '-UMACRO']), ('on', 0, 'iter')]),
    ('clike', [('new', ['-I..', '-I.']), ('radd', ['-I.', '-I./tests/'], 0), ('on', 1, 'iter'),
               ('on', 0, 'append', '-I..'), ('on', 0, 'append', '-O3'), ('on', 0, 'iter'),
               ('on', 0, 'iadd', ['-O3', '-I..', '-lfoo']), ('on', 0, 'iter')]),
    ('clike', [('new', []), ('on', 0, 'iadd', ['-lfoo', '-lfoo', 'x.a', 'x.a']), ('on', 0, 'iter'),
               ('on', 0, 'extd', ['-lfoo', '/abs/liby.so', '/abs/liby.so']), ('on', 0, 'iter'),
               ('on', 0, 'extl', ['-lbar', '-lm', '-lm', '-Lz', '-O2']), ('on', 0, 'nat', 1), ('on', 0, 'nat', 0),
               ('on', 0, 'nat', 0)]),
    ('clike', [('new', ['-isystem', '/nonexistent-mverif/include', '-isystem/nonexistent-mverif/sys', '-isystem=/nonexistent-mverif/sys',
                        '-isystem/i']), ('on', 0, 'nat', 1), ('on', 0, 'nat', 0), ('on', 0, 'iter')]),
    # len() with pending duplicates; == against an object with pending arguments; mixin methods bounded by len()
    ('clike', [('new', ['-Dx']), ('on', 0, 'iadd', ['-Dx', '-Dx']), ('on', 0, 'len'), ('on', 0, 'iter'), ('on', 0, 'len')]),
    ('clike', [('new', ['-Dx']), ('copy', 0), ('on', 1, 'iadd', ['-Dx', '-O2']), ('eqobj', 0, 1), ('eqobj', 1, 0),
               ('eqobj', 0, 1)]),
    ('clike', [('new', ['-Dx', '-Ia']), ('iaddobj', 0, 0), ('on', 0, 'iter')]),
    ('clike', [('new', ['-Dx', '-O2']), ('on', 0, 'iadd', ['-Dx', '-Dy', '-Dy']), ('on', 0, 'revd'), ('on', 0, 'iadd', ['-Dx', '-Dx']),
               ('on', 0, 'rev'), ('on', 0, 'iter')]),
    ('clike', [('new', ['-Dx', '-O2']), ('new', ['-Dx']), ('on', 1, 'iadd', ['-O2']), ('eqobj', 0, 1), ('new', ['-Dx']), ('new', ['-Dx']),
               ('on', 3, 'iadd', ['-O2']), ('eqobj', 2, 3)]),
    ('base', [('new', ['a', 'b', 'a']), ('on', 0, 'iadd', ['c']), ('on', 0, 'pop', -1), ('on', 0, 'remove', 'a'), ('on', 0, 'index', 'a'),
              ('on', 0, 'count', 'a'), ('on', 0, 'contains', 'z'), ('on', 0, 'remove', 'z'), ('on', 0, 'clear'), ('on', 0, 'pop', 0)]),
    # F-ARG-D (fixed in 661f340: must stay one copy either way)
    ('d', [('new', []), ('on', 0, 'iadd', ['-Lx.a', '-Lx.a']), ('on', 0, 'iter')]),
    ('d', [('new', []), ('on', 0, 'iadd', ['-Lx.a']), ('on', 0, 'iadd', ['-Lx.a']), ('on', 0, 'iter')]),
    ('base', [('new', ['x.a']), ('on', 0, 'iadd', ['x.a', 'y.a', 'y.a', '-Ia', '-Ia']), ('on', 0, 'iter')]),
]


def exhaustive_scripts(ctx: Ctx, alpha: T.List[str], depth: int, inits) -> T.Iterator[T.List[tuple]]:
    """every operation sequence of length <= depth over the small alphabet"""
    steps: T.List[tuple] = []
    for a in alpha:
        steps.append(('on', 0, 'iadd', [a]))
        steps.append(('on', 0, 'appd', a))
    for a, b in itertools.product(alpha, alpha):
        steps.append(('on', 0, 'iadd', [a, b]))
    for a in alpha[:5]:
        for k in (0, 1, -1):
            steps.append(('on', 0, 'ins', k, a))
    steps += [('on', 0, 'extd', [alpha[0], alpha[6 % len(alpha)]]), ('on', 0, 'extl', [alpha[2 % len(alpha)], alpha[-1], alpha[3 % len(alpha)]]),
              ('on', 0, 'iter'), ('on', 0, 'cp'), ('on', 0, 'len'), ('on', 0, 'nat', 1), ('on', 0, 'nat', 0), ('on', 0, 'del', 0),
              ('on', 0, 'del', -1), ('on', 0, 'set', 0, alpha[0]), ('on', 0, 'get', 1), ('on', 0, 'rev'), ('on', 0, 'revd'),
              ('on', 0, 'pop', -1), ('on', 0, 'remove', alpha[0]), ('on', 0, 'index', alpha[1 % len(alpha)]), ('on', 0, 'clear')]
    for init in inits:
        for d in range(1, depth + 1):
            for combo in itertools.product(steps, repeat=d):
                yield [('new', list(init))] + list(combo)


# ------------------------------------------------------------------ run

def table_alpha(cls) -> T.List[str]:
    """arguments derived from the live class attributes (so that a changed table is exercised)"""
    out: T.List[str] = []
    for p in list(cls.prepend_prefixes) + list(cls.dedup2_prefixes) + list(cls.dedup1_prefixes):
        out += [p, p + 'x', p + 'y']
    for s in list(cls.dedup1_suffixes) + list(cls.dedup2_suffixes):
        out += ['x' + s, 'liby' + s + '.1']
    for p in cls.prepend_prefixes:
        for s in cls.dedup1_suffixes[:2]:
            out.append(p + 'x' + s)
    out += list(cls.dedup1_args) + list(cls.dedup2_args) + list(cls.always_dedup_args)[:2]
    return list(dict.fromkeys(out))


class Case(T.NamedTuple):
    cname: str
    gnu: bool
    dirs: bool
    script: T.List[tuple]
    origin: str


def check_case(ctx: Ctx, cl, case: Case, with_oracle: bool = True) -> T.Tuple[str, str, bool]:
    if native_kind(cl[case.cname]) == 'unknown':   # a to_native the model does not mirror: leave it out
        case = case._replace(script=[op for op in case.script if not (op[0] == 'on' and op[2] == 'nat')])
    return _check_case(ctx, cl, case, with_oracle)


def _check_case(ctx: Ctx, cl, case: Case, with_oracle: bool = True) -> T.Tuple[str, str, bool]:
    """run the real classes on one script: lazy run (with the eager-reference oracle watching) and a run that
    flushes after every operation; returns (protocol line, implementation answer, nontrivial)"""
    cls = cl[case.cname]
    comp = stub_compiler(case.gnu, case.dirs)
    orc = Oracle(ctx, cls, case.cname, case.gnu, case.dirs, case.script, cls.always_dedup_args) if with_oracle else None
    outs, objs = exec_impl(cls, comp, case.script, hooks=orc,
                           frame=Frame(ctx, case.cname, case.script) if with_oracle else None)
    ans = impl_answer(outs, objs)
    finals = [peek(o) for o in objs]
    if with_oracle:
        # the statement itself on the implementation: lazy == flush-after-every-operation
        outs_e, objs_e = exec_impl(cls, comp, case.script, eager=True)
        finals_e = [list(o._container) for o in objs_e]
        if finals != finals_e or outs != outs_e:
            ctx.violation(f'{case.cname}:lazy-vs-eager', 'lazy object differs from the object flushed after every operation',
                          {'class': case.cname, 'gnu': case.gnu, 'dirs': case.dirs, 'script': case.script,
                           'lazy': finals, 'eager': finals_e})
    nontriv = any(o.startswith('L') for o in outs) and finals != [[]] and \
        any(sorted(f) != f and len(set(f)) > 2 for f in finals)
    return script_line(case.cname, case.gnu, case.dirs, case.script), ans, nontriv


def kind_checks(ctx: Ctx, cl, strings: T.List[str]) -> T.List[T.Tuple[str, str, T.Tuple[str, str, str]]]:
    """classification stream: (`class`/`gf` line, implementation answer, (kind, description, argument)); every live
    classification is judged against the documentation-level reference"""
    from mesonbuild.compilers.mixins import clike
    from mesonbuild.arglist import Dedup
    show = {Dedup.NO_DEDUP: 'N', Dedup.UNIQUE: 'U', Dedup.OVERRIDDEN: 'O'}
    out = []
    for s in strings:
        for cname, cls in cl.items():
            d, p = cls._can_dedup(s), cls._should_prepend(s)
            out.append((f'class {cname}|{e_item(s)}', show[d] + str(int(bool(p))), ('kind', f'class {cname} {s!r}', s)))
            want = ref_kind(cls, cname, s)
            if (bool(p), show[d]) != want:
                ctx.tag('kind-mismatch')
                if _KIND_REPORTS[0] < 2:        # the first ones in full: the classification and what it does to a repeat
                    _KIND_REPORTS[0] += 1
                    demo = cls(stub_compiler(False, False), ['-O2', s])
                    demo += [s, s]
                    got = list(demo)
                    ref = ref_add(lambda x: ref_kind(cls, cname, x), ['-O2', s], [s, s])
                    ctx.violation(f'{cname}:kind:{s}', f'{s!r} is classified {show[d]}/prepend={bool(p)}, the contract says '
                                  f'{want[1]}/prepend={want[0]}; [-O2, {s}] += [{s}, {s}] gives {got}, eager meaning {ref}',
                                  {'class': cname, 'arg': s, 'script': [('new', ['-O2', s]), ('on', 0, 'iadd', [s, s]), ('on', 0, 'iter')],
                                   'impl': got, 'reference': ref})
                    rejudge(ctx, cl, cname, s)
        g = bool(clike.GROUP_FLAGS.search(s))
        out.append((f'gf {e_item(s)}', str(int(g)), ('kind', f'gf {s!r}', s)))
        if g != doc_library_like(s):
            ctx.violation(f'clike:group-kind:{s}', f'{s!r}: to_native treats it as library-like={g}, the contract says '
                          f'{doc_library_like(s)}', {'class': 'clike', 'arg': s})
    return out


_KIND_REPORTS = [0]


def rejudge(ctx: Ctx, cl, cname: str, a: str) -> None:
    """what a (mis)classified argument does on the real class: two occurrences, under the eager-reference oracle"""
    for sc in ([('new', []), ('on', 0, 'iadd', [a, a]), ('on', 0, 'iter')],
               [('new', [a]), ('on', 0, 'iadd', [a]), ('on', 0, 'iter')],
               [('new', ['-O2', a]), ('on', 0, 'iadd', [a, '-O2']), ('on', 0, 'iter'), ('on', 0, 'nat', 1)]):
        check_case(ctx, cl, Case(cname, True, False, sc, 'rejudge'))


def boundary_pool(cl) -> T.List[str]:
    """spellings on both sides of every alternative of the live classification regexes and tuples"""
    out: T.List[str] = []
    vers = ['', '.1', '.10', '.100', '.1.2', '.12.3', '.1.2.3', '.74.2.1', '.1.83.0', '.1.2.3.4', '.12.3.45.6', '.', '.1.', '..1', '.1a',
            '.a', '.1.a', '.01.002', '.-1']
    dirs = ['', 'dir/', '/usr/lib64/', 'C:\\d\\', 'libdir/', './', 'a\nb/']
    names = ['libfoo', 'lib', 'foo', 'xlibfoo', 'Libfoo', 'LIBFOO', 'lib foo', 'lib\nfoo', 'libfoo.so.1.bar', 'libfoo.so.bar']
    for d in dirs:
        for n in names:
            for so in ('.so', '.SO', '.sox', '.s', 'so', ''):
                for v in (vers if so == '.so' else vers[:4]):
                    out.append(d + n + so + v)
    for a in ('/usr/lib64/libcrypto.so.10', 'libicuuc.so.74.2', 'libboost_system.so.1.83.0', 'libz.so.1\n', 'libz.so.10\n',
              'libz.so.1.2.3.4\n', '-Wl,libq.so.10', '-Wl,/x/libq.so', 'libq.so.10,x'):
        out.append(a)
    for cls in cl.values():
        tuples = (list(cls.prepend_prefixes) + list(cls.dedup2_prefixes) + list(cls.dedup1_prefixes) + list(cls.dedup1_args) +
                  list(cls.dedup2_args) + list(cls.always_dedup_args))
        for t in tuples:
            out += [t, t + 'x', t + '/abs', 'x' + t, ' ' + t, t.upper(), t.lower(), t[:-1], t + t, t + '=v', t + ' v']
        for sfx in list(cls.dedup1_suffixes) + list(cls.dedup2_suffixes):
            out += [sfx, 'x' + sfx, 'x' + sfx + 'x', 'x' + sfx.upper(), 'x' + sfx + '.1', 'x' + sfx[:-1], 'libx' + sfx + '.10', 'x' + sfx + '\n',
                    '-Wl,x' + sfx]
    for t in ('-I', '-L', '-D', '-U', '-isystem', '-l', '-Wl,-l', '-Wl,-rpath,', '-Wl,-rpath-link,', '-c', '-S', '-E', '-pipe',
              '-pthread', '-Wl,--export-dynamic', '-lm', '-lc'):
        out += [t, t + 'x', 'x' + t, t.upper(), t.lower(), t[:-1], t + '=v']
    return list(dict.fromkeys(out))


def run(ctx: Ctx) -> None:
    cl = classes()
    rng = ctx.rng
    _KIND_REPORTS[0] = 0
    ctx.rule = ('(plus an aliasing stream: 2-3 objects built from / fed with the same caller-owned list objects, the caller '
                'changing them in between, with a frame oracle after every operation; plus one end-to-end meson setup of targets '
                'with 3-4 sources per language) corpus scripts first; every operation sequence of length <=2 over a 10-argument alphabet (3 initial '
                'containers, C-like class) and of length <=3 over a 4-argument alphabet (3 classes); random scripts of up '
                'to 14 operations over 1-5 objects, three classes, batches <=5 with in-batch repeats, raw duplicates in '
                'initial containers, out-of-range indices, malformed arguments (newlines, empty, non-ASCII, protocol '
                'separators). A script is non-trivial when some read returned a list and a final list has >2 distinct '
                'arguments not in sorted order; counted distinct by script text.')
    ctx.assumptions += TRUSTED
    lines: T.List[str] = []
    impl: T.List[str] = []
    desc: T.List[T.Any] = []

    # -- generated tables round trip + table obligation per class
    for cname, cls in cl.items():
        t = tables_of(cls)
        lines.append(f'tables {cname}')
        impl.append('/'.join(e_list(t[k]) for k, _ in TABLE_FIELDS))
        desc.append(('tables', cname, None))

    # -- classification stream
    pool = boundary_pool(cl)
    strings = list(dict.fromkeys(ALPHA_CLIKE + WEIRD + pool + sum((table_alpha(c) for c in cl.values()), [])))
    for _ in range(ctx.scale(4000, 30000)):
        strings.append(''.join(rng.choice(FRAGS) for _ in range(rng.randint(1, 7))))
    for ln, ans, d in kind_checks(ctx, cl, list(dict.fromkeys(strings))):
        lines.append(ln)
        impl.append(ans)
        desc.append(d)
        ctx.tag('kind:' + ln.split(' ')[0] + ':' + ans)

    # -- scripts (generated lazily: a run that has found failing inputs stops early)
    alphas = {c: list(dict.fromkeys(ALPHA_CLIKE + table_alpha(cl[c]) + rng.sample(pool, min(len(pool), 60)))) for c in cl}

    def gen_cases() -> T.Iterator[Case]:
        for cname, script in CORPUS:
            for gnu, dirs in ((True, True), (False, False)):
                yield Case(cname, gnu, dirs, script, 'corpus')
        for cname, cls in cl.items():            # prefix x once-only suffix, twice in one batch / in two batches
            for p in cls.prepend_prefixes:
                for sfx in list(cls.dedup1_suffixes) + list(cls.dedup1_args):
                    w = p + 'x' + sfx
                    yield Case(cname, False, False, [('new', []), ('on', 0, 'iadd', [w, w]), ('on', 0, 'iter')], 'tables')
                    yield Case(cname, False, False, [('new', []), ('on', 0, 'iadd', [w]), ('on', 0, 'iadd', [w]), ('on', 0, 'iter')], 'tables')
        for sc in probe_scripts(list(dict.fromkeys(ALPHA_SMALL + sum((table_alpha(c) for c in cl.values()), [])))[:60]):
            for cname in cl:
                yield Case(cname, True, False, sc, 'probe')
        spool = pool if ctx.deep else list(dict.fromkeys(pool[::4] + [x for x in pool if x.startswith(('/usr/lib64/libcrypto', 'libicuuc', 'libboost'))]))
        for a in spool:                     # every boundary spelling (quick: every 4th, versions and names still all covered): two occurrences in one batch / in two / after the list
            for cname in cl:
                yield Case(cname, True, False, [('new', []), ('on', 0, 'iadd', [a, a]), ('on', 0, 'iter'), ('on', 0, 'nat', 1)], 'boundary')
                yield Case(cname, False, False, [('new', [a, '-O2']), ('on', 0, 'iadd', [a]), ('on', 0, 'iadd', ['-O2', a]), ('on', 0, 'iter')],
                           'boundary')
        inits = [[], ['-Ia', '-Dx', '-lfoo', '-O2'], ['-Dx', 'x.a', '-Dx', 'x.a', '-La']]
        for sc in exhaustive_scripts(ctx, ALPHA_SMALL[:ctx.scale(10, 12)], 2, inits):
            yield Case('clike', True, False, sc, 'exhaustive2')
        small4 = ['-Ia', '-Dx', 'x.a', '-Lx.a']
        ex3 = list(exhaustive_scripts(ctx, small4, 3, [[], ['-Dx', '-Lx.a', 'x.a']]))
        ex3 = rng.sample(ex3, ctx.scale(30000, 100000))
        for k, sc in enumerate(ex3):
            yield Case(('clike', 'd', 'base')[k % 3], False, False, sc, 'exhaustive3')
        for _ in range(ctx.scale(12000, 80000)):
            cname = rng.choice(['base', 'base', 'clike', 'd'] + [c for c in cl if c not in ('clike', 'd', 'base')])
            yield Case(cname, rng.random() < 0.5, rng.random() < 0.3,
                       alias_script(rng, alphas[cname] if rng.random() < 0.5 else ALPHA_SMALL), 'aliasing')
        for _ in range(ctx.scale(25000, 200000)):
            cname = rng.choice(['clike', 'clike', 'clike', 'd', 'base'] + [c for c in cl if c not in ('clike', 'd', 'base')] * 2)
            alpha = alphas[cname] if rng.random() < 0.6 else ALPHA_SMALL
            yield Case(cname, rng.random() < 0.6, rng.random() < 0.4, rand_script(rng, alpha), 'random')

    ctx.exhaustive = False
    cases: T.List[Case] = []
    nontriv_keys = []
    for c in gen_cases():
        cases.append(c)
        if len(ctx.violations) >= 2:
            ctx.notes.append('stopped generating after two distinct violations with failing inputs')
            break
        ln, ans, nt = check_case(ctx, cl, c)
        lines.append(ln)
        impl.append(ans)
        desc.append(c)
        ctx.tag('origin:' + c.origin)
        ctx.tag('class:' + c.cname)
        for op in c.script:
            ctx.tag('op:' + (op[2] if op[0] == 'on' else op[0]))
        if 'E' in ans.split('#')[0].split(';'):
            ctx.tag('error:IndexError')
        if '!N1' in ans:
            ctx.tag('final-state:override-check-pending')
        if nt:
            nontriv_keys.append(ln)
    for k in nontriv_keys:
        ctx.seen_nontrivial(hash(k))
    ctx.count(len(lines))

    # -- end-to-end: real frontend + Ninja backend on a target with several sources per language
    e2e_leg(ctx)

    # -- to_native on real compiler objects (gcc-like and other linker flavours); the backend's assembly on abstract groups
    from . import c13_backend
    n0 = len(lines)
    if len(ctx.violations) < 2:
        c13_backend.native_real_leg(ctx, lines, impl, desc)
    if len(ctx.violations) < 2:
        c13_backend.assembly_leg(ctx, lines, impl, desc)
    ctx.count(len(lines) - n0)

    # -- correspondence with the model
    if ctx.model_available:
        answers = ctx.driver('arglist', lines)
        for ln, a_impl, a_model, d in zip(lines, impl, answers, desc):
            if a_impl != a_model:
                if isinstance(d, Case):
                    ctx.disagreement({'kind': 'script', 'class': d.cname, 'gnu': d.gnu, 'dirs': d.dirs, 'script': d.script,
                                      'impl': a_impl, 'model': a_model})
                elif d[0] in ('native-real', 'assemble'):
                    ctx.disagreement({'kind': d[0], **d[1], 'impl': a_impl, 'model': a_model})
                else:
                    ctx.disagreement({'kind': d[0], 'input': d[1], 'arg': d[2] if len(d) > 2 else None,
                                      'impl': a_impl, 'model': a_model})
        # table obligation, evaluated by the model on the regenerated tables
        oks = ctx.driver('arglist', [f'tablesok {c}' for c in cl])
        for cname, r in zip(cl, oks):
            ok, w = r.split('|')
            ctx.tag(f'tablesOk:{cname}:{ok}')
            if ok != '1':
                ctx.notes.append(f'tablesOk({cname}) = false; witness {d_list(w) if w != "none" else None}')
                if w != 'none':
                    wa = d_list(w)[0]
                    check_case(ctx, cl, Case(cname, False, False, [('new', []), ('on', 0, 'iadd', [wa, wa]), ('on', 0, 'iter')], 'witness'))
    for c in cases[:40:8] + cases[40::max(1, len(cases) // 5)]:
        ctx.sample({'class': c.cname, 'script': c.script}, limit=10)


# ------------------------------------------------------------------ failing-input search / replay

def _args_of(script) -> T.List[str]:
    out: T.List[str] = []
    for op in script:
        for p in op[1:]:
            if isinstance(p, str) and not is_ref(p) and p not in ('iadd', 'extend', 'append', 'appd', 'extd', 'extl', 'ins', 'set', 'del',
                                                'get', 'iter', 'cp', 'len', 'eql', 'nat', 'rev', 'revd', 'pop', 'remove', 'index',
                                                'count', 'contains', 'clear'):
                out.append(p)
            elif isinstance(p, (list, tuple)):
                out += [x for x in p if isinstance(x, str)]
    return list(dict.fromkeys(out))


def probe_scripts(args: T.List[str]) -> T.Iterator[T.List[tuple]]:
    """small scripts that put each clause of the property on the given arguments"""
    ctxargs = ['-O2', '-Ia', '-Dx', 'x.a']
    for a in args:
        yield [('new', []), ('on', 0, 'iadd', [a, a]), ('on', 0, 'iter')]
        yield [('new', []), ('on', 0, 'iadd', [a]), ('on', 0, 'iadd', [a]), ('on', 0, 'iter')]
        yield [('new', [a]), ('on', 0, 'iadd', [a]), ('on', 0, 'iter')]
        for c in ctxargs:
            yield [('new', [a, c]), ('on', 0, 'iadd', [c, a]), ('on', 0, 'iter')]
            yield [('new', [c]), ('on', 0, 'iadd', [a, c, a]), ('on', 0, 'iadd', [c, a]), ('on', 0, 'iter')]
            yield [('new', [c, a]), ('on', 0, 'iadd', [a]), ('on', 0, 'iter'), ('on', 0, 'iadd', [c, a, c]), ('on', 0, 'iter')]
            yield [('new', [c]), ('on', 0, 'append', a), ('on', 0, 'append', c), ('on', 0, 'append', a), ('on', 0, 'nat', 1)]
        yield [('new', ['-O2', a]), ('copy', 0), ('on', 1, 'iadd', [a, '-Dx']), ('iaddobj', 0, 1), ('on', 0, 'iter')]
        yield [('new', [a, '-O2']), ('on', 0, 'extd', [a, '/abs' + a]), ('on', 0, 'ins', 1, a), ('on', 0, 'iadd', [a]), ('on', 0, 'iter')]


def search(ctx: Ctx, disagreements: T.List[dict]) -> None:
    """property oracle on the implementation around what no longer checks: the disagreeing scripts, their
    prefixes and one-op deletions, probe scripts over the arguments involved, the table witnesses, and a
    deeper random run over those arguments"""
    cl = classes()
    rng = ctx.rng
    seeds: T.List[str] = []
    scripts: T.List[T.Tuple[str, T.List[tuple]]] = []
    for d in disagreements:
        if d.get('kind') == 'script':
            sc = [tuple(o) for o in d['script']]
            seeds += _args_of(sc)
            for k in range(1, len(sc) + 1):
                scripts.append((d['class'], sc[:k]))
            for k in range(1, len(sc)):
                scripts.append((d['class'], sc[:k] + sc[k + 1:]))
        elif d.get('kind') == 'kind' and isinstance(d.get('arg'), str):
            seeds.append(d['arg'])
    for c in cl.values():
        seeds += table_alpha(c)
    seeds = list(dict.fromkeys(seeds))[:120]
    before = len(ctx.violations)
    # every classifier disagreement is re-judged on the real class: two occurrences of the argument, under the oracle
    for d in disagreements:
        if d.get('kind') == 'kind' and isinstance(d.get('arg'), str):
            a = d['arg']
            _KIND_REPORTS[0] = 0
            kind_checks(ctx, cl, [a])
            for cname in cl:
                rejudge(ctx, cl, cname, a)
    if len(ctx.violations) > before:
        return
    kinds = {d.get('kind') for d in disagreements} & {'native-real', 'assemble'}
    if kinds:
        from . import c13_backend
        for d in disagreements:            # the disagreeing inputs themselves first, under the oracle
            if d.get('kind') in kinds:
                c13_backend.replay_case(ctx, d)
        if len(ctx.violations) == before:
            c13_backend.search_more(ctx, kinds)
        if len(ctx.violations) > before:
            return
    for cname, sc in scripts:
        try:
            check_case(ctx, cl, Case(cname, True, True, sc, 'search'))
        except Exception as e:
            ctx.notes.append(f'search: {type(e).__name__} on a shrunk script')
        if len(ctx.violations) > before:
            return
    for sc in probe_scripts(seeds):
        for cname in cl:
            check_case(ctx, cl, Case(cname, True, False, sc, 'search'))
        if len(ctx.violations) > before:
            return
    alpha = seeds + ALPHA_SMALL
    for _ in range(60000):
        cname = rng.choice(list(cl))
        check_case(ctx, cl, Case(cname, rng.random() < 0.5, rng.random() < 0.5, rand_script(rng, alpha, 8), 'search'))
        if len(ctx.violations) > before:
            return


def replay(ctx: Ctx, rep: dict) -> None:
    cl = classes()
    case = rep.get('case') or {}
    if 'script' not in case and rep.get('correspondence_disagreements'):
        case = rep['correspondence_disagreements'][0]
    print('replay:', rep.get('what', rep.get('kind')))
    if case.get('kind') in ('native-real', 'assemble'):
        from . import c13_backend
        c13_backend.replay_case(ctx, case)
        for v in ctx.violations:
            print(' oracle:', v['key'], '-', v['what'])
        if not ctx.violations and not ctx.known_hits:
            print(' oracle: no violation')
    elif 'script' in case:
        sc = [tuple(o) for o in case['script']]
        c = Case(case.get('class', 'clike'), bool(case.get('gnu')), bool(case.get('dirs')), sc, 'replay')
        ln, ans, _ = check_case(ctx, cl, c)
        outs, dump = ans.split('#')
        print(' script:', sc)
        print(' impl outputs:', [('L' + repr(d_list(o[1:]))) if o.startswith('L') else o for o in outs.split(';')])
        print(' impl final state:', dump)
        if ctx.model_available:
            m = ctx.driver('arglist', [ln])[0]
            print(' model agrees:' if m == ans else ' MODEL DIFFERS:', m if m != ans else '')
        for v in ctx.violations:
            print(' oracle:', v['key'], '-', v['what'])
        for k in ctx.known_hits:
            print(' oracle (known finding):', k)
        if not ctx.violations and not ctx.known_hits:
            print(' oracle: no violation')
    elif 'arg' in case:
        kind_checks(ctx, cl, [case['arg']])
        for v in ctx.violations:
            print(' oracle:', v['key'], '-', v['what'])


# ------------------------------------------------------------------ end-to-end leg: one target, several sources

E2E_MESON = """project('p', 'c', 'nasm')
add_project_arguments('-DPROJ_DEFINE=1', '-w+all', language: 'nasm')
add_project_arguments('-DCPROJ=1', '-fno-common', language: 'c')
executable('e', 'main.c', 'a.asm', 'b.asm', 'c.asm', 'd.asm',
           nasm_args: ['-DT=1', '-w+other', '-w+other'])
static_library('l', 'x.c', 'y.c', 'z.c', c_args: ['-DCT=1', '-DCT=1', '-funroll-loops', '-funroll-loops'],
               include_directories: include_directories('inc'))
"""


def e2e_leg(ctx: Ctx) -> None:
    """`meson setup` (real frontend and Ninja backend, fake `nasm`/`ninja`) of a target with several sources per
    language: every compile statement of one target and language must carry the same ARGS, with the specified
    arguments in the specified multiplicity (NASM uses the plain CompilerArgs class, C the C-like one)."""
    import re
    import stat
    import subprocess
    import sys
    tmp = common.scratch_dir('mverif-c13-')
    try:
        bindir, src, bld = (os.path.join(tmp, d) for d in ('bin', 'src', 'bld'))
        os.makedirs(bindir)
        os.makedirs(os.path.join(src, 'inc'))

        def write(path, text, exe=False):
            with open(path, 'w', encoding='utf-8') as f:
                f.write(text)
            if exe:
                os.chmod(path, os.stat(path).st_mode | stat.S_IXUSR | stat.S_IXGRP | stat.S_IXOTH)
        write(os.path.join(bindir, 'nasm'), '#!/bin/sh\ncase "$1" in --version|-v) echo "NASM version 2.16.01 compiled on Jan  1 2024";; esac\nexit 0\n', True)
        write(os.path.join(bindir, 'ninja'), '#!/bin/sh\nif [ "$1" = "--version" ]; then echo 1.11.1; fi\nexit 0\n', True)
        write(os.path.join(src, 'meson.build'), E2E_MESON)
        write(os.path.join(src, 'main.c'), 'int main(void) { return 0; }\n')
        for n in 'xyz':
            write(os.path.join(src, n + '.c'), f'int {n}(void) {{ return 0; }}\n')
        for n in 'abcd':
            write(os.path.join(src, n + '.asm'), '; nothing\n')
        env = os.environ.copy()
        env['PATH'] = bindir + os.pathsep + env['PATH']
        env['PYTHONPATH'] = common.REPO
        for v in ('CFLAGS', 'LDFLAGS', 'CPPFLAGS', 'CC', 'ASFLAGS', 'NASMFLAGS'):
            env.pop(v, None)
        p = subprocess.run([sys.executable, os.path.join(common.REPO, 'meson.py'), 'setup', '--backend=ninja', bld, src],
                           env=env, stdout=subprocess.PIPE, stderr=subprocess.STDOUT, text=True, timeout=300)
        if p.returncode != 0:
            ctx.notes.append('end-to-end leg unavailable: meson setup failed: ' + p.stdout[-300:].replace('\n', ' | '))
            ctx.tag('e2e:unavailable')
            return
        text = open(os.path.join(bld, 'build.ninja'), encoding='utf-8').read()
        args: T.Dict[str, T.List[str]] = {}
        for m in re.finditer(r'^build (\S+): (\S+) (\S+)[^\n]*\n((?: [^\n]*\n)+)', text, re.M):
            _out, _rule, inp, body = m.groups()
            am = re.search(r'^ ARGS = (.*)$', body, re.M)
            args[os.path.basename(inp)] = am.group(1).split() if am else []
        ctx.tag('e2e:compile-statements', len(args))
        ctx.count(len(args))
        spec = {
            'asm': (['a.asm', 'b.asm', 'c.asm', 'd.asm'], {'-DPROJ_DEFINE=1': 1, '-w+all': 1, '-DT=1': 1, '-w+other': 2}),
            'c': (['x.c', 'y.c', 'z.c'], {'-DCPROJ=1': 1, '-fno-common': 1, '-DCT=1': 1, '-funroll-loops': 2}),
        }
        for lang, (files, counts) in spec.items():
            if any(f not in args for f in files):
                ctx.violation(f'e2e:{lang}:statement-missing', f'compile statements not found for {files}', {'found': sorted(args)})
                continue
            for f in files:
                for a, n in counts.items():
                    if args[f].count(a) != n:
                        ctx.violation(f'e2e:{lang}:multiplicity', f'ARGS of {f} has {a!r} {args[f].count(a)} times, the build '
                                      f'definition asks for {n}', {'file': f, 'ARGS': args[f], 'first': args[files[0]],
                                                                   'meson.build': E2E_MESON})
                if args[f] != args[files[0]]:
                    ctx.violation(f'e2e:{lang}:sources-differ', f'{f} and {files[0]} of one target get different ARGS',
                                  {'file': f, 'ARGS': args[f], 'first': args[files[0]], 'meson.build': E2E_MESON})
        ctx.sample({'e2e ARGS a.asm': args.get('a.asm'), 'x.c': args.get('x.c')}, limit=12)
    finally:
        common.rmtree(tmp)
