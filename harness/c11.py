"""C11 — installation is confined to DESTDIR, exact and reversible.

Implementation under test: `mesonbuild.minstall.run` (in-process, `--no-rebuild`) and
`mesonbuild.scripts.uninstall.run` on `InstallData` objects built with the real dataclasses of
`mesonbuild.backend.backends`, in a scratch root.  After every operation the whole scratch root
(DESTDIR, sources, build dir, and every sibling an escape could land in) is listed
(type, mode, link target, digest, mtime) and compared with the Lean model's tree and log; the property
oracle (`oracle_*`) is evaluated on the implementation's listings only.
"""
from __future__ import annotations

import argparse
import contextlib
import io
import itertools
import json
import multiprocessing
import os
import pickle
import random
import stat
import sys
import typing as T
import zlib

from . import common
from . import c11_e2e
from .common import Ctx, enc

ID = 'C11'
LEVEL = 'proof'
LEAN_TARGETS = ['MesonModel.Props.C11']
AREAS = ['install']
PINS = [
    'mesonbuild.minstall:DirMaker',
    'mesonbuild.minstall:Installer.should_install',
    'mesonbuild.minstall:Installer.should_preserve_existing_file',
    'mesonbuild.minstall:Installer.do_copyfile',
    'mesonbuild.minstall:Installer.do_symlink',
    'mesonbuild.minstall:Installer.do_copydir',
    'mesonbuild.minstall:Installer.do_install',
    'mesonbuild.minstall:Installer.install_subdirs',
    'mesonbuild.minstall:Installer.install_targets',
    'mesonbuild.minstall:Installer.install_headers',
    'mesonbuild.minstall:Installer.install_man',
    'mesonbuild.minstall:Installer.install_emptydir',
    'mesonbuild.minstall:Installer.install_data',
    'mesonbuild.minstall:Installer.install_symlinks',
    'mesonbuild.minstall:Installer.makedirs',
    'mesonbuild.minstall:Installer.remove',
    'mesonbuild.minstall:Installer.symlink',
    'mesonbuild.minstall:Installer.copy2',
    'mesonbuild.minstall:Installer.copy',
    'mesonbuild.minstall:Installer.copystat',
    'mesonbuild.minstall:Installer.set_mode',
    'mesonbuild.minstall:Installer.sanitize_permissions',
    'mesonbuild.minstall:set_mode',
    'mesonbuild.minstall:set_chmod',
    'mesonbuild.minstall:sanitize_permissions',
    'mesonbuild.minstall:get_destdir_path',
    'mesonbuild.minstall:append_to_log',
    'mesonbuild.minstall:run',
    'mesonbuild.scripts:destdir_join',
    'mesonbuild.scripts.uninstall:do_uninstall',
    'mesonbuild.utils.universal:FileMode.perms_s_to_bits',
    'mesonbuild.backend.backends:Backend.generate_subdir_install',
    'mesonbuild.backend.backends:Backend.generate_data_install',
    'mesonbuild.backend.backends:Backend.generate_header_install',
    'mesonbuild.backend.backends:Backend.generate_man_install',
    'mesonbuild.backend.backends:Backend.generate_emptydir_install',
    'mesonbuild.backend.backends:Backend.generate_symlink_install',
    'mesonbuild.backend.backends:Backend.guess_install_tag',
    'mesonbuild.interpreter.interpreter:Interpreter.func_install_headers',
    'mesonbuild.interpreter.interpreter:Interpreter.install_data_impl',
]
TRUSTED = [
    'POSIX kernel path resolution is the lexical key of the model as long as no intermediate component is a symlink '
    'and no `..` crosses a missing directory (inputs with `..` are checked by the oracle only)',
    'os.walk order of a source directory is recorded by the harness and given to the model',
    'domain: names without newline, without Unicode white space; file destinations without trailing slash; '
    'symlinks only as leaves; owner/group requests are not combined with setuid/setgid permissions (chown clears them); '
    'chown/strip/rpath/install scripts/SELinux/stamp files not exercised',
    'time stamps: generated in whole microseconds (the installer compares os.stat().st_mtime, a float whose resolution at '
    "today's epoch is ~0.24 us; two stamps closer than that are not told apart and lie outside the validated domain); "
    'the scratch file system keeps nanosecond time stamps (tmpfs; what is judged is always the stamp read back with stat)',
]

KEY_DOTDOT = 'dotdot-install-dir-escapes-destdir'
KEY_WS = 'uninstall-strips-trailing-whitespace-of-logged-name'
KEY_RELINK = 'reinstall-over-dangling-symlink-FileExistsError'
KEY_RELINKDIR = 'reinstall-subdir-over-symlink-to-directory-exits'
KEY_DANGLING_RENAME = 'dangling-symlink-source-installed-under-source-basename'

LOGREL = 'build/meson-logs/install-log.txt'


# ------------------------------------------------------------------ encoding for the `hist` command

def es(s: str) -> str:
    return 's' + '.'.join(str(ord(c)) for c in s)


def ds(a: str) -> str:
    return ''.join(chr(int(w)) for w in a[1:].split('.') if w)


def sx(*items: T.Any) -> str:
    out = []
    for i in items:
        if i is None:
            out.append('-')
        elif i is True:
            out.append('T')
        elif i is False:
            out.append('F')
        elif isinstance(i, int):
            out.append(str(i))
        elif isinstance(i, Raw):
            out.append(i.s)
        elif isinstance(i, str):
            out.append(es(i))
        elif isinstance(i, (list, tuple)):
            out.append(sx(*i))
        else:
            raise TypeError(i)
    return '( ' + ' '.join(out) + ' )'


class Raw:
    def __init__(self, s: str):
        self.s = s


def kw(s: str) -> Raw:
    return Raw(s)


# ------------------------------------------------------------------ scratch tree helpers

def digest(b: bytes) -> int:
    return zlib.crc32(b)


def snapshot(R: str) -> T.Dict[str, tuple]:
    """everything below R except the install log: path -> ('d',mode) | ('f',mode,digest,mtime_ns) | ('l',target)"""
    out: T.Dict[str, tuple] = {}
    logp = os.path.join(R, LOGREL)
    for root, dirs, files in os.walk(R):
        for n in dirs + files:
            p = os.path.join(root, n)
            if p == logp:
                continue
            st = os.lstat(p)
            if stat.S_ISLNK(st.st_mode):
                out[p] = ('l', os.readlink(p))
            elif stat.S_ISDIR(st.st_mode):
                out[p] = ('d', stat.S_IMODE(st.st_mode))
            else:
                with open(p, 'rb') as f:
                    out[p] = ('f', stat.S_IMODE(st.st_mode), digest(f.read()), st.st_mtime_ns)
    return out


def classify(p: str) -> tuple:
    if os.path.islink(p):
        t = os.readlink(p)
        if not os.path.exists(p):
            return (kw('ld'), t)
        st = os.stat(p)
        if os.path.isfile(p):
            with open(p, 'rb') as f:
                return (kw('lf'), t, stat.S_IMODE(st.st_mode), digest(f.read()), st.st_mtime_ns)
        return (kw('lD'), t)
    if os.path.isfile(p):
        st = os.stat(p)
        with open(p, 'rb') as f:
            return (kw('f'), stat.S_IMODE(st.st_mode), digest(f.read()), st.st_mtime_ns)
    if os.path.isdir(p):
        return (kw('d'),)
    return (kw('x'),)


def walk_records(top: str) -> list:
    recs = []
    if not os.path.isdir(top):
        return recs
    for root, dirs, files in os.walk(top):
        rel = os.path.relpath(root, top)
        relc = [] if rel == '.' else rel.split('/')
        ds_ = []
        for d in dirs:
            p = os.path.join(root, d)
            if os.path.islink(p):
                ds_.append((d, (kw('L'), os.readlink(p))))
            else:
                ds_.append((d, (kw('R'), stat.S_IMODE(os.stat(p).st_mode))))
        fs_ = [(f, classify(os.path.join(root, f))) for f in files]
        recs.append((kw('r'), relc, stat.S_IMODE(os.stat(root).st_mode), ds_, fs_))
    return recs


def make_tree(R: str, nodes: list) -> None:
    """nodes: ['d', rel, mode] | ['f', rel, mode, content, mtime_s(, mtime_ns_part)] | ['l', rel, target]  (parents first)"""
    nodes = [[n[0], n[1].replace('{P}', P_of(R)[1:])] + list(n[2:]) for n in nodes]
    made = []
    for n in nodes:
        p = os.path.join(R, n[1])
        try:
            os.makedirs(os.path.dirname(p), exist_ok=True)
            if n[0] == 'd':
                os.makedirs(p, exist_ok=True)
            elif n[0] == 'f':
                if os.path.lexists(p):
                    continue
                with open(p, 'wb') as f:
                    f.write(n[3].encode())
            else:
                os.symlink(n[2].replace('{R}', R), p)
            made.append(n)
        except OSError:
            continue        # a generated pre-population entry that clashes with an earlier one is dropped
    # modes and times last (a read-only directory would be no obstacle for root, but keep it orderly)
    for n in reversed(made):
        p = os.path.join(R, n[1])
        if n[0] == 'd':
            os.chmod(p, n[2])
        elif n[0] == 'f':
            os.chmod(p, n[2])
            ns = node_ns(n)
            os.utime(p, ns=(ns, ns))


def node_ns(n: list) -> int:
    """time stamp of a generated file node in nanoseconds: whole seconds n[4] plus the optional sub-second part n[5]"""
    return n[4] * 10**9 + (n[5] if len(n) > 5 else 0)


# ------------------------------------------------------------------ spec -> real InstallData / model request

def P_of(R: str) -> str:
    """a prefix root that exists nowhere: should an installer ignore DESTDIR, it lands here (and is reported and removed)"""
    return '/mvc11-' + os.path.basename(os.path.dirname(R)) + '-' + os.path.basename(R) if R else '/mvc11-x'


def S(s: T.Optional[str], R: str) -> T.Optional[str]:
    return None if s is None else s.replace('{R}', R).replace('{P}', P_of(R))


def file_mode(m):
    from mesonbuild.mesonlib import FileMode
    if m is None:
        return None
    return FileMode(m.get('perms'), m.get('owner'), m.get('group'))


def sx_mode(m) -> T.Any:
    if m is None:
        return None
    from mesonbuild.mesonlib import FileMode
    perms = m.get('perms')
    bits = None if perms is None else FileMode.perms_s_to_bits(perms)
    return (kw('m'), bits, m.get('owner') is not None or m.get('group') is not None)


def build_install_data(spec: dict, R: str):
    from mesonbuild.backend import backends as B
    from mesonbuild import coredata
    um = spec['umask']
    d = B.InstallData(R + '/src', R + '/build', S(spec['prefix'], R), 'lib', None, um,
                      ['meson', 'introspect'], coredata.version)
    for e in spec.get('subdirs', []):
        ex = None if e.get('exclude') is None else (set(e['exclude'][0]), set(e['exclude'][1]))
        d.install_subdirs.append(B.SubdirInstallData(S(e['path'], R), S(e['ip'], R), '{n}', file_mode(e['mode']), ex,
                                                     e['sub'], e['tag'], follow_symlinks=e.get('follow')))
    for e in spec.get('targets', []):
        d.targets.append(B.TargetInstallData(S(e['path'], R), S(e['ip'], R), None, False, {}, set(), '',
                                             file_mode(e['mode']), e['sub'], 'linux', e.get('optional', False),
                                             e['tag'], False))
    for kind in ('headers', 'man', 'data'):
        for e in spec.get(kind, []):
            getattr(d, kind).append(B.InstallDataBase(S(e['path'], R), S(e['ip'], R), '{n}', file_mode(e['mode']),
                                                      e['sub'], tag=e['tag'], follow_symlinks=e.get('follow')))
    for e in spec.get('emptydirs', []):
        d.emptydir.append(B.InstallEmptyDir(S(e['ip'], R), file_mode(e['mode']), e['sub'], e['tag']))
    for e in spec.get('symlinks', []):
        d.symlinks.append(B.InstallSymlinkData(e['target'], S(e['name'], R), S(e['ip'], R), e['sub'], e['tag']))
    return d


def plan_sx(spec: dict, R: str) -> str:
    """the model's plan: the same data plus what each source path *is* right now"""
    bd = R + '/build'
    subdirs = []
    for e in spec.get('subdirs', []):
        p = S(e['path'], R)
        ex = None if e.get('exclude') is None else (list(e['exclude'][0]), list(e['exclude'][1]))
        subdirs.append((kw('e'), p, S(e['ip'], R), sx_mode(e['mode']), ex, e['sub'], e['tag'], e.get('follow'),
                        walk_records(p)))
    targets = []
    for e in spec.get('targets', []):
        p = S(e['path'], R)
        full = os.path.join(bd, p)
        cl = classify(full)
        wr = walk_records(os.path.join(bd, p.rstrip('/'))) if os.path.isdir(full) else []
        targets.append((kw('e'), p, cl, S(e['ip'], R), sx_mode(e['mode']), e['sub'], e['tag'],
                        bool(e.get('optional', False)), wr))

    def dat(kind):
        return [(kw('e'), S(e['path'], R), classify(os.path.join(bd, S(e['path'], R))), S(e['ip'], R), sx_mode(e['mode']),
                 e['sub'], e['tag'], e.get('follow')) for e in spec.get(kind, [])]
    emptyd = [(kw('e'), S(e['ip'], R), sx_mode(e['mode']), e['sub'], e['tag']) for e in spec.get('emptydirs', [])]
    syml = [(kw('e'), e['target'], S(e['name'], R), S(e['ip'], R), e['sub'], e['tag']) for e in spec.get('symlinks', [])]
    um = spec['umask']
    return sx(kw('plan'), bd, S(spec['prefix'], R), None if um == 'preserve' else um, subdirs, targets,
              dat('headers'), dat('man'), emptyd, dat('data'), syml)


def fs_sx(R: str, snap: T.Dict[str, tuple]) -> str:
    nodes = []
    p = R
    anc = []
    while p != '/':
        anc.append(p)
        p = os.path.dirname(p)
    for a in reversed(anc):
        nodes.append((a, kw('d'), 0o755))
    for p, n in snap.items():
        nodes.append((p, kw(n[0])) + tuple(n[1:]))
    return sx(kw('fs'), *nodes)


def op_sx(op: dict, R: str) -> tuple:
    if op['op'] == 'install':
        return (kw('install'), S(op.get('destdir'), R), bool(op.get('dry')), bool(op.get('only')), op.get('tags'),
                op.get('skip', ''), op.get('ambient', 0o022))
    return (kw('uninstall'),)


# ------------------------------------------------------------------ running the implementation

def err_class(e: BaseException) -> str:
    from mesonbuild.mesonlib import MesonException
    if isinstance(e, MesonException):
        return 'ERR:Meson'
    if isinstance(e, SystemExit):
        return 'ERR:Exit'
    if isinstance(e, OSError):
        return 'ERR:OS'
    if isinstance(e, ValueError):
        return 'ERR:Value'
    return 'ERR:Py:' + type(e).__name__


def impl_install(R: str, op: dict) -> T.Tuple[str, str]:
    from mesonbuild import minstall
    bd = R + '/build'
    dd = S(op.get('destdir'), R)
    os.environ.pop('DESTDIR', None)
    optdd = dd
    if op.get('via_env') and dd is not None:
        os.environ['DESTDIR'] = dd
        optdd = None
    opts = argparse.Namespace(no_rebuild=True, only_changed=bool(op.get('only')), profile=False, quiet=True, wd=bd,
                              destdir=optdd, dry_run=bool(op.get('dry')), skip_subprojects=op.get('skip', ''),
                              tags=op.get('tags'), strip=False)
    cwd = os.getcwd()
    old = os.umask(op.get('ambient', 0o022))
    err = 'ok'
    detail = ''
    try:
        with contextlib.redirect_stdout(io.StringIO()), contextlib.redirect_stderr(io.StringIO()):
            minstall.run(opts)
    except BaseException as e:  # noqa: B036  (SystemExit is one of the modelled outcomes)
        if isinstance(e, KeyboardInterrupt):
            raise
        err = err_class(e)
        detail = f'{type(e).__name__}: {e}'
    finally:
        os.umask(old)
        os.chdir(cwd)
        os.environ.pop('DESTDIR', None)
        del minstall.selinux_updates[:]
    return err, detail


def impl_uninstall(R: str) -> None:
    from mesonbuild.scripts import uninstall
    cwd = os.getcwd()
    try:
        os.chdir(R + '/build')
        with contextlib.redirect_stdout(io.StringIO()):
            uninstall.run([])
    finally:
        os.chdir(cwd)


def read_log(R: str) -> T.List[str]:
    p = os.path.join(R, LOGREL)
    if not os.path.exists(p):
        return []
    txt = open(p, encoding='utf-8').read()
    lines = txt.split('\n')
    if lines and lines[-1] == '':
        lines.pop()
    return lines


def resolved_destdir(spec: dict, op: dict, R: str) -> str:
    """what the documentation says DESTDIR is for this run (relative values are relative to the build dir)"""
    dd = S(op.get('destdir'), R)
    if not dd:
        return ''
    if not dd.startswith('/'):
        dd = R + '/build/' + dd
    return os.path.normpath(dd)


def norm1(p: str) -> str:
    return '/' + os.path.normpath(p).lstrip('/')


def dest_of(spec: dict, op: dict, R: str, ip: str) -> str:
    """documented destination: relative under the prefix, absolute re-rooted under DESTDIR"""
    dd = resolved_destdir(spec, op, R)
    ip = S(ip, R)
    if ip.startswith('/'):
        return norm1(dd + '/' + ip)
    return norm1(dd + '/' + S(spec['prefix'], R) + '/' + ip)


def all_dest_strings(spec: dict, R: str) -> T.List[str]:
    out = []
    for k in ('subdirs', 'targets', 'headers', 'man', 'data', 'emptydirs', 'symlinks'):
        for e in spec.get(k, []):
            out.append(e['ip'])
            if k == 'symlinks':
                out.append(e['name'])
    return out


def safe_to_run(spec: dict, R: str) -> bool:
    """refuse any case whose lexical destinations could leave the scratch root (we run as root)"""
    for op in spec['ops']:
        if op['op'] != 'install':
            continue
        dd = resolved_destdir(spec, op, R)
        if dd:
            if not (dd + '/').startswith(R + '/'):
                return False
        for ip in all_dest_strings(spec, R):
            if not (dest_of(spec, op, R, ip) + '/').startswith(R + '/'):
                return False
    return True


def has_dotdot(spec: dict) -> bool:
    strs = all_dest_strings(spec, '') + [spec['prefix']] + [op.get('destdir') or '' for op in spec['ops']]
    return any('..' in s.split('/') for s in strs)


def run_case(spec: dict, R: str) -> dict:
    """build the scratch world, run the history on the implementation, return observations + model request"""
    os.makedirs(R + '/build/meson-private')
    os.makedirs(R + '/build/meson-logs')
    os.makedirs(R + '/src', exist_ok=True)
    make_tree(R, spec.get('tree', []))
    res: dict = {'steps': [], 'requests': []}
    if not safe_to_run(spec, R):
        res['skipped'] = 'unsafe'
        return res
    d = build_install_data(spec, R)
    with open(R + '/build/meson-private/install.dat', 'wb') as f:
        pickle.dump(d, f)
    snap = snapshot(R)
    res['initial'] = snap
    seg_ops: T.List[tuple] = []
    seg_plan = plan_sx(spec, R)
    seg_fs = fs_sx(R, snap)

    def flush():
        if seg_ops:
            res['requests'].append('hist ' + sx(kw('case'), Raw(seg_plan), Raw(seg_fs), (kw('root'), R),
                                                (kw('ops'),) + tuple(seg_ops)))

    for op in spec['ops']:
        if op['op'] == 'install':
            err, detail = impl_install(R, op)
            snap = snapshot(R)
            res['steps'].append({'op': op, 'err': err, 'detail': detail, 'log': read_log(R), 'tree': snap})
            seg_ops.append(op_sx(op, R))
        elif op['op'] == 'uninstall':
            impl_uninstall(R)
            snap = snapshot(R)
            res['steps'].append({'op': op, 'err': 'ok', 'detail': '', 'log': [], 'tree': snap})
            seg_ops.append(op_sx(op, R))
        elif op['op'] == 'touch':
            # a source changes between two installs: new content, new mtime; the model continues from the observed tree
            flush()
            seg_ops = []
            for rel, content, mt, *sub in op['files']:
                p = os.path.join(R, rel)
                if os.path.isfile(p) and not os.path.islink(p):
                    m = stat.S_IMODE(os.stat(p).st_mode)
                    with open(p, 'wb') as f:
                        f.write(content.encode())
                    os.chmod(p, m)
                    ns = mt * 10**9 + (sub[0] if sub else 0)
                    os.utime(p, ns=(ns, ns))
            snap = snapshot(R)
            res['steps'].append({'op': op, 'err': 'ok', 'detail': '', 'log': [], 'tree': snap, 'nomodel': True})
            seg_plan = plan_sx(spec, R)
            seg_fs = fs_sx(R, snap)
    flush()
    return res


# ------------------------------------------------------------------ property oracle (implementation results only)

def under(p: str, d: str) -> bool:
    return p == d or p.startswith(d.rstrip('/') + '/')


def changed_paths(a: T.Dict[str, tuple], b: T.Dict[str, tuple]) -> T.List[str]:
    return sorted(p for p in set(a) | set(b) if a.get(p) != b.get(p))


def selected(op: dict, e: dict) -> bool:
    """--tags / --skip-subprojects as documented"""
    skip = [s.strip() for s in op.get('skip', '').split(',')]
    if e['sub'] and (e['sub'] in skip or '*' in skip):
        return False
    if op.get('tags'):
        tags = [t.strip() for t in op['tags'].split(',')]
        if e['tag'] not in tags:
            return False
    return True


def want_file_mode(spec: dict, e_mode, src_mode: int) -> int:
    from mesonbuild.mesonlib import FileMode
    if e_mode is not None and e_mode.get('perms') is not None:
        return FileMode.perms_s_to_bits(e_mode['perms'])
    um = spec['umask']
    if um == 'preserve':
        return src_mode
    return (0o777 if src_mode & 0o111 else 0o666) & ~um


def expected_tree(spec: dict, op: dict, R: str, before: T.Dict[str, tuple]) -> T.Optional[T.Dict[str, tuple]]:
    """the documented result of one install on a *clean* case (distinct destinations, plain sources):
    path -> node for everything the run must have created or replaced.  None when the spec is not clean."""
    if not spec.get('clean'):
        return None
    um = spec['umask']
    eff = op.get('ambient', 0o022) if um == 'preserve' else um
    dirmode = 0o777 & ~eff
    out: T.Dict[str, tuple] = {}

    def src_node(p: str):
        n = before.get(p)
        return n if n and n[0] == 'f' else None

    def link_result(srcp: str, n: tuple, mode, follow) -> T.Optional[tuple]:
        """what installing the symlink `srcp` leaves at its destination: the link itself (same target text; a link has
        no permissions of its own and its target is never touched) when follow_symlinks is false or the link dangles,
        else a copy of the file it points to"""
        tgt = os.path.normpath(os.path.join(os.path.dirname(srcp), n[1]))
        tn = before.get(tgt)
        if tn is None and os.path.lexists(tgt):
            return None                     # points outside the scratch root: not generated
        if follow is False or tn is None:
            return ('l', n[1])
        if tn[0] == 'f':
            return ('f', want_file_mode(spec, mode, tn[1]), tn[2], tn[3])
        return None

    def put_file(dst: str, srcp: str, mode, follow=None) -> bool:
        n = before.get(srcp)
        if n is None:
            return False
        if n[0] == 'l':
            r = link_result(srcp, n, mode, follow)
            if r is None:
                return False
            out[dst] = r
            return True
        if n[0] != 'f':
            return False
        out[dst] = ('f', want_file_mode(spec, mode, n[1]), n[2], n[3])
        return True

    def dir_mode(mode, cur: int) -> int:
        from mesonbuild.mesonlib import FileMode
        if mode is not None and mode.get('perms') is not None:
            return FileMode.perms_s_to_bits(mode['perms'])
        if um == 'preserve':
            return cur
        return (0o777 if cur & 0o111 else 0o666) & ~um

    for e in spec.get('subdirs', []):
        if not selected(op, e):
            continue
        top = S(e['path'], R)
        dst = dest_of(spec, op, R, e['ip'])
        out.setdefault(dst, ('d', dirmode))
        exf = set(os.path.normpath(x) for x in (e.get('exclude') or ([], []))[0])
        exd = set(os.path.normpath(x) for x in (e.get('exclude') or ([], []))[1])
        for p, n in before.items():
            if not under(p, top) or p == top:
                continue
            rel = os.path.relpath(p, top)
            parts = rel.split('/')
            if any('/'.join(parts[:i]) in exd for i in range(1, len(parts) + 1)):
                continue
            if n[0] == 'd':
                out[os.path.join(dst, rel)] = ('d', dir_mode(None, n[1]))
            elif n[0] == 'f':
                if rel in exf:
                    continue
                out[os.path.join(dst, rel)] = ('f', want_file_mode(spec, e['mode'], n[1]), n[2], n[3])
            else:
                if rel in exf:
                    continue
                r = link_result(p, n, e['mode'], e.get('follow'))
                if r is None:
                    return None
                out[os.path.join(dst, rel)] = r
    for e in spec.get('targets', []):
        if not selected(op, e):
            continue
        srcp = os.path.join(R, 'build', S(e['path'], R))
        if not put_file(os.path.join(dest_of(spec, op, R, e['ip']), os.path.basename(srcp)), srcp, e['mode']):
            return None
    for e in spec.get('headers', []):
        if not selected(op, e):
            continue
        srcp = S(e['path'], R)
        if not put_file(os.path.join(dest_of(spec, op, R, e['ip']), os.path.basename(srcp)), srcp, e['mode'], e.get('follow')):
            return None
    for kind in ('man', 'data'):
        for e in spec.get(kind, []):
            if not selected(op, e):
                continue
            if not put_file(dest_of(spec, op, R, e['ip']), S(e['path'], R), e['mode'], e.get('follow') if kind == 'data' else None):
                return None
    for e in spec.get('emptydirs', []):
        if not selected(op, e):
            continue
        out[dest_of(spec, op, R, e['ip'])] = ('d', dir_mode(e['mode'], dirmode))
    for e in spec.get('symlinks', []):
        if not selected(op, e):
            continue
        out[dest_of(spec, op, R, e['name'])] = ('l', e['target'])
        out.setdefault(dest_of(spec, op, R, e['ip']), ('d', dirmode))
    # every missing ancestor is a directory with default permissions
    for p in list(out):
        q = os.path.dirname(p)
        while q != R and under(q, R) and q not in before and q not in out:
            out[q] = ('d', dirmode)
            q = os.path.dirname(q)
    return out


def file_rules(spec: dict, op: dict, R: str, tree: T.Dict[str, tuple]) -> T.List[tuple]:
    """(destination, source path, install_mode, rule kind) of every selected rule that copies one regular file:
    targets, headers, man pages, data, and the files below an install_subdir (excludes applied)"""
    out: T.List[tuple] = []
    for e in spec.get('targets', []):
        if selected(op, e):
            srcp = os.path.join(R, 'build', S(e['path'], R))
            out.append((os.path.join(dest_of(spec, op, R, e['ip']), os.path.basename(srcp)), srcp, e['mode'], 'targets'))
    for e in spec.get('headers', []):
        if selected(op, e):
            srcp = S(e['path'], R)
            out.append((os.path.join(dest_of(spec, op, R, e['ip']), os.path.basename(srcp)), srcp, e['mode'], 'headers'))
    for kind in ('man', 'data'):
        for e in spec.get(kind, []):
            if selected(op, e):
                out.append((dest_of(spec, op, R, e['ip']), S(e['path'], R), e['mode'], kind))
    for e in spec.get('subdirs', []):
        if not selected(op, e):
            continue
        top = S(e['path'], R)
        dst = dest_of(spec, op, R, e['ip'])
        exf = set(os.path.normpath(x) for x in (e.get('exclude') or ([], []))[0])
        exd = set(os.path.normpath(x) for x in (e.get('exclude') or ([], []))[1])
        for p, n in tree.items():
            if n[0] != 'f' or not under(p, top) or p == top:
                continue
            rel = os.path.relpath(p, top)
            parts = rel.split('/')
            if rel in exf or any('/'.join(parts[:i]) in exd for i in range(1, len(parts))):
                continue
            out.append((os.path.join(dst, rel), p, e['mode'], 'subdirs'))
    return out


def oracle_only_changed(ctx: Ctx, spec: dict, op: dict, R: str, prev: T.Dict[str, tuple], cur: T.Dict[str, tuple], case: dict) -> None:
    """`--only-changed`: "Only overwrite files that are older than the copied file" (meson install --help), judged per
    file rule on the listings before and after the run, time stamps in nanoseconds: a destination that was older than
    its source -- by however little -- holds the source's content and time stamp afterwards; one that was at least as
    new keeps its content and time stamp"""
    name = spec['name']
    for dstp, srcp, mode, kind in file_rules(spec, op, R, prev):
        sn = prev.get(srcp)
        if sn is None or sn[0] != 'f':
            continue
        dn = prev.get(dstp)
        got = cur.get(dstp)
        if dn is not None and dn[0] == 'f' and dn[3] >= sn[3]:
            want = ('f', dn[1] if kind == 'targets' else want_file_mode(spec, mode, dn[1]), dn[2], dn[3])
            ctx.tag('oracle:only-changed-kept')
        elif dn is None or dn[0] == 'f':
            want = ('f', want_file_mode(spec, mode, sn[1]), sn[2], sn[3])
            if dn is not None:
                gap = sn[3] - dn[3]
                ctx.tag('oracle:only-changed-overwritten:' + ('<1ms' if gap < 10**6 else '<1s' if gap < 10**9 else '>=1s') +
                        (':same-second' if sn[3] // 10**9 == dn[3] // 10**9 else ''))
        else:
            continue
        if got != want:
            stale = got is not None and dn is not None and got[2:] == dn[2:] and want[2:] != dn[2:]
            ctx.violation(f'only-changed-stale:{name}' if stale else f'only-changed:{name}',
                          f'{os.path.relpath(dstp, R)} after --only-changed: got {got}, want {want}; before the run the '
                          f'destination was {dn} and the source {os.path.relpath(srcp, R)} was {sn}'
                          + (f' (the installed copy was {(sn[3] - dn[3]) / 1e9:.9f}s older than its source and was kept)' if stale else ''),
                          case)
            return


def log_paths(log: T.List[str]) -> T.List[str]:
    return [l for l in log if not l.startswith('#')]


def oracle_case(ctx: Ctx, spec: dict, R: str, res: dict) -> None:
    """the statement of C11 on the implementation's observations (no model in the loop)"""
    dotdot = has_dotdot(spec)
    prev = res['initial']
    real_installs = 0                       # non-dry installs so far
    last_real: T.Optional[dict] = None      # the previous step, when it was a successful non-dry install
    log_step: T.Optional[dict] = None       # the install step whose log is on disk
    case = {'spec': spec}
    name = spec['name']
    drename = dangling_rename(spec, R, prev)
    if name == 'corpus-overlap-only-changed' and len(res['steps']) == 2:
        differs = res['steps'][0]['tree'] != res['steps'][1]['tree']
        ctx.tag('observed:only-changed-overlap-' + ('differs' if differs else 'same'))
        if differs:
            ctx.violation('only-changed-overlapping-destinations-not-idempotent',
                          'two rules with one destination: the --only-changed reinstall changes the tree', case)
        if not differs:
            ctx.notes.append('the recorded --only-changed/overlap non-idempotence no longer shows on the real installer')
    if res.get('escaped'):
        ctx.violation(KEY_DOTDOT if dotdot else f'outside-scratch:{name}', f'installer wrote to {res["escaped"]} (DESTDIR ignored)', case)
    for i, st in enumerate(res['steps']):
        op = st['op']
        cur = st['tree']
        if op['op'] == 'install':
            dd = resolved_destdir(spec, op, R)
            diff = changed_paths(prev, cur)
            # --- dry-run writes nothing
            if op.get('dry') and diff:
                ctx.violation(f'dry-run-writes:{name}', f'--dry-run changed {[os.path.relpath(p, R) for p in diff[:3]]}', case)
            # --- confinement: only beneath DESTDIR (creating DESTDIR and its missing parents is part of using it)
            if dd:
                for p in diff:
                    ok = under(p, dd) or (under(dd, p) and p not in prev and cur.get(p, ('x',))[0] == 'd')
                    if not ok:
                        key = KEY_DOTDOT if dotdot else f'confined:{name}'
                        ctx.violation(key, f'path outside DESTDIR written: {os.path.relpath(p, R)} (DESTDIR {os.path.relpath(dd, R)})', case)
                        break
            if dotdot and dd and st['err'] == 'ERR:Meson' and 'outside of DESTDIR' in st['detail'] and \
                    all(under(dest_of(spec, op, R, ip), dd) for ip in all_dest_strings(spec, R)):
                ctx.violation(f'refuses-inside-destdir:{name}', 'every documented destination lies inside DESTDIR, yet the '
                              f'install was refused: {st["detail"][:120]}', case)
            if not dotdot:
                # --- exactness, destinations, modes, tags (clean cases, first install on the fresh destination)
                if st['err'] == 'ok' and not op.get('dry') and not op.get('only') and real_installs == 0:
                    want = expected_tree(spec, op, R, prev)
                    if want is not None:
                        created = {p: cur[p] for p in diff if p in cur}
                        removed = [p for p in diff if p not in cur]
                        if removed:
                            ctx.violation(f'exact-removed:{name}', f'install removed {removed[:3]}', case)
                        if set(created) != set(want):
                            extra = [os.path.relpath(p, R) for p in sorted(set(created) - set(want))[:3]]
                            missing = [os.path.relpath(p, R) for p in sorted(set(want) - set(created))[:3]]
                            ctx.violation(f'exact:{name}', f'created != plan: extra={extra} missing={missing}', case)
                        else:
                            for p, n in want.items():
                                if created[p] != n:
                                    ctx.violation(f'mode-or-content:{name}',
                                                  f'{os.path.relpath(p, R)}: got {created[p]} want {n}', case)
                                    break
                        ctx.tag('oracle:exact-checked')
                        if spec.get('linkcase'):
                            ctx.tag('oracle:links-exact:' + spec['linkcase']['variant'])
                    elif spec.get('linkcase'):
                        ctx.tag('oracle:links-unjudged:' + spec['linkcase']['variant'])
                # --- --only-changed overwrites exactly the destinations that are older than their source
                if st['err'] == 'ok' and not op.get('dry') and op.get('only') and spec.get('clean'):
                    oracle_only_changed(ctx, spec, op, R, prev, cur, case)
                # --- the log names everything that was created
                if st['err'] == 'ok' and not op.get('dry'):
                    named = set(os.path.normpath(l) for l in log_paths(st['log']))
                    for p in diff:
                        if p in cur and p not in prev and p not in named:
                            ctx.violation(KEY_DANGLING_RENAME if drename else f'log-incomplete:{name}', f'created but not logged: {os.path.relpath(p, R)}', case)
                            break
                # --- installing twice (also with --only-changed) gives the same tree as installing once
                # (two rules with one destination make --only-changed order dependent; that history is judged on clean plans)
                if last_real is not None and not op.get('dry') and same_selection(last_real['op'], op) and \
                        (spec.get('clean') or not op.get('only')):
                    if st['err'] != 'ok':
                        key = f'reinstall-fails:{name}'
                        if 'FileExistsError' in st['detail'] and has_link_source(spec, R, prev):
                            key = KEY_RELINK
                        elif 'SystemExit' in st['detail'] and has_dirlink_source(spec, R, prev):
                            key = KEY_RELINKDIR
                        ctx.violation(key, f'second install failed: {st["detail"][:160]}', case)
                    elif cur != prev:
                        ctx.violation(f'not-idempotent:{name}', f'second install changed {[os.path.relpath(p, R) for p in changed_paths(prev, cur)[:3]]}', case)
                    ctx.tag('oracle:idempotence-checked')
            log_step = st
            if not op.get('dry'):
                real_installs += 1
                last_real = st if st['err'] == 'ok' else None
            else:
                last_real = None
        elif op['op'] == 'uninstall':
            if log_step is not None and log_step['err'] == 'ok' and not dotdot:
                raw = log_paths(log_step['log'])
                named = set(os.path.normpath(l) for l in raw)
                ws = any(l != l.strip() for l in raw)
                # --- uninstall removes exactly what the log names, and nothing else
                for p in sorted(set(prev) | set(cur)):
                    if p in named:
                        if p in cur:
                            if cur[p][0] == 'd' and any(q != p and under(q, p) and q not in named for q in cur):
                                continue    # a directory that still holds content the log does not name stays
                            ctx.violation(KEY_WS if ws else f'uninstall-leaves:{name}', f'logged path survives uninstall: {os.path.relpath(p, R)!r}', case)
                            break
                    elif prev.get(p) != cur.get(p):
                        ctx.violation(f'uninstall-touches:{name}', f'uninstall changed a path the log does not name: {os.path.relpath(p, R)!r}', case)
                        break
                # --- fresh destination, one install: uninstall brings the initial tree back
                if spec.get('fresh') and real_installs == 1 and last_real is log_step and \
                        all(s['op']['op'] != 'touch' for s in res['steps']):
                    if cur != res['initial']:
                        d = changed_paths(res['initial'], cur)
                        ctx.violation(KEY_WS if ws else KEY_DANGLING_RENAME if drename else f'uninstall-not-inverse:{name}',
                                      f'uninstall(install(fs)) != fs: {[os.path.relpath(x, R) for x in d[:3]]}', case)
                    ctx.tag('oracle:uninstall-inverse-checked')
            log_step = None
            last_real = None
        else:
            last_real = None
        prev = cur


def same_selection(a: dict, b: dict) -> bool:
    return (a.get('tags'), a.get('skip', ''), a.get('destdir')) == (b.get('tags'), b.get('skip', ''), b.get('destdir'))


def has_link_source(spec: dict, R: str, tree: T.Dict[str, tuple]) -> bool:
    return any(n[0] == 'l' for p, n in tree.items() if under(p, R + '/src') or under(p, R + '/build'))


def dangling_rename(spec: dict, R: str, tree: T.Dict[str, tuple]) -> bool:
    """a data/man rule whose source is a dangling symlink and whose destination name differs from the source's"""
    for k in ('data', 'man'):
        for e in spec.get(k, []):
            p = S(e['path'], R)
            n = tree.get(p)
            if n and n[0] == 'l' and os.path.basename(p) != os.path.basename(S(e['ip'], R)):
                t = os.path.normpath(os.path.join(os.path.dirname(p), n[1]))
                if t not in tree and not os.path.exists(t):
                    return True
    return False


def has_dirlink_source(spec: dict, R: str, tree: T.Dict[str, tuple]) -> bool:
    for p, n in tree.items():
        if n[0] == 'l' and under(p, R + '/src'):
            t = tree.get(os.path.normpath(os.path.join(os.path.dirname(p), n[1])))
            if t and t[0] == 'd':
                return True
    return False


# ------------------------------------------------------------------ generators

DIRN = ['share', 'tabdir\t', 'lib', 'include', 'my dir', 'dönér', '日本', 'a.b', 'x-y', 'd #1', "q'uote", ' lead']
FILEN = ['f.txt', 'trail ', 'a b.dat', 'ünï.h', 'prog', 'lib x.so.1', '文.1', '-dash', 'semi;colon', 'tab\tname', '.hidden',
         'f,comma', '#hash', 'UPPER', 'p|pe', '(paren)', 'star*']
LINKN = ['lnk', 'link two', 'λ-link']
TAGS = [None, 'runtime', 'devel', 'man', 'i18n', 'my tag']
TAGOPTS = [None, None, None, '', 'runtime', 'devel,man', ' devel , runtime', 'nonexistent', 'my tag', 'i18n,runtime,devel,man,my tag']
# subproject names that are substrings / prefixes / suffixes of each other: the skip list is read by exact membership
SUBS = ['', '', '', 'sub1', 'sub 2', 'core', 'core-utils', 'utils']
SKIPS = ['', '', '', '*', 'sub1', 'sub1, sub 2', 'other', ' sub 2 ', 'core-utils', 'core', 'utils, core-utils', 'core-utils,other',
         'sub', 'sub1x, 2', 'x*', 'x,*', 'core-utils-extra']
UMASKS = [0o022, 0o022, 0o077, 0o002, 0, 0o027, 'preserve', 0o137, 0o777]
AMBIENT = [0o022, 0o077, 0, 0o027]
SRCMODES = [0o644, 0o755, 0o600, 0o444, 0o711, 0o400, 0o640, 0o664, 0o775, 0o700, 0o001, 0o666, 0o010]
DIRMODES = [0o755, 0o700, 0o775, 0o711, 0o750, 0o644, 0o777]
MODES = [None, None, {}, {'perms': 'rwxr-xr-x'}, {'perms': 'rw-r-----'}, {'perms': 'r-sr-xr-t'}, {'owner': 0},
         {'perms': 'rw-rw-r--', 'owner': 0, 'group': 0}, {'group': 0}, {'perms': '---------'}, {'perms': 'rwSrwSrwT'},
         {'perms': 'r--r--r--'}]
PREFIXES = ['{P}/usr', '{P}/usr/local', '{P}', '{P}/opt/big app', '{P}//dbl', '{P}/usr/', '{P}/p/./q']
REL_DIRS = ['share/app', 'lib', 'include/sub dir', 'share//dbl', './dot', 'trail/', '', 'share/日本/ü', 'a/b/c/d']
ABS_DIRS = ['{P}-abs/etc/app', '{P}-abs/opt/my app', '{P}-abs//srv/x', '{P}-abs', '{P}-abs/var/lib/ü/']
DESTDIRS = ['{R}/dest', '{R}/dest/', '{R}/d e s t/ü', 'rel-dest', '{R}//dest', '{R}/dest/./x', '{R}/a/b/c/dest']


def jn(d: str, n: str) -> str:
    """os.path.join as the backends build install paths"""
    return os.path.join(d, n)


NS = 10**9
# how much later (or earlier) a rewritten source is stamped: far apart, and close -- within the same clock second,
# across a second boundary by a hair, equal.  Differences are multiples of 1 us: os.stat().st_mtime, which the installer
# compares, is a float with ~0.24 us resolution at today's epoch (see ctx.assumptions).
TOUCH_DELTAS = [-50 * NS, 2000 * NS, 3000 * NS, 1_000, 1_000_000, 300_000_000, 999_999_000, NS, -1_000, 0, 'same-second', 'next-second']


def subsec(rng: random.Random) -> int:
    """sub-second part of a generated time stamp, a multiple of 1 us"""
    return rng.choice([0, 200_000_000, 999_999_000, rng.randrange(10**6) * 1000])


def touch_entry(rng: random.Random, n: list) -> list:
    """a rewrite of the generated file node `n`: [rel, new content, mtime_s, mtime_ns_part]"""
    old = node_ns(n)
    d = rng.choice(TOUCH_DELTAS)
    if d == 'same-second':
        lo, hi = old % NS, NS - 1000
        new = old - lo + (rng.randrange(lo // 1000 + 1, hi // 1000 + 1) * 1000 if hi > lo else lo)
    elif d == 'next-second':
        new = (old // NS + 1) * NS + rng.choice([0, 1_000])
    else:
        new = old + d
    return [n[1], n[3] + ' v2', new // NS, new % NS]


def gen_case(rng: random.Random, idx: int, kind: str) -> dict:
    """kind: 'clean' (distinct destinations, fresh DESTDIR, plain sources) | 'messy' (collisions, pre-populated,
    symlink sources, odd spellings) | 'nodestdir'"""
    clean = kind == 'clean'
    tree: list = []
    spec: dict = {'name': f'{kind}-{idx}', 'clean': clean, 'fresh': kind != 'messy' or rng.random() < 0.5,
                  'tree': tree, 'umask': rng.choice(UMASKS)}
    nodestdir = kind == 'nodestdir'
    spec['prefix'] = '{R}/pfx' if nodestdir else rng.choice(PREFIXES)
    destdir = None if nodestdir else rng.choice(DESTDIRS)
    if nodestdir and rng.random() < 0.3:
        destdir = ''
    t0 = 1_500_000_000
    used_dst: T.Set[str] = set()
    nsrc = [0]

    def new_src(mode=None, where='src') -> str:
        nsrc[0] += 1
        name = rng.choice(FILEN)
        rel = f'{where}/s{nsrc[0]}/{name}'
        tree.append(['f', rel, rng.choice(SRCMODES) if mode is None else mode, f'content {idx} {nsrc[0]}', t0 + rng.randint(0, 1000),
                     subsec(rng)])
        return '{R}/' + rel

    def new_link_src() -> str:
        nsrc[0] += 1
        name = f'ls{nsrc[0]}-' + rng.choice(FILEN)
        rel = f'src/s{nsrc[0]}/{name}'
        k = rng.random()
        if k < 0.4:
            tree.append(['l', rel, 'nonexistent-target'])
        elif k < 0.8:
            tree.append(['f', f'src/s{nsrc[0]}/real', rng.choice(SRCMODES), f'real {idx} {nsrc[0]}', t0 + rng.randint(0, 1000)])
            tree.append(['l', rel, 'real'])
        else:
            tree.append(['f', f'src/s{nsrc[0]}/real', rng.choice(SRCMODES), f'real {idx} {nsrc[0]}', t0 + rng.randint(0, 1000)])
            tree.append(['l', rel, '/nonexistent/abs'])
        return '{R}/' + rel

    def inst_dir() -> str:
        if nodestdir:
            return rng.choice(REL_DIRS + ['{R}/abs/place', '{R}/abs/o t'])
        return rng.choice(REL_DIRS * 2 + ABS_DIRS)

    def common_fields() -> dict:
        return {'mode': rng.choice(MODES), 'sub': rng.choice(SUBS), 'tag': rng.choice(TAGS)}

    def fresh_dst(ip: str) -> bool:
        """clean cases: no two entries share a destination, and no file destination is a directory of another"""
        n = norm1('/' + spec['prefix'] + '/' + ip) if not ip.startswith(('/', '{')) else norm1('/' + ip)
        if not clean:
            return True
        for u in used_dst:
            if u == n or under(u, n) or under(n, u):
                return False
        used_dst.add(n)
        return True

    for kind_ in ('headers', 'man', 'data', 'targets'):
        out = []
        for _ in range(rng.randint(0, 3)):
            d = inst_dir()
            linksrc = (not clean) and rng.random() < 0.15 and kind_ != 'targets'
            src = new_link_src() if linksrc else new_src(where='build' if kind_ == 'targets' else 'src')
            if kind_ in ('headers', 'targets'):
                ip = d
                dst = jn(ip, os.path.basename(src))
            else:
                name = rng.choice(FILEN) if rng.random() < 0.5 else os.path.basename(src)
                ip = jn(d, name)
                dst = ip
            if not fresh_dst(dst):
                continue
            e = {'path': src, 'ip': ip, **common_fields()}
            if kind_ != 'targets':
                e['follow'] = rng.choice([None, None, True, False]) if linksrc else rng.choice([None, None, True])
            else:
                if not clean and rng.random() < 0.2:
                    e['path'] = '{R}/build/missing-target'
                    e['optional'] = rng.random() < 0.5
            out.append(e)
        spec[kind_] = out
    # emptydirs
    spec['emptydirs'] = []
    for _ in range(rng.randint(0, 2)):
        ip = jn(inst_dir(), rng.choice(DIRN))
        if fresh_dst(ip):
            spec['emptydirs'].append({'ip': ip, **common_fields()})
    # symlinks: link names come from their own pool, so they never collide with a file or directory destination
    spec['symlinks'] = []
    for _ in range(rng.randint(0, 2)):
        d = inst_dir()
        name = rng.choice(LINKN)
        if fresh_dst(jn(d, name)):
            spec['symlinks'].append({'target': rng.choice(['f.txt', '../lib/x', '/usr/lib/abs target', 'nonexistent', 'a b.dat']),
                                     'name': jn(d, name), 'ip': d, 'sub': rng.choice(SUBS), 'tag': rng.choice(TAGS)})
    # subdirs
    spec['subdirs'] = []
    for si in range(rng.randint(0, 2)):
        base = f'src/tree{si}'
        tree.append(['d', base, rng.choice(DIRMODES)])
        names_d = rng.sample(DIRN, 3)
        files = []
        dirs = []
        for dn in names_d[:rng.randint(0, 3)]:
            tree.append(['d', f'{base}/{dn}', rng.choice(DIRMODES)])
            dirs.append(dn)
            if rng.random() < 0.5:
                tree.append(['d', f'{base}/{dn}/deep', rng.choice(DIRMODES)])
                dirs.append(f'{dn}/deep')
        for holder in [''] + dirs:
            for fn in rng.sample(FILEN, rng.randint(0, 2)):
                rel = f'{holder}/{fn}'.lstrip('/')
                tree.append(['f', f'{base}/{rel}', rng.choice(SRCMODES), f'tree {idx} {si} {rel}', t0 + rng.randint(0, 1000),
                             subsec(rng)])
                files.append(rel)
        if not clean and rng.random() < 0.3:
            tree.append(['l', f'{base}/dangling-link', 'nowhere'])
        if not clean and rng.random() < 0.2 and dirs:
            tree.append(['l', f'{base}/dirlink', dirs[0]])
        exclude = None
        if rng.random() < 0.6:
            exclude = [rng.sample(files, min(len(files), rng.randint(0, 2))) + (['./' + files[0]] if files and rng.random() < 0.2 else []),
                       rng.sample(dirs, min(len(dirs), rng.randint(0, 1))) + (['no/such'] if rng.random() < 0.2 else [])]
        d = inst_dir()
        strip_directory = rng.random() < 0.4
        # backends: dst_dir = join(prefix, install_dir) [+ basename(src)] -- always absolute
        pfx = spec['prefix']
        ip = jn(pfx, d) if not d.startswith(('/', '{')) else d
        if not strip_directory:
            ip = jn(ip, f'tree{si}')
        if not fresh_dst(ip):
            continue
        e = {'path': '{R}/' + base, 'ip': ip, 'exclude': exclude, **common_fields(),
             'follow': rng.choice([None, None, True, False]) if not clean else None}
        if not clean and rng.random() < 0.05:
            e['path'] = 'relative/src'
        spec['subdirs'].append(e)
    # directory target
    if not clean and rng.random() < 0.2:
        tree.append(['d', 'build/outdir.dir', 0o755])
        tree.append(['f', 'build/outdir.dir/gen.html', 0o644, f'gen {idx}', t0])
        tree.append(['d', 'build/outdir.dir/sub', 0o750])
        tree.append(['f', 'build/outdir.dir/sub/x y', 0o755, f'gen2 {idx}', t0 + 5])
        spec['targets'].append({'path': rng.choice(['{R}/build/outdir.dir', 'outdir.dir', 'outdir.dir/']),
                                'ip': inst_dir(), **common_fields()})
    # pre-populated destination (messy only): plain files and directories at plan-related places
    if kind == 'messy' and not spec['fresh']:
        dd = destdir if destdir and destdir.startswith('{R}') else None
        if dd:
            dd_rel = os.path.normpath(dd.replace('{R}/', ''))
            for ip in rng.sample(all_dest_strings(spec, ''), min(3, len(all_dest_strings(spec, '')))):
                full = ip if ip.startswith(('/', '{')) else jn(spec['prefix'], ip)
                rel = os.path.normpath(dd_rel + '/' + full)
                if rel.startswith('..') or not rel or rel == '.':
                    continue
                k = rng.random()
                if k < 0.4:
                    tree.append(['f', rel, 0o644, f'old {idx}', t0 + rng.choice([-100, 500, 5000])])
                elif k < 0.7:
                    tree.append(['d', rel, rng.choice(DIRMODES)])
                else:
                    tree.append(['f', os.path.dirname(rel) + '/foreign.txt', 0o600, 'foreign', t0])
    # history
    sel = {'tags': rng.choice(TAGOPTS), 'skip': rng.choice(SKIPS)}
    base_op = {'op': 'install', 'destdir': destdir, 'ambient': rng.choice(AMBIENT), 'via_env': rng.random() < 0.3, **sel}
    h = rng.random()
    if h < 0.2:
        ops = [base_op, {'op': 'uninstall'}]
    elif h < 0.4:
        ops = [base_op, dict(base_op), {'op': 'uninstall'}]
    elif h < 0.5:
        ops = [dict(base_op, dry=True), base_op, dict(base_op, dry=True), {'op': 'uninstall'}]
    elif h < 0.65:
        ops = [base_op, dict(base_op, only=True), {'op': 'uninstall'}]
    elif h < 0.8:
        touched = [touch_entry(rng, n) for n in tree
                   if n[0] == 'f' and n[1].startswith(('src/', 'build/')) and rng.random() < 0.5]
        ops = [base_op, {'op': 'touch', 'files': touched}, dict(base_op, only=True), dict(base_op, only=True)]
    elif h < 0.9:
        ops = [dict(base_op, tags=rng.choice(TAGOPTS)), dict(base_op, tags=rng.choice(TAGOPTS), skip=rng.choice(SKIPS)), {'op': 'uninstall'}]
    else:
        ops = [base_op]
    spec['ops'] = ops
    # chown is a parameter of the property (not modelled): the kernel clears setuid/setgid bits on chown, so a plan
    # does not mix owner/group requests with setuid/setgid permission strings
    allents = [e for k in ('subdirs', 'targets', 'headers', 'man', 'data', 'emptydirs') for e in spec.get(k, [])]
    if any(e.get('mode') and ('owner' in e['mode'] or 'group' in e['mode']) for e in allents):
        for e in allents:
            if e.get('mode') and e['mode'].get('perms') and any(c in e['mode']['perms'] for c in 'sS'):
                e['mode'] = dict(e['mode'], perms='rwxr-xr-x')
    return spec


def link_case(rng: random.Random, idx: int) -> dict:
    """symlink sources installed through every rule kind that has follow_symlinks, pointing at: a sibling installed
    earlier in the same run, a sibling installed later, an absolute file outside DESTDIR (distinctive mode 0640), a
    directory, nothing (dangling) -- with and without install_mode, under several umasks"""
    t0 = 1_500_000_000
    kind = rng.choice(['data', 'headers', 'subdirs'])
    variant = rng.choice(['sib-early', 'sib-late', 'abs-out', 'dir', 'dangling'])
    follow = False if variant == 'dir' or rng.random() < 0.7 else rng.choice([None, True])
    lmode = rng.choice([None, None, {'perms': 'rwxr-x---'}, {'perms': 'rw-------'}, {'perms': 'rwxrwxrwx'}])
    smode = rng.choice([None, {'perms': 'rw-r-----'}, {'perms': 'r--r--r--'}])
    d = rng.choice(['share/app', 'lib', 'include/x y'])
    target = {'sib-early': 'sib.txt', 'sib-late': 'sib.txt', 'abs-out': '{R}/outside/secret', 'dir': '{R}/outside/dir',
              'dangling': 'nowhere'}[variant]
    tree = [['d', 'outside', 0o755], ['f', 'outside/secret', 0o640, f'secret {idx}', t0 + 1], ['d', 'outside/dir', 0o750],
            ['f', 'outside/dir/inner', 0o600, 'inner', t0 + 2]]
    spec: dict = {'name': f'links-{idx}', 'clean': True, 'fresh': True, 'umask': rng.choice([0o022, 0o077, 0o027, 0o002, 'preserve']),
                  'prefix': '{P}/usr', 'tree': tree, 'linkcase': {'kind': kind, 'variant': variant, 'follow': follow}}
    for k in ('subdirs', 'targets', 'headers', 'man', 'data', 'emptydirs', 'symlinks'):
        spec[k] = []
    cf = {'sub': '', 'tag': None}
    sibmode = rng.choice([0o644, 0o600, 0o755, 0o640])
    if kind == 'subdirs':
        tree += [['d', 'src/lt', 0o755], ['f', 'src/lt/sib.txt', sibmode, f'sib {idx}', t0 + 3], ['l', 'src/lt/lnk', target]]
        spec['subdirs'] = [{'path': '{R}/src/lt', 'ip': jn('{P}/usr', d), 'exclude': None, 'follow': follow, 'mode': lmode, **cf}]
    else:
        tree += [['f', 'src/ls/sib.txt', sibmode, f'sib {idx}', t0 + 3], ['l', 'src/ls/lnk', target]]
        if kind == 'data':
            sib = {'path': '{R}/src/ls/sib.txt', 'ip': jn(d, 'sib.txt'), 'mode': smode, 'follow': None, **cf}
            lnk = {'path': '{R}/src/ls/lnk', 'ip': jn(d, 'lnk'), 'mode': lmode, 'follow': follow, **cf}
        else:
            sib = {'path': '{R}/src/ls/sib.txt', 'ip': d, 'mode': smode, 'follow': None, **cf}
            lnk = {'path': '{R}/src/ls/lnk', 'ip': d, 'mode': lmode, 'follow': follow, **cf}
        spec[kind] = [lnk, sib] if variant == 'sib-late' else [sib, lnk]
    base_op = {'op': 'install', 'destdir': '{R}/dest', 'ambient': rng.choice(AMBIENT)}
    spec['ops'] = rng.choice([[base_op], [base_op, dict(base_op)], [base_op, {'op': 'uninstall'}]])
    return spec


def subsec_case(rng: random.Random, idx: int) -> dict:
    """install; rewrite sources with time stamps close to the old ones; install --only-changed (twice): one rule of every
    file-installing kind plus a subdirectory, distinct destinations, fresh DESTDIR"""
    t0 = 1_500_000_000 + rng.randrange(0, 400_000_000)
    tree: list = []
    spec: dict = {'name': f'subsec-{idx}', 'clean': True, 'fresh': True, 'umask': rng.choice([0o022, 0o077, 0o027, 'preserve']),
                  'prefix': '{P}/usr', 'tree': tree}
    for k in ('subdirs', 'targets', 'headers', 'man', 'data', 'emptydirs', 'symlinks'):
        spec[k] = []

    def src(rel: str) -> str:
        tree.append(['f', rel, rng.choice([0o644, 0o755, 0o600]), f'v1 {idx} {rel}', t0 + rng.randint(0, 3), subsec(rng)])
        return '{R}/' + rel

    def cf() -> dict:
        return {'mode': rng.choice([None, None, {'perms': 'rw-r-----'}, {'perms': 'rwxr-xr-x'}]), 'sub': '', 'tag': None}
    for i in range(rng.randint(1, 2)):
        spec['data'].append({'path': src(f'src/d{i}/data {i}.txt'), 'ip': f'share/app/data {i}.txt', 'follow': None, **cf()})
    spec['headers'].append({'path': src('src/h/api.h'), 'ip': 'include/sub dir', 'follow': None, **cf()})
    spec['man'].append({'path': src('src/m/tool.1'), 'ip': 'share/man/man1/tool.1', **cf()})
    spec['targets'].append({'path': src('build/prog'), 'ip': 'bin', **cf()})
    tree.append(['d', 'src/tree', 0o755])
    tree.append(['d', 'src/tree/in ner', 0o750])
    src('src/tree/top.txt')
    src('src/tree/in ner/deep.txt')
    src('src/tree/in ner/skipped.txt')
    spec['subdirs'].append({'path': '{R}/src/tree', 'ip': '{P}/usr/share/tree', 'exclude': [['in ner/skipped.txt'], []],
                            'follow': None, **cf()})
    files = [n for n in tree if n[0] == 'f']
    touched = [touch_entry(rng, n) for n in files if rng.random() < 0.75]
    base_op = {'op': 'install', 'destdir': '{R}/dest', 'ambient': 0o022}
    spec['ops'] = [base_op, {'op': 'touch', 'files': touched}, dict(base_op, only=True), dict(base_op, only=True)]
    if rng.random() < 0.3:
        # a second round of rewrites, relative to the first one
        again = [touch_entry(rng, ['f', t[0], 0, t[1], t[2], t[3]]) for t in touched if rng.random() < 0.5]
        spec['ops'] += [{'op': 'touch', 'files': again}, dict(base_op, only=True)]
    return spec


SEL_NAMES = ['core', 'core-utils', 'utils', 'co', 're-u', 'c', 'sub1', 'sub 2', 'sub', 'x*', 'core ', 'other']


def select_case(rng: random.Random, idx: int) -> dict:
    """one data rule per subproject whose names contain each other (core / core-utils / utils / co ...), plus the main
    project, installed with a --skip-subprojects value built from those names: exactly the rules of the subprojects the
    LIST names are left out"""
    t0 = 1_500_000_000
    tree: list = []
    spec: dict = {'name': f'select-{idx}', 'clean': True, 'fresh': True, 'umask': 0o022, 'prefix': '{P}/usr', 'tree': tree}
    for k in ('subdirs', 'targets', 'headers', 'man', 'data', 'emptydirs', 'symlinks'):
        spec[k] = []
    subs = [''] + rng.sample(SEL_NAMES, 4)
    for i, sub in enumerate(subs):
        tree.append(['f', f'src/s{i}/f.txt', 0o644, f'sel {idx} {i}', t0 + i])
        tag = rng.choice([None, 'runtime', 'devel'])
        spec['data'].append({'path': f'{{R}}/src/s{i}/f.txt', 'ip': f'share/sel/d{i}/f.txt', 'mode': None, 'sub': sub, 'tag': tag,
                             'follow': None})
        spec['emptydirs'].append({'ip': f'var/sel/e{i}', 'mode': None, 'sub': sub, 'tag': tag})
    items = rng.sample(subs[1:] + SEL_NAMES, rng.randint(1, 3))
    if rng.random() < 0.15:
        items.append('*')
    skip = rng.choice([',', ', ', ' , ']).join(items)
    op = {'op': 'install', 'destdir': '{R}/dest', 'ambient': 0o022, 'skip': skip, 'tags': rng.choice([None, None, 'runtime', 'devel,runtime'])}
    spec['ops'] = [op, {'op': 'uninstall'}]
    return spec


def escape_targets(base: str) -> T.List[str]:
    """where a `..` climb out of DESTDIR may land, named after DESTDIR itself: siblings sharing its name as a string
    prefix, the name with a trailing separator, a proper prefix of the name, DESTDIR itself, its parent, further up,
    and an unrelated name"""
    return [base + '-x', base + 'x', base + '.d', base + '/', base[:max(1, len(base) // 2)], base, '', '..', 'unrelated']


def dotdot_case(rng: random.Random, idx: int, kind: T.Optional[str] = None, target: T.Optional[str] = None,
                absolute: T.Optional[bool] = None) -> dict:
    """one rule of one kind whose install dir climbs with `..` towards DESTDIR's parent, relative or absolute"""
    t0 = 1_500_000_000
    dd = rng.choice(['{R}/a/b/c/dest', '{R}/a/b/stage', '{R}/a/x y/d e s t'])
    prefix = rng.choice(['{P}/usr', '{P}'])
    base = os.path.basename(dd)
    kind = kind or rng.choice(['data', 'headers', 'man', 'emptydirs', 'symlinks', 'subdirs', 'targets'])
    tgts = escape_targets(base)
    target = target if target is not None else rng.choice(tgts)
    absolute = rng.random() < 0.4 if absolute is None else absolute
    depth = len([c for c in prefix.split('/') if c])
    if absolute:
        d = '/' + '../' * rng.choice([1, 1, 2]) + target + '/etc'
    else:
        d = 'share/' + '../' * (depth + 2) + target + '/etc'
    d = d.replace('//', '/') if target == '' else d
    spec: dict = {'name': f'dotdot-{idx}', 'clean': False, 'fresh': True, 'umask': 0o022, 'prefix': prefix,
                  'tree': [['f', 'src/dd.txt', 0o644, 'dotdot', t0], ['f', 'build/tgt', 0o755, 'tgt', t0],
                           ['d', 'src/ddtree', 0o755], ['f', 'src/ddtree/in.txt', 0o644, 'in', t0]]}
    for k in ('subdirs', 'targets', 'headers', 'man', 'data', 'emptydirs', 'symlinks'):
        spec[k] = []
    cf = {'mode': None, 'sub': '', 'tag': None}
    if kind == 'data':
        spec['data'] = [{'path': '{R}/src/dd.txt', 'ip': d + '/d.txt', 'follow': None, **cf}]
    elif kind == 'man':
        spec['man'] = [{'path': '{R}/src/dd.txt', 'ip': d + '/d.1', **cf}]
    elif kind == 'headers':
        spec['headers'] = [{'path': '{R}/src/dd.txt', 'ip': d, 'follow': None, **cf}]
    elif kind == 'targets':
        spec['targets'] = [{'path': '{R}/build/tgt', 'ip': d, **cf}]
    elif kind == 'emptydirs':
        spec['emptydirs'] = [{'ip': d + '/empty', **cf}]
    elif kind == 'symlinks':
        spec['symlinks'] = [{'target': 't', 'name': d + '/lnk', 'ip': d, 'sub': '', 'tag': None}]
    else:
        ip = d if d.startswith('/') else jn(prefix, d)       # the backend hands install_subdir an absolute path
        spec['subdirs'] = [{'path': '{R}/src/ddtree', 'ip': ip, 'exclude': None, 'follow': None, **cf}]
    spec['ops'] = [{'op': 'install', 'destdir': dd, 'ambient': 0o022}]
    spec['escape'] = {'kind': kind, 'target': target, 'absolute': absolute}
    return spec


def corpus_cases() -> T.List[dict]:
    t0 = 1_500_000_000
    inst = {'op': 'install', 'destdir': '{R}/x/dest', 'ambient': 0o022}
    base = {'clean': False, 'fresh': True, 'umask': 0o022, 'prefix': '{P}/usr'}
    out = []
    # F-INSTALL-DOTDOT
    out.append({**base, 'name': 'corpus-dotdot-rel', 'tree': [['f', 'src/d.txt', 0o644, 'd', t0]],
                'data': [{'path': '{R}/src/d.txt', 'ip': 'share/../../../../outside/d.txt', 'mode': None, 'sub': '', 'tag': None}],
                'ops': [inst, {'op': 'uninstall'}]})
    out.append({**base, 'name': 'corpus-dotdot-abs', 'tree': [['f', 'src/d.txt', 0o644, 'd', t0]],
                'data': [{'path': '{R}/src/d.txt', 'ip': '{P}-abs/etc/../../../outside/d.txt', 'mode': None, 'sub': '', 'tag': None}],
                'ops': [inst]})
    # `..` into a sibling of DESTDIR whose name starts with DESTDIR's name (component-wise, not character-wise!)
    out.append({**base, 'name': 'corpus-dotdot-sibling-rel', 'tree': [['f', 'src/d.txt', 0o644, 'd', t0]],
                'data': [{'path': '{R}/src/d.txt', 'ip': 'share/../../../../stage-extra/etc/d.txt', 'mode': None, 'sub': '', 'tag': None}],
                'ops': [dict(inst, destdir='{R}/t/stage')]})
    out.append({**base, 'name': 'corpus-dotdot-sibling-abs', 'tree': [['f', 'src/d.txt', 0o644, 'd', t0]],
                'data': [{'path': '{R}/src/d.txt', 'ip': '/../stage.d/x/d.txt', 'mode': None, 'sub': '', 'tag': None}],
                'ops': [dict(inst, destdir='{R}/t/stage')]})
    # uninstall and names with trailing white space
    out.append({**base, 'name': 'corpus-trailing-space', 'tree': [['f', 'src/d.txt', 0o644, 'd', t0]],
                'data': [{'path': '{R}/src/d.txt', 'ip': 'share/x ', 'mode': None, 'sub': '', 'tag': None},
                         {'path': '{R}/src/d.txt', 'ip': 'share/ y/z', 'mode': None, 'sub': '', 'tag': None}],
                'ops': [inst, {'op': 'uninstall'}]})
    out.append({**base, 'name': 'corpus-trailing-space-dir', 'tree': [],
                'emptydirs': [{'ip': 'share/dir\t', 'mode': None, 'sub': '', 'tag': None}],
                'ops': [inst, {'op': 'uninstall'}]})
    # reinstall over a dangling symlink
    out.append({**base, 'name': 'corpus-dangling-reinstall', 'tree': [['l', 'src/lnk', 'nonexistent']],
                'data': [{'path': '{R}/src/lnk', 'ip': 'share/lnk', 'mode': None, 'sub': '', 'tag': None}],
                'ops': [inst, dict(inst)]})
    out.append({**base, 'name': 'corpus-nofollow-reinstall', 'tree': [['f', 'src/real', 0o644, 'r', t0], ['l', 'src/lnk', 'real']],
                'data': [{'path': '{R}/src/lnk', 'ip': 'share/lnk', 'mode': None, 'sub': '', 'tag': None, 'follow': False}],
                'ops': [inst, dict(inst)]})
    # dangling link installed under another name: the link lands under the source's basename, the log names the destination
    out.append({**base, 'name': 'corpus-dangling-rename', 'tree': [['l', 'src/lnk', 'nonexistent']],
                'data': [{'path': '{R}/src/lnk', 'ip': 'share/other', 'mode': None, 'sub': '', 'tag': None}],
                'ops': [inst]})
    out.append({**base, 'name': 'corpus-dangling-rename-preserve', 'umask': 'preserve', 'tree': [['l', 'src/lnk', 'nonexistent']],
                'data': [{'path': '{R}/src/lnk', 'ip': 'share/other', 'mode': None, 'sub': '', 'tag': None}],
                'ops': [inst, {'op': 'uninstall'}]})
    # two rules, one destination, first source newer: the Lean counterexample `only_changed_overlap_counterexample`
    # replayed on the real installer (first install ends with B, the --only-changed reinstall with A)
    out.append({**base, 'name': 'corpus-overlap-only-changed',
                'tree': [['f', 'src/A', 0o644, 'A', t0 + 9], ['f', 'src/B', 0o644, 'B', t0 + 5]],
                'data': [{'path': '{R}/src/A', 'ip': 'share/x', 'mode': None, 'sub': '', 'tag': None},
                         {'path': '{R}/src/B', 'ip': 'share/x', 'mode': None, 'sub': '', 'tag': None}],
                'ops': [inst, dict(inst, only=True)]})
    # a full clean layout
    out.append({**base, 'name': 'corpus-layout', 'clean': True,
                'tree': [['f', 'src/a.h', 0o644, 'a', t0], ['f', 'src/tool', 0o755, 't', t0 + 1], ['f', 'src/m.1', 0o600, 'm', t0 + 2],
                         ['d', 'src/tree', 0o755], ['d', 'src/tree/sub', 0o700], ['f', 'src/tree/sub/x', 0o640, 'x', t0 + 3],
                         ['f', 'src/tree/y', 0o755, 'y', t0 + 4], ['d', 'src/tree/skip', 0o755], ['f', 'src/tree/skip/z', 0o644, 'z', t0],
                         ['f', 'build/prog', 0o755, 'p', t0 + 9]],
                'headers': [{'path': '{R}/src/a.h', 'ip': 'include/my proj', 'mode': None, 'sub': '', 'tag': 'devel', 'follow': None}],
                'data': [{'path': '{R}/src/tool', 'ip': '{P}-abs/opt/t o o l/tool', 'mode': {'perms': 'rwxr-x---'}, 'sub': '', 'tag': 'runtime'}],
                'man': [{'path': '{R}/src/m.1', 'ip': 'share/man/man1/m.1', 'mode': None, 'sub': '', 'tag': 'man'}],
                'targets': [{'path': '{R}/build/prog', 'ip': 'bin', 'mode': {}, 'sub': '', 'tag': 'runtime'}],
                'emptydirs': [{'ip': 'var/empty dir', 'mode': {'perms': 'rwx------'}, 'sub': '', 'tag': None}],
                'symlinks': [{'target': 'prog', 'name': 'bin/prog-link', 'ip': 'bin', 'sub': '', 'tag': 'runtime'}],
                'subdirs': [{'path': '{R}/src/tree', 'ip': '{P}/usr/share/tree', 'mode': None, 'exclude': [['y'], ['skip']],
                             'sub': '', 'tag': None, 'follow': None}],
                'ops': [inst, dict(inst), dict(inst, only=True), dict(inst, dry=True), {'op': 'uninstall'}]})
    for c in out:
        for k in ('subdirs', 'targets', 'headers', 'man', 'data', 'emptydirs', 'symlinks'):
            c.setdefault(k, [])
    return out


# ------------------------------------------------------------------ worker

def _work(arg: T.Tuple[dict, str]) -> T.Tuple[dict, dict, str]:
    spec, base = arg
    R = os.path.join(base, 'c' + spec['name'].replace('/', '_'))
    os.makedirs(R)
    try:
        res = run_case(spec, R)
    except BaseException as e:  # noqa: B036
        res = {'crash': f'{type(e).__name__}: {e}', 'steps': [], 'requests': []}
    finally:
        common.rmtree(R)
        for q in (P_of(R), P_of(R) + '-abs'):
            if os.path.lexists(q):
                res = dict(locals().get('res') or {'steps': [], 'requests': []}, escaped=q)
                common.rmtree(q)
    return spec, res, R


def compare_model(ctx: Ctx, spec: dict, res: dict, R: str, answers: T.List[str]) -> None:
    steps = [s for s in res['steps'] if not s.get('nomodel')]
    outs: T.List[str] = []
    for a in answers:
        outs += a.split('|')
    if len(outs) != len(steps):
        ctx.disagreement({'name': spec['name'], 'what': 'model answered a different number of steps', 'model': answers[:1], 'spec': spec})
        return
    for i, (st, o) in enumerate(zip(steps, outs)):
        try:
            fe, fl, ft = o.split(';')
            merr = fe[2:]
            mlog = [ds(x) for x in fl[2:].split(',')] if fl[2:] else []
            mtree: T.Dict[str, tuple] = {}
            for ent in ft[2:].split(',') if ft[2:] else []:
                parts = ent.split(':')
                p = ds(parts[0])
                if parts[1] == 'd':
                    mtree[p] = ('d', int(parts[2]))
                elif parts[1] == 'f':
                    mtree[p] = ('f', int(parts[2]), int(parts[3]), int(parts[4]))
                else:
                    mtree[p] = ('l', ds(parts[2]))
        except Exception as e:
            ctx.disagreement({'name': spec['name'], 'step': i, 'what': f'unparsable model answer {type(e).__name__}', 'model': o[:200], 'spec': spec})
            return
        ctx.tag('model-result:' + merr)
        if merr != st['err']:
            ctx.disagreement({'name': spec['name'], 'step': i, 'what': 'outcome', 'impl': st['err'] + ' ' + st['detail'][:100], 'model': merr, 'spec': spec})
            return
        if mtree != st['tree']:
            d = changed_paths(mtree, st['tree'])[:3]
            ctx.disagreement({'name': spec['name'], 'step': i, 'what': 'tree',
                              'diff': [(os.path.relpath(p, R), mtree.get(p), st['tree'].get(p)) for p in d], 'spec': spec})
            return
        if st['op']['op'] == 'install' and mlog != st['log']:
            ctx.disagreement({'name': spec['name'], 'step': i, 'what': 'log', 'impl': st['log'][:12], 'model': mlog[:12], 'spec': spec})
            return


def oracle_gdp(destdir: str, prefix: str, ip: str, returned: T.Optional[str]) -> T.Optional[str]:
    """`writes only beneath DESTDIR`, on get_destdir_path itself (model-independent, component-wise):
    a returned path lies in DESTDIR; a documented destination that lies in DESTDIR is not refused"""
    from pathlib import PurePosixPath
    root = PurePosixPath(os.path.normpath(destdir)).parts
    if returned is not None:
        got = PurePosixPath(os.path.normpath(returned)).parts
        if got[:len(root)] != root:
            return f'get_destdir_path returned {returned!r}, which is not beneath DESTDIR {destdir!r}'
        return None
    doc = os.path.normpath(destdir + '/' + ip) if ip.startswith('/') else os.path.normpath(destdir + '/' + prefix + '/' + ip)
    docparts = PurePosixPath('/' + doc.lstrip('/')).parts
    rootn = PurePosixPath('/' + os.path.normpath(destdir).lstrip('/')).parts
    if docparts[:len(rootn)] == rootn:
        return f'the documented destination {doc!r} lies in DESTDIR {destdir!r}, yet get_destdir_path refused it'
    return None


# ------------------------------------------------------------------ unit streams (path algebra, permissions, selection)

def unit_stream(ctx: Ctx) -> None:
    import posixpath
    from mesonbuild import minstall
    from mesonbuild.scripts import destdir_join
    from mesonbuild.mesonlib import FileMode, MesonException
    rng = ctx.rng
    alpha = ['/', '.', 'a', ' ']
    strs = ['']
    for n in range(1, ctx.scale(6, 7)):
        strs += [''.join(t) for t in itertools.product(alpha, repeat=n)]
    extra = ['/usr/local', '//x//y', '///x', '/a/../..', '../..', 'ü/日本/', '/tmp/d e s t', 'a/./b/../c', '/..', '//', '/.', './', '..']
    strs += extra
    lines = []
    want = []
    for s in strs:
        lines.append(f'normpath {enc(s)}'); want.append(enc(posixpath.normpath(s)))
        lines.append(f'dirname {enc(s)}'); want.append(enc(posixpath.dirname(s)))
        lines.append(f'basename {enc(s)}'); want.append(enc(posixpath.basename(s)))
    pool = strs
    for _ in range(ctx.scale(30000, 300000)):
        a, b = rng.choice(pool), rng.choice(pool)
        lines.append(f'join {enc(a)}|{enc(b)}'); want.append(enc(posixpath.join(a, b)))
        lines.append(f'djoin {enc(a)}|{enc(b)}'); want.append(enc(destdir_join(a, b)))
        c = rng.choice(pool)
        try:
            w = enc(minstall.get_destdir_path(a, b, c))
        except MesonException:
            w = 'ERR:Meson'
        lines.append(f'gdp {enc(a)}|{enc(b)}|{enc(c)}'); want.append(w)
        if rng.random() < 0.5:
            # the staging check on realistic shapes: DESTDIR d, prefix under it, install dirs with `..` whose landing
            # names are derived from DESTDIR's own name
            d = rng.choice(['/d', '/d/e', '//d', '/d/', '/d/./e', '/t/stage', '/t/d e s t', '/'])
            pfx = rng.choice(['/usr', '/', '/usr/local', '//p'])
            fp = destdir_join(d, pfx)
            dbase = os.path.basename(os.path.normpath(d)) or 'r'
            comps = ['..', '..', '..', 'a', '.', ''] + escape_targets(dbase)
            ip = '/'.join(rng.choice(comps) for _ in range(rng.randint(1, 6)))
            if rng.random() < 0.3:
                ip = '/' + ip
            try:
                r = minstall.get_destdir_path(d, fp, ip)
                w = enc(r)
            except MesonException:
                r = None
                w = 'ERR:Meson'
            lines.append(f'gdp {enc(d)}|{enc(fp)}|{enc(ip)}'); want.append(w)
            msg = oracle_gdp(d, pfx, ip, r)
            if msg:
                ctx.violation(f'gdp:{d}:{pfx}:{ip}', msg, {'destdir': d, 'prefix': pfx, 'install_path': ip, 'returned': r})
    # permission strings: every well-formed one, and damaged ones
    pos = ['r-', 'w-', 'xsS-', 'r-', 'w-', 'xsS-', 'r-', 'w-', 'xtT-']
    perms = [''.join(t) for t in itertools.product(*pos)]
    bad = []
    for _ in range(2000):
        p = list(rng.choice(perms))
        k = rng.random()
        if k < 0.5:
            p[rng.randrange(9)] = rng.choice('rwxsStT-?a')
        elif k < 0.75:
            p.append(rng.choice('rwx-'))
        else:
            p.pop(rng.randrange(9))
        bad.append(''.join(p))
    for p in perms + bad + ['']:
        try:
            w = str(FileMode.perms_s_to_bits(p))
        except MesonException:
            w = 'None'
        lines.append(f'perms {enc(p)}'); want.append(w)
    for cur in range(0, 0o1000, 7):
        for um in (0, 0o022, 0o077, 0o137, 0o777, 0o002, 0o027):
            lines.append(f'sanitized {cur}|{um}'); want.append(str((0o777 if cur & 0o111 else 0o666) & ~um))
    # Python string primitives used by the backend glue
    for _ in range(3000):
        x = ''.join(rng.choice('ab.{}fr/mandir') for _ in range(rng.randint(0, 14)))
        pat = rng.choice(['.fr', '{mandir}', '.', 'a.', 'aa', '.a'])
        rep = rng.choice(['', '/usr/share/man', 'a', '.fr.'])
        lines.append(f'replace {enc(pat)}|{enc(rep)}|{enc(x)}'); want.append(enc(x.replace(pat, rep)))
        lines.append(f'lastfield {enc(x)}'); want.append(enc(x.split('.')[-1]))
    # selection
    opts_cls = argparse.Namespace
    for skip in SKIPS + ['a,,b', ',']:
        for tags in TAGOPTS + [',', 'a,,b']:
            inst = minstall.Installer(opts_cls(dry_run=False, skip_subprojects=skip, tags=tags), None)
            for sub in ['', 'sub1', 'sub 2', '*', 'a']:
                for tag in TAGS + ['', 'a']:
                    e = argparse.Namespace(subproject=sub, tag=tag)
                    lines.append(f'should {enc(skip)}|{enc(tags or "")}|{int(tags is not None)}|{enc(sub)}|{enc(tag or "")}|{int(tag is not None)}')
                    want.append(str(int(inst.should_install(e))))
    ctx.count(len(lines))
    if ctx.model_available:
        got = ctx.driver('install', lines)
        for l, w, g in zip(lines, want, got):
            ctx.tag('unit:' + l.split(' ', 1)[0])
            if w != g:
                ctx.disagreement({'kind': 'unit', 'line': l, 'impl': w, 'model': g})


# ------------------------------------------------------------------ decisions on file metadata

# every place of minstall.py that reads a stat field, and how this check drives it.  Harvested from the live source on
# every run: a site that is not listed here is a metadata-dependent decision nothing drives -> failed obligation.
KNOWN_METADATA_SITES = {
    ('is_executable', 'st_mode'): 'driven: source-mode x umask grid (an execute bit decides between 0o777 and 0o666)',
    ('Installer.should_preserve_existing_file', 'st_mtime'): 'driven: preserve stream (stat tuples, nanosecond time '
                                                             'stamps) and the rewrite histories',
    ('check_for_stampfile', 'st_size'): 'not exercised: stamp files of Rust targets (see TRUSTED)',
    ('rebuild_all.drop_privileges', 'st_uid'): 'not exercised: every run uses --no-rebuild',
}
METADATA_CALLS = {'getmtime', 'getsize', 'getctime', 'getatime', 'samefile', 'samestat'}


def harvest_metadata_sites() -> T.Set[T.Tuple[str, str]]:
    import ast
    with open(os.path.join(common.REPO, 'mesonbuild', 'minstall.py'), encoding='utf-8') as f:
        mod = ast.parse(f.read())
    found: T.Set[T.Tuple[str, str]] = set()

    def visit(node: ast.AST, qual: T.Tuple[str, ...]) -> None:
        for ch in ast.iter_child_nodes(node):
            if isinstance(ch, (ast.FunctionDef, ast.AsyncFunctionDef, ast.ClassDef)):
                visit(ch, qual + (ch.name,))
                continue
            if isinstance(ch, ast.Attribute) and (ch.attr.startswith('st_') or ch.attr in METADATA_CALLS):
                found.add(('.'.join(qual) or '<module>', ch.attr))
            visit(ch, qual)
    visit(mod, ())
    return found


def metadata_obligation(ctx: Ctx) -> None:
    try:
        found = harvest_metadata_sites()
    except Exception as e:
        ctx.obligation_failed('metadata-sites', f'cannot harvest minstall.py: {type(e).__name__}: {e}')
        return
    for site in sorted(found):
        ctx.tag('metadata-site:' + site[0] + ':' + site[1])
    new = sorted(found - set(KNOWN_METADATA_SITES))
    if new:
        ctx.obligation_failed('metadata-decision-not-driven',
                              'minstall.py reads file metadata at places this check does not drive: ' +
                              ', '.join(f'{f}:{a}' for f, a in new))
    for site in sorted(set(KNOWN_METADATA_SITES) - found):
        ctx.notes.append(f'metadata site {site[0]}:{site[1]} is no longer in minstall.py')


def preserve_stream(ctx: Ctx) -> None:
    """`Installer.should_preserve_existing_file` itself on generated stat tuples (--only-changed, kind and mtime_ns of
    the source, kind and mtime_ns of the destination; differences from 1 us to minutes, inside one clock second and
    across a second boundary), judged against the documented rule and compared with the model"""
    from mesonbuild import minstall
    rng = ctx.rng
    try:
        insts = {o: minstall.Installer(argparse.Namespace(dry_run=False, skip_subprojects='', tags=None, only_changed=o,
                                                          quiet=True), None) for o in (False, True)}
        fn = {o: insts[o].should_preserve_existing_file for o in insts}
    except Exception as e:
        ctx.obligation_failed('preserve-stream', f'cannot reach Installer.should_preserve_existing_file: {type(e).__name__}: {e}')
        return
    base = scratch_base()
    lines: T.List[str] = []
    want_model: T.List[str] = []
    try:
        d = os.path.join(base, 'pz')
        os.makedirs(os.path.join(d, 'sdir'))
        for nme in ('sf', 'sreal', 'df', 'dreal'):
            with open(os.path.join(d, nme), 'w') as f:
                f.write(nme)
        os.symlink('sreal', os.path.join(d, 'slf'))
        os.symlink('nowhere', os.path.join(d, 'sld'))
        os.symlink('sdir', os.path.join(d, 'slD'))
        os.symlink('dreal', os.path.join(d, 'dlf'))
        spath = {'f': 'sf', 'lf': 'slf', 'ld': 'sld', 'lD': 'slD'}
        dpath = {'f': 'df', 'lf': 'dlf'}
        for _ in range(ctx.scale(4000, 40000)):
            only = rng.random() < 0.85
            sk = rng.choice(['f', 'f', 'f', 'lf', 'ld', 'lD'])
            dk = rng.choice(['f', 'f', 'lf'])
            t_dst = rng.randrange(1_000_000_000, 1_900_000_000) * NS + subsec(rng)
            k = rng.random()
            if k < 0.15:
                delta = 0
            elif k < 0.45:
                delta = rng.choice([1_000, 2_000, 1_000_000, 500_000_000, 999_999_000]) * rng.choice([1, -1])
            elif k < 0.65:
                # inside the destination's clock second
                delta = rng.randrange(0, 10**6) * 1000 - t_dst % NS
            elif k < 0.75:
                # just across a second boundary
                delta = (NS - t_dst % NS) + rng.choice([0, 1_000]) if rng.random() < 0.5 else -(t_dst % NS) - rng.choice([1_000, 2_000])
            else:
                delta = rng.choice([NS, 2 * NS, 60 * NS, 86400 * NS]) * rng.choice([1, -1]) + rng.choice([0, 1_000, -1_000])
            t_src = t_dst + delta
            sp, dp = os.path.join(d, spath[sk]), os.path.join(d, dpath[dk])
            os.utime(dp, ns=(t_dst, t_dst))                     # follows the link: the file `stat` sees
            if sk in ('f', 'lf'):
                os.utime(sp, ns=(t_src, t_src))
            try:
                got = bool(fn[only](sp, dp))
                gots = str(int(got))
            except Exception as e:
                got = None
                gots = 'ERR:' + type(e).__name__
            if sk in ('f', 'lf'):
                a_src, a_dst = os.stat(sp).st_mtime_ns, os.stat(dp).st_mtime_ns
                want = only and a_dst >= a_src
            else:
                a_src, a_dst = 0, os.stat(dp).st_mtime_ns
                want = False                                    # a dangling link / a link to a directory is always installed again
            gap = a_src - a_dst
            ctx.tag('preserve:' + ('off' if not only else sk + ':' + dk + ':' +
                                   ('equal' if gap == 0 else ('src-newer' if gap > 0 else 'dst-newer') +
                                    (':<1ms' if abs(gap) < 10**6 else ':<1s' if abs(gap) < NS else ':>=1s'))))
            if got is not want:
                side = 'stale-kept' if (want is False and got) else 'overwritten' if got is False else 'raised'
                ctx.violation(f'only-changed-decision:{side}:{sk}:{dk}',
                              f'should_preserve_existing_file(only_changed={only}, source {sk} mtime_ns={a_src}, destination {dk} '
                              f'mtime_ns={a_dst}) = {gots}; "only overwrite files that are older than the copied file" gives {want} '
                              f'(destination is {gap / 1e9:.9f}s older than the source)',
                              {'preserve': {'only': only, 'src_kind': sk, 'src_mtime_ns': a_src, 'dst_kind': dk, 'dst_mtime_ns': a_dst}})
            lines.append(f'preserve {int(only)}|{sk}|{a_src}|{dk}|{a_dst}')
            want_model.append(gots)
    finally:
        common.rmtree(base)
    ctx.count(len(lines))
    if ctx.model_available and lines:
        for l, w, g in zip(lines, want_model, ctx.driver('install', lines)):
            if w != g:
                ctx.disagreement({'kind': 'unit', 'line': l, 'impl': w, 'model': g})


def doc_selected(skip_value: str, tags_value: T.Optional[str], sub: str, tag: T.Optional[str]) -> bool:
    """the documented meaning of the selection options: `--skip-subprojects [LIST]` -- "Do not install files from given
    subprojects", LIST a comma separated list of subproject NAMES, `*` (also the bare flag) for all of them, files of the
    main project are never skipped; `--tags LIST` -- "Install only targets having one of the given tags" """
    import re
    names = [x.strip() for x in re.split(',', skip_value)]
    if sub != '' and any(n == '*' or n == sub for n in names):
        return False
    if tags_value:
        return any(t.strip() == tag for t in tags_value.split(',')) if tag is not None else False
    return True


def selection_stream(ctx: Ctx) -> None:
    """the selection options through the command line: argparse (minstall.add_arguments) -> Installer.__init__ ->
    should_install, with subproject names that are substrings / prefixes / suffixes of each other, empty fields, white
    space, `*` as an item, inside an item, and as the bare flag; judged against the documented meaning and compared
    with the model"""
    from mesonbuild import minstall
    rng = ctx.rng
    names = SEL_NAMES + ['a,b', '*', ' core', 's']
    lines: T.List[str] = []
    want_model: T.List[str] = []
    for _ in range(ctx.scale(600, 6000)):
        argv: T.List[str] = []
        k = rng.random()
        if k < 0.08:
            argv += ['--skip-subprojects']          # bare flag: all subprojects
        elif k < 0.9:
            items = [rng.choice(SEL_NAMES + ['*', '', 'core-utils', 'core']) for _ in range(rng.randint(0, 3))]
            raw = rng.choice([',', ', ', ' , ']).join(items)
            if rng.random() < 0.2:
                raw = ' ' + raw + ' '
            argv += ['--skip-subprojects=' + raw] if rng.random() < 0.5 else ['--skip-subprojects', raw]
        tv = rng.choice(TAGOPTS)
        if tv is not None:
            argv += ['--tags', tv]
        try:
            parser = argparse.ArgumentParser()
            minstall.add_arguments(parser)
            opts = parser.parse_args(argv)
            inst = minstall.Installer(opts, None)
            skipv, tagsv = opts.skip_subprojects, opts.tags
        except BaseException as e:  # noqa: B036  (argparse exits on a shape change)
            if isinstance(e, KeyboardInterrupt):
                raise
            ctx.obligation_failed('selection-stream', f'meson install {argv}: cannot build the Installer: {type(e).__name__}: {e}')
            return
        if not isinstance(skipv, str) or not (tagsv is None or isinstance(tagsv, str)):
            ctx.obligation_failed('selection-stream', f'option values are no longer strings: {skipv!r} {tagsv!r}')
            return
        for sub in [''] + rng.sample(names, 6):
            for tag in (None, rng.choice(TAGS[1:])):
                try:
                    got = bool(inst.should_install(argparse.Namespace(subproject=sub, tag=tag)))
                    gots = str(int(got))
                except Exception as e:
                    got = None
                    gots = 'ERR:' + type(e).__name__
                want = doc_selected(skipv, tagsv, sub, tag)
                ctx.tag('selection:' + ('bare' if argv[:1] == ['--skip-subprojects'] and k < 0.08 else 'list' if skipv else 'none') +
                        (':tags' if tagsv else '') + (':sub' if sub else ':main'))
                if got is not want:
                    why = 'installed-though-listed' if got else 'skipped-though-not-listed' if got is False else 'raised'
                    ctx.violation(f'selection:{why}:{sub}',
                                  f'meson install {" ".join(repr(a) for a in argv)}: an entry of subproject {sub!r} with tag {tag!r} '
                                  f'is {"installed" if got else "left out"}; the options mean {"install it" if want else "leave it out"} '
                                  f'(skip list {[x.strip() for x in skipv.split(",")]}, tags {tagsv!r})',
                                  {'selection': {'argv': argv, 'subproject': sub, 'tag': tag}})
                lines.append(f'should {enc(skipv)}|{enc(tagsv or "")}|{int(tagsv is not None)}|{enc(sub)}|{enc(tag or "")}|{int(tag is not None)}')
                want_model.append(gots)
    ctx.count(len(lines))
    if ctx.model_available and lines:
        for l, w, g in zip(lines, want_model, ctx.driver('install', lines)):
            if w != g:
                ctx.disagreement({'kind': 'unit', 'line': l, 'impl': w, 'model': g})


def replay_selection(ctx: Ctx, c: dict) -> None:
    from mesonbuild import minstall
    parser = argparse.ArgumentParser()
    minstall.add_arguments(parser)
    opts = parser.parse_args(c['argv'])
    got = bool(minstall.Installer(opts, None).should_install(argparse.Namespace(subproject=c['subproject'], tag=c['tag'])))
    want = doc_selected(opts.skip_subprojects, opts.tags, c['subproject'], c['tag'])
    print(f'should_install -> {got}; documented meaning -> {want}')
    if got is not want:
        ctx.violation('selection:replay', f'got {got}, want {want}', {'selection': c})


def replay_preserve(ctx: Ctx, c: dict) -> None:
    from mesonbuild import minstall
    base = scratch_base()
    try:
        sp, dp = os.path.join(base, 's'), os.path.join(base, 'd')
        for q in (sp, dp):
            with open(q, 'w') as f:
                f.write(q)
        if c['src_kind'] == 'lf':
            os.symlink('s', os.path.join(base, 'sl'))
            sp = os.path.join(base, 'sl')
        elif c['src_kind'] in ('ld', 'lD'):
            os.symlink('nowhere' if c['src_kind'] == 'ld' else '.', os.path.join(base, 'sl'))
            sp = os.path.join(base, 'sl')
        if c['dst_kind'] == 'lf':
            os.symlink('d', os.path.join(base, 'dl'))
            dp = os.path.join(base, 'dl')
        os.utime(dp, ns=(c['dst_mtime_ns'], c['dst_mtime_ns']))
        if c['src_kind'] in ('f', 'lf'):
            os.utime(sp, ns=(c['src_mtime_ns'], c['src_mtime_ns']))
        inst = minstall.Installer(argparse.Namespace(dry_run=False, skip_subprojects='', tags=None, only_changed=c['only'],
                                                     quiet=True), None)
        got = inst.should_preserve_existing_file(sp, dp)
        want = bool(c['only'] and c['src_kind'] in ('f', 'lf') and c['dst_mtime_ns'] >= c['src_mtime_ns'])
        print(f'should_preserve_existing_file -> {got}; documented rule -> {want}')
        if bool(got) is not want:
            ctx.violation('only-changed-decision:replay', f'got {got}, want {want}', {'preserve': c})
    finally:
        common.rmtree(base)


# ------------------------------------------------------------------ run

def make_cases(ctx: Ctx) -> T.List[dict]:
    rng = ctx.rng
    cases = corpus_cases()
    n = ctx.scale(600, 2500)
    for i in range(n):
        cases.append(gen_case(rng, i, 'clean'))
    for i in range(n):
        cases.append(gen_case(rng, i, 'messy'))
    for i in range(n // 4):
        cases.append(gen_case(rng, i, 'nodestdir'))
    for i in range(n // 10):
        cases.append(dotdot_case(rng, i))
    for i in range(n // 6):
        cases.append(link_case(rng, i))
    for i in range(n // 5):
        cases.append(subsec_case(rng, i))
    for i in range(n // 5):
        cases.append(select_case(rng, i))
    return cases


def scratch_base() -> str:
    """tmpfs when there is one (directory removal on the disk-backed /tmp costs 3 ms a piece here)"""
    if not os.environ.get('VERIF_SCRATCH') and os.path.isdir('/dev/shm') and os.access('/dev/shm', os.W_OK):
        import tempfile
        return tempfile.mkdtemp(prefix='mverif-c11-', dir='/dev/shm')
    return common.scratch_dir('mverif-c11-')


def execute(ctx: Ctx, cases: T.List[dict]) -> T.List[T.Tuple[dict, dict, str]]:
    base = scratch_base()
    try:
        with multiprocessing.get_context('fork').Pool(min(16, os.cpu_count() or 4)) as pool:
            return pool.map(_work, [(c, base) for c in cases], chunksize=8)
    finally:
        common.rmtree(base)


def judge(ctx: Ctx, results: T.List[T.Tuple[dict, dict, str]]) -> None:
    reqs: T.List[str] = []
    owners: T.List[int] = []
    for i, (spec, res, R) in enumerate(results):
        if res.get('crash'):
            raise common.ToolFailure(f'harness crashed on {spec["name"]}: {res["crash"]}')
        if res.get('skipped'):
            ctx.tag('skipped:' + res['skipped'])
            continue
        ctx.count(len(res['steps']))
        ctx.tag('family:' + spec['name'].rsplit('-', 1)[0] if not spec['name'].startswith('corpus') else 'family:corpus')
        for st in res['steps']:
            ctx.tag('op:' + st['op']['op'] + (':dry' if st['op'].get('dry') else '') + (':only-changed' if st['op'].get('only') else ''))
            ctx.tag('impl-result:' + st['err'])
        oracle_case(ctx, spec, R, res)
        if has_dotdot(spec) and not spec['name'].startswith('corpus'):
            continue   # `..` that stays inside DESTDIR: makedirs is physical, the model lexical (see TRUSTED); oracle only
        for r in res['requests']:
            reqs.append(r)
            owners.append(i)
        sig = (tuple(st['err'] for st in res['steps']), tuple(len(st['tree']) for st in res['steps']))
        if any(st['err'] != 'ok' for st in res['steps']) or len(res['steps']) > 1:
            ctx.seen_nontrivial((spec['name'], sig))
    if ctx.model_available and reqs:
        from concurrent.futures import ThreadPoolExecutor
        nchunk = max(1, min(16, len(reqs) // 20))
        chunks = [reqs[i::nchunk] for i in range(nchunk)]
        with ThreadPoolExecutor(nchunk) as ex:
            parts = list(ex.map(lambda c: ctx.driver('install', c), chunks))
        answers = [''] * len(reqs)
        for ci, part in enumerate(parts):
            answers[ci::nchunk] = part
        by_owner: T.Dict[int, T.List[str]] = {}
        for o, a in zip(owners, answers):
            by_owner.setdefault(o, []).append(a)
        for o, ans in by_owner.items():
            spec, res, R = results[o]
            compare_model(ctx, spec, res, R, ans)
    for spec, res, R in results[:3]:
        ctx.sample({'name': spec['name'], 'ops': [o['op'] for o in spec['ops']],
                    'results': [s['err'] for s in res['steps']], 'entries': sum(len(spec.get(k, [])) for k in
                    ('subdirs', 'targets', 'headers', 'man', 'data', 'emptydirs', 'symlinks'))})


def run(ctx: Ctx) -> None:
    ctx.rule = ('a case is a plan (InstallData) + scratch tree + history of install/reinstall/--only-changed/--dry-run/'
                'uninstall; it is non-trivial when some step raised or the history has more than one step; '
                'counted distinct by (case, outcome signature)')
    cases = make_cases(ctx)
    results = execute(ctx, cases)
    judge(ctx, results)
    # decisions that depend on file metadata: the real function on stat tuples; every stat read of minstall.py is known
    preserve_stream(ctx)
    metadata_obligation(ctx)
    # the selection options through the command-line parser
    selection_stream(ctx)
    # second stream: build definition -> meson setup -> meson install, judged against Installing.md
    c11_e2e.run_stream(ctx, scratch_base, ctx.scale(28, 250))
    # pure functions last (so that a failing input from a real installation is reported first)
    unit_stream(ctx)
    ctx.assumptions += TRUSTED


def search(ctx: Ctx, disagreements: T.List[dict]) -> None:
    """failing-input search: the oracle on the disagreeing plans, their single-entry reductions and simple histories"""
    seeds = [d['spec'] for d in disagreements if 'spec' in d][:20]
    cases: T.List[dict] = []
    inst_kinds = ('subdirs', 'targets', 'headers', 'man', 'data', 'emptydirs', 'symlinks')
    n = 0
    for s in seeds:
        dd = next((o.get('destdir') for o in s['ops'] if o['op'] == 'install'), '{R}/dest')
        base_op = next((o for o in s['ops'] if o['op'] == 'install'), {'op': 'install', 'destdir': dd})
        plain = {k: v for k, v in base_op.items() if k not in ('dry', 'only')}
        hists = [s['ops'], [plain, {'op': 'uninstall'}], [plain, dict(plain), {'op': 'uninstall'}],
                 [dict(plain, dry=True)], [dict(plain, tags=None, skip=''), {'op': 'uninstall'}]]
        for h in hists:
            n += 1
            cases.append(dict(s, name=f'search-{n}', ops=h))
        for k in inst_kinds:
            for j in range(len(s.get(k, []))):
                n += 1
                red = dict(s, name=f'search-{n}', ops=[plain, dict(plain), {'op': 'uninstall'}])
                for k2 in inst_kinds:
                    red[k2] = [s[k][j]] if k2 == k else []
                red['clean'] = True
                red['fresh'] = True
                red['tree'] = [t for t in s['tree'] if t[1].startswith(('src/', 'build/'))]
                cases.append(red)
    # when a proof or a table broke without a disagreeing input: a fresh deep sample
    if not seeds:
        rng = ctx.rng
        for i in range(3000):
            cases.append(gen_case(rng, 100000 + i, rng.choice(['clean', 'messy'])))
    if not cases:
        return
    results = execute(ctx, cases)
    for spec, res, R in results:
        if res.get('crash') or res.get('skipped'):
            continue
        oracle_case(ctx, spec, R, res)


def replay(ctx: Ctx, rep: dict) -> None:
    case = rep.get('case', {})
    if case.get('e2e'):
        c11_e2e.replay_e2e(ctx, case['e2e'], scratch_base)
        print('violations:', json.dumps(ctx.violations, default=repr)[:2000])
        return
    if case.get('selection'):
        replay_selection(ctx, case['selection'])
        print('violations:', json.dumps(ctx.violations, default=repr)[:2000])
        return
    if case.get('preserve'):
        replay_preserve(ctx, case['preserve'])
        print('violations:', json.dumps(ctx.violations, default=repr)[:2000])
        return
    spec = case.get('spec')
    if not spec:
        print('nothing to replay in', list(rep))
        return
    results = execute(ctx, [spec])
    for spec, res, R in results:
        for st in res['steps']:
            print('impl', st['op']['op'], st['err'], st['detail'][:200])
            print('   log', st['log'])
    judge(ctx, results)
    print('violations:', json.dumps(ctx.violations, default=repr)[:2000])
    print('known findings hit:', ctx.known_hits)
    print('disagreements:', json.dumps(ctx.disagreements, default=repr)[:2000])
