"""C16 — `meson format` preserves meaning and comments and is idempotent.

Translation validation.  For every (input text, formatter configuration) pair the real formatter is run
in-process (`mformat.Formatter(cfgfile, ...).format`), input and output are parsed with the real parser,
and two independent checkers decide

    erase(in) == erase(out)  (modulo the documented rewrites)      comments(in) == comments(out)

* the Lean driver `mvdriver-fmt` (model `MesonModel/Fmt/*`): trees serialised by `ser()` below;
* the Python oracle in this file (`py_skel`, `py_canon`, `lex_comments`) working on the mparser objects
  (string values as decoded by the real parser) and on the real lexer's token stream.

Only the Python oracle (plus `format(out) == out`, `--check-only`/`--check-diff` status) raises
`ctx.violation`; Lean-vs-Python disagreement about a pair is a `ctx.disagreement`.
The pure rewriting decisions (string-literal simplification, files([...]) flattening, sort_files order,
escape decoding) are additionally compared one by one with the model (`simp`, `flat`, `sort`, `den`).
The argument-list layout decision (flattening, sorting, multi-line detector, trailing-comma rule) is a Lean
function on abstract argument lists (`MesonModel/Fmt/Layout.lean`, proved idempotent): every statement of the
stream inside its domain is abstracted from the real parse trees (`abs_node`) and the model's `fmt` of the input
must equal the abstraction of the real output, layout included (`layout`).
"""
from __future__ import annotations

import argparse
import contextlib
import io
import itertools
import multiprocessing as mp
import os
import random
import re
import typing as T
import zlib
from pathlib import Path

from . import common
from .common import Ctx, enc, enc_list, dec

ID = 'C16'
LEVEL = 'translation_validation'
LEAN_TARGETS = ['MesonModel.Props.C16']
AREAS = ['fmt']
PINS = [
    'mesonbuild.mformat:TrimWhitespaces',
    'mesonbuild.mformat:ArgumentFormatter',
    'mesonbuild.mformat:ComputeLineLengths',
    'mesonbuild.mformat:MultilineArgumentDetector',
    'mesonbuild.mformat:flattened_files_arguments',
    'mesonbuild.mformat:MultilineParenthesesDetector',
    'mesonbuild.mformat:CommentDetector',
    'mesonbuild.mformat:split_lines',
    'mesonbuild.mformat:can_be_plain_string',
    'mesonbuild.mformat:Formatter.format',
    'mesonbuild.mformat:Formatter.load_configuration',
    'mesonbuild.mformat:FormatterConfig',
    'mesonbuild.mformat:run',
    'mesonbuild.utils.universal:pathname_sort_key',
    'mesonbuild.mformat:TrimWhitespaces.sort_arguments',
    'mesonbuild.mparser:StringNode',
    'mesonbuild.mparser:decode_match',
    'mesonbuild.ast.printer:RawPrinter',
    'mesonbuild.ast.visitor:FullAstVisitor',
]
TRUSTED = [
    'the real mparser.Parser is the reference parser for both input and output text (parser defects are C02\'s subject)',
    'harness serialiser ser() of mparser trees (used by the Lean checker only; the Python oracle reads the mparser objects)',
    'f-string denotation: an f-string differs from a plain string iff re `@([_a-zA-Z][_0-9a-zA-Z]*)@` matches its value '
    '(InterpreterBase.evaluate_fstring)',
    'domain: ASCII + a fixed set of inert non-ASCII code points; no \\N{..} escapes, no surrogate / >U+10FFFF escapes; '
    'nesting depth <= 7; no testcase blocks',
]

# --------------------------------------------------------------------------------------------- impl access

_MODS: T.Optional[T.Tuple[T.Any, T.Any, T.Any]] = None


def impl():
    global _MODS
    if _MODS is None:
        from mesonbuild import mformat, mparser, mlog
        mlog._logger.log_disable_stdout = True
        os.environ.pop('MESON_RUNNING_IN_PROJECT_TESTS', None)
        _MODS = (mformat, mparser, mlog)
        global FSUB, FSUB_SOURCE
        try:
            pat, FSUB_SOURCE = extract_fsub()
            FSUB = re.compile(pat)
        except Exception as e:   # reported as a failed obligation by gen_tables
            FSUB_SOURCE = f'default (extraction failed: {type(e).__name__})' 
    return _MODS


def parse(text: str):
    _, mparser, _ = impl()
    return mparser.Parser(text, '').parse()


# --------------------------------------------------------------------------------------------- serialiser
# generic rose tree:  K:<kind>:<flags>:<nkids>:<text>:<ws>  tokens separated by ','   (prefix order)

KINDS = ['Empty', 'Boolean', 'Id', 'Number', 'String', 'Continue', 'Break', 'Symbol', 'Args', 'Kw', 'Array', 'Dict',
         'Or', 'And', 'Cmp', 'Arith', 'Not', 'UMinus', 'Block', 'Pre', 'Index', 'Method', 'Func', 'Assign',
         'PlusAssign', 'Foreach', 'IfClause', 'If', 'Else', 'Ternary', 'Paren']
KIDX = {k: i for i, k in enumerate(KINDS)}


def node_parts(n) -> T.Tuple[str, str, int, T.List[T.Any]]:
    """-> (kind, text, flags, kids) following FullAstVisitor's visiting order; pseudo kids are tuples"""
    _, mp_, _ = impl()
    t = type(n).__name__
    if t == 'EmptyNode':
        return 'Empty', '', 0, []
    if t == 'BooleanNode':
        return 'Boolean', 'true' if n.value else 'false', 0, []
    if t == 'IdNode':
        return 'Id', n.value, 0, []
    if t == 'NumberNode':
        return 'Number', n.raw_value, 0, []
    if t == 'StringNode':
        return 'String', n.raw_value, (1 if n.is_multiline else 0) + (2 if n.is_fstring else 0), []
    if t == 'ContinueNode':
        return 'Continue', '', 0, []
    if t == 'BreakNode':
        return 'Break', '', 0, []
    if t == 'SymbolNode':
        return 'Symbol', n.value, 0, []
    if t == 'ArgumentNode':
        kids: T.List[T.Any] = []
        commas = iter(n.commas)
        for a in n.arguments:
            kids.append(a)
            c = next(commas, None)
            if c is not None:
                kids.append(c)
        for (k, v), colon in zip(n.kwargs.items(), n.colons):
            kids.append(('Kw', [k, colon, v]))
            c = next(commas, None)
            if c is not None:
                kids.append(c)
        return 'Args', '', 0, kids
    if t == 'ArrayNode':
        return 'Array', '', 0, [n.lbracket, n.args, n.rbracket]
    if t == 'DictNode':
        return 'Dict', '', 0, [n.lcurl, n.args, n.rcurl]
    if t == 'OrNode':
        return 'Or', '', 0, [n.left, n.operator, n.right]
    if t == 'AndNode':
        return 'And', '', 0, [n.left, n.operator, n.right]
    if t == 'ComparisonNode':
        return 'Cmp', n.ctype, 0, [n.left, n.operator, n.right]
    if t == 'ArithmeticNode':
        return 'Arith', n.operation, 0, [n.left, n.operator, n.right]
    if t == 'NotNode':
        return 'Not', '', 0, [n.operator, n.value]
    if t == 'UMinusNode':
        return 'UMinus', '', 0, [n.operator, n.value]
    if t == 'CodeBlockNode':
        return 'Block', '', 0, [('Pre', n.pre_whitespaces)] + list(n.lines)
    if t == 'IndexNode':
        return 'Index', '', 0, [n.iobject, n.lbracket, n.index, n.rbracket]
    if t == 'MethodNode':
        return 'Method', '', 0, [n.source_object, n.dot, n.name, n.lpar, n.args, n.rpar]
    if t == 'FunctionNode':
        return 'Func', '', 0, [n.func_name, n.lpar, n.args, n.rpar]
    if t == 'AssignmentNode':
        return 'Assign', '', 0, [n.var_name, n.operator, n.value]
    if t == 'PlusAssignmentNode':
        return 'PlusAssign', '', 0, [n.var_name, n.operator, n.value]
    if t == 'ForeachClauseNode':
        kids = [n.foreach_]
        for v, c in itertools.zip_longest(n.varnames, n.commas):
            kids.append(v)
            if c is not None:
                kids.append(c)
        kids += [n.colon, n.items, n.block, n.endforeach]
        return 'Foreach', '', 0, kids
    if t == 'IfClauseNode':
        return 'IfClause', '', 0, list(n.ifs) + [n.elseblock, n.endif]
    if t == 'IfNode':
        return 'If', '', 0, [n.if_, n.condition, n.block]
    if t == 'ElseNode':
        return 'Else', '', 0, [n.else_, n.block]
    if t == 'TernaryNode':
        return 'Ternary', '', 0, [n.condition, n.questionmark, n.trueblock, n.colon, n.falseblock]
    if t == 'ParenthesizedNode':
        return 'Paren', '', 0, [n.lpar, n.inner, n.rpar]
    raise ValueError('unserialisable node ' + t)


def ser(n) -> str:
    out: T.List[str] = []

    def go(x) -> None:
        if isinstance(x, tuple):
            if x[0] == 'Pre':
                out.append(f'{KIDX["Pre"]}:0:0::{enc(x[1].value) if x[1] is not None else ""}')
                return
            kind, kids = x
            out.append(f'{KIDX[kind]}:0:{len(kids)}::')
            for k in kids:
                go(k)
            return
        kind, text, flags, kids = node_parts(x)
        ws = x.whitespaces.value if x.whitespaces is not None else ''
        out.append(f'{KIDX[kind]}:{flags}:{len(kids)}:{enc(text)}:{enc(ws)}')
        for k in kids:
            go(k)
    go(n)
    return ','.join(out)


# --------------------------------------------------------------------------------------------- Python oracle
# second, independent implementation of erase / canon / comments (on mparser objects and lexer tokens)

FSUB_DEFAULT = r'@([_a-zA-Z][_0-9a-zA-Z]*)@'
FSUB = re.compile(FSUB_DEFAULT)
FSUB_SOURCE = 'default (not yet extracted)'


def extract_fsub() -> T.Tuple[str, str]:
    """the placeholder regex of the interpreter, read from the live `InterpreterBase.evaluate_fstring`
    (first argument of its `re.sub` call); -> (pattern, where it came from)"""
    import ast as pyast
    import inspect
    import textwrap
    from mesonbuild.interpreterbase.interpreterbase import InterpreterBase
    src = textwrap.dedent(inspect.getsource(InterpreterBase.evaluate_fstring))
    for n in pyast.walk(pyast.parse(src)):
        if isinstance(n, pyast.Call) and isinstance(n.func, pyast.Attribute) and n.func.attr in ('sub', 'search', 'finditer', 'compile') \
                and n.args and isinstance(n.args[0], pyast.Constant) and isinstance(n.args[0].value, str):
            return n.args[0].value, 'InterpreterBase.evaluate_fstring'
    raise ValueError('no regex literal found in InterpreterBase.evaluate_fstring')


def py_skel(n) -> T.Any:
    """program skeleton: nested tuples; symbols, whitespace, comments, trailing commas, parentheses dropped;
    strings by their denoted value (as decoded by the real parser)"""
    t = type(n).__name__
    if t == 'ParenthesizedNode':
        return py_skel(n.inner)
    if t == 'StringNode':
        val = n.value  # escape() already applied by the parser for '...'; raw for '''...'''
        return ('str', val, bool(n.is_fstring and FSUB.search(val)))
    if t == 'NumberNode':
        return ('num', n.value)
    if t == 'BooleanNode':
        return ('bool', bool(n.value))
    if t == 'IdNode':
        return ('id', n.value)
    if t in ('EmptyNode', 'ContinueNode', 'BreakNode'):
        return (t,)
    if t == 'ArgumentNode':
        return ('args', tuple(py_skel(a) for a in n.arguments),
                tuple((py_skel(k), py_skel(v)) for k, v in n.kwargs.items()))
    if t in ('ArrayNode', 'DictNode'):
        return (t, py_skel(n.args))
    if t in ('OrNode', 'AndNode'):
        return (t, py_skel(n.left), py_skel(n.right))
    if t == 'ComparisonNode':
        return ('cmp', n.ctype, py_skel(n.left), py_skel(n.right))
    if t == 'ArithmeticNode':
        return ('arith', n.operation, py_skel(n.left), py_skel(n.right))
    if t in ('NotNode', 'UMinusNode'):
        return (t, py_skel(n.value))
    if t == 'CodeBlockNode':
        return ('block', tuple(py_skel(x) for x in n.lines))
    if t == 'IndexNode':
        return ('index', py_skel(n.iobject), py_skel(n.index))
    if t == 'MethodNode':
        return ('method', py_skel(n.source_object), n.name.value, py_skel(n.args))
    if t == 'FunctionNode':
        return ('func', n.func_name.value, py_skel(n.args))
    if t in ('AssignmentNode', 'PlusAssignmentNode'):
        return (t, n.var_name.value, py_skel(n.value))
    if t == 'ForeachClauseNode':
        return ('foreach', tuple(v.value for v in n.varnames), py_skel(n.items), py_skel(n.block))
    if t == 'IfClauseNode':
        return ('ifclause', tuple(py_skel(i) for i in n.ifs), py_skel(n.elseblock))
    if t == 'IfNode':
        return ('if', py_skel(n.condition), py_skel(n.block))
    if t == 'ElseNode':
        return ('else', py_skel(n.block))
    if t == 'TernaryNode':
        return ('ternary', py_skel(n.condition), py_skel(n.trueblock), py_skel(n.falseblock))
    raise ValueError('py_skel: ' + t)


def py_canon(s: T.Any, sort_on: bool) -> T.Any:
    """quotient by the documented rewrites: files([...]) == files(...), and with sort_files the positional
    arguments of files() are an unordered collection (represented sorted by repr)"""
    if not isinstance(s, tuple):
        return s
    s = tuple(py_canon(x, sort_on) for x in s)
    if len(s) == 3 and s[0] == 'func' and s[1] == 'files':
        args = s[2]
        while len(args[1]) == 1 and not args[2] and args[1][0][0] == 'ArrayNode':
            args = args[1][0][1]
        if sort_on:
            args = ('args', tuple(sorted(args[1], key=repr)), args[2])
        s = ('func', 'files', args)
    return s


def lex_comments(text: str) -> T.List[str]:
    """comment token sequence of a text, from the real lexer's token stream (incl. comments carried by
    line-continuation tokens); trailing blanks are not part of a comment's identity"""
    _, mparser, _ = impl()
    out = []
    for tok in mparser.Lexer(text).lex(''):
        if tok.tid == 'comment':
            out.append(tok.value.rstrip())
        elif tok.tid == 'whitespace' and isinstance(tok.value, str) and tok.value.startswith('\\') and '#' in tok.value:
            out.append(tok.value[tok.value.index('#'):].rstrip())
    return out


def first_diff(a: T.Any, b: T.Any, path: str = '') -> T.Tuple[str, T.Any, T.Any]:
    if isinstance(a, tuple) and isinstance(b, tuple) and len(a) == len(b) and (not a or a[0] == b[0] or not isinstance(a[0], str)):
        for i, (x, y) in enumerate(zip(a, b)):
            if x != y:
                return first_diff(x, y, f'{path}/{a[0] if a and isinstance(a[0], str) else ""}{i}')
    return path, a, b


# --------------------------------------------------------------------------------------------- configurations

# values tried per option; every field of the LIVE `FormatterConfig` dataclass is enumerated (see
# `live_option_values`): both values of every bool, several values of every int, every member of a Literal
# (end_of_line); the lists below only add interesting values for the fields known when this was written.
KNOWN_VALUES: T.Dict[str, T.List[T.Any]] = {
    'max_line_length': [80, 20, 40, 0, 1, 200],
    'indent_by': ['    ', '  ', '\t', ' ', ''],
    'tab_width': [4, 8, 1, 0],
    'indent_before_comments': ['  ', ' ', '', '\t'],
}


def live_option_values() -> T.Dict[str, T.List[T.Any]]:
    import dataclasses
    from mesonbuild import mformat
    out: T.Dict[str, T.List[T.Any]] = {}
    for f in dataclasses.fields(mformat.FormatterConfig):
        default = f.metadata['default']
        getter = getattr(f.metadata['getter'], '__name__', '')
        lits = re.findall(r"'([^']*)'", str(f.type)) if 'Literal' in str(f.type) else []
        if getter == 'getboolean':
            vals = [default, not default]
        elif getter == 'getint':
            vals = [default] + KNOWN_VALUES.get(f.name, [1, 40, 0, 200])
        elif lits:
            vals = [default] + lits
        else:
            vals = [default] + KNOWN_VALUES.get(f.name, [])
        seen: T.List[T.Any] = []
        for v in vals:
            if v not in seen:
                seen.append(v)
        out[f.name] = seen
    return out


OPTION_VALUES: T.Dict[str, T.List[T.Any]] = live_option_values()
OPTION_NAMES = list(OPTION_VALUES)
DEFAULT_CFG = {k: v[0] for k, v in OPTION_VALUES.items()}


def cfg_text(cfg: T.Dict[str, T.Any]) -> str:
    lines = []
    for k in OPTION_NAMES:
        v = cfg[k]
        if isinstance(v, bool):
            lines.append(f'{k} = {"true" if v else "false"}')
        elif isinstance(v, int):
            lines.append(f'{k} = {v}')
        elif k == 'end_of_line':
            lines.append(f'{k} = {v}')
        else:
            lines.append(f"{k} = '{v}'")
    return '\n'.join(lines) + '\n'


def pairwise_configs(rng: random.Random, extra_random: int) -> T.List[T.Dict[str, T.Any]]:
    """greedy pairwise-covering array over OPTION_VALUES (+ default, + extra random full-product samples)"""
    names = OPTION_NAMES
    need = set()
    for i, a in enumerate(names):
        for b in names[i + 1:]:
            for va in range(len(OPTION_VALUES[a])):
                for vb in range(len(OPTION_VALUES[b])):
                    need.add((a, va, b, vb))
    rows: T.List[T.Dict[str, int]] = [{k: 0 for k in names}]

    def cover(row) -> T.Set[T.Tuple[str, int, str, int]]:
        return {(a, row[a], b, row[b]) for i, a in enumerate(names) for b in names[i + 1:]}
    need -= cover(rows[0])
    while need:
        best, bestn = None, -1
        for _ in range(40):
            cand = {k: rng.randrange(len(OPTION_VALUES[k])) for k in names}
            a, va, b, vb = next(iter(need)) if _ == 0 else rng.choice(tuple(need)) if len(need) < 200 else next(iter(need))
            cand[a], cand[b] = va, vb
            n = len(cover(cand) & need)
            if n > bestn:
                best, bestn = cand, n
        rows.append(best)
        need -= cover(best)
    for _ in range(extra_random):
        rows.append({k: rng.randrange(len(OPTION_VALUES[k])) for k in names})
    out = []
    seen = set()
    for r in rows:
        key = tuple(r[k] for k in names)
        if key in seen:
            continue
        seen.add(key)
        out.append({k: OPTION_VALUES[k][r[k]] for k in names})
    return out


# --------------------------------------------------------------------------------------------- generator

IDS = ['a', 'b', 'x', 'foo', 'bar_1', 'srcs', 'cc', 'host_machine', 'meson', 'deps', 'conf', 'files', 'i', 'kv']
FUNCS = ['files', 'files', 'executable', 'library', 'dependency', 'message', 'project', 'get_option', 'f', 'files',
         'custom_target', 'subdir', 'run_command', 'import', 'is_variable', 'join_paths']
METHODS = ['get', 'found', 'split', 'format', 'to_string', 'contains', 'version', 'get_id', 'm', 'strip', 'keys']
KWNAMES = ['sources', 'dependencies', 'required', 'install', 'version', 'default_options', 'c_args', 'k', 'native']
WORDS = ['a', 'b', 'main.c', 'foo.c', 'src/a.c', 'src/b10.c', 'src/b9.c', 'lib', '--opt', 'value', '--', '-Dx=1',
         'a b', 'Z.c', 'z.c', 'sub/dir/f.c', 'a1', 'a01', 'a10', 'A2', '', '@0@', 'x@y', '#notcomment', '10', '9']
NONASCII = 'é€中'
ESCAPES = ['\\\\', "\\'", '\\n', '\\t', '\\x41', '\\x40', '\\101', '\\7', '\\u00e9', '\\U0001f600', '\\a', '\\q', '\\N',
           '\\x4', '\\8', '\\ ', '\\"']
COMMENT_BODIES = ['', ' c', ' comment', '# double', ' with \'quote\'', ' tab\there', ' trailing  ', '!', ' [x](y) {z}',
                  ' é', ' \\', ' a = 1', " '''", ' if', ' long ' + 'w' * 30]


# placeholder shapes over the whole identifier grammar of f-string substitution, and near misses
PLACEHOLDER_IDS = ['a', 'x', '_', '_a', '_name', 'a_', 'a1', 'A', 'Z9_', '_1', '__', 'abc_DEF_09', 'v']
PLACEHOLDER_SHAPES = ['@' + i + '@' for i in PLACEHOLDER_IDS] + [
    'lib-@_name@.so', '@a@@b@', '@a@b@', '@_x@@_y@', 'p@a@s', '@a@ and @_b@',      # substituted
    '@@', '@', '@1a@', '@9@', '@a b@', '@a-b@', '@é@', '@ a@', '@a @', 'a@b', '@a', 'a@', '@a.b@', '@-@', 'a@@b',  # not substituted
    '\\x40a\\x40', '@a\\x40', '\\100_a\\100',   # escapes: substituted in '...' (decoded), literal in '''...'''
]


# characters str.splitlines() breaks at although the lexer (and '\n'-splitting) does not: harvested from the
# running Python; '\r' is left out (a file read by `meson format` never holds one: universal newlines)
SPLITLINES_EXTRA = [chr(c) for c in range(0x3000) if chr(c) not in '\n\r' and len(('a' + chr(c) + 'b').splitlines()) > 1]
COMMENT_BODIES += [f' a{c}b' for c in SPLITLINES_EXTRA] + [f' x{c}# y' for c in SPLITLINES_EXTRA[:3]]
HOSTILE_WORDS = [f'p{c}q' for c in SPLITLINES_EXTRA]


def shape_family() -> T.List[str]:
    """small exhaustive family of call / method / array / dict shapes:
    0,1,2 arguments x positional/keyword x trailing comma x one line/multi-line x comment"""
    out: T.List[str] = []
    POS, KW, DENT = ["'a'", 'b'], ["k: 1", "l: 'v'"], ["'k': 1", "m: 'v'"]
    conts = {'call': ('f(', ')'), 'method': ('o.m(', ')'), 'nested': ('g(f(', '))'), 'assign-call': ('x = f(', ')'),
             'array': ('x = [', ']'), 'dict': ('x = {', '}')}
    for cont, (op, cl) in conts.items():
        for n in (0, 1, 2):
            if cont == 'array':
                kindsets = [['pos'] * n]
            elif cont == 'dict':
                kindsets = [['ent'] * n]
            else:
                kindsets = [[]] if n == 0 else ([['pos'], ['kw']] if n == 1 else [['pos', 'pos'], ['pos', 'kw'], ['kw', 'kw']])
            for kinds in kindsets:
                items = [{'pos': POS, 'kw': KW, 'ent': DENT}[k][i] for i, k in enumerate(kinds)]
                for trailing in ((False, True) if n else (False,)):
                    for multi in (False, True):
                        for comment in (False, True):
                            if not multi:
                                t = op + ', '.join(items) + (',' if trailing else '') + cl + ('  # c' if comment else '') + '\n'
                            else:
                                t = op + '\n'
                                if not items and comment:
                                    t += '  # c\n'
                                for i, it in enumerate(items):
                                    last = i == len(items) - 1
                                    t += '  ' + it + (',' if (not last or trailing) else '') + (' # c' if comment and i == 0 else '') + '\n'
                                t += cl + '\n'
                            out.append(t)
    return out


def one_factor_configs() -> T.List[T.Dict[str, T.Any]]:
    """the default configuration and every configuration that differs from it in exactly one field"""
    out = [dict(DEFAULT_CFG)]
    for k, vals in OPTION_VALUES.items():
        for v in vals[1:]:
            out.append(dict(DEFAULT_CFG, **{k: v}))
    return out


# ---- literal simplification x layout option, on minimal shapes -------------------------------------------
# Every rewrite of a literal the formatter performs (files([...]) flattening, sort_files, triple-quoted / f-string
# simplification, `--option value` grouping) is decided in one pass and read back by another (the multi-line
# detector, the trailing-comma rule, the line-length splitter).  The triggers are harvested from the live source
# and crossed with minimal argument lists (0/1/2 elements, trailing comma, one line / one per line, comment),
# the nesting contexts the passes distinguish, and every FormatterConfig field at its non-default values.

def harvest_rewrite_triggers() -> T.Dict[str, T.List[str]]:
    """{'functions': names compared with `func_name.value` in the formatter passes,
        'prefixes': string prefixes tested with startswith() by ArgumentFormatter (group_arg_value),
        'keep_triple': characters that keep a triple-quoted string triple-quoted (can_be_plain_string)}"""
    import ast as pyast
    import inspect
    import textwrap
    mformat, _, _ = impl()
    funcs: T.List[str] = []
    prefixes: T.List[str] = []
    keep: T.List[str] = []
    for cls in (mformat.TrimWhitespaces, mformat.ArgumentFormatter, mformat.MultilineArgumentDetector, mformat.ComputeLineLengths):
        try:
            tree = pyast.parse(textwrap.dedent(inspect.getsource(cls)))
        except Exception:
            continue
        for n in pyast.walk(tree):
            if isinstance(n, pyast.Compare) and pyast.unparse(n.left).endswith('func_name.value'):
                for c in n.comparators:
                    for k in pyast.walk(c):
                        if isinstance(k, pyast.Constant) and isinstance(k.value, str) and k.value not in funcs:
                            funcs.append(k.value)
            if isinstance(n, pyast.Call) and isinstance(n.func, pyast.Attribute) and n.func.attr == 'startswith':
                for a in n.args:
                    if isinstance(a, pyast.Constant) and isinstance(a.value, str) and a.value.strip() and a.value not in prefixes:
                        prefixes.append(a.value)
    try:
        tree = pyast.parse(textwrap.dedent(inspect.getsource(mformat.can_be_plain_string)))
        for n in pyast.walk(tree):
            if isinstance(n, pyast.List):
                keep += [e.value for e in n.elts if isinstance(e, pyast.Constant) and isinstance(e.value, str)]
    except Exception:
        pass
    return {'functions': funcs, 'prefixes': [p for p in prefixes if p != '#' and p != '\\'], 'keep_triple': keep}


def simp_family(deep: bool) -> T.List[str]:
    trig = harvest_rewrite_triggers()
    names = trig['functions'] or ['files']
    pre = (trig['prefixes'] or ['--'])[0]
    # elements: plain, simplifiable triple-quoted, f-string losing its f, triple-quoted that stays (forces a
    # multi-line layout), grouping trigger, identifier
    stay = "'''it's'''" if "'" in trig['keep_triple'] or not trig['keep_triple'] else "'''a\nb'''"
    one = ["'a'", "'''b'''", "f'c'", stay, f"'{pre}o'", 'x']
    two = [("'b'", "'a'"), (f"'{pre}o'", "'v'"), ("'a10'", "'a9'"), ("'a'", 'x'), ("'main.c'", "'7zip.c'")] + ([("'''b'''", "'a'")] if deep else [])
    lists: T.List[T.List[str]] = [[]] + [[e] for e in one] + [list(p) for p in two]

    def render_list(items: T.List[str], trailing: bool, multi: bool, comment: bool) -> str:
        if not items:
            return ('\n' if multi else '') + ('# c\n' if comment else '')
        if not multi:
            return ', '.join(items) + (',' if trailing else '') + (' # c\n' if comment else '')
        t = '\n'
        for i, it in enumerate(items):
            last = i == len(items) - 1
            t += '  ' + it + (',' if (not last or trailing) else '') + (' # c' if comment and i == 0 else '') + '\n'
        return t
    bodies: T.List[str] = []
    for items in lists:
        for trailing in ((False, True) if items else (False,)):
            for multi in (False, True):
                for comment in (False, True):
                    if comment and trailing and not deep:
                        continue
                    bodies.append(render_list(items, trailing, multi, comment))
    wrappers: T.List[T.Callable[[str], str]] = []
    for nm in names:
        wrappers += [lambda b, nm=nm: f'{nm}({b})', lambda b, nm=nm: f'{nm}([{b}])', lambda b, nm=nm: f'{nm}([[{b}]])',
                     lambda b, nm=nm: f'{nm}([{b}],)', lambda b, nm=nm: f'{nm}([[{b}],])', lambda b, nm=nm: f'{nm}([{b}], k: 1)']
        if deep:
            wrappers += [lambda b, nm=nm: f'o.{nm}([{b}])']
    wrappers += [lambda b: f'f({b})', lambda b: f'f([{b}])']
    contexts = ['{}', 'g(h({}), y)', 'x = [{}]']
    if deep:
        contexts += ['x = {}', 'g({})', "x = {{'k': {}}}", 'o.m({})', 'g(k: {})']
    out: T.List[str] = []
    for b in bodies:
        for w in wrappers:
            s = w(b)
            for c in contexts:
                out.append(c.format(s) + '\n')
    return list(dict.fromkeys(out))


def bool_pair_configs() -> T.List[T.Dict[str, T.Any]]:
    """every pair of boolean fields of the live FormatterConfig at their non-default values, and every boolean
    field with every small max_line_length"""
    bools = [k for k, v in OPTION_VALUES.items() if isinstance(v[0], bool) and k != 'use_editor_config']
    out = []
    for a, b in itertools.combinations(bools, 2):
        out.append(dict(DEFAULT_CFG, **{a: OPTION_VALUES[a][1], b: OPTION_VALUES[b][1]}))
    for a in bools:
        for m in OPTION_VALUES.get('max_line_length', [])[1:]:
            out.append(dict(DEFAULT_CFG, **{a: OPTION_VALUES[a][1], 'max_line_length': m}))
    return out


class Gen:
    """grammar-based program generator; emits tokens, `render` decorates with legal trivia"""

    NL = ('NL',)   # statement separator (depth 0)

    def __init__(self, rng: random.Random, size: int = 3, trivia: float = 0.35, hostile_strings: float = 0.3):
        self.rng = rng
        self.size = size
        self.trivia = trivia
        self.hostile = hostile_strings
        self.in_ternary = False
        self.in_loop = 0

    # ---- strings
    def plain_body(self) -> str:
        r = self.rng
        if r.random() > self.hostile:
            return r.choice(WORDS)
        n = r.randint(0, 6)
        s = ''
        for _ in range(n):
            k = r.random()
            if k < 0.4:
                s += r.choice(WORDS)
            elif k < 0.7:
                s += r.choice(ESCAPES)
            elif k < 0.8:
                s += r.choice(NONASCII)
            elif k < 0.86:
                s += r.choice(['@', '#', ' ', '"', '@foo@', '@a@', '/', '\t'])
            elif k < 0.9:
                s += r.choice(HOSTILE_WORDS)
            else:
                s += r.choice(['\\\\', "\\'"])
        return s

    def multi_body(self) -> str:
        r = self.rng
        n = r.randint(0, 5)
        s = ''
        for _ in range(n):
            k = r.random()
            if k < 0.35:
                s += r.choice(WORDS)
            elif k < 0.5:
                s += '\n' + r.choice(['', '  ', '\t'])
            elif k < 0.65:
                s += r.choice(['\\', '\\n', '\\\\', '\\x41', '\\x40a\\x40', "\\'", '\\t'])
            elif k < 0.75:
                s += r.choice(["'", "''", "it's"]) + r.choice(['x', ' ', '.'])
            elif k < 0.8:
                s += r.choice(['@', '@foo@', '#', ' # not a comment', '"'])
            elif k < 0.85:
                s += r.choice(HOSTILE_WORDS)
            else:
                s += r.choice(NONASCII + ' ')
        if s.endswith("'") or "'''" in s:
            s = s.replace("'''", "''x'") + 'x'
        return s

    def with_placeholders(self, body: str) -> str:
        """f-string bodies carry placeholders of every shape (and near misses) at random positions"""
        r = self.rng
        if r.random() < 0.6:
            for _ in range(r.choice([1, 1, 2])):
                i = r.randint(0, len(body))
                while i > 0 and body[i - 1] == '\\':   # do not split an escape sequence
                    i -= 1
                body = body[:i] + r.choice(PLACEHOLDER_SHAPES) + body[i:]
        return body

    def string(self) -> str:
        r = self.rng
        k = r.random()
        if k < 0.6:
            return "'" + self.plain_body() + "'"
        if k < 0.75:
            return "'''" + self.multi_body() + "'''"
        if k < 0.9:
            return "f'" + self.with_placeholders(self.plain_body()) + "'"
        return "f'''" + self.with_placeholders(self.multi_body()) + "'''"

    def number(self) -> str:
        return self.rng.choice(['0', '1', '2', '42', '0x1F', '0o17', '0b101', '0XaB', '123456789012345678901234567890', '10'])

    # ---- expressions (token lists)
    def atom(self, d: int) -> T.List[str]:
        r = self.rng
        k = r.random()
        if k < 0.3:
            return [r.choice(IDS)]
        if k < 0.55:
            return [self.string()]
        if k < 0.65:
            return [self.number()]
        if k < 0.7:
            return [r.choice(['true', 'false'])]
        if d <= 0:
            return [r.choice(IDS)]
        if k < 0.78:
            return self.array(d - 1)
        if k < 0.84:
            return self.dict_(d - 1)
        if k < 0.92:
            return self.call(d - 1)
        return ['('] + self.expr(d - 1) + [')']

    def arglist(self, d: int, allow_kw: bool, maxn: int = 5, strings: bool = False) -> T.List[str]:
        r = self.rng
        n = r.choice([0, 1, 1, 2, 2, 3, 3, maxn, r.randint(0, maxn * 2)])
        toks: T.List[str] = []
        nkw = r.randint(0, n) if allow_kw and r.random() < 0.6 else 0
        for i in range(n):
            if i:
                toks.append(',')
            if i >= n - nkw:
                toks += [r.choice(KWNAMES), ':'] + self.expr(d)
            elif strings and r.random() < 0.85:
                toks.append("'" + r.choice(WORDS) + "'" if r.random() < 0.8 else self.string())
            else:
                toks += self.expr(d)
        if n and r.random() < 0.35:
            toks.append(',')
        return toks

    def array(self, d: int) -> T.List[str]:
        return ['['] + self.arglist(d, False, strings=self.rng.random() < 0.5) + [']']

    def dict_(self, d: int) -> T.List[str]:
        r = self.rng
        n = r.choice([0, 1, 2, 3])
        toks = ['{']
        for i in range(n):
            if i:
                toks.append(',')
            toks += ([self.string()] if r.random() < 0.8 else self.expr(0)) + [':'] + self.expr(d)
        if n and r.random() < 0.35:
            toks.append(',')
        return toks + ['}']

    def call(self, d: int) -> T.List[str]:
        r = self.rng
        name = r.choice(FUNCS)
        if name == 'files':
            k = r.random()
            if k < 0.35:
                inner = self.array_of_strings(d)
            elif k < 0.45:
                inner = ['['] + self.array_of_strings(d) + [']']
            else:
                inner = self.arglist(d, r.random() < 0.1, maxn=6, strings=True)
            return ['files', '('] + inner + [')']
        return [name, '('] + self.arglist(d, True, strings=r.random() < 0.3) + [')']

    def array_of_strings(self, d: int) -> T.List[str]:
        return ['['] + self.arglist(d, False, maxn=6, strings=True) + [']']

    def postfix(self, d: int) -> T.List[str]:
        r = self.rng
        toks = self.atom(d)
        if toks[0][0] in '0123456789' and len(toks) == 1:
            if r.random() < 0.1:
                toks += ['.', 'to_string', '(', ')']
            return toks
        while r.random() < 0.25 and d > 0:
            if r.random() < 0.75:
                toks += ['.', r.choice(METHODS), '('] + self.arglist(d - 1, r.random() < 0.3, maxn=3) + [')']
            else:
                toks += ['['] + self.expr(d - 1) + [']']
        return toks

    def unary(self, d: int) -> T.List[str]:
        r = self.rng
        k = r.random()
        if k < 0.08:
            return ['not'] + self.postfix(d)
        if k < 0.14:
            return ['-'] + self.postfix(d)
        return self.postfix(d)

    def binary(self, d: int, level: int) -> T.List[str]:
        r = self.rng
        ops = [['or'], ['and'], ['==', '!=', '<', '<=', '>', '>=', 'in', 'NOTIN'], ['+', '-'], ['*', '/', '%']]
        if level >= len(ops):
            return self.unary(d)
        toks = self.binary(d, level + 1)
        if level == 2:
            if r.random() < 0.15:
                toks += [r.choice(ops[2])] + self.binary(d, level + 1)
            return toks
        while r.random() < (0.12 if d > 0 else 0.04):
            toks += [r.choice(ops[level])] + self.binary(d, level + 1)
        return toks

    def expr(self, d: int) -> T.List[str]:
        r = self.rng
        if not self.in_ternary and d > 0 and r.random() < 0.06:
            c = self.binary(d - 1, 0)
            self.in_ternary = True
            a = self.expr(d - 1)
            b = self.expr(d - 1)
            self.in_ternary = False
            return c + ['?'] + a + [':'] + b
        return self.binary(d, 0)

    # ---- statements
    def statement(self, d: int, blocks: int) -> T.List[T.Any]:
        r = self.rng
        k = r.random()
        NL = [Gen.NL]
        if k < 0.35:
            return [r.choice(IDS), r.choice(['=', '=', '+='])] + self.expr(d) + NL
        if k < 0.6:
            return self.call(d) + NL
        if k < 0.7:
            return self.postfix(max(d, 1)) + NL
        if k < 0.74 and self.in_loop:
            return [r.choice(['continue', 'break'])] + NL
        if blocks > 0 and k < 0.88:
            toks: T.List[T.Any] = ['if'] + self.expr(d) + NL + self.block(d, blocks - 1)
            while r.random() < 0.3:
                toks += ['elif'] + self.expr(d) + NL + self.block(d, blocks - 1)
            if r.random() < 0.5:
                toks += ['else'] + NL + self.block(d, blocks - 1)
            return toks + ['endif'] + NL
        if blocks > 0:
            vs = [r.choice(IDS)] if r.random() < 0.6 else [r.choice(IDS), ',', r.choice(IDS)]
            self.in_loop += 1
            body = self.block(d, blocks - 1)
            self.in_loop -= 1
            return ['foreach'] + vs + [':'] + self.expr(d) + NL + body + ['endforeach'] + NL
        return self.expr(d) + NL

    def block(self, d: int, blocks: int) -> T.List[T.Any]:
        toks: T.List[T.Any] = []
        for _ in range(self.rng.choice([0, 1, 1, 2, 3])):
            toks += self.statement(d, blocks)
        return toks

    def program(self) -> T.List[T.Any]:
        toks: T.List[T.Any] = []
        for _ in range(self.rng.randint(0, self.size)):
            toks += self.statement(self.rng.choice([0, 1, 2, 2, 3]), 2)
        return toks

    # ---- trivia
    def comment(self) -> str:
        return '#' + self.rng.choice(COMMENT_BODIES)

    def blanks(self) -> str:
        return self.rng.choice(['', ' ', ' ', '  ', '\t', '   '])

    def gap(self, depth: int, must: bool) -> str:
        r = self.rng
        if r.random() > self.trivia:
            return ' ' if must or r.random() < 0.7 else ''
        k = r.random()
        if depth > 0:
            if k < 0.3:
                return '\n' + self.blanks() * r.randint(0, 3)
            if k < 0.55:
                return self.blanks() + self.comment() + '\n' + self.blanks()
            if k < 0.65:
                return '\n' + self.blanks() + self.comment() + '\n' + self.comment() + '\n\n' + self.blanks()
            if k < 0.72:
                return ' \\\n' + self.blanks()
            if k < 0.76:
                return ' \\ ' + self.comment() + '\n' + self.blanks()
        else:
            if k < 0.12:
                return ' \\\n' + self.blanks()
            if k < 0.16:
                return '\\' + self.blanks() + self.comment() + '\n' + self.blanks()
        s = self.blanks()
        if must and not s:
            s = ' '
        return s

    def newline(self, indent: str) -> str:
        r = self.rng
        s = ''
        if r.random() < self.trivia:
            s += self.blanks()
        if r.random() < self.trivia * 0.6:
            s += self.blanks() + self.comment()
        s += '\n'
        while r.random() < self.trivia * 0.4:
            k = r.random()
            if k < 0.4:
                s += self.blanks() + '\n'
            else:
                s += r.choice(['', indent, '  ', '\t']) + self.comment() + '\n'
        return s

    def render(self, toks: T.List[T.Any]) -> str:
        r = self.rng
        out: T.List[str] = []
        depth = 0
        level = 0
        prev: T.Optional[str] = None
        style_indent = r.choice(['', '  ', '    ', '\t', ' '])
        if r.random() < self.trivia * 0.5:
            out.append(r.choice(['\n', '  \n', self.comment() + '\n', '\n\n' + self.comment() + '\n', ' ' + self.comment() + '\n\n']))
        line_start = True
        for i, t in enumerate(toks):
            if t is Gen.NL or t == Gen.NL:
                last = all(x == Gen.NL for x in toks[i + 1:])
                if last and r.random() < 0.15:
                    out.append(r.choice(['', ' ', '  ' + self.comment(), ' ' + self.comment()]))
                else:
                    out.append(self.newline(style_indent * level))
                prev = None
                line_start = True
                continue
            if t == 'NOTIN':
                t = 'not' + (self.gap(depth, True) if depth > 0 else r.choice([' ', '  ', '\t'])) + 'in'
            if line_start:
                if t in ('endif', 'endforeach', 'elif', 'else'):
                    level = max(0, level - 1)
                out.append(style_indent * level if r.random() < 0.8 else self.blanks())
                if t in ('if', 'foreach', 'elif', 'else'):
                    level += 1
                line_start = False
            elif prev is not None:
                must = (prev[-1].isalnum() or prev[-1] == '_') and (t[0].isalnum() or t[0] == '_')
                if prev in ('.',) or t in ('.',):
                    g = '' if r.random() < 0.9 or depth == 0 else self.gap(depth, False)
                elif t in ('(', '[') and prev[-1:].isalnum():
                    g = '' if r.random() < 0.93 else self.blanks()
                else:
                    g = self.gap(depth, must)
                out.append(g)
            out.append(t)
            if t in ('(', '[', '{'):
                depth += 1
            elif t in (')', ']', '}'):
                depth -= 1
            prev = t
        return ''.join(out)


def gen_program(rng: random.Random, size: int, trivia: float) -> str:
    g = Gen(rng, size=size, trivia=trivia, hostile_strings=rng.choice([0.0, 0.3, 0.8]))
    return g.render(g.program())


# --------------------------------------------------------------------------------------------- corpus + mutation

def corpus_texts() -> T.List[T.Tuple[str, str]]:
    out = []
    base = os.path.join(common.REPO, 'test cases', 'format')
    for root, _d, files in sorted(os.walk(base)):
        for f in sorted(files):
            if f.endswith(('.meson', 'meson.build', 'meson.options')):
                p = os.path.join(root, f)
                try:
                    out.append((os.path.relpath(p, common.REPO), open(p, encoding='utf-8').read()))
                except (OSError, UnicodeDecodeError):
                    pass
    base = os.path.join(common.REPO, 'test cases', 'common')
    if os.path.isdir(base):
        for d in sorted(os.listdir(base)):
            p = os.path.join(base, d, 'meson.build')
            if os.path.isfile(p):
                try:
                    out.append((os.path.relpath(p, common.REPO), open(p, encoding='utf-8').read()))
                except (OSError, UnicodeDecodeError):
                    pass
    own = os.path.join(common.VERIF, 'corpus', 'C16')
    if os.path.isdir(own):
        for f in sorted(os.listdir(own)):
            out.append(('corpus/C16/' + f, open(os.path.join(own, f), encoding='utf-8').read()))
    return out


def mutate(rng: random.Random, text: str) -> str:
    lines = text.split('\n')
    for _ in range(rng.randint(1, 4)):
        if not lines:
            break
        k = rng.random()
        i = rng.randrange(len(lines))
        if k < 0.2:
            lines[i] = lines[i] + rng.choice(['  # c', ' #x', '   ', ' \\'])
        elif k < 0.3:
            del lines[i]
        elif k < 0.4:
            lines.insert(i, rng.choice(['', '# inserted', '   ', '\t# t']))
        elif k < 0.55:
            lines[i] = lines[i].replace(', ', rng.choice([',', ' , ', ',\n ', ', # c\n']), rng.randint(1, 3))
        elif k < 0.65:
            lines[i] = lines[i].replace('(', rng.choice(['(\n', '( ', '( # c\n']), 1)
        elif k < 0.75:
            lines[i] = lines[i].replace(')', rng.choice([',)', '\n)', ' )', ', # t\n)']), 1)
        elif k < 0.85:
            lines[i] = lines[i].replace(' = ', rng.choice(['=', '  =  ', ' = (', ' \\\n = ']), 1)
        elif k < 0.92:
            lines[i] = lines[i].replace("'", "'''", 2) if lines[i].count("'") == 2 else lines[i]
        else:
            lines[i] = lines[i].lstrip() if rng.random() < 0.5 else '      ' + lines[i]
    return '\n'.join(lines)


# --------------------------------------------------------------------------------------------- abstract argument lists
# Tie of the Lean layout model (MesonModel/Fmt/Layout.lean) to the real formatter: a statement that is a
# call / method call on an identifier / array / dict of such and of leaves is abstracted (`abs_node`) to the
# model's `Node`; the model's `fmt` of the abstracted INPUT must equal the abstraction of the real OUTPUT,
# including which lists are laid out one item per line.

CONT_IDX = {'func': 0, 'files': 1, 'method': 2, 'array': 3, 'dict': 4}
LAY_CFG_FIELDS = ['kwargs_force_multiline', 'no_single_comma_function', 'sort_files', 'simplify_string_literals']


class NotAbstract(Exception):
    pass


def _ws(n) -> str:
    w = getattr(n, 'whitespaces', None)
    return w.value if w is not None else ''


def _chk(ws: str) -> str:
    if '\\' in ws:
        raise NotAbstract('continuation')
    return ws


def string_ranks(tree) -> T.Dict[str, int]:
    """rank of every string literal's raw value in `pathname_sort_key` order relative to the empty string, whose
    key `sort_arguments` gives to everything that is not a string (equal keys: equal rank)"""
    from mesonbuild.mesonlib import pathname_sort_key
    vals: T.Set[str] = {''}

    def walk(n) -> None:
        if isinstance(n, tuple):
            for k in (n[1] if n[0] == 'Kw' else []):
                walk(k)
            return
        if type(n).__name__ == 'StringNode':
            vals.add(n.raw_value)
        for k in node_parts(n)[3]:
            walk(k)
    walk(tree)
    keys = sorted({pathname_sort_key(v) for v in vals})
    zero = keys.index(pathname_sort_key(''))
    return {v: keys.index(pathname_sort_key(v)) - zero for v in vals}


def abs_node(n, ranks: T.Dict[str, int], top: bool = False) -> T.List[str]:
    """tokens of the model's Node in prefix notation; the 4th field of a list token is the observed layout
    (newline after the opening bracket) — dropped from the request, compared in the answer"""
    mformat, _, _ = impl()
    t = type(n).__name__
    if t in ('IdNode', 'NumberNode', 'BooleanNode'):
        return ['L0']
    if t == 'StringNode':
        k = ranks.get(n.raw_value, 0)
        if n.is_multiline:
            return [f'M{k}:{int(bool(mformat.can_be_plain_string(n)))}']
        return [f'L{k}']
    if t == 'ArrayNode':
        cont, op, cl, args = 'array', n.lbracket, n.rbracket, n.args
    elif t == 'DictNode':
        cont, op, cl, args = 'dict', n.lcurl, n.rcurl, n.args
    elif t == 'FunctionNode':
        cont, op, cl, args = ('files' if n.func_name.value == 'files' else 'func'), n.lpar, n.rpar, n.args
        if _ws(n.func_name).strip():
            raise NotAbstract('trivia after the function name')
    elif t == 'MethodNode':
        if type(n.source_object).__name__ != 'IdNode':
            raise NotAbstract('method on ' + type(n.source_object).__name__)
        cont, op, cl, args = 'method', n.lpar, n.rpar, n.args
        if (_ws(n.source_object) + _ws(n.dot) + _ws(n.name)).strip():
            raise NotAbstract('trivia inside the method reference')
    else:
        raise NotAbstract(t)
    if not top and '#' in _chk(_ws(cl)) + _chk(_ws(n)):
        raise NotAbstract('comment after a closing bracket')
    co = '#' in _chk(_ws(op))
    ci = '#' in _chk(_ws(args)) or any('#' in _chk(_ws(c)) for c in list(args.commas) + list(args.colons))
    items: T.List[T.List[str]] = []
    for a in args.arguments:
        toks = abs_node(a, ranks)
        if toks[0][0] in 'LM' and '#' in _chk(_ws(a)):
            ci = True
        items.append(toks)
    for k, v in args.kwargs.items():
        if type(k).__name__ not in ('IdNode', 'StringNode') or (type(k).__name__ == 'StringNode' and k.is_multiline):
            raise NotAbstract('key ' + type(k).__name__)
        if '#' in _chk(_ws(k)):
            ci = True
        toks = abs_node(v, ranks)
        if toks[0][0] in 'LM' and '#' in _chk(_ws(v)):
            ci = True
        kk = ranks.get(k.raw_value, 0) if type(k).__name__ == 'StringNode' else 0
        items.append([f'K{kk}'] + toks)
    nitems = len(items)
    tr = nitems > 0 and len(args.commas) == nitems
    ml = '-' if not nitems else str(int('\n' in _ws(op)))
    out = [f'C{CONT_IDX[cont]}:{nitems}:{int(tr)}{int(ci)}{int(co)}:{ml}']
    for toks in items:
        out += toks
    return out


def abs_statements(tree) -> T.List[T.Optional[T.List[str]]]:
    ranks = string_ranks(tree)
    out: T.List[T.Optional[T.List[str]]] = []
    for st in tree.lines:
        n = st
        if type(n).__name__ == 'AssignmentNode':
            n = n.value
        try:
            toks = abs_node(n, ranks, top=True)
            out.append(toks if toks[0][0] == 'C' else None)
        except Exception:   # NotAbstract, or a shape of the tree this adapter does not know
            out.append(None)
    return out


def lay_request(toks: T.List[str]) -> str:
    return ' '.join(t.rsplit(':', 1)[0] if t[0] == 'C' else t for t in toks)


def lay_cases(text: str, tin, tout, cfg: T.Dict[str, T.Any]) -> T.List[T.Tuple[str, str, str]]:
    """(configuration bits, abstracted input statement, abstracted output statement with its observed layout) for
    every statement inside the model's domain; nothing when a line could reach max_line_length (a statement
    printed on one line is no longer than its source without line breaks plus one blank per line joined)"""
    if len(tin.lines) != len(tout.lines):
        return []
    bound = sum(len(l.strip()) + 2 for l in text.split('\n')) + 8
    if bound > cfg.get('max_line_length', 80):
        return []
    a_in, a_out = abs_statements(tin), abs_statements(tout)
    bits = ''.join(str(int(bool(cfg[f]))) for f in LAY_CFG_FIELDS)
    return [(bits, lay_request(i), ' '.join(o)) for i, o in zip(a_in, a_out) if i is not None and o is not None]


def lay_program(rng: random.Random) -> str:
    """random statements of the layout model's domain with legal trivia: calls (files among them), method calls,
    arrays, dicts; 0-3 items; trailing commas; line breaks; comments after the opening bracket or after a leaf"""
    def leaf() -> str:
        return rng.choice(["'a'", "'b'", "'a10'", "'a9'", 'x', '1', "'''c'''", "'''it's'''", "f'd'", "'--o'", "'v'", 'true', "'7zip.c'",
                           "'3rd/z.c'", "'src/m.c'", "'A1'"])

    def gap() -> str:
        return rng.choice(['', ' ', ' ', '\n', '\n  ', '  '])

    def node(d: int) -> str:
        if d <= 0 or rng.random() < 0.35:
            return leaf()
        k = rng.random()
        n = rng.choice([0, 1, 1, 1, 2, 2, 3])
        if k < 0.3:
            op, cl, kind = 'files(', ')', 'call'
        elif k < 0.5:
            op, cl, kind = rng.choice(['f(', 'g(', 'executable(']), ')', 'call'
        elif k < 0.6:
            op, cl, kind = 'o.' + rng.choice(['m', 'files']) + '(', ')', 'call'
        elif k < 0.9:
            op, cl, kind = '[', ']', 'array'
        else:
            op, cl, kind = '{', '}', 'dict'
        t = op
        if rng.random() < 0.08:
            t += ' # co\n'
        else:
            t += gap()
        nkw = rng.randint(0, n) if kind == 'call' and rng.random() < 0.3 else (n if kind == 'dict' else 0)
        for i in range(n):
            v = node(d - 1)
            if i >= n - nkw:
                t += f"'{rng.choice('klm')}{i}'" if kind == 'dict' else f"{rng.choice(['k', 'l', 'sources'])}{i}"
                t += rng.choice([':', ' : ', ': ']) + v
            else:
                t += v
            is_leaf = v[-1] not in ')]}'
            last = i == n - 1
            if is_leaf and rng.random() < 0.06:
                t += ' # ci\n'
            if (not last) or rng.random() < 0.4:
                t += gap() + ','
                t += ' # cc\n' if rng.random() < 0.05 else gap()
            else:
                t += gap()
        return t + cl
    out = []
    for _ in range(rng.randint(1, 3)):
        st = node(rng.choice([1, 2, 2, 3, 3]))
        while st[-1] not in ')]}':
            st = node(2)
        if rng.random() < 0.3:
            st = 'x = ' + st
        out.append(st + rng.choice(['', '  # end']) + '\n')
    return ''.join(out)


# --------------------------------------------------------------------------------------------- running one pair

_FMT_CACHE: T.Dict[str, T.Any] = {}


def formatter_for(cfgdir: str, cfgid: int):
    mformat, _, _ = impl()
    key = f'{cfgdir}/{cfgid}'
    f = _FMT_CACHE.get(key)
    if f is None:
        f = mformat.Formatter(Path(cfgdir) / f'cfg{cfgid}.ini', False, False)
        _FMT_CACHE[key] = f
    return f


def ws_comments(w) -> T.List[str]:
    if w is None:
        return []
    return [m.group(0).rstrip() for m in re.finditer(r'#.*', w.value)]


def features(text: str, tree) -> T.Tuple[T.Set[str], T.List[str]]:
    """root-cause features of an input, used for stable finding keys; and the comments attached to the
    brackets of an array that `files([...])` flattening discards"""
    feats: T.Set[str] = set()
    flat_comments: T.List[str] = []
    _, mparser, _ = impl()

    def walk(n) -> None:
        if isinstance(n, tuple):
            if n[0] == 'Kw':
                for k in n[1]:
                    walk(k)
            return
        kind, text_, flags, kids = node_parts(n)
        if kind == 'String' and n.is_multiline:
            v = n.value
            if '\\' in v and '\n' not in v and "'" not in v:
                feats.add('ml-backslash')
                if re.search(r"(^|[^\\])(\\\\)*\\$", v):
                    feats.add('ml-trailing-backslash')
        if kind == 'Func' and n.func_name.value == 'files':
            feats.add('files')
            a = n.args.arguments
            while len(a) == 1 and type(a[0]).__name__ == 'ArrayNode':
                feats.add('files-array')
                for w in (a[0].lbracket.whitespaces, a[0].rbracket.whitespaces, a[0].whitespaces, a[0].args.whitespaces):
                    flat_comments.extend(ws_comments(w))
                if a[0].args.kwargs:
                    break
                a = a[0].args.arguments
        for k in kids:
            walk(k)
    walk(tree)
    return feats, flat_comments


def alt_formatter(cfg: T.Dict[str, T.Any], cfgdir: str, reset: T.Iterable[str], override: T.Optional[T.Dict[str, T.Any]] = None):
    c2 = dict(cfg)
    c2.update(override or {})
    for opt in reset:
        c2[opt] = DEFAULT_CFG[opt] if opt != 'simplify_string_literals' else False
    slot = 9000 + os.getpid() % 500
    write_cfgs(cfgdir, [c2], slot)
    _FMT_CACHE.pop(f'{cfgdir}/{slot}', None)
    return formatter_for(cfgdir, slot)


def is_subsequence(a: T.List[str], b: T.List[str]) -> bool:
    it = iter(b)
    return all(x in it for x in a)


def multiset_sub(a: T.List[str], b: T.List[str]) -> T.List[str]:
    b = list(b)
    out = []
    for x in a:
        if x in b:
            b.remove(x)
        else:
            out.append(x)
    return out


def is_degenerate(tree) -> bool:
    """the parser accepts a missing operand / argument / condition as an EmptyNode (`a or`, `()`, `x[]`,
    `{'k': }`, `a ? : b`): such programs cannot be evaluated and are outside the validated domain.
    (The EmptyNode standing for an absent `else` is the only regular one.)"""
    def walk(n, parent_kind: str, idx: int, nkids: int) -> bool:
        if isinstance(n, tuple):
            return n[0] == 'Kw' and any(walk(k, 'Kw', i, 3) for i, k in enumerate(n[1]))
        kind, _t, _f, kids = node_parts(n)
        if kind == 'Empty':
            return not (parent_kind == 'IfClause' and idx == nkids - 2)
        return any(walk(k, kind, i, len(kids)) for i, k in enumerate(kids))
    return walk(tree, '', 0, 0)


def effective_cfg(fm) -> T.Dict[str, T.Any]:
    """the merged configuration the formatter used for its last `format` call, as an option dict"""
    import dataclasses
    d = dataclasses.asdict(fm.current_config)
    out = {k: d.get(k, DEFAULT_CFG[k]) for k in OPTION_NAMES}
    if 'use_editor_config' in out:
        out['use_editor_config'] = False
    return out


def run_pair(text: str, cfgdir: str, cfgid: T.Any, cfg: T.Optional[T.Dict[str, T.Any]], want_ser: bool = True,
             fm: T.Any = None, path: T.Optional[Path] = None, want_lay: bool = False) -> T.Dict[str, T.Any]:
    """format `text`; evaluate the Python oracle; returns a result record (picklable).
    Violation keys name the root cause where a counterfactual re-run (one option switched off) or the
    location of the difference identifies it; everything else gets a generic key (never a known finding)."""
    mformat, mparser, _ = impl()
    from mesonbuild.mesonlib import MesonException
    P = path or Path('meson.build')
    res: T.Dict[str, T.Any] = {'text': text, 'cfgid': cfgid, 'status': 'ok', 'viol': []}
    try:
        tin = parse(text)
    except mparser.ParseException:
        res['status'] = 'input-unparseable'
        return res
    except Exception as e:  # parser internal errors are C02's subject
        res['status'] = 'input-parser-error:' + type(e).__name__
        return res
    if is_degenerate(tin):
        res['status'] = 'input-degenerate'
        return res
    if fm is None:
        try:
            fm = formatter_for(cfgdir, cfgid)
        except MesonException:
            res['status'] = 'config-rejected'   # an invalid configuration file is reported, not used
            return res
    try:
        out = fm.format(text, P)
        if cfg is None:
            cfg = effective_cfg(fm)
            res['eff_cfg'] = nondefault(cfg)
    except RecursionError:
        res['status'] = 'recursion'
        return res
    except Exception as e:
        res['status'] = 'format-raises'
        res['viol'].append(('format:raises:' + type(e).__name__, f'Formatter.format raised {type(e).__name__}: {e}'))
        return res
    res['out'] = out
    feats, flat_comments = features(text, tin)
    res['feats'] = sorted(feats)
    sort_on = bool(cfg['sort_files'])
    simp_on = bool(cfg['simplify_string_literals'])

    def without(opt: str) -> T.Optional[str]:
        try:
            return alt_formatter(cfg, cfgdir, [opt]).format(text, P)
        except Exception:
            return None

    # -- output parses
    try:
        tout = parse(out)
    except Exception as e:
        res['status'] = 'output-unparseable'
        key = 'output:unparseable'
        if simp_on and 'ml-backslash' in feats:
            o2 = without('simplify_string_literals')
            try:
                parse(o2 if o2 is not None else '(')
                key = 'simplify:unparseable-backslash'
            except Exception:
                pass
        res['viol'].append((key, f'formatted text does not parse ({type(e).__name__}): {out!r}'[:300]))
        return res
    if want_ser:
        res['ser_in'] = ser(tin)
        res['ser_out'] = ser(tout)
    if want_lay:
        try:
            res['lay'] = lay_cases(text, tin, tout, cfg)
        except Exception as e:   # a shape change of the implementation is an outcome, not a crash
            res['lay_error'] = type(e).__name__
    # -- same program
    sk_in = py_canon(py_skel(tin), sort_on)
    sk_out = py_canon(py_skel(tout), sort_on)
    res['skel_eq'] = sk_in == sk_out
    if not res['skel_eq']:
        path, a, b = first_diff(sk_in, sk_out)
        key = 'meaning:' + (re.sub(r'\d+', '', path).strip('/').split('/')[-1] or 'root')
        if simp_on and 'ml-backslash' in feats:
            o2 = without('simplify_string_literals')
            try:
                if o2 is not None and py_canon(py_skel(parse(o2)), sort_on) == sk_in:
                    key = 'simplify:multiline-backslash'
            except Exception:
                pass
        res['viol'].append((key, f'program changed at {path}: {a!r} -> {b!r}'[:300]))
    # -- same comments
    c_in, c_out = lex_comments(text), lex_comments(out)
    res['com_eq'] = c_in == c_out
    res['ncom'] = len(c_in)
    if c_in != c_out:
        key = 'comments:changed'
        lost = multiset_sub(c_in, c_out)
        if simp_on and 'ml-backslash' in feats:
            o2 = without('simplify_string_literals')
            if o2 is not None and lex_comments(o2) == c_in:
                key = 'simplify:multiline-backslash'   # the mis-simplified literal swallows following text
        if key.startswith('simplify:'):
            pass
        elif sorted(c_in) == sorted(c_out):
            key = 'comments:reordered'
            if sort_on:
                o2 = without('sort_files')
                if o2 is not None and lex_comments(o2) == c_in:
                    key = 'comments:reordered-by-sort-files'
        elif not multiset_sub(c_out, c_in):
            key = 'comments:lost'
            if not multiset_sub(lost, flat_comments) and (is_subsequence(c_out, c_in) or sort_on):
                key = 'comments:lost-on-files-flatten'
        res['viol'].append((key, f'comments {c_in!r} -> {c_out!r}'[:300]))
    # -- idempotence
    try:
        out2 = fm.format(out, P)
        res['idem'] = out2 == out
        if out2 != out:
            for key in classify_idem(text, out, out2, cfg, cfgdir, feats):
                res['viol'].append((key, f'format(format(x)) != format(x): {out!r} -> {out2!r}'[:400]))
    except Exception as e:
        res['idem'] = False
        key = 'idempotence:second-pass-raises'
        res['viol'].append((key, f'{type(e).__name__} formatting {out!r}'[:300]))
    return res


def sig_tokens(text: str) -> T.List[T.Tuple[str, T.Any]]:
    _, mparser, _ = impl()
    out = []
    for tok in mparser.Lexer(text).lex(''):
        if tok.tid in ('whitespace', 'eol'):
            continue
        out.append((tok.tid, tok.value.rstrip() if tok.tid == 'comment' else tok.value))
    return out


def region_features(out: str, out2: str, want_text: bool = False) -> T.Any:
    """features of the top-level statements of `out` that cover the lines where out and out2 differ
    (with want_text: the text of those statements)"""
    a, b = out.split('\n'), out2.split('\n')
    i = 0
    while i < min(len(a), len(b)) and a[i] == b[i]:
        i += 1
    j = 0
    while j < min(len(a), len(b)) - i and a[-1 - j] == b[-1 - j]:
        j += 1
    lo, hi = i + 1, max(i + 1, len(a) - j)
    feats: T.Set[str] = set()
    try:
        tree = parse(out)
    except Exception:
        return None if want_text else feats

    def min_line(n) -> int:
        if isinstance(n, tuple):
            return min([min_line(k) for k in n[1]] if n[0] == 'Kw' else [10 ** 9])
        return min([n.lineno] + [min_line(k) for k in node_parts(n)[3]])
    starts = [min_line(n) for n in tree.lines] + [len(a) + 1]
    sel = [n for k, n in enumerate(tree.lines) if starts[k] <= hi and starts[k + 1] - 1 >= lo]
    if want_text:
        ks = [k for k, n in enumerate(tree.lines) if starts[k] <= hi and starts[k + 1] - 1 >= lo]
        return ks, len(tree.lines)

    def walk(n) -> None:
        if isinstance(n, tuple):
            for k in (n[1] if n[0] == 'Kw' else []):
                walk(k)
            return
        t = type(n).__name__
        if t == 'ParenthesizedNode' and n.lpar.lineno != n.rpar.lineno:
            feats.add('multiline-paren')
        if t == 'FunctionNode' and n.func_name.value == 'files':
            args = n.args.arguments
            if len(args) == 1 and not n.args.kwargs and type(args[0]).__name__ == 'ArrayNode':
                feats.add('files-array')
        for k in node_parts(n)[3]:
            walk(k)
    for n in sel:
        walk(n)
    return feats


TRIVIA_BEFORE_COMMA = re.compile(r'(#[^\n]*|\\[ \t]*)\n[ \t\n]*,')
CAUSE_OPTIONS = ['no_single_comma_function', 'sort_files', 'simplify_string_literals']


def classify_idem(text: str, out: str, out2: str, cfg: T.Dict[str, T.Any], cfgdir: str, feats: T.Set[str] = frozenset()) -> T.List[str]:
    """stable keys for a second-pass difference: the option(s) whose reset to the default makes the
    formatter idempotent on this input (counterfactual re-run), else the construct that covers the differing
    lines (files([..]) still to be flattened, multi-line parentheses), else what differs"""
    P = Path('meson.build')
    base = text
    try:
        # reproduce on the input statements whose formatted form differs, alone, so that an unrelated unstable
        # statement elsewhere in the file cannot blur the counterfactual
        sel = region_features(out, out2, want_text=True)
        tin = parse(text)
        if sel and sel[0] and sel[1] == len(tin.lines) and len(sel[0]) < len(tin.lines):
            ks = sel[0]

            def min_line(n) -> int:
                if isinstance(n, tuple):
                    return min([min_line(k) for k in n[1]] if n[0] == 'Kw' else [10 ** 9])
                return min([n.lineno] + [min_line(k) for k in node_parts(n)[3]])
            lines = text.split('\n')
            starts = [min_line(n) for n in tin.lines] + [len(lines) + 1]
            reg = '\n'.join(lines[starts[ks[0]] - 1:starts[ks[-1] + 1] - 1]) + '\n'
            fm = alt_formatter(cfg, cfgdir, [])
            r1 = fm.format(reg, P)
            if fm.format(r1, P) != r1:
                base = reg
    except Exception:
        pass

    def idem_without(opts: T.List[str]) -> bool:
        try:
            f2 = alt_formatter(cfg, cfgdir, opts)
            o1 = f2.format(base, P)
            return f2.format(o1, P) == o1
        except Exception:
            return False
    # 1. structural: the differing statements contain parentheses broken over several lines (listed defect:
    #    closing brackets inside them are indented from stale whitespace).  Tested first because option
    #    counterfactuals change line lengths and can make such a case stable by accident.
    if 'multiline-paren' in region_features(out, out2):
        return ['idempotence:multiline-paren']
    # 2. counterfactual: the option(s) whose reset makes the formatter idempotent on the differing statements
    active = [o for o in CAUSE_OPTIONS if cfg[o] != (DEFAULT_CFG[o] if o != 'simplify_string_literals' else False)]
    for k in range(1, len(active) + 1):
        for opts in itertools.combinations(active, k):
            if idem_without(list(opts)):
                keys = ['idempotence:' + o for o in opts]
                if 'idempotence:no_single_comma_function' in keys:
                    sub = ''
                    if TRIVIA_BEFORE_COMMA.search(base):
                        # the removed comma of a single argument is preceded by a comment or a line continuation
                        sub = ':trivia-before-removed-comma'
                    else:
                        try:   # stable when no line is ever too long => the multi-line layout came from line splitting
                            f3 = alt_formatter(cfg, cfgdir, [], {'max_line_length': 100000})
                            o1 = f3.format(base, P)
                            if f3.format(o1, P) == o1:
                                sub = ':line-length-split'
                        except Exception:
                            pass
                    keys = [k_ + sub if k_.endswith('no_single_comma_function') else k_ for k_ in keys]
                return keys
    if re.search(r'[\[({][ \t]*\\[ \t]*(#.*)?\n', out):
        return ['idempotence:continuation-after-bracket']
    try:
        if sig_tokens(out) != sig_tokens(out2):
            what = 'tokens'
        elif [l.strip() for l in out.split('\n')] == [l.strip() for l in out2.split('\n')]:
            what = 'indent'
        else:
            what = 'linebreaks'
    except Exception:
        what = 'unlexable'
    return ['idempotence:other:' + what]


FILE_NEWLINES = ['\n', '\r\n', '\r']


def check_cli(text: str, cfgdir: str, cfgid: int, expect_out: str, eol: str,
              file_nl: str = '\n') -> T.List[T.Tuple[str, str]]:
    """`--check-only` / `--check-diff` exit status against "formatting would change the file", where the
    ground truth is taken from the tool itself: a copy of the file is formatted with `--inplace` and its bytes
    are compared with the original's.  The file is stored with line ending `file_nl`.
    Also: check modes do not touch the file; `--output` writes the Formatter.format result with the configured
    end_of_line."""
    mformat, _, _ = impl()
    viol: T.List[T.Tuple[str, str]] = []
    if '\r' in text:
        return viol
    d = os.path.join(cfgdir, f'w{os.getpid()}')   # one scratch directory per worker (removed with cfgdir)
    os.makedirs(d, exist_ok=True)
    src = os.path.join(d, 'meson.build')
    cpy = os.path.join(d, 'copy.build')
    stored = text.replace('\n', file_nl).encode('utf-8')
    for path in (src, cpy):
        with open(path, 'wb') as f:
            f.write(stored)
    cfgp = os.path.join(cfgdir, f'cfg{cfgid}.ini')
    p = argparse.ArgumentParser()
    mformat.add_arguments(p)
    tag = f'file newline {file_nl!r}, end_of_line={eol}'
    try:
        with contextlib.redirect_stdout(io.StringIO()):
            mformat.run(p.parse_args(['-i', '-c', cfgp, cpy]))
    except Exception as e:
        return [('cli:inplace:raises', f'--inplace raised {type(e).__name__} ({tag})')]
    would_change = open(cpy, 'rb').read() != stored
    for flag in ('-q', '-d'):
        buf = io.StringIO()
        try:
            with contextlib.redirect_stdout(buf):
                rc = mformat.run(p.parse_args([flag, '-c', cfgp, src]))
        except Exception as e:
            viol.append((f'cli:check{flag}:raises', f'{flag} raised {type(e).__name__} ({tag})'))
            continue
        if (rc != 0) != would_change:
            viol.append((f'cli:check{flag}:status', f'{flag} returned {rc} but --inplace would {"" if would_change else "not "}change the file ({tag})'))
        if open(src, 'rb').read() != stored:
            viol.append((f'cli:check{flag}:modifies-file', 'check mode modified the file'))
    nl = {'lf': '\n', 'crlf': '\r\n', 'cr': '\r'}.get(eol, os.linesep)
    if open(cpy, 'rb').read().decode('utf-8') != expect_out.replace('\n', nl):
        viol.append(('cli:inplace:content', f'--inplace did not write Formatter.format(text) with the configured line ending ({tag})'))
    outp = os.path.join(d, 'out.build')
    with contextlib.redirect_stdout(io.StringIO()):
        mformat.run(p.parse_args(['-c', cfgp, '-o', outp, src]))
    if open(outp, 'rb').read().decode('utf-8') != expect_out.replace('\n', nl):
        viol.append(('cli:output:content', f'--output did not write Formatter.format(text) with the configured line ending ({tag})'))
    return viol


# --------------------------------------------------------------------------------------------- shrinking

def write_cfgs(cfgdir: str, cfgs: T.List[T.Dict[str, T.Any]], start: int = 0) -> None:
    for i, c in enumerate(cfgs):
        with open(os.path.join(cfgdir, f'cfg{start + i}.ini'), 'w', encoding='utf-8') as f:
            f.write(cfg_text(c))


def keys_of(text: str, cfg: T.Dict[str, T.Any], cfgdir: str, slot: int = 9999) -> T.Set[str]:
    return {k for k, _ in viol_of(text, cfg, cfgdir, slot)}


def part_of(what: str) -> str:
    """which clause of the property an oracle message is about"""
    if what.startswith('formatted text does not parse'):
        return 'parse'
    if what.startswith('program changed'):
        return 'meaning'
    if what.startswith('comments '):
        return 'comments'
    if what.startswith('format(format(x))') or 'second pass' in what or ' formatting ' in what:
        return 'idem'
    if what.startswith('Formatter.format raised'):
        return 'raises'
    return 'other'


def viol_of(text: str, cfg: T.Dict[str, T.Any], cfgdir: str, slot: int = 9999) -> T.List[T.Tuple[str, str]]:
    write_cfgs(cfgdir, [cfg], slot)
    _FMT_CACHE.pop(f'{cfgdir}/{slot}', None)
    return run_pair(text, cfgdir, slot, cfg, want_ser=False)['viol']


def shrink(text: str, cfg: T.Dict[str, T.Any], key: str, cfgdir: str, budget: int = 400,
           part: T.Optional[str] = None) -> T.Tuple[str, T.Dict[str, T.Any]]:
    """delta-debug the configuration (towards defaults) and the text (character chunks) while the same
    violation key is reported — or, with `part`, while the same clause of the property (parse / meaning /
    comments / idem) fails under whatever key.  Deterministic."""
    def holds(t: str, c: T.Dict[str, T.Any]) -> bool:
        v = viol_of(t, c, cfgdir)
        if part is not None:
            return any(part_of(w) == part for _k, w in v)
        return any(k == key for k, _w in v)
    cfg = dict(cfg)
    for k in OPTION_NAMES:
        if cfg[k] != DEFAULT_CFG[k] and budget > 0:
            c2 = dict(cfg)
            c2[k] = DEFAULT_CFG[k]
            budget -= 1
            if holds(text, c2):
                cfg = c2
    state = {'budget': budget}

    def test(cand: str) -> bool:
        if state['budget'] <= 0 or cand == text:
            return False
        state['budget'] -= 1
        return holds(cand, cfg)

    def ddmin_units(units: T.List[str]) -> T.List[str]:
        n = max(1, len(units) // 2)
        while n >= 1 and state['budget'] > 0:
            i = 0
            progressed = False
            while i < len(units) and state['budget'] > 0:
                cand = units[:i] + units[i + n:]
                if len(cand) < len(units) and test(''.join(cand)):
                    units = cand
                    progressed = True
                else:
                    i += n
            if not progressed or n == 1:
                n //= 2
        return units

    def groups(t: str) -> T.List[T.Tuple[int, int]]:
        """(open, close) index pairs of balanced brackets outside strings and comments (approximate)"""
        out, stack, i, q = [], [], 0, None
        while i < len(t):
            c = t[i]
            if t.startswith("'''", i):
                j = t.find("'''", i + 3)
                i = (j + 3) if j >= 0 else len(t)
                continue
            if c == "'":
                j = i + 1
                while j < len(t) and t[j] != "'":
                    j += 2 if t[j] == '\\' else 1
                i = j + 1
                continue
            if c == '#':
                j = t.find('\n', i)
                i = j if j >= 0 else len(t)
                continue
            if c in '([{':
                stack.append(i)
            elif c in ')]}' and stack:
                out.append((stack.pop(), i))
            i += 1
        return sorted(out, key=lambda g: g[0] - g[1])   # largest first

    for _round in range(6):
        before = text
        # 1. whole lines
        text = ''.join(ddmin_units(text.splitlines(keepends=True)))
        # 2. bracketed groups: drop the content, the whole group, or only the brackets
        changed = True
        while changed and state['budget'] > 0:
            changed = False
            for a, b in groups(text):
                for cand in (text[:a + 1] + text[b:], text[:a] + text[b + 1:], text[:a] + text[a + 1:b] + text[b + 1:]):
                    if len(cand) < len(text) and test(cand):
                        text = cand
                        changed = True
                        break
                if changed:
                    break
        # 3. characters
        text = ''.join(ddmin_units(list(text)))
        if text == before or state['budget'] <= 0:
            break
    return text, cfg


def minimise_and_rekey(text: str, cfg: T.Dict[str, T.Any], what: str, cfgdir: str,
                       budget: int) -> T.Tuple[str, T.Dict[str, T.Any], T.List[T.Tuple[str, str]]]:
    """A failure the quick classifier could not attribute is minimised (same clause of the property keeps
    failing) and the *minimised* input is classified: the reported key is the key of the minimal input.
    Returns (minimal text, minimal cfg, [(key, what)] of that clause on the minimal input)."""
    part = part_of(what)
    t2, c2 = shrink(text, cfg, '', cfgdir, budget=budget, part=part)
    v = [(k, w) for k, w in viol_of(t2, c2, cfgdir) if part_of(w) == part]
    if not v:   # cannot happen (shrink keeps the predicate); fall back to the original
        t2, c2 = text, cfg
        v = [(k, w) for k, w in viol_of(text, cfg, cfgdir) if part_of(w) == part]
    return t2, c2, v


# --------------------------------------------------------------------------------------------- generated tables

def _probe_string(mformat, mparser, raw: str, multi: bool, fstr: bool, on: bool = True):
    """run the real TrimWhitespaces.visit_StringNode on a freshly built StringNode"""
    tid = ('multiline_' if multi else '') + ('fstring' if fstr else 'string')
    node = mparser.StringNode(mparser.Token(tid, '', 0, 1, 0, (0, 0), raw))
    cfg = mformat.FormatterConfig.default()
    cfg.simplify_string_literals = on
    mformat.TrimWhitespaces(cfg).visit_StringNode(node)
    return node


def extract_tables() -> T.Tuple[T.List[int], T.List[int]]:
    """characters whose presence keeps a triple-quoted string triple-quoted / an f-string an f-string,
    observed on the live code for every code point 0..255 (value 'a' + chr + 'b')"""
    mformat, mparser, _ = impl()
    excl, fmark = [], []
    for cp in range(256):
        v = 'a' + chr(cp) + 'b'
        if _probe_string(mformat, mparser, v, True, False).is_multiline:
            excl.append(cp)
        if _probe_string(mformat, mparser, v, True, True).is_fstring:
            fmark.append(cp)
    # without any such character both rules fire
    assert not _probe_string(mformat, mparser, 'ab', True, True).is_multiline
    assert not _probe_string(mformat, mparser, 'ab', True, True).is_fstring
    return excl, fmark


def extract_shapes() -> T.List[T.Tuple[str, bool, bool]]:
    """for every placeholder shape: does f'<shape>' / f'''<shape>''' stay an f-string in the live formatter"""
    mformat, mparser, _ = impl()
    out = []
    for sh in PLACEHOLDER_SHAPES:
        out.append((sh, bool(_probe_string(mformat, mparser, sh, False, True).is_fstring),
                    bool(_probe_string(mformat, mparser, sh, True, True).is_fstring)))
    return out


def gen_tables(ctx: Ctx) -> None:
    excl, fmark = extract_tables()
    shapes = extract_shapes()
    impl()
    if not FSUB_SOURCE.startswith('InterpreterBase'):
        ctx.obligation_failed('gen_tables', 'placeholder regex of InterpreterBase.evaluate_fstring not found: ' + FSUB_SOURCE)
    ctx.extra['fstring_placeholder_regex'] = FSUB.pattern
    ctx.extra['fstring_placeholder_regex_source'] = FSUB_SOURCE
    ctx.extra['fstring_shapes_dropping_f'] = [sh for sh, p, m in shapes if not p or not m]
    shape_lit = ',\n   '.join(f'([{", ".join(str(ord(c)) for c in sh)}], {str(p).lower()}, {str(m).lower()})' for sh, p, m in shapes)
    body = f'''/- generated by harness/c16.py gen_tables from the live mesonbuild.mformat (do not edit) -/
namespace MesonModel.Generated.FmtTables

/-- code points whose presence in the value keeps a triple-quoted string triple-quoted
(`TrimWhitespaces.visit_StringNode`, observed for every code point 0..255) -/
def simplifyExcludedCodes : List Nat := [{", ".join(map(str, excl))}]

/-- code points whose presence in the value keeps an f-string an f-string -/
def fstringMarkerCodes : List Nat := [{", ".join(map(str, fmark))}]

def simplifyExcluded : List Char := simplifyExcludedCodes.map Char.ofNat
def fstringMarkers : List Char := fstringMarkerCodes.map Char.ofNat

/-- placeholder shapes (code points) with: does `f'<shape>'` stay an f-string, does `f\'\'\'<shape>\'\'\'` stay an
f-string (observed on the live `TrimWhitespaces.visit_StringNode`).  The interpreter's placeholder regex read
from the live `InterpreterBase.evaluate_fstring` is (advisory): {FSUB.pattern} -/
def fstringShapes : List (List Nat × Bool × Bool) :=
  [{shape_lit}]

end MesonModel.Generated.FmtTables
'''
    path = os.path.join(common.LEAN, 'MesonModel', 'Generated', 'FmtTables.lean')
    old = open(path, encoding='utf-8').read() if os.path.exists(path) else None
    if old != body:
        with open(path, 'w', encoding='utf-8') as f:
            f.write(body)
        ctx.notes.append('Generated/FmtTables.lean rewritten')
    ctx.extra['simplify_excluded_codes'] = excl
    ctx.extra['fstring_marker_codes'] = fmark


# --------------------------------------------------------------------------------------------- targeted inputs

# demonstrations of the recorded findings and regression inputs; (text, option overrides)
TARGETED: T.List[T.Tuple[str, T.Dict[str, T.Any]]] = [
    ("x = '''a\\nb'''\n", {}),                                     # simplify:multiline-backslash
    ("x = '''\\'''\n", {}),                                        # simplify:unparseable-backslash
    ("x = f'''\\x40a\\x40'''\n", {}),                              # becomes a substituting f-string
    ("x = '''a\\nb'''\n", {'simplify_string_literals': False}),
    ("files(['b', 'a'])\n", {'sort_files': True}),                  # idempotence:sort_files
    ("files([['a']])\n", {}),                                       # was idempotence:files-array (fixed 7ce7cd4)
    ("files(['a'] # about a\n)\n", {}),                             # comments:lost-on-files-flatten
    ("files('b' # c1\n, 'a' # c2\n)\n", {'sort_files': True}),      # comments:reordered-by-sort-files
    ("f('a',)\n", {'no_single_comma_function': True}),              # was idempotence:no_single_comma_function (fixed a1ee46c)
    ("f(\n  'a',\n)\n", {'no_single_comma_function': True}), ("f('''a''')\n", {'no_single_comma_function': True}),
    ("f(g(a,))\no.m(x.n(1,),)\nf([a,],)\n", {'no_single_comma_function': True}),
    ("g(files([x,]))\n", {'no_single_comma_function': True}), ("g(h(files(['a',])), y)\n", {'no_single_comma_function': True}),   # fixed e587c4a
    ("g(files([['a'],]))\ng(files([['a',],],))\n", {'no_single_comma_function': True}),   # fixed f78386e
    ("p('' # c\n,)\n", {'no_single_comma_function': True}),        # idempotence:no_single_comma_function:trivia-before-removed-comma
    ("b + se[is_variable('fo/b10.c', 'x@y', '9')[d(s)]]\n", {'no_single_comma_function': True, 'max_line_length': 40}),   # ...:line-length-split
    ("x = 1 # a\x0cb\n# c\x0bd\ny = [ # e\x1c# f\n 'p\x0cq', # g\x85h\n]\n", {}),   # was comments:changed (fixed 4b43278)
    ("cs = 'Z.c' - ((0b101))\n", {'max_line_length': 20}),          # idempotence:multiline-paren
    ("x = files('b', 'a10', 'a9', 'd/a', y, 'A1', 'a/b/c', 'a/b')\n", {'sort_files': True}),
    ("x = (a not # c\n in b)\n", {}),
    ("x = [1,2,\n  3 # foo\n]\n", {}),
    ("", {}), ("\n", {}), ("# only a comment", {}), ("\n\n# c\n\n", {}), ("x=1", {'insert_final_newline': False}),
    ("if a\n# in block\nendif\n", {}), ("if a # c1\n  b = 1 # c2\nelse # c3\n  # c4\nendif # c5\n", {}),
    ("foreach a, b : d # c\n continue # c2\nendforeach\n", {}),
    ("x = f'@a@' + f'a@b' + f'''@a@''' + '''it's'''\n", {}),
    ("x = [" + ", ".join("f'" + sh + "'" for sh in PLACEHOLDER_SHAPES) + "]\n", {}),
    ("x = [" + ", ".join("f'''p" + sh + "s'''" for sh in PLACEHOLDER_SHAPES) + "]\n", {'max_line_length': 200}),
    ("a = b ? c : d\nx = (a ? b : c) ? d : e\n", {}),
    ("e = executable('a', 'b.c', dependencies : [x, y], install : true, c_args : ['--opt', 'value', '--', '-Dx'])\n",
     {'max_line_length': 40, 'group_arg_value': True, 'kwargs_force_multiline': True, 'wide_colon': True}),
    ("a = [ 1, 2 ]\nd = { 'a' : 1, 'b' : [ ] }\n", {'space_array': True}),
    ("x = a \\\n  + b \\ # c\n  + c\n", {}),
    ("a.b(c).d(e, f: g)[0].h()\n", {'max_line_length': 20}),
    ("x = 1 \\\n", {}), ("x = 1 \\\n#x\n\t\n", {}), ("x = 1 \\\n", {'insert_final_newline': False}),   # was idempotence:trailing-continuation (fixed d6dbddc)
    ("x = (a # c1\n and b # c2\n)\n", {'indent_by': ''}), ("if a\n x = (a # c1\n and (b # c2\n or c) # c3\n)\nendif\n", {'indent_by': ''}),   # was comments:lost (fixed e110272)
    ("if a\n\tx = f(1, 2)\nendif\n", {'tab_width': 1, 'indent_by': '\t', 'max_line_length': 1}),
    ("x = f([ \\\n 'b'])\n", {}),                                 # idempotence:continuation-after-bracket
    ("files(['a'] \\\n)\n", {}), ("files([ \\\n 'a'])\n", {}), ("files(['a'], \\\n)\n", {}),   # regression of 194f0bf
    ("files(['b', 'a'], # c\n)\n", {'sort_files': True}), ("files([['b'], 'a'])\n", {'sort_files': True}),
    ("files([#\n]).d()\n", {'max_line_length': 20}), ("x = files([ # c\n]) + files([\n])\n", {'max_line_length': 20}),   # regression of 2163d30
]


# --------------------------------------------------------------------------------------------- configuration sources
# Where a setting comes from is a generator dimension: meson.format only / .editorconfig only / both with
# different values / neither; .editorconfig activated by `--editor-config`, by `use_editor_config = true`, or not
# at all; configuration file given with `--configuration` or discovered as `meson.format`; section glob;
# root or nested .editorconfig.  The oracle is the CLI leg: check modes report a difference iff `--inplace`
# changes the bytes; a second `--inplace` is a no-op; plus the in-process clauses under the merged configuration.

SCEN_TEXTS = [
    "x = 1\n",
    "if a\n  f(1, [2, 3], k: 'v')\nendif",
    "e = executable('prog', 'a.c', 'b.c', dependencies : [dep_one, dep_two], install : true)\n",
    "if a\n\tforeach i : [1, 2]\n\t\tmessage('@0@'.format(i), 'some longer text here', i) # c\n\tendforeach\nendif\n",
    "x = [\n  1,\n  2,\n]\n# end\n",
]
SCEN_GLOBS = ['*', 'meson.build', '*.build', '**/meson.build', '*.{build,options}']


def harvest_editorconfig_supply() -> T.Dict[str, T.List[T.Tuple[T.List[str], T.Any]]]:
    """{FormatterConfig field: [(.editorconfig lines, value it yields)]}, harvested from the live
    `EditorConfig` dataclass and `FormatterConfig.with_editorconfig` (every field x candidate values of its
    type, and pairs of `indent_*` fields)"""
    import dataclasses
    mformat, _, _ = impl()
    default = mformat.FormatterConfig.default()
    cands: T.Dict[str, T.List[T.Any]] = {}
    for f in dataclasses.fields(mformat.EditorConfig):
        t = str(f.type)
        vals: T.List[T.Any] = re.findall(r"'([^']*)'", t) if 'Literal' in t else []
        if 'bool' in t:
            vals += [True, False]
        if 'int' in t:
            vals += [2, 8, 40]
        cands[f.name] = vals
    supply: T.Dict[str, T.List[T.Tuple[T.List[str], T.Any]]] = {}

    def add(kw: T.Dict[str, T.Any]) -> None:
        try:
            eff = default.with_editorconfig(mformat.EditorConfig(**kw))
        except Exception:
            return
        lines = [f'{k} = {str(v).lower() if isinstance(v, bool) else v}' for k, v in kw.items()]
        for g in dataclasses.fields(mformat.FormatterConfig):
            if getattr(eff, g.name) != getattr(default, g.name) and (lines, getattr(eff, g.name)) not in supply.get(g.name, []):
                supply.setdefault(g.name, []).append((lines, getattr(eff, g.name)))
    for name, vals in cands.items():
        for v in vals:
            add({name: v})
    ind = [n for n in cands if n.startswith('indent')]
    for a, b in itertools.combinations(ind, 2):
        for va in cands[a]:
            for vb in cands[b][:2]:
                add({a: va, b: vb})
    return supply


def fmt_lines(d: T.Dict[str, T.Any]) -> T.List[str]:
    out = []
    for k, v in d.items():
        if isinstance(v, bool):
            out.append(f'{k} = {"true" if v else "false"}')
        elif isinstance(v, int) or k == 'end_of_line':
            out.append(f'{k} = {v}')
        else:
            out.append(f"{k} = '{v}'")
    return out


def config_source_scenarios(deep: bool) -> T.List[T.Dict[str, T.Any]]:
    supply = harvest_editorconfig_supply()
    scen: T.List[T.Dict[str, T.Any]] = []
    n = 0
    for field in sorted(supply):
        sups = supply[field] if deep else supply[field][:4]
        for lines, v_ec in sups:
            others = [v for v in OPTION_VALUES.get(field, []) if v != v_ec]
            if not others:
                continue
            alt = [l for l, v in supply[field] if v != v_ec]
            for source in ('format', 'editorconfig', 'both', 'neither'):
                for activation in ('flag', 'key', 'off'):
                    if source in ('format', 'neither') and activation == 'key':
                        continue
                    fmt: T.Dict[str, T.Any] = {}
                    if source == 'format':
                        fmt[field] = v_ec
                    elif source == 'both':
                        fmt[field] = others[n % len(others)]
                    if activation == 'key':
                        fmt['use_editor_config'] = True
                    nested = n % 3 == 0 and source in ('editorconfig', 'both')
                    scen.append({
                        'id': n, 'field': field, 'value_editorconfig': v_ec, 'source': source, 'activation': activation,
                        'ec_lines': lines if source in ('editorconfig', 'both') else [],
                        'ec_root_lines': (alt[n % len(alt)] if alt else []) if nested else [],
                        'nested': nested, 'fmt': fmt, 'glob': SCEN_GLOBS[n % len(SCEN_GLOBS)],
                        'location': ('explicit', 'discovered')[(n // 2) % 2],
                    })
                    n += 1
    return scen


def build_scenario_tree(top: str, sc: T.Dict[str, T.Any]) -> T.Tuple[str, T.List[str]]:
    """writes the configuration files of a scenario under `top`; -> (source path, extra CLI arguments)"""
    os.makedirs(os.path.join(top, 'sub'), exist_ok=True)
    sec = f'[{sc["glob"]}]'
    if sc['nested']:
        root_ec = ['root = true', sec] + sc['ec_root_lines']
        with open(os.path.join(top, 'sub', '.editorconfig'), 'w', encoding='utf-8') as f:
            f.write('\n'.join([sec] + sc['ec_lines']) + '\n')
        src = os.path.join(top, 'sub', 'meson.build')
    else:
        root_ec = ['root = true', sec] + sc['ec_lines']
        src = os.path.join(top, 'meson.build')
    with open(os.path.join(top, '.editorconfig'), 'w', encoding='utf-8') as f:
        f.write('\n'.join(root_ec) + '\n')
    args: T.List[str] = []
    if sc['activation'] == 'flag':
        args.append('-e')
    name = 'cfg.ini' if sc['location'] == 'explicit' else 'meson.format'
    if sc['fmt'] or sc['location'] == 'explicit':
        with open(os.path.join(top, name), 'w', encoding='utf-8') as f:
            f.write('\n'.join(fmt_lines(sc['fmt'])) + '\n')
    if sc['location'] == 'explicit':
        args += ['-c', os.path.join(top, name)]
    return src, args


def cli_leg(stored: bytes, src: str, cpy: str, args_src: T.List[str], args_cpy: T.List[str], tag: str,
            expect_idem: bool) -> T.Tuple[T.List[T.Tuple[str, str]], T.Optional[bytes]]:
    """ground truth from the tool: `--inplace` on a copy (same configuration files around it);
    check modes on the original must report a difference iff the copy's bytes changed; a second `--inplace`
    on the copy is a no-op (when the formatter is idempotent on this text: `expect_idem`)"""
    mformat, _, _ = impl()
    from mesonbuild.mesonlib import MesonException
    viol: T.List[T.Tuple[str, str]] = []
    p = argparse.ArgumentParser()
    mformat.add_arguments(p)
    for path in (src, cpy):
        with open(path, 'wb') as f:
            f.write(stored)
    try:
        with contextlib.redirect_stdout(io.StringIO()):
            mformat.run(p.parse_args(['-i'] + args_cpy + [cpy]))
    except MesonException:
        return [], None        # configuration rejected
    except Exception as e:
        return [('cli:inplace:raises', f'--inplace raised {type(e).__name__} ({tag})')], None
    written = open(cpy, 'rb').read()
    would_change = written != stored
    for flag in ('-q', '-d'):
        try:
            with contextlib.redirect_stdout(io.StringIO()):
                rc = mformat.run(p.parse_args([flag] + args_src + [src]))
        except Exception as e:
            viol.append((f'cli:check{flag}:raises', f'{flag} raised {type(e).__name__} ({tag})'))
            continue
        if (rc != 0) != would_change:
            viol.append((f'cli:check{flag}:status', f'{flag} returned {rc} but --inplace would {"" if would_change else "not "}change the file ({tag})'))
        if open(src, 'rb').read() != stored:
            viol.append((f'cli:check{flag}:modifies-file', f'check mode modified the file ({tag})'))
    if expect_idem:
        with contextlib.redirect_stdout(io.StringIO()):
            mformat.run(p.parse_args(['-i'] + args_cpy + [cpy]))
        if open(cpy, 'rb').read() != written:
            viol.append(('cli:inplace:second-run-changes', f'a second --inplace changed the file again ({tag})'))
        else:
            # the freshly formatted file must be reported as formatted
            with open(src, 'wb') as f:
                f.write(written)
            for flag in ('-q', '-d'):
                with contextlib.redirect_stdout(io.StringIO()):
                    rc = mformat.run(p.parse_args([flag] + args_src + [src]))
                if rc != 0:
                    viol.append((f'cli:check{flag}:status', f'{flag} returned {rc} on the file --inplace has just written ({tag})'))
    return viol, written


def run_scenario(cfgdir: str, sc: T.Dict[str, T.Any], texts: T.List[str], newlines: T.List[str]) -> T.List[T.Dict[str, T.Any]]:
    mformat, _, _ = impl()
    from mesonbuild.mesonlib import MesonException
    out = []
    top = os.path.join(cfgdir, f'sc{sc["id"]}')
    src, args_src = build_scenario_tree(os.path.join(top, 'a'), sc)
    cpy, args_cpy = build_scenario_tree(os.path.join(top, 'b'), sc)
    desc = dict(sc)
    for ti, text in enumerate(texts):
        # in-process clauses under the merged configuration, built as mformat.run builds it
        try:
            cfgfile = Path(args_src[args_src.index('-c') + 1]) if '-c' in args_src else mformat.get_meson_format([Path(src)])
            fm = mformat.Formatter(cfgfile, '-e' in args_src, False)
        except MesonException:
            continue
        with open(src, 'w', encoding='utf-8') as f:   # load_editor_config resolves the path
            f.write(text)
        r = run_pair(text, cfgdir, f'sc{sc["id"]}', None, want_ser=False, fm=fm, path=Path(src))
        r['origin'] = 'scenario'
        r['scenario'] = desc
        if r['status'] == 'ok':
            for fnl in newlines:
                stored = text.replace('\n', fnl).encode('utf-8')
                tag = f'source of {sc["field"]}: {sc["source"]}, .editorconfig {sc["activation"]}, file newline {fnl!r}'
                v, written = cli_leg(stored, src, cpy, args_src, args_cpy, tag, bool(r.get('idem')))
                r['viol'] += v
                r['cli'] = True
                eff = dict(DEFAULT_CFG)
                eff.update(r.get('eff_cfg', {}))
                nl = {'lf': '\n', 'crlf': '\r\n', 'cr': '\r'}.get(eff.get('end_of_line'), os.linesep)
                if written is not None and written.decode('utf-8') != r['out'].replace('\n', nl):
                    r['viol'].append(('cli:inplace:content', f'--inplace did not write Formatter.format(text) under the merged configuration with its line ending ({tag})'))
        out.append(r)
    return out


# --------------------------------------------------------------------------------------------- worker

def _job(a: T.Tuple[str, T.List[T.Dict[str, T.Any]], str, T.Any]) -> T.List[T.Dict[str, T.Any]]:
    """kind 'gen': (seed, n, per) generates n programs, each under `per` configurations;
    kind 'texts': list of (origin, text, cfgid)"""
    cfgdir, cfgs, kind, payload = a
    out = []
    items: T.List[T.Tuple[str, str, int]] = []
    if kind == 'scenario':
        res: T.List[T.Dict[str, T.Any]] = []
        for sc, texts, newlines in payload:
            res += run_scenario(cfgdir, sc, texts, newlines)
        return res
    if kind == 'gen':
        seed, n, per = payload
        rng = random.Random(seed)
        for _ in range(n):
            text = gen_program(rng, rng.choice([1, 2, 3, 5]), rng.choice([0.0, 0.2, 0.5, 0.8]))
            for ci in rng.sample(range(len(cfgs)), per):
                items.append(('gen', text, ci))
    elif kind == 'lay':
        seed, n, per, idx = payload
        rng = random.Random(seed)
        for _ in range(n):
            text = lay_program(rng)
            for ci in rng.sample(idx, per):
                items.append(('lay', text, ci))
    else:
        items = payload
    for origin, text, ci in items:
        try:
            r = run_pair(text, cfgdir, ci, cfgs[ci], want_ser=origin not in ('simp-shape', 'lay', 'sortnames') or zlib.crc32(text.encode()) % 4 == 0,
                         want_lay=origin in ('lay', 'shape', 'simp-shape', 'targeted', 'sortnames'))
        except Exception as e:   # adapter failure (shape of the implementation changed): an outcome, not a crash
            out.append({'text': text, 'cfgid': ci, 'status': 'adapter-error:' + type(e).__name__, 'viol': [], 'origin': origin})
            continue
        r['origin'] = origin
        crc = zlib.crc32(text.encode('utf-8', 'surrogatepass'))
        if r['status'] == 'ok' and '\r' not in r['out'] and (origin not in ('gen', 'shape', 'simp-shape', 'lay', 'sortnames') or crc % (32 if origin in ('simp-shape', 'lay', 'sortnames') else 8) == 0):
            eol = cfgs[ci]['end_of_line']
            r['viol'] += check_cli(text, cfgdir, ci, r['out'], eol, FILE_NEWLINES[(crc // 8 + ci) % 3])
            r['cli'] = True
            if r.get('idem'):
                # a freshly formatted file, stored with the configured line ending, is "formatted"; stored with
                # another line ending it is not
                nl = {'lf': '\n', 'crlf': '\r\n', 'cr': '\r'}.get(eol, os.linesep)
                for fnl in (nl, FILE_NEWLINES[(crc // 8 + ci + 1) % 3]):
                    r['viol'] += [(k, w + ' (on formatted text)') for k, w in check_cli(r['out'], cfgdir, ci, r['out'], eol, fnl)]
        out.append(r)
    return out


def nondefault(cfg: T.Dict[str, T.Any]) -> T.Dict[str, T.Any]:
    return {k: v for k, v in cfg.items() if v != DEFAULT_CFG[k]}


# names for the sort key: digit-leading against letter-leading components, numbers of different lengths and with
# leading zeros, case, separators (leading / trailing / doubled), digits next to punctuation, empty name
SORT_NAMES = ['main.c', '7zip.c', 'src/main.c', '3rdparty/zlib/inflate.c', 'a10', 'a9', 'a010', 'A1', 'a1', 'a', 'A', '1', '01', '10',
              '1a', '1A', 'a1b2', 'a1b10', 'x/1', 'x/a', '1/x', 'a/1/b', 'a//b', '/a', 'a/', '', '10/2', '2/10', 'a.1', 'a-1', '1.5', '1_5',
              'B/a', 'b/A', '9z/9', 'z9/z', '12ab34', '12AB034', '0', '00', 'é1', '1é']


def compare_keys(a: str, b: str) -> str:
    """outcome of `pathname_sort_key(a) < pathname_sort_key(b)` on the implementation: lt / ge / ERR:<exception type>"""
    try:
        from mesonbuild.mesonlib import pathname_sort_key
        return 'lt' if pathname_sort_key(a) < pathname_sort_key(b) else 'ge'
    except Exception as e:
        return 'ERR:' + type(e).__name__


def decision_cases(rng: random.Random, n: int) -> T.Tuple[T.List[T.Tuple[str, bool, bool, bool]], T.List[T.List[str]], T.List[str]]:
    g = Gen(rng, hostile_strings=1.0)
    strs: T.List[T.Tuple[str, bool, bool, bool]] = []
    for raw in ['', 'a', 'a\\nb', '\\', "it's", 'a\nb', '@a@', '\\x40a\\x40', 'a@b', '@_x1@', '@1@', '@a b@', '@@', '\\101\\7\\1012',
                '\\U0001f600\\u00e9\\xe9', '\\q\\8\\x4', "\\'", '\\\\n', '\\\n']:
        for multi in (False, True):
            for f in (False, True):
                for on in (True, False):
                    strs.append((raw, multi, f, on))
    for sh in PLACEHOLDER_SHAPES:
        for multi in (False, True):
            for pre, post in (('', ''), ('lib', '.so'), ('@', ''), ('', '@')):
                strs.append((pre + sh + post, multi, True, True))
    for _ in range(n):
        multi = rng.random() < 0.5
        raw = g.multi_body() if multi else g.plain_body()
        if rng.random() < 0.3:
            raw = g.with_placeholders(raw)
        if rng.random() < 0.3:
            raw = ''.join(rng.choice(['a', '\\', "\\'", '@', 'x1', '_', ' ', '\\n', '1', '\\x4', '0', 'é', '\\u00e9', '7']) for _ in range(rng.randint(0, 7)))
            if multi and (raw.endswith("'") or "'''" in raw):
                raw += 'z'
        strs.append((raw, multi, rng.random() < 0.4, rng.random() < 0.9))
    lists = []
    pool = WORDS + SORT_NAMES + ['a/b', 'a/B/c', 'a/b/c10', 'a/b/c9', 'x/', '/x', 'a//b', '10', '9', '09', '1/2', 'a1b2', 'a1b10', 'A', 'é', 'dir/a.c', 'dir2/a.c', 'dir10/a.c']
    for _ in range(n // 4):
        lists.append([rng.choice(pool) if rng.random() < 0.8 else ''.join(rng.choice('aB1/0_. 9') for _ in range(rng.randint(0, 6)))
                      for _ in range(rng.randint(0, 7))])
    flats = ["files(['a', 'b'])", "files([ 'a' ])", "files([ # c\n 'a'])", "files(['a'], 'b')", "files(['a'], k: 1)", "files()", "files([])",
             "files([['a']])", "files(['a', k: 1])", "filez(['a'])", "files( # c\n['a'])", "files(['a'] # c\n)", "files(x)", "files([\n'a'])",
             "files(['a',],)", "files([\\\n 'a'])", "files([[['a']]])", "files([['a'] # c\n])", "files(['a'], # c\n)", "files(['a'] \\\n)",
             "files([['a'], 'b'])", "files([['a', k: 1]])", "files(['a'],\n)", "files([ # c\n])", "files([[ # c\n]])", "files([\n])"]
    for _ in range(n // 8):
        toks = g.call(1)
        if toks[0] == 'files':
            flats.append(g.render(toks))
    return strs, lists, flats


def check_decisions(ctx: Ctx) -> None:
    """the modelled rewriting decisions one by one against the real code"""
    mformat, mparser, _ = impl()
    rng = ctx.rng
    strs, lists, flats = decision_cases(rng, ctx.scale(3000, 30000))
    lines, expect, inputs = [], [], []
    RP = __import__('mesonbuild.ast.printer', fromlist=['RawPrinter']).RawPrinter
    for raw, multi, f, on in strs:
        try:
            node0 = mparser.StringNode(mparser.Token(('multiline_' if multi else '') + ('fstring' if f else 'string'), '', 0, 1, 0, (0, 0), raw))
        except Exception:
            continue  # \N{..} / illegal code points: outside the model (C02 finding)
        if any(0xD800 <= ord(c) <= 0xDFFF for c in node0.value):
            continue
        node = _probe_string(mformat, mparser, raw, multi, f, on)
        pr = RP()
        node.accept(pr)
        lines.append(f'simp {int(on)}|{enc(raw)}|{int(multi)}|{int(f)}')
        expect.append(f'{int(node.is_multiline)};{int(node.is_fstring)};{enc(pr.result)}')
        inputs.append(('simp', raw, multi, f, on))
        lex_ok = re.fullmatch(r"([^'\\]|(\\.))*", raw) is not None
        lines.append(f'den {enc(raw)}|{int(multi)}|{int(f)}')
        expect.append(f'{enc(node0.value)};{int(bool(f and FSUB.search(node0.value)))};{int(lex_ok)}')
        inputs.append(('den', raw, multi, f))
        ctx.tag('decision:string:' + ('multi' if multi else 'plain') + (':f' if f else ''))
    try:
        from mesonbuild.mesonlib import pathname_sort_key
    except Exception as e:
        pathname_sort_key = None
        ctx.obligation_failed('sort-key', f'mesonlib.pathname_sort_key cannot be imported: {type(e).__name__}')
    for l in lists:
        if pathname_sort_key is None:
            break
        try:
            s1 = sorted(l, key=pathname_sort_key)
        except Exception as e:   # the key of sort_files must compare for every pair of names
            bad = next(([a, b] for a in l for b in l if compare_keys(a, b).startswith('ERR')), l)
            ctx.violation('sort:key-comparison-raises:' + type(e).__name__,
                          f'sorted(names, key=pathname_sort_key) raised {type(e).__name__} (what sort_files does to the arguments of files())',
                          {'names': bad, 'text': 'files(' + ', '.join("'" + x + "'" for x in bad) + ')\n', 'cfg': {'sort_files': True}})
            continue
        lines.append(f'sort {enc_list(l)}')
        expect.append(enc_list(s1))
        inputs.append(('sort', l))
        ctx.tag('decision:sort')
        # the property's own requirement on the implementation's order: a stable permutation
        if sorted(s1) != sorted(l) or sorted(s1, key=pathname_sort_key) != s1:
            ctx.violation('sort:not-a-stable-permutation', 'sorted(key=pathname_sort_key) is not an idempotent permutation', {'list': l})
    # the key itself: every ordered pair of hostile names, and random pairs of pieces
    pairs = [(a, b) for a in SORT_NAMES for b in SORT_NAMES]
    for _ in range(ctx.scale(1500, 15000)):
        a, b = (''.join(rng.choice(['a', 'B', '1', '0', '9', '/', '.', '10', 'z', '_']) for _ in range(rng.randint(0, 6))) for _ in range(2))
        pairs.append((a, b))
    for a, b in pairs:
        out = compare_keys(a, b)
        lines.append(f'pkey {enc(a)}|{enc(b)}')
        expect.append(out)
        inputs.append(('pkey', a, b))
        ctx.tag('decision:sort-key:' + out)
        if out.startswith('ERR'):
            ctx.violation('sort:key-comparison-raises:' + out[4:],
                          f'pathname_sort_key({a!r}) < pathname_sort_key({b!r}) raised {out[4:]}: meson format with sort_files dies on files({a!r}, {b!r})',
                          {'names': [a, b], 'text': f"files('{a}', '{b}')\n", 'cfg': {'sort_files': True}})
    for text in flats:
        try:
            tree = parse(text)
        except Exception:
            continue
        if len(tree.lines) != 1 or type(tree.lines[0]).__name__ != 'FunctionNode':
            continue
        node = tree.lines[0]
        line = f'flat {ser(node)}'
        before = node.args
        cfg = mformat.FormatterConfig.default()
        tw = mformat.TrimWhitespaces(cfg)
        tw.enter_node(node)
        # the decision is taken before any whitespace is moved: evaluate the coded condition's effect
        tree2 = parse(text)
        n2 = tree2.lines[0]
        chain = [n2.args]   # the argument-list nodes files([[..]]) can be reduced to, outermost first
        while len(chain[-1].arguments) == 1 and type(chain[-1].arguments[0]).__name__ == 'ArrayNode':
            chain.append(chain[-1].arguments[0].args)
        try:
            tree2.accept(__import__('mesonbuild.ast.postprocess', fromlist=['AstConditionLevel']).AstConditionLevel())
            tw.visit_FunctionNode(n2)
        except Exception as e:
            ctx.notes.append(f'flat: TrimWhitespaces raised {type(e).__name__} on {text!r}')
            continue
        levels = [i for i, a in enumerate(chain) if a is n2.args]
        if not levels:
            ctx.notes.append(f'flat: unexpected argument list after visit_FunctionNode on {text!r}')
            continue
        lines.append(line)
        expect.append(str(levels[0]))    # number of array levels removed
        inputs.append(('flat', text))
        ctx.tag('decision:flatten:' + str(levels[0]))
    if not ctx.model_available:
        return
    ans = ctx.driver('fmt', lines)
    for a, e, i in zip(ans, expect, inputs):
        ctx.count()
        got = a.split(';')[0] if i[0] == 'flat' else a
        if got != e:
            ctx.disagreement({'kind': 'decision', 'input': list(i), 'model': a[:300], 'impl': e[:300]})


# --------------------------------------------------------------------------------------------- run

def build_cases(ctx: Ctx, cfgs: T.List[T.Dict[str, T.Any]], cfgdir: str) -> T.List[T.Tuple[str, T.Any, str, T.Any]]:
    rng = ctx.rng
    jobs: T.List[T.Tuple[str, T.Any, str, T.Any]] = []
    ncfg = len(cfgs)
    # targeted (configurations appended to cfgs by the caller: indexes recorded in TARGET_IDX)
    items = [('targeted', text, TARGET_IDX[i]) for i, (text, _o) in enumerate(TARGETED)]
    jobs.append((cfgdir, cfgs, 'texts', items))
    # exhaustive shape family x (every one-field variation of the live FormatterConfig + pairwise configurations)
    shapes = shape_family()
    ctx.extra['shape_family'] = len(shapes)
    items = []
    for sh in shapes:
        base = list(range(ncfg_base(cfgs))) if ctx.deep else rng.sample(range(ncfg_base(cfgs)), 6)
        for ci in dict.fromkeys(OF_IDX + base):
            items.append(('shape', sh, ci))
    for i in range(0, len(items), 400):
        jobs.append((cfgdir, cfgs, 'texts', items[i:i + 400]))
    # literal simplification x layout option on minimal shapes (triggers harvested from the live source)
    simp = simp_family(ctx.deep)
    ctx.extra['simplification_layout_family'] = len(simp)
    ctx.extra['rewrite_triggers_harvested'] = harvest_rewrite_triggers()
    items = []
    # quick size: every text under the default and every one-field variation of a boolean field, and under a third
    # of the other one-field variations (rotating with the text); thorough size: under all of them
    of_bool = [ci for ci in OF_IDX if all(isinstance(v, bool) for v in nondefault(cfgs[ci]).values())]
    of_other = [ci for ci in OF_IDX if ci not in of_bool]
    for k, sh in enumerate(simp):
        pairs = rng.sample(BP_IDX, min(ctx.scale(3, 12), len(BP_IDX)))
        others = of_other if ctx.deep else [ci for j, ci in enumerate(of_other) if (j + k) % 3 == 0]
        for ci in dict.fromkeys(of_bool + others + pairs):
            items.append(('simp-shape', sh, ci))
    for i in range(0, len(items), 600):
        jobs.append((cfgdir, cfgs, 'texts', items[i:i + 600]))
    # files() over every ordered pair of hostile names, sorted: no internal error escapes the formatter
    sort_ci = next((i for i, c in enumerate(cfgs) if nondefault(c) == {'sort_files': True}), None)
    if sort_ci is not None:
        names = [n for n in SORT_NAMES if all(ord(ch) < 128 for ch in n)]
        names = names if ctx.deep else names[:16]
        items = [('sortnames', f"files('{a}', '{b}')\n" if (i + j) % 2 else f"x = files(['{a}', '{b}', y])\n", sort_ci)
                 for i, a in enumerate(names) for j, b in enumerate(names)]
        for i in range(0, len(items), 300):
            jobs.append((cfgdir, cfgs, 'texts', items[i:i + 300]))
    # statements of the Lean layout model's domain x every combination of the options it reads
    nlay = ctx.scale(3000, 30000)
    for _ in range(nlay // 250):
        jobs.append((cfgdir, cfgs, 'lay', (rng.getrandbits(48), 250, 2, list(LAY_IDX))))
    # configuration sources (where each setting comes from) x CLI leg
    scen = config_source_scenarios(ctx.deep)
    ctx.extra['config_source_scenarios'] = len(scen)
    ctx.extra['fields_editorconfig_can_supply'] = sorted({sc['field'] for sc in scen})
    payload = []
    for sc in scen:
        nls = FILE_NEWLINES if ctx.deep else [FILE_NEWLINES[sc['id'] % 3], FILE_NEWLINES[(sc['id'] + 1) % 3]]
        payload.append((sc, SCEN_TEXTS if ctx.deep else [SCEN_TEXTS[(sc['id'] + k) % len(SCEN_TEXTS)] for k in range(3)], nls))
    for i in range(0, len(payload), 8):
        jobs.append((cfgdir, cfgs, 'scenario', payload[i:i + 8]))
    # corpus
    corpus = corpus_texts()
    fmt_corpus = [c for c in corpus if 'test cases/format' in c[0] or c[0].startswith('corpus/')]
    common_corpus = [c for c in corpus if c not in fmt_corpus]
    if not ctx.deep:
        common_corpus = rng.sample(common_corpus, min(len(common_corpus), 30))
    items = []
    for origin, text in fmt_corpus + common_corpus:
        for ci in [0] + rng.sample(range(1, ncfg_base(cfgs)), ctx.scale(2, 6)):
            items.append(('corpus', text, ci))
    nmut = ctx.scale(200, 2000)
    for _ in range(nmut):
        origin, text = rng.choice(fmt_corpus if rng.random() < 0.6 else common_corpus)
        if len(text) > 6000:
            continue
        items.append(('mutated', mutate(rng, text), rng.randrange(ncfg_base(cfgs))))
    rng.shuffle(items)
    for i in range(0, len(items), 40):
        jobs.append((cfgdir, cfgs, 'texts', items[i:i + 40]))
    # generated
    nprog = ctx.scale(2000, 16000)
    if os.environ.get('VERIF_C16_CAP'):   # debugging knob (mutation self-test): cap the generated stream
        nprog = min(nprog, int(os.environ['VERIF_C16_CAP']))
    per = 2
    chunk = 100
    for _ in range(nprog // chunk):
        jobs.append((cfgdir, cfgs[:ncfg_base(cfgs)], 'gen', (rng.getrandbits(48), chunk, per)))
    return jobs


TARGET_IDX: T.List[int] = []
OF_IDX: T.List[int] = []
BP_IDX: T.List[int] = []
LAY_IDX: T.List[int] = []


def layout_configs(rng: random.Random) -> T.List[T.Dict[str, T.Any]]:
    """every combination of the options the Lean layout model reads, with a line length nothing reaches; once with
    the other fields at their defaults and once with random values (the model claims they do not matter)"""
    out = []
    wide = max([v for v in OPTION_VALUES.get('max_line_length', [80]) if isinstance(v, int)] + [80])
    for bits in itertools.product([False, True], repeat=len(LAY_CFG_FIELDS)):
        c = dict(DEFAULT_CFG, max_line_length=wide)
        c.update({f: b for f, b in zip(LAY_CFG_FIELDS, bits) if f in c})
        out.append(c)
        c2 = dict(c)
        for k, vals in OPTION_VALUES.items():
            if k not in LAY_CFG_FIELDS and k not in ('max_line_length', 'tab_width', 'use_editor_config'):
                c2[k] = rng.choice(vals)
        out.append(c2)
    return out
_NBASE = 0


def ncfg_base(cfgs) -> int:
    return _NBASE


def run(ctx: Ctx) -> None:
    global _NBASE
    impl()
    rng = ctx.rng
    ctx.rule = ('a pair (text, configuration) is non-trivial when the input parses and the formatted text differs '
                'from the input; counted distinct by (text, configuration)')
    ctx.assumptions += [
        'inputs are ASCII plus the inert code points é € 中; no \\N{..} escapes, no surrogate or >U+10FFFF escapes',
        'unparseable inputs are outside the property and skipped (counted); parser internal errors are C02\'s subject',
        'inputs in which the parser accepted a missing operand / argument / condition as an EmptyNode (`a or`, `()`, `x[]`, '
        '`{k: }`, `a ? : b`; the absent `else` excepted) cannot be evaluated and are outside the validated domain '
        '(status input-degenerate, counted); minimisation stays inside the domain',
        'f-string denotation taken from InterpreterBase.evaluate_fstring: substitution sites are matches of @ident@',
        'nesting depth of generated programs <= 7 (RecursionError is a runtime limit)',
        'sort key: file names are ASCII plus inert letters; a non-ASCII character for which str.isdigit() holds is outside the model of '
        'pathname_sort_key (observed on the unchanged code: pathname_sort_key("\u00b2") raises ValueError, a whole-component "\u0663" becomes an '
        'int at a text position) and is not generated',
    ]
    for f in os.listdir(ctx.workdir):   # replay files of earlier runs (possibly against another tree) are stale
        if f.startswith('replay-') and f.endswith('.json'):
            try:
                os.unlink(os.path.join(ctx.workdir, f))
            except OSError:
                pass
    try:
        check_decisions(ctx)
    except Exception as e:   # an exception of the implementation inside a probe is an outcome, never a crash
        ctx.obligation_failed('decisions', f'{type(e).__name__} while probing the rewriting decisions: {str(e)[:200]}')
    cfgdir = common.scratch_dir('mverif-c16cfg-')
    try:
        cfgs = pairwise_configs(rng, ctx.scale(6, 300))
        _NBASE = len(cfgs)
        TARGET_IDX.clear()
        for text, over in TARGETED:
            c = dict(DEFAULT_CFG)
            c.update(over)
            if c in cfgs:
                TARGET_IDX.append(cfgs.index(c))
            else:
                cfgs.append(c)
                TARGET_IDX.append(len(cfgs) - 1)
        OF_IDX.clear()
        for c in one_factor_configs():
            if c in cfgs:
                OF_IDX.append(cfgs.index(c))
            else:
                cfgs.append(c)
                OF_IDX.append(len(cfgs) - 1)
        BP_IDX.clear()
        for c in bool_pair_configs():
            if c in cfgs:
                BP_IDX.append(cfgs.index(c))
            else:
                cfgs.append(c)
                BP_IDX.append(len(cfgs) - 1)
        LAY_IDX.clear()
        for c in layout_configs(rng):
            if c in cfgs:
                LAY_IDX.append(cfgs.index(c))
            else:
                cfgs.append(c)
                LAY_IDX.append(len(cfgs) - 1)
        write_cfgs(cfgdir, cfgs)
        ctx.extra['configurations'] = len(cfgs)
        ctx.extra['options_enumerated_from_live_FormatterConfig'] = {k: [repr(v) for v in vs] for k, vs in OPTION_VALUES.items()}
        jobs = build_cases(ctx, cfgs, cfgdir)
        with mp.Pool(min(16, os.cpu_count() or 4)) as pool:
            results = [r for rs in pool.imap(_job, jobs, chunksize=1) for r in rs]
        process(ctx, results, cfgs, cfgdir)
    finally:
        common.rmtree(cfgdir)


def process(ctx: Ctx, results: T.List[T.Dict[str, T.Any]], cfgs: T.List[T.Dict[str, T.Any]], cfgdir: str) -> None:
    lines: T.List[str] = []
    meta: T.List[T.Tuple[str, T.Dict[str, T.Any]]] = []
    unknown: T.Dict[str, T.List[T.Tuple[str, int, str]]] = {}
    programs = 0
    adapter_reported: T.List[int] = []
    for r in results:
        ctx.count()
        ctx.tag('status:' + r['status'])
        ctx.tag('origin:' + r['origin'])
        if r['origin'] == 'scenario':
            cfg = dict(DEFAULT_CFG)
            cfg.update(r.get('eff_cfg', {}))
            ctx.tag(f'source:{r["scenario"]["field"]}:{r["scenario"]["source"]}:{r["scenario"]["activation"]}')
        else:
            cfg = cfgs[r['cfgid']]
        if r['status'].startswith('adapter-error'):
            if not adapter_reported:
                adapter_reported.append(1)
                ctx.obligation_failed('adapter', f'{r["status"]} on {r["text"][:120]!r}')
            continue
        if r['status'] in ('input-unparseable', 'input-degenerate', 'recursion', 'config-rejected') or r['status'].startswith('input-parser-error'):
            continue
        programs += 1
        for k, v in nondefault(cfg).items():
            ctx.tag(f'opt:{k}={v!r}')
        for f in r.get('feats', []):
            ctx.tag('feature:' + f)
        if r.get('cli'):
            ctx.tag('cli-checked')
        if r.get('ncom'):
            ctx.tag('with-comments')
        if r.get('out') is not None and r['out'] != r['text']:
            ctx.seen_nontrivial((zlib.crc32(r['text'].encode('utf-8', 'surrogatepass')), len(r['text']), r['cfgid']))
        ctx.sample({'text': r['text'][:200], 'cfg': nondefault(cfg), 'out': (r.get('out') or '')[:200]}, limit=4)
        for key, what in r['viol']:
            ctx.tag('oracle:' + key)
            if key in ctx.known:
                ctx.violation(key, what, {'text': r['text'], 'cfg': nondefault(cfg)})
            elif r['origin'] == 'scenario' and key.startswith('cli:'):
                ctx.violation(key, what, {'text': r['text'], 'scenario': r['scenario'], 'effective_cfg': nondefault(cfg), 'repo': common.REPO})
            else:
                ci = r['cfgid']
                if r['origin'] == 'scenario':   # in-process clause under a merged configuration: keep it as a plain one
                    ci = len(cfgs)
                    cfgs.append(cfg)
                    write_cfgs(cfgdir, [cfg], ci)
                unknown.setdefault(key, []).append((r['text'], ci, what))
        if 'ser_in' in r:
            lines.append(f'check {int(bool(cfg["sort_files"]))}|{r["ser_in"]}|{r["ser_out"]}')
            meta.append(('check', r))
            lines.append(f'coms {r["ser_in"]}')
            meta.append(('coms', r))
    ctx.extra['programs'] = programs
    # Failures whose quick classification is not a listed finding: minimise (the same clause of the property
    # keeps failing) and classify the MINIMISED input; its key is the verdict.  Per original key the (at most)
    # MAXMIN smallest instances are treated, smallest first (length, then text): independent of case order.
    MAXMIN = 4
    for key, lst in sorted(unknown.items()):
        lst = sorted(set(lst), key=lambda x: (len(x[0]), x[0], x[1]))
        new_found = False
        for text, ci, what in lst[:MAXMIN]:
            if key.startswith('cli:'):
                ctx.violation(key, what, {'text': text, 'cfg': nondefault(cfgs[ci]), 'count': len(lst), 'repo': common.REPO})
                new_found = True
                break
            try:
                t2, c2, v2 = minimise_and_rekey(text, cfgs[ci], what, cfgdir, budget=ctx.scale(1500, 6000))
            except Exception as e:
                t2, c2, v2 = text, cfgs[ci], [(key, what + f' (minimisation failed: {type(e).__name__})')]
            for k2, w2 in v2:
                ctx.tag('minimised:' + key + '->' + k2)
                ctx.violation(k2, w2, {'text': t2, 'cfg': nondefault(c2), 'count': len(lst), 'first_key': key,
                                       'original_text': text[:2000], 'original_cfg': nondefault(cfgs[ci]), 'repo': common.REPO})
                if k2 not in ctx.known:
                    new_found = True
            if new_found:
                break
        if not new_found and len(lst) > MAXMIN:
            ctx.notes.append(f'{len(lst)} cases first keyed {key}: the {MAXMIN} smallest minimise to listed findings; the rest were not minimised')
    # Lean checker on the same pairs
    checked = 0
    if ctx.model_available and lines:
        ans = ctx.driver('fmt', lines)
        for a, (kind, r) in zip(ans, meta):
            if kind == 'check':
                checked += 1
                exp = f'S{int(r["skel_eq"])}C{int(r["com_eq"])}'
                ctx.tag('lean:' + a if a.startswith('S') else 'lean:bad')
                if a != exp:
                    ctx.disagreement({'kind': 'check', 'text': r['text'], 'cfg': nondefault(cfgs[r['cfgid']]) if isinstance(r['cfgid'], int) else r.get('eff_cfg'), 'lean': a, 'python': exp})
            else:
                exp = enc_list(lex_comments(r['text']))
                if a != exp:
                    ctx.disagreement({'kind': 'comments', 'text': r['text'], 'lean': a[:200], 'python': exp[:200]})
    # Lean layout model: fmt(abstracted input statement) == abstracted real output, layout included
    lay_lines, lay_meta = [], []
    for r in results:
        if r.get('lay_error'):
            ctx.tag('layout:adapter-error:' + r['lay_error'])
        for bits, req, exp in r.get('lay', []):
            lay_lines.append(f'layout {bits}|{req}')
            lay_meta.append((exp, r))
    ctx.extra['layout_model_statements'] = len(lay_lines)
    if not lay_lines:
        ctx.obligation_failed('layout-correspondence', 'no statement of the generated stream could be abstracted to the layout model '
                              '(shape of mparser nodes changed?)')
    elif ctx.model_available:
        ans = ctx.driver('fmt', lay_lines)
        for a, (exp, r) in zip(ans, lay_meta):
            checked += 1
            ctx.tag('layout:' + ('agree' if a == exp else 'DISAGREE'))
            if a != exp:
                ctx.disagreement({'kind': 'layout', 'text': r['text'], 'cfg': nondefault(cfgs[r['cfgid']]) if isinstance(r['cfgid'], int) else r.get('eff_cfg'),
                                  'out': r.get('out'), 'lean': a[:400], 'impl': exp[:400]})
    ctx.extra['disagreements_checked'] = checked
    ctx.extra['pairs_validated_by_lean_checker'] = checked
    tables = ctx.driver('fmt', ['tables'])[0] if ctx.model_available else ''
    if tables and not tables.endswith(';1'):
        ctx.notes.append('backslash is NOT in the excluded list of the live code: theorem live_excluded_has_backslash fails '
                         '(F-FMT-BACKSLASH is back)')


# --------------------------------------------------------------------------------------------- search / replay

def search(ctx: Ctx, disagreements: T.List[dict]) -> None:
    """a theorem / table obligation / model-implementation correspondence no longer checks: look for a failing
    input of the property itself around the disagreeing inputs and on every character of the string rules"""
    if ctx.violations:
        return
    cfgdir = common.scratch_dir('mverif-c16s-')
    try:
        cfgs = [dict(DEFAULT_CFG), dict(DEFAULT_CFG, sort_files=True), dict(DEFAULT_CFG, simplify_string_literals=False),
                dict(DEFAULT_CFG, no_single_comma_function=True), dict(DEFAULT_CFG, kwargs_force_multiline=True)]
        for d in disagreements:   # the configuration under which model and implementation disagreed
            if isinstance(d.get('cfg'), dict):
                c = dict(DEFAULT_CFG)
                c.update({k: v for k, v in d['cfg'].items() if k in c})
                if c not in cfgs:
                    cfgs.append(c)
        write_cfgs(cfgdir, cfgs)
        texts: T.List[str] = []
        for cp in range(32, 127):
            c = chr(cp)
            if c == "'":
                texts += ["x = '''a'b'''\n", "x = f'''a'b'''\n"]
                continue
            texts += [f"x = '''a{c}b'''\n", f"x = f'''a{c}b'''\n", f"x = f'a{c}b@v@'\n", f"x = f'@{c}v@'\n", f"x = '''@v{c}@'''\n"]
        texts += ["x = '''a\nb'''\n", "x = '''a\tb'''\n", "x = f'''@v@'''\n", "x = f'@v@'\n", "x = f'\\x40v\\x40'\n"]
        for sh in PLACEHOLDER_SHAPES:
            texts += [f"x = f'{sh}'\n", f"x = f'''{sh}'''\n", f"x = f'lib-{sh}.so'\n"]
        for d in disagreements:
            inp = d.get('input')
            if d.get('kind') == 'decision' and inp:
                if inp[0] in ('simp', 'den'):
                    raw, multi, f = inp[1], inp[2], inp[3]
                    q = "'''" if multi else "'"
                    texts.append(f"x = {'f' if f else ''}{q}{raw}{q}\n")
                elif inp[0] == 'sort':
                    texts.append('files(' + ', '.join("'" + s.replace('\\', '').replace("'", '') + "'" for s in inp[1]) + ')\n')
                    texts.append('files([' + ', '.join("'" + s.replace('\\', '').replace("'", '') + "'" for s in inp[1]) + '])\n')
                elif inp[0] == 'flat':
                    texts.append(inp[1] + '\n')
                elif inp[0] == 'pkey' and "'" not in inp[1] + inp[2] and '\\' not in inp[1] + inp[2]:
                    texts += [f"files('{inp[1]}', '{inp[2]}')\n", f"files(['{inp[2]}', '{inp[1]}'])\n"]
            elif d.get('text'):
                texts.append(d['text'])
                if d.get('kind') == 'layout':   # each statement alone, and nested in the contexts the passes distinguish
                    for st in d['text'].split('\n'):
                        if st.strip() and st.rstrip()[-1:] in ')]}':
                            texts += [st + '\n', f'g({st})\n', f'g(h({st}), y)\n', f'x = [{st}]\n']
        for text in texts:
            for ci in range(len(cfgs)):
                r = run_pair(text, cfgdir, ci, cfgs[ci], want_ser=False)
                ctx.count()
                for key, what in r['viol']:
                    ctx.violation(key, what, {'text': text, 'cfg': nondefault(cfgs[ci])})
        if not ctx.violations:
            rng = ctx.rng
            for _ in range(4000):
                text = gen_program(rng, rng.choice([1, 2, 3]), rng.choice([0.0, 0.3, 0.7]))
                ci = rng.randrange(len(cfgs))
                r = run_pair(text, cfgdir, ci, cfgs[ci], want_ser=False)
                for key, what in r['viol']:
                    ctx.violation(key, what, {'text': text, 'cfg': nondefault(cfgs[ci])})
    finally:
        common.rmtree(cfgdir)


def replay(ctx: Ctx, rep: dict) -> None:
    case = rep.get('case', {})
    print('replay', rep.get('key'), rep.get('what'))
    cfgdir = common.scratch_dir('mverif-c16r-')
    try:
        if 'scenario' in case:
            sc = case['scenario']
            print('input   :', repr(case['text']))
            print('scenario:', {k: sc[k] for k in ('field', 'source', 'activation', 'glob', 'location', 'nested', 'ec_lines', 'ec_root_lines', 'fmt')})
            found = False
            for r in run_scenario(cfgdir, sc, [case['text']], FILE_NEWLINES):
                print('output  :', repr(r.get('out')), 'effective configuration:', r.get('eff_cfg'))
                for key, what in r['viol']:
                    print('oracle:', key, what)
                    ctx.violation(key, what, case)
                    found = True
            if not found:
                print('oracle: no violation on this tree')
        elif 'text' in case:
            cfg = dict(DEFAULT_CFG)
            cfg.update(case.get('cfg', {}))
            write_cfgs(cfgdir, [cfg])
            r = run_pair(case['text'], cfgdir, 0, cfg)
            print('input :', repr(case['text']))
            print('config:', nondefault(cfg))
            print('output:', repr(r.get('out')))
            viol = list(r['viol'])
            if r['status'] == 'ok':
                for fnl in FILE_NEWLINES:
                    viol += check_cli(case['text'], cfgdir, 0, r['out'], cfg['end_of_line'], fnl)
            if case.get('repo') and case['repo'] != common.REPO:
                print(f'note: recorded against {case["repo"]}, replaying against {common.REPO}')
            for key, what in viol:
                print('oracle:', key, what)
                ctx.violation(key, what, case)
            if not viol:
                print('oracle: no violation on this tree')
            if 'ser_in' in r and ctx.model_available:
                print('lean  :', ctx.driver('fmt', [f'check {int(bool(cfg["sort_files"]))}|{r["ser_in"]}|{r["ser_out"]}']))
        else:
            print('case:', case)
    finally:
        common.rmtree(cfgdir)
