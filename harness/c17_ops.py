"""C17 — the operator table of the printer: for every binary operator (arithmetic, comparison, in / not in, and / or) on
either side, and `not`, unary minus, method call, index, ternary as the outer construct, × every operand shape, the
expression is printed through the REAL AstPrinter and original and re-printed text are EVALUATED (own concrete evaluator
over the real parser's trees) on a grid of small operand values: the value must be preserved. Two variants per entry:
the operand written in parentheses (what a user's file holds) and the same tree without the ParenthesizedNode (what code
that builds nodes, like the rewriter's `old + [new]`, hands to the printer; judged for arithmetic outer operators, the only
ones `maybe_parentheses` is responsible for)."""
from __future__ import annotations

import copy
import itertools
import typing as T

from . import c17_real as R

ARITH = ['+', '-', '*', '/', '%']
CMP_EQ = ['==', '!=']
CMP_ORD = ['<', '<=', '>', '>=']
LOGIC = ['and', 'or']
MEMBER = ['in', 'not in']

# operand / result types: i int, b bool
BIN_TYPES: T.Dict[str, T.List[T.Tuple[str, str, str]]] = {}
for _o in ARITH:
    BIN_TYPES[_o] = [('i', 'i', 'i')]
for _o in CMP_EQ:
    BIN_TYPES[_o] = [('i', 'i', 'b'), ('b', 'b', 'b')]
for _o in CMP_ORD:
    BIN_TYPES[_o] = [('i', 'i', 'b')]
for _o in LOGIC:
    BIN_TYPES[_o] = [('b', 'b', 'b')]
for _o in MEMBER:
    BIN_TYPES[_o] = [('i', 'L', 'b')]

ATOMS = {'i': ['a', 'b', 'c'], 'b': ['p', 'q', 'r'], 'L': ['lst', 'lst', 'lst']}


def inner_forms() -> T.List[T.Tuple[str, str, str]]:
    """(name, text over atoms 2 and 3, result type)"""
    out = []
    for o, sigs in BIN_TYPES.items():
        for lt, rt, res in sigs:
            out.append((o if len(sigs) == 1 else f'{o}[{lt}]', f'{ATOMS[lt][1]} {o} {ATOMS[rt][2]}', res))
    out.append(('not', 'not q', 'b'))
    out.append(('uminus', '-b', 'i'))
    out.append(('ternary[i]', 'q ? b : c', 'i'))
    out.append(('ternary[b]', 'q ? p : r', 'b'))
    return out


def entries() -> T.List[T.Dict[str, str]]:
    """every well-typed (outer, inner, side) with the source text (operand written in parentheses)"""
    out: T.List[T.Dict[str, str]] = []
    for iname, itext, ires in inner_forms():
        par = '(' + itext + ')'
        for o, sigs in BIN_TYPES.items():
            for lt, rt, _res in sigs:
                if lt == ires:
                    out.append({'outer': o, 'inner': iname, 'side': 'left', 'text': f'{par} {o} {ATOMS[rt][0]}'})
                if rt == ires:
                    out.append({'outer': o, 'inner': iname, 'side': 'right', 'text': f'{ATOMS[lt][0]} {o} {par}'})
        if ires == 'b':
            out.append({'outer': 'not', 'inner': iname, 'side': 'operand', 'text': f'not {par}'})
            out.append({'outer': 'ternary', 'inner': iname, 'side': 'condition', 'text': f'{par} ? a : c'})
            out.append({'outer': 'method', 'inner': iname, 'side': 'object', 'text': f'{par}.to_int()'})
        if ires == 'i':
            out.append({'outer': 'uminus', 'inner': iname, 'side': 'operand', 'text': f'-{par}'})
            out.append({'outer': 'method', 'inner': iname, 'side': 'object', 'text': f'{par}.is_even()'})
            out.append({'outer': 'index', 'inner': iname, 'side': 'index', 'text': f'lst[{par}]'})
    out.append({'outer': 'index', 'inner': '+[L]', 'side': 'object', 'text': '(lst + lst)[b]'})
    seen = set()
    uniq = []
    for e in out:
        k = (e['outer'], e['inner'], e['side'])
        if k not in seen:
            seen.add(k)
            uniq.append(e)
    return uniq


class EvalError(Exception):
    pass


def ev(n: T.Any, env: T.Dict[str, T.Any]) -> T.Any:
    """meson semantics of the operators on int / bool / list of int (`/` is floor division)"""
    M = R.mp()
    if isinstance(n, M.ParenthesizedNode):
        return ev(n.inner, env)
    if isinstance(n, M.IdNode):
        return env[n.value]
    if isinstance(n, M.NumberNode):
        return n.value
    if isinstance(n, M.BooleanNode):
        return bool(n.value)
    if isinstance(n, M.ArrayNode):
        return [ev(a, env) for a in n.args.arguments]
    if isinstance(n, M.ArithmeticNode):
        a, b = ev(n.left, env), ev(n.right, env)
        if n.operation == '+':
            if isinstance(a, list) and isinstance(b, list):
                return a + b
        if isinstance(a, bool) or isinstance(b, bool) or not isinstance(a, int) or not isinstance(b, int):
            raise EvalError('type')
        if n.operation == '+':
            return a + b
        if n.operation == '-':
            return a - b
        if n.operation == '*':
            return a * b
        if b == 0:
            raise EvalError('zerodiv')
        return a // b if n.operation == '/' else a % b
    if isinstance(n, M.ComparisonNode):
        a, b = ev(n.left, env), ev(n.right, env)
        if n.ctype in ('in', 'not in'):
            if not isinstance(b, list):
                raise EvalError('type')
            return (a in b) == (n.ctype == 'in')
        if type(a) is not type(b):
            raise EvalError('type')
        if n.ctype == '==':
            return a == b
        if n.ctype == '!=':
            return a != b
        if isinstance(a, bool):
            raise EvalError('type')
        return {'<': a < b, '<=': a <= b, '>': a > b, '>=': a >= b}[n.ctype]
    if isinstance(n, (M.AndNode, M.OrNode)):
        a = ev(n.left, env)
        if not isinstance(a, bool):
            raise EvalError('type')
        if isinstance(n, M.AndNode) and not a:
            return False
        if isinstance(n, M.OrNode) and a:
            return True
        b = ev(n.right, env)
        if not isinstance(b, bool):
            raise EvalError('type')
        return b
    if isinstance(n, M.NotNode):
        a = ev(n.value, env)
        if not isinstance(a, bool):
            raise EvalError('type')
        return not a
    if isinstance(n, M.UMinusNode):
        a = ev(n.value, env)
        if isinstance(a, bool) or not isinstance(a, int):
            raise EvalError('type')
        return -a
    if isinstance(n, M.TernaryNode):
        c = ev(n.condition, env)
        if not isinstance(c, bool):
            raise EvalError('type')
        return ev(n.trueblock if c else n.falseblock, env)
    if isinstance(n, M.IndexNode):
        o, i = ev(n.iobject, env), ev(n.index, env)
        if not isinstance(o, list) or isinstance(i, bool) or not isinstance(i, int) or not -len(o) <= i < len(o):
            raise EvalError('index')
        return o[i]
    if isinstance(n, M.MethodNode):
        o = ev(n.source_object, env)
        m = n.name.value
        if m == 'is_even' and isinstance(o, int) and not isinstance(o, bool):
            return o % 2 == 0
        if m == 'to_int' and isinstance(o, bool):
            return 1 if o else 0
        raise EvalError('method')
    if isinstance(n, M.EmptyNode):
        raise EvalError('empty')
    raise EvalError(type(n).__name__)


def value_vector(node: T.Any) -> T.Tuple[T.Any, ...]:
    out = []
    for a, b, c in itertools.product([-3, -1, 1, 2, 5], repeat=3):
        for p, q, r in [(False, False, True), (True, False, False), (False, True, True), (True, True, False)]:
            env = {'a': a, 'b': b, 'c': c, 'p': p, 'q': q, 'r': r, 'lst': [2, -1, 5, 1, 3, -3, 7]}
            try:
                out.append(ev(node, env))
            except EvalError as e:
                out.append('ERR:' + str(e))
    return tuple(out)


def strip_parens(node: T.Any) -> T.Any:
    """the same tree without ParenthesizedNode (a copy)"""
    M = R.mp()
    node = copy.copy(node)
    if isinstance(node, M.ParenthesizedNode):
        return strip_parens(node.inner)
    for attr in ('left', 'right', 'value', 'iobject', 'index', 'source_object', 'condition', 'trueblock', 'falseblock'):
        if hasattr(node, attr) and isinstance(getattr(node, attr), M.BaseNode):
            setattr(node, attr, strip_parens(getattr(node, attr)))
    if hasattr(node, 'args') and isinstance(node.args, M.ArgumentNode):
        node.args = copy.copy(node.args)
        node.args.arguments = [strip_parens(a) for a in node.args.arguments]
        node.args.kwargs = {k: strip_parens(v) for k, v in node.args.kwargs.items()}
    return node


def real_print(node: T.Any) -> str:
    from mesonbuild.ast import AstPrinter
    p = AstPrinter()
    node.accept(p)
    return p.result


def check_entry(e: T.Dict[str, str]) -> T.List[T.Dict[str, T.Any]]:
    """results for the two variants: {'variant', 'printed', 'ok', 'why'}"""
    M = R.mp()
    st = M.Parser('v = ' + e['text'] + '\n', 'ops').parse().lines[0]
    want = value_vector(st.value)
    res = []
    variants = [('written', st.value)]
    if e['outer'] in ARITH:
        variants.append(('built', strip_parens(st.value)))
    for name, tree in variants:
        printed = real_print(tree)
        ok, why = True, ''
        try:
            back = M.Parser('v = ' + printed + '\n', 'ops').parse()
            if len(back.lines) != 1 or not isinstance(back.lines[0], M.AssignmentNode):
                ok, why = False, 'the printed text is not one expression'
            else:
                got = value_vector(back.lines[0].value)
                if got != want:
                    k = next(i for i, (x, y) in enumerate(zip(want, got)) if x != y)
                    ok, why = False, f'value changes (e.g. grid point {k}: {want[k]!r} -> {got[k]!r})'
        except Exception as ex:
            ok, why = False, f'the printed text does not parse ({type(ex).__name__})'
        try:
            tree_ser = R.ser(tree)
        except R.Unsupported:
            tree_ser = None
        res.append({'variant': name, 'printed': printed, 'ok': ok, 'why': why, 'tree': tree_ser})
    return res


def key_of(e: T.Dict[str, str]) -> str:
    return 'printer:parens:%s:%s:%s' % (e['outer'].replace(' ', '-'), e['inner'].replace(' ', '-'), e['side'])
