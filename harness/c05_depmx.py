"""Dependency-object matrix for C05: header provenance x reach path x *transformation chain* x consumer kind.

A generated header travels from the step that makes it to the compile steps that include it inside a dependency object, and
dependency objects can be copied and reshaped before a target sees them.  This module enumerates, from the live interpreter
classes, every method of a dependency object that returns a dependency (`DependencyHolder.METHODS` with return annotation
`Dependency`; the keyword flags of `partial_dependency` from `_PARTIAL_DEP_KWARGS`) and builds projects in which

  provenance      a custom_target header, a custom_target index, a generator() header, a vcs_tag() header, a configure_file()
                  header
  reach           carried by the dependency itself, one or two declare_dependency(dependencies:) levels down, next to the
                  library in a sibling dependency, exported by a subproject variable, found through
                  meson.override_dependency() + dependency()
  chain           0-2 steps drawn from: the enumerated methods (with argument variations) + re-wrapping in
                  declare_dependency(dependencies: [..]) + override_dependency()/dependency() round trip
  consumer        executable, static / shared / both library, a target fed through import('sourceset')

and each consumer's C file includes the header and calls the library **exactly when the documented semantics of the chain keeps
the sources / the link** (what each method keeps is the table `SEMANTICS`; a method that is enumerated but unknown to the
table is assumed to keep everything and is called without arguments, and reported).  So a transformation that loses a
generated source which it documents to keep leaves a compile step that includes a header no declared ancestor produces —
hermetic replay fails — and one that documents to drop it is encoded as "the consumer does not include it" (the oracle stays
exact).  `add_project_dependencies()` rejects dependencies that carry sources or libraries (`get_leaf_external_dependencies`),
so it cannot carry a generated header and is not part of the matrix.
"""
from __future__ import annotations

import inspect
import itertools
import os
import typing as T

from . import common

TOOL_PY = open(os.path.join(os.path.dirname(__file__), 'c05_projects', 'tool.py'), encoding='utf-8').read()


def live_methods() -> T.Tuple[T.List[str], T.List[str]]:
    """(names of the dependency-returning methods of a dependency object, flags of partial_dependency) from the code in REPO"""
    from mesonbuild.interpreter import interpreterobjects as io
    names = []
    for name, f in io.DependencyHolder.METHODS.items():
        ann = inspect.signature(inspect.unwrap(f)).return_annotation
        if ann == 'Dependency' or getattr(ann, '__name__', '') == 'Dependency':
            names.append(name)
    flags = [k.name for k in io._PARTIAL_DEP_KWARGS]
    return sorted(names), flags


# what a chain step keeps of (sources, include dirs, link); state = (S, I, L)
def _keep(st, _arg):
    return st


SEMANTICS: T.Dict[str, T.Callable] = {
    'partial_dependency': lambda st, flags: (st[0] and 'sources' in flags, st[1] and 'includes' in flags, st[2] and 'links' in flags),
    'as_system': _keep,
    'as_link_whole': _keep,
    'as_static': _keep,
    'as_shared': _keep,
    'wrap': _keep,
    'wrap-list': _keep,
    'override-lookup': _keep,
}
PSEUDO = ['wrap', 'wrap-list', 'override-lookup']

PROVENANCES = ['ct', 'ct-index', 'generator', 'vcs_tag', 'configure_file']
REACHES = ['direct', 'nested1', 'nested2', 'sibling', 'sub-variable', 'sub-override']
CONSUMERS = ['static_library', 'executable', 'shared_library', 'both_libraries', 'sourceset']

# header file, macro expression, source expression (in the project that owns it) per provenance
PROV = {
    'ct': ('mx_ct.h', 'MX_CT', 'h_ct'),
    'ct-index': ('mx_pair.h', 'MX_PAIRFN', 'h_pair[1]'),
    'generator': (None, None, None),            # per base: g.process('<ident>.in') -> <ident>.h, macro <IDENT>
    'vcs_tag': ('mx_vcs.h', '(int)sizeof(MX_VCS)', 'h_vcs'),
    'configure_file': ('mx_cfg.h', 'MX_CFG', None),
}

PRELUDE = '''tool = find_program('tool.py')
inc = include_directories('.')
g = generator(tool, output: ['@BASENAME@.c', '@BASENAME@.h'], arguments: ['gen', '@INPUT@', '@OUTPUT0@', '@OUTPUT1@'])
h_ct = custom_target('h_ct', output: '{p}mx_ct.h', command: [tool, 'hdr', '@OUTPUT@', '{P}MX_CT'])
h_pair = custom_target('h_pair', output: ['{p}mx_pair.c', '{p}mx_pair.h'], command: [tool, 'pair', '@OUTPUT0@', '@OUTPUT1@', '{p}mx_pairfn'])
h_vcs = vcs_tag(input: '{p}mx_vcs.h.in', output: '{p}mx_vcs.h', fallback: 'fallback-7')
h_cfg = configure_file(output: '{p}mx_cfg.h', configuration: {{'{P}MX_CFG': 3}})
lib_static = static_library('{p}mxlib', '{p}mxlib.c')
lib_both = both_libraries('{p}mxboth', '{p}mxboth.c')
dep_empty = declare_dependency()
'''


class MxGen:
    def __init__(self, rng, methods: T.List[str], flags: T.List[str]):
        self.rng = rng
        self.methods = methods
        self.flags = flags
        self.files: T.Dict[str, str] = {'tool.py': TOOL_PY, 'subprojects/mx/tool.py': TOOL_PY}
        self.root: T.List[str] = []
        self.sub: T.List[str] = []
        self.n = 0
        self.cells: T.List[dict] = []
        self.unknown = [m for m in methods if m not in SEMANTICS]
        self.sub_exports: T.Dict[T.Tuple[str, str], T.Tuple[str, str, str]] = {}

    def nid(self) -> int:
        self.n += 1
        return self.n

    def start(self) -> None:
        for proj, p in (('', ''), ('subprojects/mx', 's')):
            self.files[os.path.join(proj, p + 'mx_vcs.h.in')] = f'#define {p.upper()}MX_VCS "@VCS_TAG@"\n'
            self.files[os.path.join(proj, p + 'mxlib.c')] = f'int {p}mxlib(void) {{ return 5; }}\n'
            self.files[os.path.join(proj, p + 'mxboth.c')] = f'int {p}mxboth(void) {{ return 6; }}\n'
        self.root.append("project('c05 depmx', 'c')")
        self.root.append(PRELUDE.format(p='', P=''))
        self.root.append("ssmod = import('sourceset')")
        self.root.append("sp = subproject('mx')")
        self.sub.append("project('mx', 'c')")
        self.sub.append(PRELUDE.format(p='s', P='S'))

    # ---- the header and the dependency that carries it
    def base(self, prov: str, reach: str, lib: str) -> dict:
        """emit the dependency object; -> {'expr', 'hdr', 'macro', 'fn', 'buildtime'}"""
        k = self.nid()
        in_sub = reach.startswith('sub-')
        out = self.sub if in_sub else self.root
        p = 's' if in_sub else ''
        proj = 'subprojects/mx' if in_sub else ''
        if prov == 'generator':
            ident = f'{p}mxg{k}'
            self.files[os.path.join(proj, ident + '.in')] = ident + '\n'
            hdr, macro, src = ident + '.h', ident.upper(), f"g.process('{ident}.in')"
        else:
            hdr, macro, src = PROV[prov]
            hdr = p + hdr
            macro = macro.replace('MX_', p.upper() + 'MX_')
        libvar = 'lib_static' if lib == 'static' else 'lib_both'
        fn = p + ('mxlib' if lib == 'static' else 'mxboth')
        srckw = f'sources: {src}, ' if src else ''
        v = f'b{k}'
        shape = 'direct' if in_sub else reach
        if shape == 'direct':
            out.append(f'{v} = declare_dependency({srckw}include_directories: inc, link_with: {libvar})')
        elif shape in ('nested1', 'nested2'):
            out.append(f'{v}_i = declare_dependency({srckw}include_directories: inc)')
            inner = f'{v}_i'
            if shape == 'nested2':
                out.append(f'{v}_j = declare_dependency(dependencies: {inner})')
                inner = f'{v}_j'
            out.append(f'{v} = declare_dependency(dependencies: {inner}, link_with: {libvar})')
        else:   # sibling
            out.append(f'{v} = declare_dependency(dependencies: [declare_dependency({srckw[:-2]}), '
                       f'declare_dependency(include_directories: inc, link_with: {libvar})])')
        expr = v
        if reach == 'sub-variable':
            expr = f"sp.get_variable('{v}')"
        elif reach == 'sub-override':
            self.sub.append(f"meson.override_dependency('mx-dep-{k}', {v})")
            expr = f"dependency('mx-dep-{k}')"
        return {'expr': expr, 'hdr': hdr, 'macro': macro, 'fn': fn, 'buildtime': src is not None,
                'incvar': "sp.get_variable('inc')" if in_sub else 'inc'}

    # ---- one transformation step
    def step_expr(self, x: str, step: T.Tuple[str, T.Any]) -> str:
        name, arg = step
        k = self.nid()
        v = f'x{k}'
        if name == 'partial_dependency':
            self.root.append(f"{v} = {x}.partial_dependency({', '.join(f'{f}: true' for f in arg)})")
        elif name == 'as_system':
            self.root.append(f"{v} = {x}.as_system({repr(arg) if arg else ''})")
        elif name in ('as_static', 'as_shared'):
            self.root.append(f"{v} = {x}.{name}(recursive: {'true' if arg else 'false'})")
        elif name == 'wrap':
            self.root.append(f'{v} = declare_dependency(dependencies: {x})')
        elif name == 'wrap-list':
            self.root.append(f'{v} = declare_dependency(dependencies: [dep_empty, {x}])')
        elif name == 'override-lookup':
            self.root.append(f"meson.override_dependency('mx-ov-{k}', {x})")
            self.root.append(f"{v} = dependency('mx-ov-{k}')")
        else:   # as_link_whole and anything enumerated that the table does not know: no arguments
            self.root.append(f'{v} = {x}.{name}()')
        return v

    def random_step(self) -> T.Tuple[str, T.Any]:
        rng = self.rng
        name = rng.choice(self.methods + PSEUDO)
        return name, self.arg_for(name)

    def arg_for(self, name: str) -> T.Any:
        rng = self.rng
        if name == 'partial_dependency':
            return tuple(f for f in self.flags if rng.random() < 0.6)
        if name == 'as_system':
            return rng.choice([None, 'system', 'preserve', 'non-system'])
        if name in ('as_static', 'as_shared'):
            return rng.random() < 0.5
        return None

    # ---- one cell of the matrix
    def cell(self, prov: str, reach: str, chain: T.List[T.Tuple[str, T.Any]], consumer: str) -> None:
        rng = self.rng
        lib = 'static' if any(s[0] == 'as_link_whole' for s in chain) or rng.random() < 0.5 else 'both'
        b = self.base(prov, reach, lib)
        st = (True, True, True)
        x = b['expr']
        for s in chain:
            x = self.step_expr(x, s)
            st = SEMANTICS.get(s[0], _keep)(st, s[1])
        S, I, L = st
        k = self.nid()
        include = S or not b['buildtime']
        body = ''
        if include:
            body += f'#include "{b["hdr"]}"\n'
        if L:
            body += f'int {b["fn"]}(void);\n'
        expr = ' + '.join([str(k)] + ([b['macro']] if include else []) + ([b['fn'] + '()'] if L else []))
        if consumer == 'executable':
            body += f'int main(void) {{ return ({expr}) == -1; }}\n'
        else:
            body += f'int mxc{k}(void) {{ return {expr}; }}\n'
        self.files[f'mxc{k}.c'] = body
        kw = f', dependencies: {x}'
        if include and not I and prov != 'generator':
            kw += f", include_directories: {b['incvar']}"
        if consumer == 'sourceset':
            self.root.append(f'ss{k} = ssmod.source_set()')
            self.root.append(f"ss{k}.add(when: {x}, if_true: files('mxc{k}.c'))")
            self.root.append(f'sc{k} = ss{k}.apply(configuration_data())')
            extra = f", include_directories: {b['incvar']}" if include and not I and prov != 'generator' else ''
            self.root.append(f"static_library('mxc{k}', sc{k}.sources(), dependencies: sc{k}.dependencies(){extra})")
        else:
            self.root.append(f"{consumer}('mxc{k}', 'mxc{k}.c'{kw})")
        self.cells.append({'consumer': f'mxc{k}', 'provenance': prov, 'reach': reach, 'kind': consumer,
                           'chain': [[s[0], list(s[1]) if isinstance(s[1], tuple) else s[1]] for s in chain],
                           'keeps': {'sources': S, 'includes': I, 'links': L}, 'includes_header': include})

    def finish(self) -> dict:
        if "sp.get_variable('inc')" in '\n'.join(self.root):
            pass
        self.files['meson.build'] = '\n'.join(self.root) + '\n'
        self.files['subprojects/mx/meson.build'] = '\n'.join(self.sub) + '\n'
        return {'files': self.files, 'cells': self.cells, 'unknown_methods': self.unknown}


def key_flag_subsets(flags: T.List[str]) -> T.List[T.Tuple[str, ...]]:
    """all flags; everything but each single flag dropped would be 5 more — keep: all, sources only, the usual
    compile-only trio, everything but sources, nothing"""
    allf = tuple(flags)
    res = [allf, tuple(f for f in flags if f == 'sources'),
           tuple(f for f in flags if f in ('compile_args', 'includes', 'sources')),
           tuple(f for f in flags if f != 'sources'), ()]
    return list(dict.fromkeys(res))


def systematic_steps(methods: T.List[str], flags: T.List[str]) -> T.List[T.Tuple[str, T.Any]]:
    steps: T.List[T.Tuple[str, T.Any]] = []
    for m in methods:
        if m == 'partial_dependency':
            steps += [(m, fs) for fs in key_flag_subsets(flags)]
        elif m == 'as_system':
            steps += [(m, None), (m, 'preserve')]
        elif m in ('as_static', 'as_shared'):
            steps += [(m, True)]
        else:
            steps.append((m, None))
    steps += [(p, None) for p in PSEUDO]
    return steps


def gen_systematic(rng, prov: str, reach: str, n_random2: int) -> dict:
    """every single enumerated step (with its argument variations) applied to a dependency that carries a header of provenance
    `prov` along `reach`, plus `n_random2` random cells with chains of length two over all provenances / reaches / consumers"""
    methods, flags = live_methods()
    g = MxGen(rng, methods, flags)
    g.start()
    cons = itertools.cycle(['static_library', 'static_library', 'executable', 'static_library', 'sourceset', 'shared_library'])
    g.cell(prov, reach, [], next(cons))
    for s in systematic_steps(methods, flags):
        g.cell(prov, reach, [s], next(cons))
    for _ in range(n_random2):
        g.cell(rng.choice(PROVENANCES), rng.choice(REACHES), [g.random_step(), g.random_step()], rng.choice(CONSUMERS))
    return g.finish()


def gen_random(rng, n_cells: int) -> dict:
    methods, flags = live_methods()
    g = MxGen(rng, methods, flags)
    g.start()
    for _ in range(n_cells):
        chain = [g.random_step() for _ in range(rng.choice([0, 1, 1, 2, 2, 2]))]
        g.cell(rng.choice(PROVENANCES), rng.choice(REACHES), chain, rng.choice(CONSUMERS))
    return g.finish()
