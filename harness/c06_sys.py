"""C06 whole-system runs: configure fixed projects with the real `meson setup` under varied hash seeds,
environment order, directory-listing order and build-directory histories; snapshot the generated text.

Everything random is derived from the integers in a plan (which come from ctx.rng), so a plan is a
complete replay description.
"""
from __future__ import annotations

import hashlib
import os
import random
import shutil
import stat
import subprocess
import sys
import typing as T

from . import common

HERE = os.path.dirname(os.path.abspath(__file__))
PROJECTS = os.path.join(HERE, 'c06_projects')
SHIM = os.path.join(HERE, 'c06_shim')


def fakebin() -> str:
    d = os.path.join(HERE, 'c06_fakebin')
    n = os.path.join(d, 'ninja')
    if not os.path.exists(n):  # self-heal (the file is checked in; this is only a fallback)
        os.makedirs(d, exist_ok=True)
        with open(n, 'w') as f:
            f.write('#!/bin/sh\ncase "$1" in\n  --version) echo 1.11.1 ;;\nesac\nexit 0\n')
        os.chmod(n, 0o755)
    return d


def project_names() -> T.List[str]:
    return sorted(d for d in os.listdir(PROJECTS) if os.path.isfile(os.path.join(PROJECTS, d, 'meson.build')))


# the same *set* of variables in every run; only their order in the environment block varies
ENV_VARS = {
    'HOME': '/nonexistent-c06-home',
    'LANG': 'C.UTF-8',
    'LC_ALL': 'C.UTF-8',
    'TERM': 'dumb',
    'CFLAGS': '-DENV_CFLAG_Z -DENV_CFLAG_A',
    'CXXFLAGS': '-DENV_CXXFLAG',
    'LDFLAGS': '-Wl,-O1',
    'CPPFLAGS': '-DENV_CPPFLAG',
    'AAA_C06': '1',
    'ZZZ_C06': '2',
    'MMM_C06': '3',
    'PYTHONDONTWRITEBYTECODE': '1',
    'MESON_FORCE_BACKTRACE': '1',
}


def make_env(hashseed: T.Union[int, str], envseed: int, listseed: T.Union[int, str]) -> T.Dict[str, str]:
    items = dict(ENV_VARS)
    items['PATH'] = fakebin() + ':/usr/local/bin:/usr/bin:/bin'
    items['PYTHONPATH'] = SHIM + os.pathsep + common.REPO
    items['PYTHONHASHSEED'] = str(hashseed)
    items['C06_LISTDIR_SEED'] = str(listseed)
    keys = sorted(items)
    if envseed == 0:
        pass
    elif envseed == 1:
        keys.reverse()
    else:
        random.Random(envseed).shuffle(keys)
    return {k: items[k] for k in keys}  # dict order = order of the envp block given to execve


def copy_tree(src: str, dst: str, treeseed: int) -> None:
    """recreate the source tree creating directory entries in an order chosen by treeseed; file
    mtimes are pinned so that source timestamps are the same in every run"""
    files: T.List[str] = []
    for root, dirs, fs in os.walk(src):
        dirs.sort()
        for f in sorted(fs):
            files.append(os.path.relpath(os.path.join(root, f), src))
    if treeseed == 1:
        files.reverse()
    elif treeseed > 1:
        random.Random(treeseed).shuffle(files)
    for rel in files:
        d = os.path.join(dst, rel)
        os.makedirs(os.path.dirname(d), exist_ok=True)
        shutil.copyfile(os.path.join(src, rel), d)
        shutil.copymode(os.path.join(src, rel), d)
        os.utime(d, ns=(1_600_000_000_000_000_000, 1_600_000_000_000_000_000))


# ---------------------------------------------------------------- snapshot

def classify(rel: str) -> str:
    """class of a file of the build directory (relative posix path)"""
    parts = rel.split('/')
    base = parts[-1]
    if rel == 'build.ninja':
        return 'build.ninja'
    if rel == 'compile_commands.json':
        return 'compile_commands'
    if parts[0] == 'meson-info':
        if base.startswith('intro-') and base.endswith('.json'):
            return 'intro'
        return 'meson-info-other'
    if parts[0] == 'meson-logs':
        return 'log'
    if base.endswith('.pc'):
        return 'pkgconfig'
    if base == 'depmf.json':
        return 'depmf'
    if parts[0] == 'meson-private':
        if base.endswith(('.dat', '.pickle')):
            return 'private-pickle'
        if base == 'cmd_line.txt':
            return 'cmd_line'
        return 'private-other'
    if parts[0] in ('meson-uninstalled',):
        return 'pkgconfig'
    if base.startswith('.ninja_') or base in ('.gitignore', '.hgignore'):
        return 'aux'
    return 'configure-output'


# classes named by the property statement as generated text that must be byte-identical
COMPARED = ('build.ninja', 'intro', 'compile_commands', 'pkgconfig', 'depmf', 'configure-output')
# classes written through replace_if_different / whose mtime a build tool keys on
MTIME_CLASSES = ('configure-output',)


def snapshot(build: str, root: str) -> T.Dict[str, T.Dict[str, T.Any]]:
    out: T.Dict[str, T.Dict[str, T.Any]] = {}
    rootb = root.encode()
    for r, dirs, files in os.walk(build):
        dirs.sort()
        for f in files:
            p = os.path.join(r, f)
            rel = os.path.relpath(p, build).replace(os.sep, '/')
            try:
                st = os.lstat(p)
                if not stat.S_ISREG(st.st_mode):
                    continue
                data = open(p, 'rb').read()
            except OSError:
                continue
            out[rel] = {'class': classify(rel), 'data': data.replace(rootb, b'@ROOT@'), 'mtime': st.st_mtime_ns,
                        'ino': st.st_ino, 'mode': stat.S_IMODE(st.st_mode)}
    return out


def run_meson(args: T.List[str], env: T.Dict[str, str], cwd: str, timeout: int = 300) -> T.Tuple[int, str]:
    p = subprocess.run([sys.executable, os.path.join(common.REPO, 'meson.py')] + args, env=env, cwd=cwd,
                       stdout=subprocess.PIPE, stderr=subprocess.STDOUT, timeout=timeout)
    return p.returncode, p.stdout.decode('utf-8', 'replace') + f'\n[exit status {p.returncode}]'


def run_plan(project_src: str, root: str, steps: T.List[dict], extra_args: T.Sequence[str] = ()) -> T.List[dict]:
    """execute the steps of one project sequentially at the fixed location `root` (src in root/src,
    build dir root/build); returns one record per step:
       {'step':…, 'rc':…, 'log':…, 'snap': {rel: {...}}, 'before': snapshot before a reconfigure}"""
    src = os.path.join(root, 'src')
    build = os.path.join(root, 'build')
    res: T.List[dict] = []
    for st in steps:
        env = make_env(st['hashseed'], st['envseed'], st['listseed'])
        rec: T.Dict[str, T.Any] = {'step': st}
        if st['kind'] == 'fresh':
            shutil.rmtree(src, ignore_errors=True)
            shutil.rmtree(build, ignore_errors=True)
            copy_tree(project_src, src, st['treeseed'])
            for _attempt in range(3):
                # death by signal (machine under memory pressure) is infrastructure: start over from an empty build dir
                shutil.rmtree(build, ignore_errors=True)
                rc, log = run_meson(['setup', *extra_args, 'build', 'src'], env, root)
                if rc >= 0:
                    break
        elif st['kind'] == 'reconf':
            rec['before'] = snapshot(build, root)
            rc, log = run_meson(['setup', '--reconfigure', 'build', 'src'], env, root)
        elif st['kind'] == 'wipe':
            rc, log = run_meson(['setup', '--wipe', 'build', 'src'], env, root)
        elif st['kind'] == 'roundtrip':
            # change an option and change it back: same sources, same options, different history
            rc, log = run_meson(['configure', 'build', '-Dwerror=true', '-Dstrip=true'], env, root)
            if rc == 0:
                rc, log = run_meson(['setup', '--reconfigure', 'build', 'src'], env, root)
            if rc == 0:
                rc, log = run_meson(['configure', 'build', '-Dwerror=false', '-Dstrip=false'], env, root)
            if rc == 0:
                rc, log = run_meson(['setup', '--reconfigure', 'build', 'src'], env, root)
        else:
            raise ValueError(st['kind'])
        if rc < 0:
            raise common.ToolFailure(f'meson killed by signal {-rc} during {st["kind"]} of {project_src}')
        rec['rc'] = rc
        rec['log'] = log[-3000:]
        rec['snap'] = snapshot(build, root) if rc == 0 else {}
        res.append(rec)
    return res


def digest(b: bytes) -> str:
    return hashlib.sha256(b).hexdigest()[:12]
