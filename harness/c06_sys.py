"""C06 whole-system runs: configure fixed projects with the real `meson setup` under varied hash seeds,
environment order, directory-listing order and build-directory histories; snapshot the generated text.

Everything random is derived from the integers in a plan (which come from ctx.rng), so a plan is a
complete replay description.
"""
from __future__ import annotations

import hashlib
import os
import random
import shutil
import stat
import subprocess
import sys
import typing as T

from . import common

HERE = os.path.dirname(os.path.abspath(__file__))
PROJECTS = os.path.join(HERE, 'c06_projects')
SHIM = os.path.join(HERE, 'c06_shim')


def fakebin() -> str:
    d = os.path.join(HERE, 'c06_fakebin')
    n = os.path.join(d, 'ninja')
    if not os.path.exists(n):  # self-heal (the file is checked in; this is only a fallback)
        os.makedirs(d, exist_ok=True)
        with open(n, 'w') as f:
            f.write('#!/bin/sh\ncase "$1" in\n  --version) echo 1.11.1 ;;\nesac\nexit 0\n')
        os.chmod(n, 0o755)
    return d


def project_names() -> T.List[str]:
    return sorted(d for d in os.listdir(PROJECTS) if os.path.isfile(os.path.join(PROJECTS, d, 'meson.build')))


# the same *set* of variables in every run; only their order in the environment block varies
ENV_VARS = {
    'HOME': '/nonexistent-c06-home',
    'LANG': 'C.UTF-8',
    'LC_ALL': 'C.UTF-8',
    'TERM': 'dumb',
    'CFLAGS': '-DENV_CFLAG_Z -DENV_CFLAG_A',
    'CXXFLAGS': '-DENV_CXXFLAG',
    'LDFLAGS': '-Wl,-O1',
    'CPPFLAGS': '-DENV_CPPFLAG',
    'AAA_C06': '1',
    'ZZZ_C06': '2',
    'MMM_C06': '3',
    'PYTHONDONTWRITEBYTECODE': '1',
    'MESON_FORCE_BACKTRACE': '1',
}


def prepare_ext(project_src: str, root: str) -> T.Tuple[T.Dict[str, str], T.List[str]]:
    """Projects with a c06_ext.json link against libraries that exist outside the source tree: build them once per
    history with gcc into distinct directories below <root>/ext, write their .pc files, and return the environment
    additions (PKG_CONFIG_PATH) and the extra `meson setup` arguments (-D<option>=<root>/ext)."""
    import json
    f = os.path.join(project_src, EXT_FILE)
    if not os.path.exists(f):
        return {}, []
    spec = json.load(open(f))
    ext = os.path.join(root, 'ext')
    pcdir = os.path.join(ext, 'pc')
    if not os.path.isdir(pcdir):
        os.makedirs(pcdir)
        built: T.Dict[str, str] = {}
        for lib in spec['libs']:
            d = os.path.join(ext, lib['dir'])
            os.makedirs(d, exist_ok=True)
            c = os.path.join(d, lib['name'] + '.c')
            with open(c, 'w') as fh:
                fh.write(f'int {lib["name"]}_fn(void) {{ return 1; }}\n')
            out = os.path.join(d, f'lib{lib["name"]}.so')
            cmd = ['gcc', '-shared', '-fPIC', '-o', out, c] + [built[x] for x in lib['links']]
            p = subprocess.run(cmd, stdout=subprocess.PIPE, stderr=subprocess.STDOUT)
            if p.returncode != 0:
                raise common.ToolFailure(f'could not build external library {lib["name"]}: {p.stdout[-300:]!r}')
            os.unlink(c)
            built[lib['name']] = out
        for name, text in spec['pc'].items():
            with open(os.path.join(pcdir, name + '.pc'), 'w') as fh:
                fh.write(text.replace('@EXT@', ext))
        for inc in ('inc_z', 'inc_a', 'inc_b'):
            os.makedirs(os.path.join(ext, inc), exist_ok=True)
    return {'PKG_CONFIG_PATH': pcdir}, [f'-D{spec["setup_option"]}={ext}']


def make_env(hashseed: T.Union[int, str], envseed: int, listseed: T.Union[int, str],
             extra: T.Optional[T.Dict[str, str]] = None) -> T.Dict[str, str]:
    items = dict(ENV_VARS)
    items.update(extra or {})
    items['PATH'] = fakebin() + ':/usr/local/bin:/usr/bin:/bin'
    items['PYTHONPATH'] = SHIM + os.pathsep + common.REPO
    items['PYTHONHASHSEED'] = str(hashseed)
    items['C06_LISTDIR_SEED'] = str(listseed)
    keys = sorted(items)
    if envseed == 0:
        pass
    elif envseed == 1:
        keys.reverse()
    else:
        random.Random(envseed).shuffle(keys)
    return {k: items[k] for k in keys}  # dict order = order of the envp block given to execve


MODE_VARIANTS_PLAIN = [0o644, 0o444, 0o600, 0o664, 0o640]
MODE_VARIANTS_EXEC = [0o755, 0o555, 0o700, 0o775, 0o750]
MODE_VARIANTS_DIR = [0o755, 0o555, 0o750, 0o700]
T_OLD = 1_577_836_800          # 2020-01-01
PLAN_FILE = 'c06_plan.json'    # per project: {'quick_fresh': n} fresh configurations in the quick tier (default 4)
EXT_FILE = 'c06_ext.json'      # per project: external shared libraries + .pc files the harness builds below <root>/ext
MODES_FILE = 'c06_modes.json'  # per project: {relative path: "octal mode"}, applied in every run, not copied


def force_rmtree(path: str) -> None:
    """rmtree that copes with the read-only directories the materialiser creates"""
    if os.path.isdir(path) and not os.path.islink(path):
        for r, dirs, _f in os.walk(path):
            for d in dirs:
                q = os.path.join(r, d)
                if not os.path.islink(q):
                    try:
                        os.chmod(q, 0o755)
                    except OSError:
                        pass
        try:
            os.chmod(path, 0o755)
        except OSError:
            pass
    shutil.rmtree(path, ignore_errors=True)


def copy_tree(src: str, dst: str, treeseed: int, metaseed: int = 0) -> None:
    """Recreate the source tree.  Besides the bytes, configuration can read file *metadata*, so that is a
    varied dimension too (it must never change the generated bytes):
      treeseed  order in which directory entries are created
      metaseed  0: modes as checked in, every mtime 2020-01-01;  otherwise, per file and derived from metaseed:
                permission bits (0644/0444/0600/0664/0640, or 0755/0555/0700/0775/0750 for executables: the owner's
                x bit is meaning, it is kept), directory modes (0755/0555/0750/0700), and an mtime regime
                (all equal and old / distinct and old / now / a mix of old and just-before-now; never in the
                future: meson refuses that as clock skew)
    Symbolic links of the project are recreated as links.  Modes listed in <project>/c06_modes.json are applied
    in every run (git only stores the x bit)."""
    import json
    import time
    import zlib
    files: T.List[str] = []
    alldirs: T.List[str] = []
    for root, dirs, fs in os.walk(src):
        dirs.sort()
        for d in list(dirs):
            if os.path.islink(os.path.join(root, d)):
                dirs.remove(d)
                files.append(os.path.relpath(os.path.join(root, d), src))
            else:
                alldirs.append(os.path.relpath(os.path.join(root, d), src))
        for f in sorted(fs):
            rel = os.path.relpath(os.path.join(root, f), src)
            if rel not in (MODES_FILE, PLAN_FILE, EXT_FILE):
                files.append(rel)
    forced: T.Dict[str, int] = {}
    mf = os.path.join(src, MODES_FILE)
    if os.path.exists(mf):
        forced = {k: int(v, 8) for k, v in json.load(open(mf)).items()}
    order = list(files)
    if treeseed == 1:
        order.reverse()
    elif treeseed > 1:
        random.Random(treeseed).shuffle(order)
    regime = metaseed % 4
    now = int(time.time())
    for rel in order:
        s, d = os.path.join(src, rel), os.path.join(dst, rel)
        os.makedirs(os.path.dirname(d), exist_ok=True)
        if os.path.islink(s):
            os.symlink(os.readlink(s), d)
            continue
        shutil.copyfile(s, d)
        mode = stat.S_IMODE(os.stat(s).st_mode)
        h = zlib.crc32(f'{metaseed}\0{rel}'.encode())
        if metaseed:
            mode = (MODE_VARIANTS_EXEC if mode & 0o100 else MODE_VARIANTS_PLAIN)[h % 5]
        mode = forced.get(rel, mode)
        os.chmod(d, mode)
        t = {0: T_OLD, 1: T_OLD + 1 + files.index(rel), 2: now, 3: now - 2 - files.index(rel) if h % 2 else T_OLD}[regime]
        os.utime(d, ns=(t * 10**9, t * 10**9))
    if metaseed:
        for rel in sorted(alldirs, reverse=True):      # deepest first; the tree is complete by now
            h = zlib.crc32(f'{metaseed}\0dir\0{rel}'.encode())
            os.chmod(os.path.join(dst, rel), MODE_VARIANTS_DIR[h % 4])


# ---------------------------------------------------------------- snapshot

def classify(rel: str) -> str:
    """class of a file of the build directory (relative posix path)"""
    parts = rel.split('/')
    base = parts[-1]
    if rel == 'build.ninja':
        return 'build.ninja'
    if rel == 'compile_commands.json':
        return 'compile_commands'
    if parts[0] == 'meson-info':
        if base.startswith('intro-') and base.endswith('.json'):
            return 'intro'
        return 'meson-info-other'
    if parts[0] == 'meson-logs':
        return 'log'
    if base.endswith('.pc'):
        return 'pkgconfig'
    if base == 'depmf.json':
        return 'depmf'
    if parts[0] == 'meson-private':
        if base.endswith(('.dat', '.pickle')):
            return 'private-pickle'
        if base == 'cmd_line.txt':
            return 'cmd_line'
        return 'private-other'
    if parts[0] in ('meson-uninstalled',):
        return 'pkgconfig'
    if base.startswith('.ninja_') or base in ('.gitignore', '.hgignore'):
        return 'aux'
    return 'configure-output'


# classes named by the property statement as generated text that must be byte-identical
COMPARED = ('build.ninja', 'intro', 'compile_commands', 'pkgconfig', 'depmf', 'configure-output')
# classes written through replace_if_different / whose mtime a build tool keys on
MTIME_CLASSES = ('configure-output',)


def snapshot(build: str, root: str) -> T.Dict[str, T.Dict[str, T.Any]]:
    out: T.Dict[str, T.Dict[str, T.Any]] = {}
    rootb = root.encode()
    for r, dirs, files in os.walk(build):
        dirs.sort()
        for f in files:
            p = os.path.join(r, f)
            rel = os.path.relpath(p, build).replace(os.sep, '/')
            try:
                st = os.lstat(p)
                if not stat.S_ISREG(st.st_mode):
                    continue
                data = open(p, 'rb').read()
            except OSError:
                continue
            out[rel] = {'class': classify(rel), 'data': data.replace(rootb, b'@ROOT@'), 'mtime': st.st_mtime_ns,
                        'ino': st.st_ino, 'mode': stat.S_IMODE(st.st_mode)}
    return out


def run_meson(args: T.List[str], env: T.Dict[str, str], cwd: str, timeout: int = 300) -> T.Tuple[int, str]:
    p = subprocess.run([sys.executable, os.path.join(common.REPO, 'meson.py')] + args, env=env, cwd=cwd,
                       stdout=subprocess.PIPE, stderr=subprocess.STDOUT, timeout=timeout)
    return p.returncode, p.stdout.decode('utf-8', 'replace') + f'\n[exit status {p.returncode}]'


GEOMETRIES = ('sibling', 'intree', 'intree-sub', 'symlink')
SPELLINGS = ('rel', 'abs', 'rel-slash', 'abs-slash')
CWDS = ('root', 'src', 'build', 'else')


def layout(root: str, geom: str) -> T.Tuple[str, str, str]:
    """-> (directory the tree is materialised in, source dir as meson is told, build dir)
    sibling     root/src            root/build
    intree      root/src            root/src/build             (the usual `meson setup build`)
    intree-sub  root/src            root/src/c06_sub/build
    symlink     root/lnk/src        root/build                 (root/lnk -> root/real; the tree lives in root/real/src)"""
    if geom == 'sibling':
        return os.path.join(root, 'src'), os.path.join(root, 'src'), os.path.join(root, 'build')
    if geom == 'intree':
        return os.path.join(root, 'src'), os.path.join(root, 'src'), os.path.join(root, 'src', 'build')
    if geom == 'intree-sub':
        return os.path.join(root, 'src'), os.path.join(root, 'src'), os.path.join(root, 'src', 'c06_sub', 'build')
    if geom == 'symlink':
        return os.path.join(root, 'real', 'src'), os.path.join(root, 'lnk', 'src'), os.path.join(root, 'build')
    raise ValueError(geom)


def spelled(path: str, cwd: str, spelling: str) -> str:
    s = os.path.relpath(path, cwd) if spelling.startswith('rel') else path
    return s + '/' if spelling.endswith('-slash') else s


def run_plan(project_src: str, root: str, steps: T.List[dict], extra_args: T.Sequence[str] = (),
             geom: str = 'sibling') -> T.List[dict]:
    """execute the steps of one project sequentially below the fixed location `root`, in the placement `geom`
    (see `layout`); every step may spell the two directories differently (step['spell']: relative / absolute,
    with or without a trailing slash) and run from a different working directory (step['cwd']: root, the
    source dir, the build dir, or an unrelated directory).  Returns one record per step:
       {'step':…, 'rc':…, 'log':…, 'snap': {rel: {...}}, 'before': snapshot before a reconfigure}"""
    real_src, src, build = layout(root, geom)
    ext_env, ext_args = prepare_ext(project_src, root)
    extra_args = list(extra_args) + ext_args
    elsewhere = os.path.join(root, 'elsewhere')
    os.makedirs(elsewhere, exist_ok=True)
    res: T.List[dict] = []
    for st in steps:
        env = make_env(st['hashseed'], st['envseed'], st['listseed'], ext_env)
        rec: T.Dict[str, T.Any] = {'step': st}
        cwdk = st.get('cwd', 'root')
        if geom == 'symlink' and cwdk == 'src':
            cwdk = 'root'      # getcwd() is physical: from inside the link the *source path itself* would be another one
        cwd = {'root': root, 'src': src, 'build': build, 'else': elsewhere}[cwdk]
        sp = st.get('spell', 'rel')

        def dirs() -> T.List[str]:
            return [spelled(build, cwd, sp), spelled(src, cwd, sp)]
        if st['kind'] == 'fresh':
            force_rmtree(real_src)
            shutil.rmtree(build, ignore_errors=True)
            copy_tree(project_src, real_src, st['treeseed'], st.get('metaseed', 0))
            if geom == 'symlink' and not os.path.islink(os.path.join(root, 'lnk')):
                os.symlink('real', os.path.join(root, 'lnk'))
            for _attempt in range(3):
                # death by signal (machine under memory pressure) is infrastructure: start over from an empty build dir
                shutil.rmtree(build, ignore_errors=True)
                if cwdk == 'build':
                    os.makedirs(build)
                rc, log = run_meson(['setup', *extra_args] + dirs(), env, cwd)
                if rc >= 0:
                    break
        elif st['kind'] == 'reconf':
            rec['before'] = snapshot(build, root)
            rc, log = run_meson(['setup', '--reconfigure'] + dirs(), env, cwd)
        elif st['kind'] == 'wipe':
            rc, log = run_meson(['setup', '--wipe'] + dirs(), env, cwd)
        elif st['kind'] == 'roundtrip':
            # change an option and change it back: same sources, same options, different history
            rc, log = run_meson(['configure', dirs()[0], '-Dwerror=true', '-Dstrip=true'], env, cwd)
            if rc == 0:
                rc, log = run_meson(['setup', '--reconfigure'] + dirs(), env, cwd)
            if rc == 0:
                rc, log = run_meson(['configure', dirs()[0], '-Dwerror=false', '-Dstrip=false'], env, cwd)
            if rc == 0:
                rc, log = run_meson(['setup', '--reconfigure'] + dirs(), env, cwd)
        else:
            raise ValueError(st['kind'])
        if rc < 0:
            raise common.ToolFailure(f'meson killed by signal {-rc} during {st["kind"]} of {project_src}')
        rec['rc'] = rc
        rec['log'] = log[-3000:]
        rec['snap'] = snapshot(build, root) if rc == 0 else {}
        res.append(rec)
    return res


def digest(b: bytes) -> str:
    return hashlib.sha256(b).hexdigest()[:12]
