"""C08 — option state persists faithfully across the build-directory lifecycle.

Every run
  1. generates lifecycle histories (fixed corpus, exhaustive to a bound in the thorough tier, random beyond) over
     `setup`, `configure -D/-U`, `setup --reconfigure`, `setup --wipe`, option-file edits and injected failures
     (`boom`: error() during interpretation; `boom_late`: failing postconf script, i.e. after coredata.dat was
     written);
  2. runs every history with the REAL commands, one process per command, each history in its own scratch
     directory (harness/c08_run.py), reading coredata.dat, cmd_line.txt, intro-buildoptions.json (and, on sampled
     steps, a real `meson introspect --buildoptions`) and the `Message:` lines after every step;
  3. compares every step with the Lean model `MesonModel.Life.step` (driver `mvdriver-life`) → ctx.disagreement;
  4. evaluates the independent reference of the property statement (harness/c08_ref.py) on the real
     observations → ctx.violation.
"""
from __future__ import annotations

import concurrent.futures
import itertools
import json
import os
import random
import typing as T

from . import common
from . import c08_ref as REF
from . import c08_run as RUN
from .common import Ctx, enc

ID = 'C08'
LEVEL = 'proof'
LEAN_TARGETS = ['MesonModel.Props.C08']
AREAS = ['life']
PINS = [
    'mesonbuild.msetup:MesonApp.__init__',
    'mesonbuild.msetup:MesonApp.validate_dirs',
    'mesonbuild.msetup:MesonApp.generate',
    'mesonbuild.msetup:MesonApp.check_unused_options',
    'mesonbuild.msetup:MesonApp._generate',
    'mesonbuild.mconf:Conf.__init__',
    'mesonbuild.mconf:Conf.save',
    'mesonbuild.mconf:run_impl',
    'mesonbuild.mconf:run',
    'mesonbuild.cmdline:read_cmd_line_file',
    'mesonbuild.cmdline:write_cmd_line_file',
    'mesonbuild.cmdline:update_cmd_line_file',
    'mesonbuild.cmdline:parse_cmd_line_options',
    'mesonbuild.coredata:save',
    'mesonbuild.coredata:load',
    'mesonbuild.coredata:CoreData.set_from_configure_command',
    'mesonbuild.build:load',
    'mesonbuild.environment:Environment.__init__',
    'mesonbuild.environment:Environment.dump_coredata',
    'mesonbuild.interpreterbase.interpreterbase:InterpreterBase._load_option_file',
    'mesonbuild.interpreter.interpreter:Interpreter.func_project',
    'mesonbuild.interpreter.interpreter:Interpreter.func_get_option',
    'mesonbuild.options:OptionStore.set_from_configure_command',
    'mesonbuild.options:OptionStore.update_project_options',
    'mesonbuild.options:OptionStore.set_user_option',
    'mesonbuild.options:OptionStore.set_option',
    'mesonbuild.options:OptionStore.add_project_option',
    'mesonbuild.options:OptionStore.remove',
    'mesonbuild.options:OptionStore.get_option_and_value_for',
    'mesonbuild.options:OptionStore.resolve_option',
    'mesonbuild.options:OptionStore.initialize_from_top_level_project_call',
    'mesonbuild.options:OptionStore.initialize_from_subproject_call',
    'mesonbuild.options:choices_are_different',
    'mesonbuild.options:UserBooleanOption.__bool__',
    'mesonbuild.backend.backends:Backend.run_postconf_scripts',
    'mesonbuild.mintro:update_build_options',
]
TRUSTED = [
    'harness/c08_run.py: the test tree (top + subprojects/sub + subprojects/alt; meson.build prints every option of its option file), the '
    'readers of coredata.dat (unpickled with the implementation\'s own classes, OptionStore.get_value_for), cmd_line.txt and '
    'intro-buildoptions.json',
    'harness/c08_ref.py: the reference semantics written from the property statement (non-deterministic where the statement '
    'leaves an order open)',
    'domain: option kinds string / boolean / combo / integer / array (with and without choices), names and values over [A-Za-z0-9_], no machine files, '
    'fixed default_options in project() / subproject(), --backend=none, native build; a top-level option that has a yielding child is never removed, added '
    'later or changed in type',
]
NWORKERS = 16

# ---------------------------------------------------------------- the test tree and the command alphabet


def S(d): return {'t': 'string', 'd': d}
def B(d, y=False): return dict({'t': 'boolean', 'd': d}, **({'y': True} if y else {}))
def C(c, d, y=False): return dict({'t': 'combo', 'c': list(c), 'd': d}, **({'y': True} if y else {}))
def I(lo, hi, d): return {'t': 'integer', 'min': lo, 'max': hi, 'd': d}
def A(c, d): return {'t': 'array', 'c': None if c is None else list(c), 'd': list(d)}
def F(d): return {'t': 'feature', 'd': d}


INIT = {
    'top': {'t_str': S('ts0'), 't_combo': C('abc', 'a'), 't_int': I(0, 10, 3), 'shared': C('abc', 'a'),
            'flag': B(False), 't_arr': A(None, 'xy'), 't_bool': B(False), 't_arrc': A('xyz', 'x'), 't_feat': F('auto'),
            'ystr': S('p0'), 'ylevel': I(0, 10, 3), 'yarr': A('xyz', 'x'), 'yfeat': F('auto'),
            'boom': B(False), 'boom_late': B(False)},
    'sub': {'s_str': S('ss0'), 's_combo': C('xyz', 'x'), 'shared': C('abc', 'b', True), 'flag': B(True, True),
            's_fix': S('sf0'), 's_fix2': S('sg0'), 's_bool': B(True), 's_int': I(0, 10, 3), 's_arr0': A(None, 'p'),
            's_arrc': A('pqr', 'p'), 's_feat': F('enabled'),
            'ystr': dict(S('c0'), y=True), 'ylevel': dict(I(0, 10, 5), y=True), 'yarr': dict(A('xyz', 'y'), y=True),
            'yfeat': dict(F('disabled'), y=True)},
    # a second subproject: NON-yielding options with the name AND the definition (type, description, choices / range)
    # of the top-level option that `sub` inherits from (only the default differs) — distinct objects with equal
    # definitions —, one more child of a top-level option, own options
    'alt': {'a_str': S('as0'), 'shared': C('abc', 'c'), 'flag': B(True), 'ystr': S('q0'), 'ylevel': I(0, 10, 7),
            'yarr': A('xyz', 'z'), 'yfeat': dict(F('enabled'), y=True), 'a_fix': S('af0'), 'a_fix2': S('ag0'),
            'a_combo': C('xyz', 'y')},
}
SUBS = [p for p in INIT if p != 'top']
REF.SUBS[:] = SUBS
# the non-yielding same-definition copies in `alt`
TWIN = {'string': 'ystr', 'boolean': 'flag', 'combo': 'shared', 'integer': 'ylevel', 'arrayc': 'yarr'}
# one plain option of every kind per project, one inheriting pair (same name in both projects) of every kind
PLAIN = {'top': {'string': 't_str', 'boolean': 't_bool', 'combo': 't_combo', 'integer': 't_int', 'array': 't_arr',
                 'arrayc': 't_arrc', 'feature': 't_feat'},
         'sub': {'string': 's_str', 'boolean': 's_bool', 'combo': 's_combo', 'integer': 's_int', 'array': 's_arr0',
                 'arrayc': 's_arrc', 'feature': 's_feat'}}
YIELD = {'string': 'ystr', 'boolean': 'flag', 'combo': 'shared', 'integer': 'ylevel', 'arrayc': 'yarr', 'feature': 'yfeat'}
# the reference sees the default_options of the build files as defaults of a fresh configuration
REF.BUILD_FILE_DEFAULTS[:] = [x.split('=') for x in RUN.PDO_TOP] + \
    [[p_ + ':' + x.split('=')[0], x.split('=')[1]] for p_ in SUBS for x in RUN.pdo_of(p_) + RUN.spcall_of(p_)]

# edits: (project, option) -> specs it may be set to (None = remove the option)
VARIANTS: T.Dict[T.Tuple[str, str], T.List[T.Optional[dict]]] = {
    ('top', 't_str'): [S('ts0'), S('ts1'), None, B(True)],
    ('top', 't_combo'): [C('abc', 'a'), C('abd', 'a'), C('bc', 'b'), C('abc', 'c'), None, S('a')],
    ('top', 't_int'): [I(0, 10, 3), I(0, 5, 2), I(5, 20, 7), I(0, 10, 7), None, S('seven')],
    ('top', 'shared'): [C('abc', 'a'), C('abd', 'a'), C('ab', 'b'), C('abc', 'c')],
    ('top', 'flag'): [B(False), B(True)],
    ('top', 'extra'): [S('e0'), C('pq', 'p'), None],
    # an array option gains / loses / changes its `choices:` list
    ('top', 't_arr'): [A(None, 'xy'), A('xyz', 'x'), A('yz', 'y'), A(None, 'q'), A('xyz', 'xy'), None],
    ('sub', 's_arr'): [A('pqr', 'p'), A(None, 'p'), None],
    ('sub', 's_str'): [S('ss0'), S('ss1'), None, B(False)],
    ('sub', 's_combo'): [C('xyz', 'x'), C('xyw', 'x'), C('yz', 'y'), C('xyz', 'z'), None],
    ('sub', 'shared'): [C('abc', 'b', True), C('abd', 'b', True), None, C('abc', 'b')],
    ('sub', 'flag'): [B(True, True), None],
    ('sub', 's_extra'): [I(1, 9, 4), S('x0'), None],
    ('sub', 's_fix'): [S('sf0'), S('sf1')],
    # the twins in `alt`: removed, other choices / range, other type, made yielding
    ('alt', 'shared'): [C('abc', 'c'), C('abcd', 'c'), C('bc', 'c'), None, S('sh'), C('abc', 'c', True)],
    ('alt', 'flag'): [B(True), None, S('fl')],
    ('alt', 'ystr'): [S('q0'), None, B(False)],
    ('alt', 'ylevel'): [I(0, 10, 7), I(0, 20, 7), None],
    ('alt', 'yarr'): [A('xyz', 'z'), A('xyzw', 'z'), None],
    ('alt', 'yfeat'): [dict(F('enabled'), y=True), None],
    ('alt', 'a_str'): [S('as0'), S('as1'), None],
    ('alt', 'a_combo'): [C('xyz', 'y'), C('xy', 'y'), None],
}
# which edits re-derive defects that are already recorded (keeps their share of the random stream bounded)
VALUES: T.Dict[str, T.List[str]] = {
    't_str': ['u1', 'u2', 'ts0', 'ts1'], 't_combo': ['a', 'b', 'c', 'd', 'zz'], 't_int': ['0', '3', '4', '7', '12', 'x'],
    't_arr': ['x', 'x,z', 'x,y', 'q', ''], 'sub:s_arr': ['p', 'q,r', 'w'],
    'shared': ['a', 'b', 'c', 'd'], 'flag': ['true', 'false'], 'extra': ['e1', 'p', 'q'],
    'sub:s_str': ['v1', 'v2', 'ss0'], 'sub:s_combo': ['x', 'y', 'z', 'w'], 'sub:shared': ['a', 'b', 'c', 'd'],
    'sub:flag': ['true', 'false'], 'sub:s_extra': ['4', '8', 'x0'], 'sub:s_fix': ['frompdo', 'f1'], 'sub:s_fix2': ['sg0', 'g1'],
    'warning_level': ['0', '2', '3', '9'], 'sub:warning_level': ['0', '2', '3', '9'],
    'nosuch': ['1'], 'sub:nosuch': ['1'],
    'alt:shared': ['a', 'b', 'c', 'd'], 'alt:flag': ['true', 'false'], 'alt:ystr': ['w1', 'w2'], 'alt:ylevel': ['2', '8', '15'],
    'alt:yarr': ['x', 'y,z', 'w'], 'alt:yfeat': ['enabled', 'disabled', 'auto'], 'alt:a_str': ['k1', 'as0'],
    'alt:a_combo': ['x', 'y', 'z'], 'alt:warning_level': ['0', '3'], 'ystr': ['r1', 'r2'], 'ylevel': ['1', '9'],
    'yarr': ['x', 'y', 'x,z'], 'yfeat': ['enabled', 'disabled', 'auto'], 'sub:ystr': ['c1'], 'sub:ylevel': ['4', '6'],
}
PIN = {'t_str': 'ts0', 't_combo': 'a', 't_int': '3', 't_arr': 'x,y', 'flag': 'false', 'sub:s_str': 'ss0',
       'sub:s_combo': 'x', 'warning_level': '1'}
UKEYS = ['sub:shared', 'sub:flag', 'sub:warning_level', 'sub:s_str', 'sub:nosuch', 'alt:yfeat', 'alt:warning_level',
         'alt:shared', 'sub:ystr', 'sub:ylevel']


def rand_d(rng: random.Random, n: int) -> T.List[T.List[str]]:
    keys = list(VALUES)
    w = [1 if k.endswith('nosuch') else 8 for k in keys]
    out: T.Dict[str, str] = {}
    for k in rng.choices(keys, w, k=n):
        out[k] = rng.choice(VALUES[k])
    return [[k, v] for k, v in out.items()]


def rand_cmd(rng: random.Random, first: bool) -> dict:
    r = rng.random()
    if first and r < 0.85:
        return {'op': 'setup', 'D': rand_d(rng, rng.choice([0, 0, 1, 2, 3]))}
    if r < 0.27:
        c = {'op': 'configure', 'D': rand_d(rng, rng.choice([1, 1, 2, 3])), 'U': []}
        return c
    if r < 0.37:
        return {'op': 'configure', 'D': rand_d(rng, rng.choice([0, 0, 1])), 'U': [rng.choice(UKEYS)]}
    if r < 0.55:
        return {'op': 'reconfigure', 'D': rand_d(rng, rng.choice([0, 0, 1, 2]))}
    if r < 0.62:
        return {'op': 'wipe'}
    if r < 0.66:
        return {'op': 'setup', 'D': rand_d(rng, rng.choice([0, 1, 2]))}
    if r < 0.76:
        # injected failures
        k = rng.choice(['boom', 'boom', 'boom_late'])
        op = rng.choice(['reconfigure', 'reconfigure', 'configure', 'setup'])
        d = rand_d(rng, rng.choice([0, 1, 2])) + [[k, 'true']]
        rng.shuffle(d)
        c = {'op': op, 'D': d}
        if op == 'configure':
            c['U'] = []
        return c
    if r < 0.79:
        return {'op': 'configure', 'D': [[rng.choice(['boom', 'boom_late']), 'false']], 'U': []}
    if r < 0.84:
        # pin options to the value they have by default (must be recorded although nothing changes)
        ks = rng.sample(list(PIN), rng.choice([1, 1, 2]))
        c = {'op': rng.choice(['configure', 'configure', 'reconfigure']), 'D': [[k, PIN[k]] for k in ks]}
        if c['op'] == 'configure':
            c['U'] = []
        return c
    proj, name = rng.choice(list(VARIANTS))
    return {'op': 'edit', 'proj': proj, 'name': name, 'spec': rng.choice(VARIANTS[(proj, name)])}


def rand_history(rng: random.Random) -> T.List[dict]:
    n = rng.choice([2, 3, 4, 4, 5, 5, 6, 6])
    return [rand_cmd(rng, i == 0) for i in range(n)]


def ed(proj, name, spec, **kw): return dict({'op': 'edit', 'proj': proj, 'name': name, 'spec': spec}, **kw)
def su(*d): return {'op': 'setup', 'D': [list(x) for x in d]}
def rc(*d): return {'op': 'reconfigure', 'D': [list(x) for x in d]}
def cf(*d, U=()): return {'op': 'configure', 'D': [list(x) for x in d], 'U': list(U)}


WIPE = {'op': 'wipe'}

CORPUS: T.List[T.List[dict]] = [
    # plain persistence, override and drop
    [su(('t_str', 'u1'), ('sub:s_combo', 'y')), cf(('t_int', '7')), rc(), WIPE],
    [su(), cf(('sub:warning_level', '3')), cf(('warning_level', '2')), rc(), cf(U=['sub:warning_level']), rc()],
    [su(), cf(('sub:shared', 'c')), rc(), cf(('shared', 'b')), cf(U=['sub:shared']), rc()],
    # option file edits
    [su(('t_combo', 'c')), ed('top', 't_combo', C('abd', 'a')), rc(), ed('top', 'extra', S('e0')), rc(), WIPE],
    [su(('t_combo', 'b')), ed('top', 't_combo', C('bc', 'b')), cf(('t_int', '4')), rc()],
    [su(), ed('sub', 's_combo', None), ed('top', 't_str', S('ts1')), rc(), cf(('t_str', 'u2')), WIPE],
    # arrays: gaining / losing a choices list keeps a still-valid value, else the new default
    [su(('t_arr', 'x,z')), ed('top', 't_arr', A('xyz', 'x')), rc(), ed('top', 't_arr', A('yz', 'y')), rc(), WIPE],
    [su(), ed('top', 't_arr', A('xyz', 'x')), cf(('t_int', '4')), rc(), cf(('t_arr', 'q')), cf(('t_arr', 'z,y')), WIPE],
    [su(('t_arr', 'q')), ed('top', 't_arr', A('xyz', 'xy')), rc(), ed('top', 't_arr', A(None, 'q')), rc()],
    [su(), ed('sub', 's_arr', A('pqr', 'p')), rc(('sub:s_arr', 'q,r')), ed('sub', 's_arr', A(None, 'p')), rc(), cf(('sub:s_arr', 'w')), WIPE],
    # pin an option to the value it currently has, then change the default: the pin must be recorded and survive a wipe
    [su(), cf(('t_str', 'ts0')), ed('top', 't_str', S('ts1')), rc(), WIPE],
    [su(('t_combo', 'a'), ('t_int', '3')), ed('top', 't_combo', C('abc', 'c')), ed('top', 't_int', I(0, 10, 7)), WIPE, rc()],
    [su(), rc(('sub:s_str', 'ss0'), ('t_arr', 'x,y')), ed('sub', 's_str', S('ss1')), ed('top', 't_arr', A(None, 'q')), WIPE],
    [su(), cf(('warning_level', '1'), ('sub:s_combo', 'x')), ed('sub', 's_combo', C('xyz', 'z')), WIPE],
    [su(('sub:warning_level', '3'), ('warning_level', '3')), cf(('warning_level', '2')), rc(), cf(('warning_level', '3')), WIPE],
    # failures
    [su(('t_str', 'u1')), rc(('t_str', 'u2'), ('boom', 'true')), cf(('t_combo', 'zz'), ('t_int', '4')), rc()],
    [su(), cf(('boom', 'true')), rc(('t_int', '4')), cf(('boom', 'false')), rc()],
    [su(('boom', 'true')), su(('t_int', '4'))],
    [cf(('t_int', '4')), rc(('t_int', '5')), WIPE],
    [WIPE, cf(('t_int', '4'))],
    # the recorded defects, each through the whole machinery
    [su(), ed('top', 'shared', C('abd', 'a')), rc(), cf(('shared', 'd')), rc()],
    [su(), ed('sub', 'shared', C('abd', 'b', True)), rc()],
    [su(), cf(('sub:flag', 'false')), cf(('flag', 'true')), cf(U=['sub:flag']), rc()],
    [su(), cf(('sub:flag', 'false')), cf(('sub:flag', 'true')), cf(U=['sub:flag']), rc()],
    [su(('t_combo', 'c')), ed('top', 't_combo', C('bc', 'b')), rc(), ed('top', 't_combo', C('ab', 'a')), WIPE],
    [su(), cf(('sub:flag', 'true')), rc()],
    [su(), rc(('t_str', 'late'), ('boom_late', 'true')), rc(), WIPE],
    [su(('t_str', 'u1'), ('boom_late', 'true')), su()],
    [su(('t_str', 'u1')), ed('top', 't_str', None), rc(), WIPE],
    [su(), ed('top', 't_int', S('seven')), rc()],
    [su(), ed('sub', 's_str', B(False)), rc(), cf(('sub:s_str', 'true'))],
    [su(), cf(('boom', 'true')), WIPE, su()],
]

# alphabet of the exhaustive part (thorough tier: all histories of length <= 3)
ALPHABET: T.List[dict] = [
    su(('t_combo', 'c'), ('sub:shared', 'c')),
    cf(('t_int', '7'), ('sub:warning_level', '3')),
    cf(('shared', 'b'), U=['sub:shared']),
    rc(('t_combo', 'b')),
    rc(('t_str', 'u1'), ('boom', 'true')),
    WIPE,
    ed('top', 't_combo', C('ab', 'a')),
    ed('sub', 's_extra', I(1, 9, 4)),
    ed('top', 't_str', None),
]


# ---------------------------------------------------------------- dependency-directed templates
#
# For each clause of the property a template chains the clause's preconditions (override -> edit the parent's
# choices -> change the parent -> drop the override -> read; set -> remove -> re-add -> read; pin -> change the
# default -> wipe; fail -> retry; …) and is instantiated over every option kind and both projects.  Each instance is
# one history, tagged with its (clause, kind, project) cell; evidence reports the cells exercised.

def kind_of(sp: dict) -> str:
    return 'arrayc' if sp['t'] == 'array' and sp.get('c') is not None else sp['t']


def key_of(proj: str, name: str) -> str:
    return name if proj == 'top' else proj + ':' + name


def cl(v: T.Any) -> str:
    """a stored default as a command-line string"""
    if isinstance(v, list):
        return ','.join(v)
    return REF.canon(v)


def valid_values(sp: dict) -> T.List[str]:
    k = kind_of(sp)
    if k == 'string':
        return ['u1', 'u2']
    if k == 'boolean':
        return ['true', 'false']
    if k == 'combo':
        return list(sp['c'])
    if k == 'integer':
        lo, hi = sp['min'], sp['max']
        return sorted({str(lo + 1), str(hi - 1), str((lo + hi) // 2 + 1)}, key=int)
    if k == 'array':
        return ['x', 'x,z', 'q']
    if k == 'arrayc':
        c = sp['c']
        return [c[0], c[-1], c[0] + ',' + c[-1]]
    return ['enabled', 'disabled', 'auto']


def with_default(sp: dict, d: T.Any) -> dict:
    return dict(sp, d=d)


def domains(sp: dict) -> T.List[T.Tuple[str, dict]]:
    """specs of the same type whose choices / range differ (the option object is replaced when re-read)"""
    k = kind_of(sp)
    if k == 'combo':
        c = sp['c']
        return [('grow', dict(sp, c=c + ['n'])),
                ('shrink', dict(sp, c=c[:-1], d=sp['d'] if sp['d'] in c[:-1] else c[0])),
                ('swap', dict(sp, c=c[:-1] + ['n'], d=sp['d'] if sp['d'] in c[:-1] else c[0]))]
    if k == 'integer':
        lo, hi, d = sp['min'], sp['max'], sp['d']
        return [('grow', dict(sp, max=hi + 10)), ('shrink', dict(sp, max=hi - 4, d=min(d, hi - 4)))]
    if k == 'arrayc':
        c = sp['c']
        keep = [x for x in sp['d'] if x in c[1:]] or [c[1]]
        return [('grow', dict(sp, c=c + ['n'])), ('shrink', dict(sp, c=c[1:], d=keep)), ('lose', dict(sp, c=None))]
    if k == 'array':
        return [('gain', dict(sp, c=['x', 'y', 'z'], d=[x for x in sp['d'] if x in 'xyz'] or ['x']))]
    return []


def alt_default(sp: dict) -> dict:
    k = kind_of(sp)
    if k == 'string':
        return dict(sp, d=sp['d'] + '1')
    if k == 'boolean':
        return dict(sp, d=not sp['d'])
    if k == 'combo':
        return dict(sp, d=[c for c in sp['c'] if c != sp['d']][-1])
    if k == 'integer':
        return dict(sp, d=sp['d'] + 1 if sp['d'] < sp['max'] else sp['d'] - 1)
    if k == 'array':
        return dict(sp, d=['q'] if sp['d'] != ['q'] else ['x'])
    if k == 'arrayc':
        return dict(sp, d=[sp['c'][-1]] if sp['d'] != [sp['c'][-1]] else [sp['c'][0]])
    return dict(sp, d=[f for f in ('enabled', 'disabled', 'auto') if f != sp['d']][0])


def invalid_value(sp: dict) -> T.Optional[str]:
    return {'boolean': 'maybe', 'combo': 'zz', 'integer': 'x', 'arrayc': 'zz', 'feature': 'on'}.get(kind_of(sp))


def ok_in(sp: dict, raw: str) -> bool:
    return REF.validate(sp, raw) is not None


RETYPE = {'string': B(True), 'boolean': S('bb'), 'combo': S('a'), 'integer': S('seven'), 'array': S('arr'),
          'arrayc': C('xyz', 'x'), 'feature': B(False)}
NEWSPEC = {'string': S('e0'), 'boolean': B(True), 'combo': C('pq', 'p'), 'integer': I(1, 9, 4), 'array': A(None, 'q'),
           'arrayc': A('pqr', 'p'), 'feature': F('auto')}


def templates() -> T.List[T.Tuple[str, str, str, T.List[dict]]]:
    """(clause, kind, project, history) for every cell"""
    out: T.List[T.Tuple[str, str, str, T.List[dict]]] = []

    # -- inheriting pair: override / parent's or child's domain edit / parent change / drop the override / read
    for kind, name in YIELD.items():
        tsp, ssp = INIT['top'][name], INIT['sub'][name]
        sk = 'sub:' + name
        vs = valid_values(tsp)
        own = cl(ssp['d'])
        def pick(cands: T.List[str], *avoid: str) -> str:
            # the first candidate that differs from as many of `avoid` (in order of importance) as possible
            for n in range(len(avoid), -1, -1):
                for v in cands:
                    if all(v != a for a in avoid[:n]):
                        return v
            return cands[0]
        v1 = pick(valid_values(ssp), cl(tsp['d']), own)
        v2 = pick(vs, cl(tsp['d']), v1)
        v3 = pick(vs, v2, v1)
        # no edit: override, change the parent, drop the override, change the parent again
        out.append(('yield:override-drop', kind, 'sub', [su(), cf((sk, v1)), cf((name, v2)), cf(U=[sk]), cf((name, v3))]))
        out.append(('yield:override-drop', kind, 'sub', [su((sk, own)), rc((name, v2)), cf(U=[sk]), rc()]))
        out.append(('yield:follow', kind, 'sub', [su(), cf((name, v2)), rc(), cf((name, v3)), WIPE]))
        for label, nt in domains(tsp):
            n2 = next((v for v in valid_values(nt) if not ok_in(tsp, v)), None) or pick(valid_values(nt), cl(nt['d']), v1)
            if not ok_in(nt, v1) or not ok_in(ssp, v1):
                continue
            # the child is overridden WHILE the parent object is replaced; later the parent changes and the override is dropped
            out.append(('yield:parent-replaced:overridden-child', kind, 'sub',
                        [su(), cf((sk, v1)), ed('top', name, nt), rc(), cf((name, n2)), cf(U=[sk])]))
            out.append(('yield:parent-replaced:overridden-child', kind, 'sub',
                        [su((sk, v1)), ed('top', name, nt), cf((name, n2)), cf(U=[sk]), rc()]))
            # the child yields while the parent object is replaced
            out.append(('yield:parent-replaced:yielding-child', kind, 'sub',
                        [su(), ed('top', name, nt), rc(), cf((name, n2)), rc()]))
            # override set after the replacement
            out.append(('yield:parent-replaced:override-later', kind, 'sub',
                        [su(), ed('top', name, nt), rc(), cf((sk, v1)), cf((name, n2)), cf(U=[sk])]))
        for label, ns in domains(ssp):
            if not ok_in(ns, v1):
                continue
            out.append(('yield:child-replaced:yielding', kind, 'sub', [su(), ed('sub', name, ns), rc(), cf((name, v2)), rc()]))
            out.append(('yield:child-replaced:overridden', kind, 'sub',
                        [su(), cf((sk, v1)), ed('sub', name, ns), rc(), cf((name, v2)), cf(U=[sk])]))


    # -- same-named, same-definition options in the top-level project and TWO subprojects: `sub` inherits
    #    (yield: true), `alt` has its own non-yielding twin (an equal definition in a distinct object).  Every one of
    #    the three is edited / removed / re-typed while the others are set, overridden or inheriting; what an edit of
    #    ONE project's option file does to the options of the OTHER projects is then read back (frame over objects).
    for kind, name in TWIN.items():
        tsp, ssp, asp = INIT['top'][name], INIT['sub'][name], INIT['alt'][name]
        sk, ak = 'sub:' + name, 'alt:' + name
        vs = valid_values(tsp)
        dT, dS, dA = cl(tsp['d']), cl(ssp['d']), cl(asp['d'])

        def pk(cands: T.List[str], *avoid: str) -> str:
            for n in range(len(avoid), -1, -1):
                for v in cands:
                    if all(v != a for a in avoid[:n]):
                        return v
            return cands[0]
        v2 = pk(vs, dT, dS, dA)          # the parent's value: differs from every default
        v3 = pk(vs, v2, dS, dT)
        va = pk(valid_values(asp), dA, v2, v3)
        v1 = pk(valid_values(ssp), v2, dS, v3)
        c = 'twin:' + kind
        # the twin is removed (reconfigure / configure re-read the file): the child keeps following the parent
        out.append(('twin:removed', kind, 'alt', [su((name, v2)), ed('alt', name, None), rc(), cf((name, v3)), rc()]))
        out.append(('twin:removed:configure', kind, 'alt', [su((name, v2)), ed('alt', name, None), cf((name, v3)), rc(), WIPE]))
        out.append(('twin:removed:child-overridden', kind, 'alt',
                    [su((name, v2)), cf((sk, v1)), ed('alt', name, None), rc(), cf((name, v3)), cf(U=[sk]), rc()]))
        out.append(('twin:removed:readded', kind, 'alt',
                    [su((name, v2)), ed('alt', name, None), rc(), ed('alt', name, asp), rc(), cf((name, v3)), cf((ak, va))]))
        # the twin gets other choices / another range (its object is replaced), with and without a value of its own
        for label, na in domains(asp):
            if not ok_in(na, va):
                continue
            out.append(('twin:replaced', kind, 'alt', [su((name, v2), (ak, va)), ed('alt', name, na), rc(), cf((name, v3)), rc()]))
            out.append(('twin:replaced:default', kind, 'alt', [su((name, v2)), ed('alt', name, na), cf((name, v3)), rc()]))
            out.append(('twin:replaced:child-overridden', kind, 'alt',
                        [su((name, v2)), cf((sk, v1)), ed('alt', name, na), rc(), cf((name, v3)), cf(U=[sk])]))
        # the twin changes type / becomes yielding itself
        out.append(('twin:retyped', kind, 'alt', [su((name, v2)), ed('alt', name, RETYPE[kind]), rc(), cf((name, v3)), rc()]))
        out.append(('twin:made-yielding', kind, 'alt', [su((name, v2)), ed('alt', name, dict(asp, y=True)), rc(), cf((name, v3)), WIPE]))
        # the whole option file of `alt` deleted / emptied
        out.append(('twin:file-deleted', kind, 'alt', [su((name, v2)), {'op': 'file', 'proj': 'alt', 'state': None}, rc(), cf((name, v3)), rc()]))
        # the CHILD or the PARENT is edited: the twin keeps its own value
        for label, ns in domains(ssp):
            if ok_in(ns, v1):
                out.append(('twin:child-replaced', kind, 'sub', [su((ak, va)), ed('sub', name, ns), rc(), cf((name, v2)), rc()]))
        out.append(('twin:child-removed', kind, 'sub', [su((ak, va), (name, v2)), ed('sub', name, None), rc(), cf((name, v3))]))
        for label, nt in domains(tsp):
            if ok_in(nt, v2):
                out.append(('twin:parent-replaced', kind, 'top', [su((ak, va), (name, v2)), ed('top', name, nt), rc(), cf((name, v3)), rc()]))
        out.append(('twin:parent-removed', kind, 'top', [su((ak, va)), ed('top', name, None), rc(), cf((ak, dA)), rc()]))
    # two children of one parent (`sub:yfeat`, `alt:yfeat`): one overridden, parent changed, one child removed
    out.append(('two-children', 'feature', 'alt', [su(('yfeat', 'enabled')), cf(('alt:yfeat', 'disabled')), cf(('yfeat', 'disabled')),
                                                   cf(U=['alt:yfeat']), ed('alt', 'yfeat', None), rc(), cf(('yfeat', 'enabled'))]))
    out.append(('two-children', 'feature', 'sub', [su(), cf(('sub:yfeat', 'enabled')), ed('sub', 'yfeat', None), rc(('yfeat', 'disabled')),
                                                   cf(('yfeat', 'enabled')), WIPE]))
    # plain options of the second subproject
    out.append(('persist', 'string', 'alt', [su(('alt:a_str', 'k1')), cf(('alt:a_combo', 'z')), rc(), WIPE, cf(('alt:warning_level', '3')),
                                             cf(U=['alt:warning_level'])]))

    # -- plain options of every kind in both projects
    for proj in ('top', 'sub'):
        for kind, name in PLAIN[proj].items():
            sp = INIT[proj][name]
            k = key_of(proj, name)
            vs = valid_values(sp)
            v = next(x for x in vs if x != cl(sp['d']))
            w = next(x for x in vs if x != v)
            dflt = cl(sp['d'])
            alt = alt_default(sp)
            # set -> persists over configure / reconfigure / wipe
            out.append(('persist', kind, proj, [su((k, v)), cf((k, w)), rc(), WIPE, rc((k, v))]))
            # the EMPTY value (boundary of the value domain of strings and free-form arrays) given to configure /
            # reconfigure / the first setup: recorded, persists, replayed by --wipe
            if kind in ('string', 'array'):
                out.append(('persist:empty-value', kind, proj, [su((k, v)), cf((k, '')), rc(), WIPE, rc()]))
                out.append(('persist:empty-value', kind, proj, [su(), rc((k, '')), cf((k, v)), cf((k, '')), WIPE]))
                out.append(('persist:empty-value', kind, proj, [su((k, '')), rc(), WIPE, cf((k, v)), WIPE]))
            # (not set) remove -> re-read -> re-add with another default -> read; set -> remove (the recorded finding)
            out.append(('remove-readd', kind, proj, [su(), ed(proj, name, None), rc(), ed(proj, name, alt), rc(), cf((k, v))]))
            out.append(('remove-recorded', kind, proj, [su((k, v)), ed(proj, name, None), rc()]))
            # pin to the current value -> change the default -> wipe
            out.append(('pin-default-wipe', kind, proj, [su(), cf((k, dflt)), ed(proj, name, alt), rc(), WIPE]))
            out.append(('pin-default-wipe', kind, proj, [su((k, dflt)), ed(proj, name, alt), WIPE, rc()]))
            out.append(('default-change-unpinned', kind, proj, [su(), ed(proj, name, alt), rc(), WIPE]))
            # fail -> retry
            out.append(('fail-retry:early', kind, proj, [su(), rc((k, v), ('boom', 'true')), rc((k, v)), WIPE]))
            out.append(('fail-retry:late', kind, proj, [su(), rc((k, v), ('boom_late', 'true')), rc(), rc((k, v)), WIPE]))
            out.append(('fail-retry:first-setup', kind, proj, [su((k, v), ('boom_late', 'true')), su((k, w)), rc()]))
            bad = invalid_value(sp)
            if bad is not None:
                out.append(('fail-retry:invalid', kind, proj, [su(), cf((k, bad)), rc((k, bad)), cf((k, v)), rc()]))
            # changed choices / range: keep a still-valid value, else the new default
            for label, nsp in domains(sp):
                keep = next((x for x in vs if ok_in(nsp, x) and x != cl(nsp['d'])), None)
                drop = next((x for x in vs if not ok_in(nsp, x)), None)
                if keep is not None:
                    out.append(('choices:keep', kind, proj, [su((k, keep)), ed(proj, name, nsp), rc(), WIPE]))
                    out.append(('choices:keep', kind, proj, [su(), cf((k, keep)), ed(proj, name, nsp), cf((key_of(proj, PLAIN[proj]['string']), 'u1')), rc()]))
                if drop is not None:
                    out.append(('choices:reset', kind, proj, [su(), cf((k, drop)), ed(proj, name, nsp), rc(), cf((k, cl(nsp['d']))), WIPE]))
            # changed type
            nt = RETYPE[kind]
            out.append(('type-change', kind, proj, [su(), ed(proj, name, nt), rc(), cf((k, valid_values(nt)[0])), rc()]))
            # a new option of this kind
            nn = 'extra' if proj == 'top' else 's_extra'
            ns = NEWSPEC[kind]
            nv = next(x for x in valid_values(ns) if x != cl(ns['d']))
            out.append(('new-option', kind, proj, [su(), ed(proj, nn, ns), rc(), cf((key_of(proj, nn), nv)), WIPE]))
            out.append(('new-option', kind, proj, [su(), ed(proj, nn, ns), cf((key_of(proj, nn), nv)), rc()]))

    # -- a failure AFTER coredata.dat / cmd_line.txt / the introspection file were written (postconf script), for every
    #    command kind incl. --wipe and the regeneration after a corrupt coredata.dat; then a command that would reveal
    #    lost or leaked records
    CORRUPT = {'op': 'corrupt'}
    for proj in ('top', 'sub'):
        for kind, name in PLAIN[proj].items():
            sp = INIT[proj][name]
            k = key_of(proj, name)
            v = next(x for x in valid_values(sp) if x != cl(sp['d']))
            w = next(x for x in valid_values(sp) if x != v)
            late = ('boom_late', 'true')
            ok = ('boom_late', 'false')
            out.append(('fail-late:wipe', kind, proj, [su((k, v)), cf(late), WIPE, rc(ok), WIPE]))
            out.append(('fail-late:wipe', kind, proj, [su((k, v)), cf(late, (k, w)), {'op': 'wipe', 'D': []}, su(ok)]))
            out.append(('fail-late:regenerate', kind, proj, [su((k, v)), cf(late), CORRUPT, rc((k, w)), rc(ok), WIPE]))
            out.append(('fail-early:regenerate', kind, proj, [su((k, v)), CORRUPT, cf((k, w)), rc((k, w), ('boom', 'true')), rc(), WIPE]))
            out.append(('regenerate', kind, proj, [su((k, v)), cf((k, w)), CORRUPT, su((k, v)), rc(), WIPE]))
            out.append(('fail-late:reconfigure', kind, proj, [su((k, v)), rc(late, (k, w)), WIPE]))
            out.append(('fail-after-dump:reconfigure', kind, proj, [su((k, v)), ed(proj, name, None), rc(('boom_late', 'true')), WIPE]))
    # -- boundary edits of an option file, for the top-level project and the subproject: the LAST option removed (file
    #    stays: empty / comment only / blank / a no-op), all but one removed, the file deleted, re-created with the
    #    same or other declarations, renamed meson.options <-> meson_options.txt; then reconfigure / configure / wipe
    #    and probes (setting a removed option must be refused, it must not be listed)
    def fileop(proj: str, state: T.Optional[str]) -> dict:
        return {'op': 'file', 'proj': proj, 'state': state}

    for proj in ('top', 'sub'):
        names = list(INIT[proj])
        pk, pn = key_of(proj, PLAIN[proj]['combo']), PLAIN[proj]['combo']
        psp = INIT[proj][pn]
        v = next(x for x in valid_values(psp) if x != cl(psp['d']))
        other = key_of('sub' if proj == 'top' else 'top', PLAIN['sub' if proj == 'top' else 'top']['string'])

        def clear(keep: T.Sequence[str] = (), style: str = 'empty') -> T.List[dict]:
            ops = [ed(proj, n, None) for n in names if n not in keep]
            ops[-1] = dict(ops[-1], style=style)
            return ops
        for style in RUN.EMPTY_STYLES:
            out.append(('boundary:last-option-removed:' + style, 'file', proj, [su()] + clear(style=style) + [rc(), cf((pk, v)), rc()]))
        out.append(('boundary:last-option-removed:then-configure', 'file', proj, [su()] + clear() + [cf((other, 'u1')), cf((pk, v)), rc()]))
        out.append(('boundary:last-option-removed:then-wipe', 'file', proj, [su()] + clear(style='comment') + [WIPE, cf((pk, v))]))
        out.append(('boundary:last-option-removed:re-added', 'file', proj,
                    [su()] + clear() + [rc(), ed(proj, pn, alt_default(psp)), rc(), cf((pk, v)), WIPE]))
        out.append(('boundary:all-but-one-removed', 'file', proj, [su()] + clear(keep=[pn]) + [rc(), cf((pk, v)), ed(proj, pn, None), rc(), cf((pk, v))]))
        out.append(('boundary:file-deleted', 'file', proj, [su(), fileop(proj, None), rc(), cf((pk, v)), rc()]))
        out.append(('boundary:file-deleted:then-wipe', 'file', proj, [su(), fileop(proj, None), WIPE, cf((pk, v))]))
        out.append(('boundary:file-deleted:then-configure', 'file', proj, [su(), fileop(proj, None), cf((other, 'u1')), rc()]))
        out.append(('boundary:file-recreated:same', 'file', proj, [su(), fileop(proj, None), rc(), fileop(proj, 'options'), rc(), cf((pk, v)), WIPE]))
        out.append(('boundary:file-recreated:different', 'file', proj,
                    [su(), fileop(proj, None), rc(), ed(proj, pn, alt_default(psp)), fileop(proj, 'txt'), rc(), cf((pk, v)), WIPE]))
        out.append(('boundary:file-renamed', 'file', proj, [su(), fileop(proj, 'txt'), rc(), cf((pk, v)), fileop(proj, 'options'), rc(), WIPE]))
        out.append(('boundary:file-renamed:then-configure', 'file', proj, [su(), fileop(proj, 'txt'), cf((other, 'u1')), rc()]))
        out.append(('boundary:setup-without-file', 'file', proj, [fileop(proj, None), su(), fileop(proj, 'options'), rc(), cf((pk, v))]))
    # -- per-subproject override of a builtin option
    out.append(('builtin-override', 'builtin', 'sub', [su(), cf(('sub:warning_level', '3')), cf(('warning_level', '0')), cf(U=['sub:warning_level']), rc()]))
    out.append(('builtin-override', 'builtin', 'sub', [su(('sub:warning_level', '3')), rc(('warning_level', '3')), cf(('warning_level', '0')), WIPE]))
    return out


def pad(rng: random.Random, h: T.List[dict]) -> T.List[dict]:
    """the template with one or two random commands inserted after the first command"""
    h = list(h)
    for _ in range(rng.choice([1, 2])):
        c = rand_cmd(rng, False)
        if c['op'] == 'wipe' or (c['op'] == 'setup'):
            continue
        h.insert(rng.randint(1, len(h)), c)
    return h


# ---------------------------------------------------------------- model side

def e_key(k: str) -> str:
    if ':' in k:
        pr, _, n = k.partition(':')
        return f'{enc(n)}:S{enc(pr)}:h'
    return f'{enc(k)}:N:h'


def e_val(v: T.Any) -> str:
    if isinstance(v, list):
        return 'a' + ''.join('~' + enc(x) for x in v)
    if isinstance(v, bool):
        return 'b1' if v else 'b0'
    if isinstance(v, int):
        return 'i%d' % v
    return 's' + enc(v)


def e_spec(sp: dict) -> str:
    t = sp['t']
    if t == 'string':
        k = 'S'
    elif t == 'boolean':
        k = 'B'
    elif t == 'combo':
        k = 'C' + ''.join('~' + enc(c) for c in sp['c'])
    elif t == 'array':
        k = 'An' if sp.get('c') is None else 'A' + ''.join('~' + enc(c) for c in sp['c'])
    elif t == 'feature':
        k = 'F'
    else:
        k = 'I%s_%s' % ('n' if sp.get('min') is None else sp['min'], 'n' if sp.get('max') is None else sp['max'])
    return f"{k}/{e_val(sp['d'])}/{1 if sp.get('y') else 0}/0"


def e_defs(d: T.Dict[str, dict]) -> str:
    return ','.join(f'{enc(n)}={e_spec(sp)}' for n, sp in d.items())


BACKEND = [['backend', 'none']]


def e_cmd(c: dict) -> str:
    op = c['op']
    if op == 'setup':
        return 'su;' + ','.join(f'{e_key(k)}={e_val(v)}' for k, v in BACKEND + c['D'])
    if op == 'reconfigure':
        return 'rc;' + ','.join(f'{e_key(k)}={e_val(v)}' for k, v in BACKEND + c['D'])
    if op == 'wipe':
        return 'wi;' + ','.join(f'{e_key(k)}={e_val(v)}' for k, v in BACKEND + c.get('D', []))
    if op == 'configure':
        # argparse stores -D and -U in ONE dict: a later occurrence of a key replaces the value, not the position
        args: T.Dict[str, T.Optional[str]] = {}
        for k, v in c['D']:
            args[k] = v
        for k in c.get('U', []):
            args[k] = None
        return 'cf;' + ','.join(f'{e_key(k)}=' + ('-' if v is None else e_val(v)) for k, v in args.items())
    if op == 'corrupt':
        return 'co'
    if op == 'file' and c['proj'] not in ('top', 'sub'):
        return 'xf;%s;%s' % (enc(c['proj']), {None: '-', 'options': '0', 'txt': '1'}[c['state']])
    if op == 'edit' and c['proj'] not in ('top', 'sub'):
        if c['spec'] is None:
            return f'xr;{enc(c["proj"])};{enc(c["name"])}'
        return f'xs;{enc(c["proj"])};{enc(c["name"])};{e_spec(c["spec"])}'
    if op == 'file':
        return 'fs;%s;%s' % ('1' if c['proj'] == 'sub' else '0', {None: '-', 'options': '0', 'txt': '1'}[c['state']])
    if op == 'edit':
        p = '1' if c['proj'] == 'sub' else '0'
        if c['spec'] is None:
            return f'er;{p};{enc(c["name"])}'
        return f'es;{p};{enc(c["name"])};{e_spec(c["spec"])}'
    raise ValueError(op)


def e_dol(l: T.List[str]) -> str:
    return ','.join(f"{e_key(x.split('=')[0])}={e_val(x.split('=')[1])}" for x in l)


def model_line(hist: T.List[dict]) -> str:
    more = [p for p in SUBS if p != 'sub']
    head = [e_defs(INIT['top']), e_defs(INIT['sub']), e_dol(RUN.PDO_TOP), e_dol(RUN.PDO_SUB), e_dol(RUN.SPCALL), str(len(more))]
    for p in more:
        head += [enc(p), e_defs(INIT[p]), e_dol(RUN.pdo_of(p)), e_dol(RUN.spcall_of(p))]
    return 'histx ' + '|'.join(head + [e_cmd(c) for c in hist])


def jn(items: T.Iterable[str]) -> str:
    return ','.join(sorted(items))


def intro_key(n: str) -> str:
    return n if ':' in n else 'top:' + n


def obs_string(cmd: dict, ob: dict) -> str:
    """the implementation's observation in the driver's answer format"""
    if ob['rc'] != 'ok':
        out = 'fail'
    elif ob['msgs']:
        out = 'ok;' + jn(f'{k}={v}' for k, v in ob['msgs'].items())
    else:
        out = 'ok'
    c = ob['core']
    if c is None:
        core = '-'
    elif c.get('corrupt'):
        core = '!corrupt'
    else:
        core = 'eff:' + jn(f'{k}={v}' for k, v in c['eff'].items()) + ';own:' + jn(f'{k}={v}' for k, v in c['own'].items() if not k.endswith(':' + RUN.BUILTIN)) + \
            ';aug:' + jn(f'{k}={v}' for k, v in c['aug'].items()) + ';yield:' + jn(k for k, v in c['yield'].items() if v) + \
            ';stale:' + jn(c['stale'])
    cl = '-' if ob['cmdline'] is None else ','.join(f'{k}={v}' for k, v in ob['cmdline'])
    it = '-' if ob['intro'] is None else jn(f'{intro_key(k)}={v}' for k, v in ob['intro'].items())
    return f'{out}#{core}#{cl}#{it}'


# ---------------------------------------------------------------- the property oracle (implementation vs reference)

def persisted(ob: T.Optional[dict]) -> dict:
    if ob is None:
        return {'core': None, 'cmdline': None, 'intro': None}
    c = ob['core']
    return {'core': None if c is None else ('corrupt' if c.get('corrupt') else (c['eff'], c['aug'])),
            'cmdline': ob['cmdline'], 'intro': ob['intro']}


def matches(st: REF.State, cmd: dict, ob: dict) -> T.Optional[str]:
    """None when the observation is the state `st`; otherwise the first difference"""
    c = ob['core']
    if c is None or c.get('corrupt'):
        return 'core:absent'
    eff = st.effective()
    for k in sorted(set(eff) | set(c['eff'])):
        if k not in c['eff']:
            return f'missing:{k}'
        if k not in eff:
            return f'unexpected:{k}'
        if eff[k] != c['eff'][k]:
            return f'value:{k}'
    if ob['msgs'] and ob['msgs'] != c['eff']:
        return 'messages-differ-from-persisted'
    # recorded command line: entries of options that exist
    got = dict(ob['cmdline'] or [])
    for k in sorted(set(got) | set(st.rec)):
        key = REF.user_key(k)
        if key in st.spec or k.endswith(RUN.BUILTIN):
            if got.get(k) != st.rec.get(k):
                return f'cmdline:{k}'
    # introspection file: one row per project option (+ the builtin, + one row per subproject override of it),
    # each showing the effective value
    it = ob['intro']
    if it is None:
        return 'intro:absent'
    # (an override of the builtin that merely repeats the global value has no row: no row = the global value)
    gb = 'top:' + RUN.BUILTIN
    sbs = [p + ':' + RUN.BUILTIN for p in SUBS]
    want = {k: v for k, v in eff.items() if k in st.val or k == gb or (k in sbs and k in st.override and eff[k] != eff[gb])}
    got_it = {intro_key(n): v for n, v in it.items()}
    if set(got_it) != set(want):
        return 'intro:keys'
    for k in sorted(want):
        if want[k] != got_it[k]:
            return f'intro:{k}'
    return None


def classify(st: REF.State, files: dict, cmd: dict, ob: dict, prev: T.Optional[dict], cands: list) -> T.Tuple[str, str]:
    """canonical key + description of a deviation from every candidate of the reference"""
    op = cmd['op']
    states = [c for c in cands if isinstance(c, REF.State)]
    rec_vanished = []
    for k in st.rec:
        key = REF.user_key(k)
        if not k.endswith(RUN.BUILTIN) and REF.name_of(key) not in files.get(REF.proj_of(key), {}):
            rec_vanished.append(k)
    if ob['rc'] != 'ok':
        changed = [n for n in ('cmdline', 'core') if persisted(ob)[n] != persisted(prev)[n]] or ['intro']
        if REF.FAIL in cands or not states:
            # failing is acceptable, but it was not the identity
            return (f'failed-command-not-identity:{op}:{"+".join(changed)}',
                    f'`{op}` failed and changed {"+".join(changed)}')
        # the reference demands success
        s0 = states[0]
        if op == 'wipe':
            return (f'wipe-fails:{"+".join(changed) or "identity"}',
                    'setup --wipe fails although the recorded command lines and current defaults give a configuration')
        if s0.child_replaced and 'Unhandled python exception' in ob.get('err', ''):
            return ('yielding-sub-option-replaced-without-parent',
                    'after the choices of a `yield: true` subproject option changed, every (re)configure dies with AttributeError')
        if rec_vanished and 'Unknown option' in ob.get('err', ''):
            return ('removed-option-still-recorded',
                    'an option that was once set with -D and then removed from the option file makes every later reconfigure fail (Unknown options)')
        if s0.type_changed:
            return ('type-change-applies-new-default-to-old-class', 'a changed option type sets the new default on the old object')
        return (f'unexpected-failure:{op}', f'`{op}` failed but the reference has it succeed')
    if not states:
        return (f'unexpected-success:{op}', f'`{op}` succeeded but must fail')
    s0 = states[0]
    diff = matches(s0, cmd, ob) or '?'
    kind, _, key = diff.partition(':')
    D = {REF.user_key(k): v for k, v in cmd.get('D', [])}
    U = list(cmd.get('U', []))
    if kind == 'value' and key in s0.child_replaced and ob['core']['eff'].get(key, '').startswith('!'):
        return ('yielding-sub-option-replaced-without-parent',
                'after the choices of a `yield: true` subproject option changed, reading it dies with AttributeError')
    if kind == 'value' and key in s0.parent_replaced:
        return ('yield-reads-replaced-parent', 'a yielding subproject option keeps reading the parent object that update_project_options replaced')
    if kind == 'value' and key in U and st.spec.get(key, {}).get('t') == 'boolean' and st.val.get('top:' + REF.name_of(key)) == 'false':
        return ('unset-override-of-yielding-boolean-with-false-parent', '-Usub:opt does not return a boolean option to its (false) parent')
    if kind == 'value' and op in ('configure', 'setup') and key in D and st.inherits.get(key) and key not in st.override and \
            REF.validate(st.spec[key], D[key]) == st.val.get(key):
        return ('override-equal-to-hidden-own-value-not-saved',
                '`meson configure -Dsub:opt=v` with v equal to the hidden own value of a yielding option is not saved')
    if s0.type_changed and (key in s0.type_changed or kind in ('value', 'intro')):
        return ('type-change-applies-new-default-to-old-class', 'a changed option type sets the new default on the old object')
    cat = 'builtin' if key.endswith(RUN.BUILTIN) else ('inheriting' if st.inherits.get(key) or s0.inherits.get(key) else 'plain')
    return (f'{kind}:{op}:{cat}', f'after `{op}`: {diff}')


def oracle(hist: T.List[dict], obs: T.List[dict], reach: T.Optional[T.Set[str]] = None) -> T.Optional[dict]:
    """first deviation of the real observations from the reference, or None; `reach` collects the dependency states
    the history got to (a parent / child object replaced while the child was overridden / yielding, an override
    dropped after a replacement, a stale parent pointer in the real store)"""
    if reach is None:
        reach = set()
    st = REF.State()
    decl = {p: dict(d) for p, d in INIT.items()}                 # declarations (kept while the file is absent)
    fstate: T.Dict[str, T.Optional[str]] = {p: 'options' for p in INIT}
    read_fstate = dict(fstate)                                   # file names at the last (re)configuration that read them
    files = {p: dict(d) for p, d in INIT.items()}               # what the option files declare now
    prev: T.Optional[dict] = None
    for i, (cmd, ob) in enumerate(zip(hist, obs)):
        if cmd['op'] in ('edit', 'file'):
            if cmd['op'] == 'file':
                fstate[cmd['proj']] = cmd['state']
            elif cmd['spec'] is None:
                decl[cmd['proj']].pop(cmd['name'], None)
            else:
                decl[cmd['proj']][cmd['name']] = cmd['spec']
            files = {p: (dict(decl[p]) if fstate[p] is not None else {}) for p in INIT}
            if persisted(ob) != persisted(prev):
                return {'step': i, 'key': 'edit-changed-build-directory', 'what': 'editing the option file changed the build directory'}
            prev = ob
            continue
        if cmd['op'] == 'corrupt':
            st = st.copy()
            st.corrupt = st.configured or st.corrupt
            prev = ob
            continue
        cands = REF.candidates(st, files, cmd)
        chosen: T.Optional[REF.State] = None
        okay = False
        if ob['rc'] != 'ok':
            okay = REF.FAIL in cands and persisted(ob) == persisted(prev)
        else:
            for c in cands:
                if isinstance(c, REF.State) and matches(c, cmd, ob) is None:
                    chosen, okay = c, True
                    break
        if not okay and ob['rc'] == 'ok' and ob['core'] and not ob['core'].get('corrupt') and \
                (cmd['op'] == 'configure' or (cmd['op'] == 'setup' and st.configured)) and \
                any(fstate[p] != read_fstate[p] or fstate[p] is None for p in SUBS):
            return {'step': i, 'key': 'mconf-reads-top-level-option-file-for-subproject',
                    'what': 'after the option file of a subproject was deleted or renamed, `meson configure` reads the '
                            'TOP-LEVEL option file for it and registers the top-level options as sub:* (recorded under C06)'}
        if not okay:
            key, what = classify(st, files, cmd, ob, prev, cands)
            return {'step': i, 'key': key, 'what': what}
        if chosen is not None and cmd['op'] in ('reconfigure', 'wipe') or (chosen is not None and cmd['op'] == 'setup' and not st.configured):
            read_fstate = dict(fstate)
        if chosen is not None:
            for k in chosen.parent_replaced - st.parent_replaced:
                reach.add('parent-replaced:' + ('overridden-child' if k in chosen.override else 'yielding-child'))
            for k in chosen.child_replaced - st.child_replaced:
                reach.add('child-replaced:' + ('overridden' if k in chosen.override else 'yielding'))
            for k in cmd.get('U', []):
                if k in st.override and k in st.parent_replaced:
                    reach.add('override-dropped-after-parent-replaced')
                if k in st.override and k in st.child_replaced:
                    reach.add('override-dropped-after-child-replaced')
            st = chosen
        if ob['core'] and ob['core'].get('stale'):
            reach.add('stale-parent-pointer')
        if 'introspect' in ob and ob['introspect'] != ob['intro']:
            return {'step': i, 'key': 'introspect-differs-from-intro-file', 'what': 'meson introspect --buildoptions differs from intro-buildoptions.json'}
        prev = ob
    return None


# ---------------------------------------------------------------- running

def _work(job: T.Tuple[int, T.List[dict], T.List[int]]) -> T.Tuple[int, T.List[dict]]:
    idx, hist, isteps = job
    return idx, RUN.run_history(INIT, hist, isteps)


def run_batch(ctx: Ctx, hists: T.List[T.List[dict]], label: str, cells: T.Optional[T.List[str]] = None) -> None:
    jobs = []
    for i, h in enumerate(hists):
        steps = [j for j, c in enumerate(h) if c['op'] != 'edit']
        steps = [j for j in steps if h[j]['op'] != 'corrupt']
        isteps = [ctx.rng.choice(steps)] if steps and ctx.rng.random() < 0.5 else []
        jobs.append((i, h, isteps))
    results: T.Dict[int, T.List[dict]] = {}
    with concurrent.futures.ProcessPoolExecutor(NWORKERS) as ex:
        for idx, obs in ex.map(_work, jobs, chunksize=1):
            results[idx] = obs
    answers: T.List[str] = []
    if ctx.model_available:
        answers = ctx.driver('life', [model_line(h) for h in hists])
    # The commands are deterministic.  A history that deviates (from the model or from the reference) is executed a
    # second time before anything is reported: only what both executions show is a deviation of the code; a
    # difference between the two executions is an infrastructure event (overloaded machine) and is put on record.
    suspects = [i for i, h in enumerate(hists)
                if oracle(h, results[i]) is not None or
                (answers and answers[i].split('|') != [obs_string(c, ob) for c, ob in zip(h, results[i])])]
    if suspects:
        with concurrent.futures.ProcessPoolExecutor(NWORKERS) as ex:
            for idx, obs in ex.map(_work, [jobs[i] for i in suspects], chunksize=1):
                first = [obs_string(c, ob) for c, ob in zip(hists[idx], results[idx])]
                second = [obs_string(c, ob) for c, ob in zip(hists[idx], obs)]
                if first != second:
                    j = next(k for k in range(len(first)) if first[k] != second[k])
                    ctx.tag('unrepeatable-execution')
                    ctx.notes.append('two executions of one history differ (second one used): ' + json.dumps(
                        {'history': hists[idx][:j + 1], 'first': results[idx][j].get('err') or first[j][:120],
                         'second': obs[j].get('err') or second[j][:120]})[:900])
                    results[idx] = obs
    for i, h in enumerate(hists):
        obs = results[i]
        ctx.count(len(h))
        ctx.tag('histories:' + label)
        for c, ob in zip(h, obs):
            ctx.tag(f"cmd:{c['op']}:{ob['rc']}")
            if ob['rc'] != 'ok':
                # where the command failed: nothing written / coredata written and taken back
                ctx.tag(f"fail:{c['op']}:" + ('late' if 'Postconf' in ob.get('err', '') else
                                              'after-dump' if 'Unknown options' in ob.get('err', '') else 'early'))
            if c['op'] == 'edit':
                ctx.tag('edit:' + ('remove' if c['spec'] is None else c['spec']['t']))
        ctx.seen_nontrivial(json.dumps(h, sort_keys=True))
        ctx.sample({'history': h, 'last': obs[-1]['core'] and obs[-1]['core'].get('eff')}, limit=4)
        # model vs implementation
        if ctx.model_available:
            model = answers[i].split('|')
            impl = [obs_string(c, ob) for c, ob in zip(h, obs)]
            if model != impl:
                j = next((k for k in range(min(len(model), len(impl))) if model[k] != impl[k]), min(len(model), len(impl)))
                ctx.disagreement({'history': h, 'step': j, 'model': model[j] if j < len(model) else None,
                                  'impl': impl[j] if j < len(impl) else None,
                                  'err': obs[j].get('err') if j < len(obs) else None})
        # property oracle on the implementation
        reach: T.Set[str] = set()
        dev = oracle(h, obs, reach)
        for r in reach:
            ctx.tag('reach:' + r)
        if cells is not None:
            ctx.tag('cell:' + cells[i])
        if dev is not None:
            ctx.tag('oracle:' + dev['key'])
            ctx.violation(dev['key'], dev['what'], {'history': h[:dev['step'] + 1], 'step': dev['step'],
                                                    'observed': {k: obs[dev['step']].get(k) for k in ('rc', 'err', 'core', 'cmdline', 'intro')}})
        else:
            ctx.tag('oracle:clean')


def exhaustive(maxlen: int) -> T.List[T.List[dict]]:
    out = []
    for n in range(1, maxlen + 1):
        for t in itertools.product(range(len(ALPHABET)), repeat=n):
            out.append([ALPHABET[i] for i in t])
    return out


def run(ctx: Ctx) -> None:
    ctx.rule = 'distinct lifecycle histories (command lists) run with the real commands, every step observed'
    ctx.assumptions += TRUSTED[2:]
    for k in ('CFLAGS', 'LDFLAGS', 'CPPFLAGS', 'PKG_CONFIG_PATH'):
        os.environ.pop(k, None)
    # VERIF_C08_CAP: self-test aid only (mutation runs on a loaded machine): caps the deep tier's sizes
    cap = int(os.environ.get('VERIF_C08_CAP', '0') or 0)
    run_batch(ctx, CORPUS, 'corpus')
    if ctx.deep:
        ex = exhaustive(3)
        if cap:
            ex = ctx.rng.sample(ex, min(cap, len(ex)))
            ctx.notes.append(f'VERIF_C08_CAP={cap}: exhaustive part sampled')
        else:
            ctx.exhaustive = True
        run_batch(ctx, ex, 'exhaustive<=3')
    # dependency-directed templates: quick = every inheriting-pair template + a seeded sample of the others;
    # deep = all of them, plain and padded with random commands
    tpl = templates()
    if not ctx.deep or cap:
        must = [t for t in tpl if t[0].startswith('yield:')]
        # two subprojects sharing names and definitions: every clause for every kind would be 80 histories; quick
        # takes every clause for one kind (the twin removed / replaced, child yielding / overridden: two kinds), drawn by the seed,
        # + the two-children histories
        twin = [t for t in tpl if t[0].startswith('twin:')]
        for cl2 in sorted({t[0] for t in twin}):
            cs = [t for t in twin if t[0] == cl2]
            seedclass = cl2 in ('twin:removed', 'twin:replaced', 'twin:removed:child-overridden', 'twin:replaced:child-overridden')
            must += ctx.rng.sample(cs, min(2 if seedclass else 1, len(cs)))
        must += [t for t in tpl if t[0] == 'two-children']
        must += ctx.rng.sample([t for t in tpl if t[0] == 'persist:empty-value'], 3)
        # late / after-dump failures of every command kind (incl. --wipe and the regeneration after a corrupt
        # coredata.dat): two option kinds per clause, drawn by the seed
        late_clauses = sorted({t[0] for t in tpl if t[0].startswith('fail-') or 'regenerate' in t[0]})
        for cl_ in late_clauses:
            must += ctx.rng.sample([t for t in tpl if t[0] == cl_], 2)
        # boundary edits of the option files, for both projects: every kind of boundary, the style of an emptied
        # file and the follow-up drawn by the seed
        for proj_ in ('top', 'sub'):
            b = [t for t in tpl if t[0].startswith('boundary:') and t[2] == proj_]
            kinds_ = ['boundary:last-option-removed:', 'boundary:last-option-removed:then', 'boundary:all-but-one',
                      'boundary:file-deleted', 'boundary:file-recreated', 'boundary:file-renamed', 'boundary:setup-without']
            for kd in kinds_:
                must.append(ctx.rng.choice([t for t in b if t[0].startswith(kd)]))
        rest = [t for t in tpl if t not in must]
        tpl = must + ctx.rng.sample(rest, 8)
    run_batch(ctx, [t[3] for t in tpl], 'templates', [f'{t[0]}:{t[1]}:{t[2]}' for t in tpl])
    if ctx.deep and not cap:
        run_batch(ctx, [pad(ctx.rng, t[3]) for t in tpl], 'templates-padded', [f'{t[0]}:{t[1]}:{t[2]}' for t in tpl])
    ctx.extra['template_cells'] = sorted({f'{t[0]}:{t[1]}:{t[2]}' for t in tpl})
    n = ctx.scale(30, 1500)
    if cap and ctx.deep:
        n = min(n, cap)
    run_batch(ctx, [rand_history(ctx.rng) for _ in range(n)], 'random')
    ctx.notes.append('every command of every history is one real meson process; state is read back after every step')


def search(ctx: Ctx, disagreements: T.List[dict]) -> None:
    """something no longer checks: look for a failing input of the property near the disagreeing histories"""
    hs: T.List[T.List[dict]] = []
    for d in disagreements[:6]:
        h = d.get('history') or []
        for n in range(1, len(h) + 1):
            hs.append(h[:n])
            hs.append(h[:n] + [rc()])
            hs.append(h[:n] + [WIPE])
    rng = random.Random(ctx.seed + 1)
    hs += [rand_history(rng) for _ in range(60)]
    model, ctx.model_available = ctx.model_available, False
    try:
        run_batch(ctx, hs, 'search')
    finally:
        ctx.model_available = model


def replay(ctx: Ctx, rep: dict) -> None:
    case = rep.get('case') or {}
    h = case.get('history') or (rep.get('correspondence_disagreements') or [{}])[0].get('history')
    if h:
        run_batch(ctx, [h], 'replay')
