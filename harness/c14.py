"""C14 — template substitution replaces exactly the placeholders and nothing else.

Implementation under test (in-process): `do_conf_str` (three formats), `get_variable_regex('meson')`,
`do_replacement_meson`, `do_conf_file` (file layer, real files), `dump_conf_header`.
Model: `mvdriver-template` (lean/MesonModel/Template/Model.lean).
Oracle: reference scanners written from the property statement / Configuration.md (no model in the loop).
"""
from __future__ import annotations

import itertools
import json
import os
import signal
import string
import typing as T

from . import common
from . import c14_cf
from .common import Ctx, enc

ID = 'C14'
LEVEL = 'proof'
LEAN_TARGETS = ['MesonModel.Props.C14']
AREAS = ['template']
PINS = [
    'mesonbuild.utils.universal:do_replacement',
    'mesonbuild.utils.universal:do_replacement_meson',
    'mesonbuild.utils.universal:do_replacement_cmake',
    'mesonbuild.utils.universal:do_define_meson',
    'mesonbuild.utils.universal:do_define_cmake',
    'mesonbuild.utils.universal:get_variable_regex',
    'mesonbuild.utils.universal:do_conf_str',
    'mesonbuild.utils.universal:do_conf_str_meson',
    'mesonbuild.utils.universal:do_conf_str_cmake',
    'mesonbuild.utils.universal:do_conf_file',
    'mesonbuild.utils.universal:_dump_c_header',
    'mesonbuild.utils.universal:dump_conf_header',
    'mesonbuild.build:ConfigurationData',
    'mesonbuild.interpreter.interpreter:Interpreter.func_configure_file',
]
TRUSTED = [
    'domain: ASCII text plus non-ASCII code points that CPython classes as neither space, digit nor letter; '
    'configuration values are str/int/bool (what configuration_data() accepts); |int| < 10**18',
    'a run of the cmake scanner that performs more than %d variable look-ups in one do_conf_str call, raises '
    'RecursionError or trips the %d s alarm is classed as "does not return" (HANG); the model runs with fuel 6000 '
    'loop iterations; generated terminating cases stay far below both bounds',
    'json output_format of dump_conf_header is checked by the oracle only (not modelled)',
    'file layer at byte level: encodings utf-8, iso-8859-1, cp1252, utf-16, utf-8-sig judged by the oracle '
    '(CPython codecs are the reference encode/decode); the Lean model implements utf-8 and iso-8859-1 only',
    'end to end: configure_file() through `meson setup --backend=none` on generated projects, outputs compared byte for byte with '
    'the in-process do_conf_str result (templates that raise are only exercised in-process)',
    'interpreter level: configure_file() calls evaluated by one in-process Interpreter (real parser, keyword type checks, '
    'func_configure_file, do_conf_file / dump_conf_header / run_command_impl / shutil.copy2) over the grid {configuration '
    'absent, {}, dict, unpopulated and populated configuration_data()} x command x copy {absent,false,true} x capture x '
    '{0,1,2} inputs x format, plus random templates / data (35% empty data) / encoding / output_format / macro_name; '
    'the Lean dispatch model covers the action selection, do_conf_file, dump_conf_header (json as sorted entries), copy '
    'and capture; not modelled: @BASENAME@/@PLAINNAME@ in output:, build_subdir, depfile, install bookkeeping, what a '
    'command does (its stdout / written bytes are parameters; ASCII without CR only)',
]

LOOKUP_LIMIT = 1500
ALARM_S = 20
TRUSTED[1] = TRUSTED[1] % (LOOKUP_LIMIT, ALARM_S)

FORMATS = ['meson', 'cmake', 'cmake@']
NAMECH = set(string.ascii_letters + string.digits + '-_')
CMAKECH = set(string.ascii_letters + string.digits + '_/.+-')
NAMES = ['A', 'B', 'C', 'var', 'FOO', 'x-y', 'a_1', '9', 'UNDEF', 'NOPE']
DEFINED = NAMES[:8]
FILLER = ['', ' ', 'x', 'foo bar', 'int main(void)', '"q"', '#include <a.h>', '\t', '  ', 'é', '€', '%', '#', 'define',
          'a.b/c+d', '-', '_', '0', '\x0c', '\x1f']
ENDINGS = ['\n', '\n', '\n', '\r\n', '\r', '']


class _Hang(BaseException):
    pass


def _on_alarm(signum, frame):
    raise _Hang()


def impl():
    from mesonbuild.utils import universal as U
    from mesonbuild.build import ConfigurationData
    from mesonbuild.mesonlib import MesonException
    from mesonbuild import mlog
    mlog._logger.log_disable_stdout = True   # the bool-substitution deprecation message is not under test

    class CountingData(ConfigurationData):
        """real ConfigurationData; counts look-ups so that a scanner that never finishes is cut off"""
        def __init__(self, init):
            super().__init__(init)
            self.lookups = 0

        def __contains__(self, value):
            self.lookups += 1
            if self.lookups > LOOKUP_LIMIT:
                raise _Hang()
            return super().__contains__(value)

        def get(self, name):
            self.lookups += 1
            if self.lookups > LOOKUP_LIMIT:
                raise _Hang()
            return super().get(name)

    return U, CountingData, MesonException


# ------------------------------------------------------------------ data <-> protocol

def data_items(data: T.Dict[str, T.Any], descs: T.Optional[T.Dict[str, T.Optional[str]]] = None) -> str:
    out = []
    for k, v in data.items():
        if isinstance(v, bool):
            t, p = 'b', str(int(v))
        elif isinstance(v, int):
            t, p = 'i', str(v)
        else:
            t, p = 's', enc(v)
        d = (descs or {}).get(k)
        out.append(f'{enc(k)}:{t}:{p}:{0 if d is None else 1}:{"" if d is None else enc(d)}')
    return ','.join(out)


def show_lines(lines: T.Iterable[str]) -> str:
    return ','.join('=' + enc(x) for x in lines)


def canon_names(names: T.Iterable[str]) -> str:
    return ','.join('=' + e for e in sorted({enc(n) for n in names}))


def data_json(data):
    return [[k, type(v).__name__, v] for k, v in data.items()]


def data_unjson(lst):
    return {k: (bool(v) if t == 'bool' else int(v) if t == 'int' else str(v)) for k, t, v in lst}


def err_class(e: BaseException, MesonException) -> str:
    if isinstance(e, (_Hang, RecursionError)):
        return 'ERR:HANG'
    if isinstance(e, MesonException):
        m = str(e)
        if m.startswith('#mesondefine does not contain exactly two tokens'):
            return 'ERR:MesonException:tokens'
        if m.startswith('Format error'):
            return 'ERR:MesonException:format'
        if m.startswith('Found invalid character'):
            return 'ERR:MesonException:invalid'
        if m.startswith('Found incomplete variable'):
            return 'ERR:MesonException:incomplete'
        return 'ERR:MesonException:other'
    return 'ERR:' + type(e).__name__


def impl_conf(I, fmt: str, data: dict, lines: T.List[str]):
    """-> (canonical answer, raw result or None)"""
    U, CD, ME = I
    cd = CD(dict(data))
    signal.setitimer(signal.ITIMER_REAL, ALARM_S)
    try:
        res, missing, useless = U.do_conf_str('src.in', list(lines), cd, fmt)
        signal.setitimer(signal.ITIMER_REAL, 0)
        return f'OK|{show_lines(res)}|{canon_names(missing)}|{int(bool(useless))}', (res, set(missing), useless)
    except BaseException as e:  # noqa: B036 - every outcome is a class
        signal.setitimer(signal.ITIMER_REAL, 0)
        if isinstance(e, (KeyboardInterrupt, SystemExit)):
            raise
        return err_class(e, ME), None


# ------------------------------------------------------------------ property oracle (implementation only)

def _name_end(s: str, i: int, allowed) -> int:
    while i < len(s) and s[i] in allowed:
        i += 1
    return i


def py_str(v) -> str:
    return v if isinstance(v, str) else str(v)


def ref_subst_meson(line: str, data: dict) -> T.Tuple[str, T.Set[str]]:
    """Reference for the meson format, from the statement: `@VAR@` (VAR over [-a-zA-Z0-9_]) is replaced unless a
    backslash precedes it; `\\@VAR\\@` yields `@VAR@`; 2k backslashes in front of `@` / `\\@` yield k; one left
    to right pass, values are never looked at again; everything else is copied."""
    out: T.List[str] = []
    missing: T.Set[str] = set()
    i, n = 0, len(line)
    while i < n:
        c = line[i]
        if c == '\\':
            j = i
            while j < n and line[j] == '\\':
                j += 1
            k = j - i
            if j < n and line[j] == '@':
                if k >= 2:
                    out.append('\\' * (k // 2))
                    i += 2 * (k // 2)
                    continue
                m = _name_end(line, j + 1, NAMECH)
                if m > j + 1 and line[m:m + 2] == '\\@':
                    out.append('@' + line[j + 1:m] + '@')
                    i = m + 2
                    continue
            out.append(line[i:j])
            i = j
            continue
        if c == '@' and (i == 0 or line[i - 1] != '\\'):
            m = _name_end(line, i + 1, NAMECH)
            if m > i + 1 and m < n and line[m] == '@':
                name = line[i + 1:m]
                if name in data:
                    out.append(py_str(data[name]))
                else:
                    missing.add(name)
                i = m + 1
                continue
        out.append(c)
        i += 1
    return ''.join(out), missing


def cmake_str(v) -> str:
    if isinstance(v, bool):
        return str(int(v))
    return py_str(v)


class _Outside(Exception):
    pass


def ref_subst_cmake(line: str, data: dict, at_only: bool):
    """Reference for the cmake formats: `${VAR}` (not with cmake@; VAR may itself be written with nested `${..}`,
    evaluated first) and `@VAR@`, VAR over [a-zA-Z0-9_/.+-], replaced by the value (bool as 1/0); ONE left to
    right pass, a substituted value is never looked at again.  Returns None when the line is outside the documented
    forms (`${` without matching `}`, characters that cannot be part of a name between the braces, empty name)."""
    try:
        return _ref_cm(line, data, at_only)
    except _Outside:
        return None


def _ref_cm(line: str, data: dict, at_only: bool):
    out: T.List[str] = []
    missing: T.Set[str] = set()
    used: T.List[T.Tuple[str, int]] = []   # (name, end offset in template)
    i, n = 0, len(line)
    while i < n:
        c = line[i]
        if c == '@':
            j = line.find('@', i + 1)
            if j > i + 1 and all(ch in CMAKECH for ch in line[i + 1:j]):
                name = line[i + 1:j]
                if name in data:
                    out.append(cmake_str(data[name]))
                else:
                    missing.add(name)
                used.append((name, j + 1))
                i = j + 1
                continue
        elif not at_only and line.startswith('${', i):
            depth, j = 1, i + 2
            while depth > 0:
                if j >= n:
                    raise _Outside()
                if line.startswith('${', j):
                    depth += 1
                    j += 2
                elif line[j] == '}':
                    depth -= 1
                    j += 1
                elif line[j] in CMAKECH:
                    j += 1
                else:
                    raise _Outside()
            name, miss_inner, _u = _ref_cm(line[i + 2:j - 1], data, at_only)
            if name == '' or not all(ch in CMAKECH for ch in name):
                raise _Outside()
            missing |= miss_inner
            if name in data:
                out.append(cmake_str(data[name]))
            else:
                missing.add(name)
            used.append((name, j))
            i = j
            continue
        out.append(c)
        i += 1
    return ''.join(out), missing, used


def values_cyclic(data: dict) -> bool:
    """some string value mentions (as `${K}` or `@K@`) a key from which it is reachable again"""
    refs = {k: {k2 for k2 in data if isinstance(v, str) and (('${' + k2 + '}') in v or ('@' + k2 + '@') in v)}
            for k, v in data.items()}
    for k in data:
        seen, todo = set(), list(refs[k])
        while todo:
            x = todo.pop()
            if x == k:
                return True
            if x not in seen:
                seen.add(x)
                todo += list(refs[x])
    return False


def oracle_conf(ctx: Ctx, fmt: str, data: dict, lines: T.List[str], ans: str, raw) -> None:
    """the property's predicate on one do_conf_str result"""
    case = {'kind': 'conf', 'fmt': fmt, 'data': data_json(data), 'lines': lines}
    if ans == 'ERR:HANG':
        if fmt != 'meson' and values_cyclic(data):
            ctx.violation('cmake-self-referential-value-never-returns',
                          'do_conf_str does not return (scanner re-enters the text it substituted)', case)
        else:
            ctx.violation('hang:' + json.dumps(case, sort_keys=True), 'do_conf_str does not return', case)
        return
    if raw is None:
        if not ans.startswith('ERR:MesonException'):
            ctx.tag('oracle:internal-exception:' + ans)
        return
    res, missing, _useless = raw
    if len(res) != len(lines):
        ctx.violation('linecount:' + json.dumps(case, sort_keys=True), 'number of lines changed', case)
        return
    exp_missing: T.Set[str] = set()
    judged_all = True
    for line, got in zip(lines, res):
        if fmt == 'meson':
            if line.lstrip().startswith('#mesondefine'):
                toks = line.split()
                if len(toks) != 2 or toks[0] != '#mesondefine':
                    ctx.tag('oracle:define-nonstandard-skipped')
                    continue
                name = toks[1]
                if name not in data:
                    want = f'/* #undef {name} */\n'
                else:
                    v = data[name]
                    if isinstance(v, bool):
                        want = f'#define {name}\n' if v else f'#undef {name}\n'
                    elif isinstance(v, int):
                        want = f'#define {name} {v}\n'
                    else:
                        want = f'#define {name} {v}'.strip() + '\n'
                if got != want:
                    v = data.get(name)
                    if isinstance(v, str) and ('@' in v):
                        ctx.violation('mesondefine-string-value-rescanned',
                                      'value substituted by #mesondefine is scanned again for @VAR@ / escapes',
                                      {**case, 'line': line, 'got': got, 'want': want})
                    else:
                        ctx.violation('define:' + json.dumps([line, data_json(data)]),
                                      f'#mesondefine line rendered as {got!r}, documented form {want!r}',
                                      {**case, 'line': line, 'got': got, 'want': want})
                ctx.tag('oracle:mesondefine')
            else:
                want, miss = ref_subst_meson(line, data)
                exp_missing |= miss
                if got != want:
                    ctx.violation('subst:' + json.dumps([line, data_json(data)]),
                                  f'meson-format line became {got!r}, exactly-the-placeholders gives {want!r}',
                                  {**case, 'line': line, 'got': got, 'want': want})
                ctx.tag('oracle:meson-line')
        else:
            at_only = fmt == 'cmake@'
            st = line.lstrip()
            if len(st) >= 2 and st[0] == '#' and st[1:].lstrip().startswith('cmakedefine'):
                judged_all &= oracle_cmakedefine(ctx, case, line, data, at_only, got)
                continue
            r = ref_subst_cmake(line, data, at_only)
            if r is None:
                ctx.tag('oracle:cmake-nonsimple-skipped')
                judged_all = False
                continue
            want, miss, used = r
            exp_missing |= miss
            if got != want:
                hidden = any((nm not in data or data[nm] == '') and line[e:e + 1] in ('@', '$') for nm, e in used)
                if hidden:
                    ctx.violation('cmake-empty-value-hides-next-placeholder',
                                  'a placeholder directly after an empty/undefined one is left unreplaced',
                                  {**case, 'line': line, 'got': got, 'want': want})
                    judged_all = False
                else:
                    ctx.violation('subst:' + json.dumps([fmt, line, data_json(data)]),
                                  f'{fmt}-format line became {got!r}, exactly-the-placeholders gives {want!r}',
                                  {**case, 'line': line, 'got': got, 'want': want})
            ctx.tag('oracle:cmake-line')
    if judged_all and fmt == 'meson' and missing != exp_missing:
        ctx.violation('missing:' + json.dumps(case, sort_keys=True),
                      f'undefined names reported {sorted(missing)}, template uses {sorted(exp_missing)}', case)
    if judged_all and fmt != 'meson' and missing != exp_missing:
        ctx.violation('missing:' + json.dumps(case, sort_keys=True),
                      f'undefined names reported {sorted(missing)}, template uses {sorted(exp_missing)}', case)


def oracle_cmakedefine(ctx: Ctx, case, line: str, data: dict, at_only: bool, got: str) -> bool:
    toks = line.split()
    if toks and toks[0] == '#' and len(toks) > 1:
        toks = ['#' + toks[1]] + toks[2:]
    if len(toks) < 2 or toks[0] not in ('#cmakedefine', '#cmakedefine01') or 'cmakedefine01' in ' '.join(toks[1:]):
        ctx.tag('oracle:cmakedefine-nonstandard-skipped')
        return False
    name, rest = toks[1], toks[2:]
    v = data.get(name)
    if toks[0] == '#cmakedefine01':
        want = f'#define {name} {1 if v else 0}\n'
    elif not v:
        want = f'/* #undef {name} */\n'
    else:
        if any(t in data for t in rest):
            ctx.tag('oracle:cmakedefine-bare-key-token-skipped')
            return False
        if not all(ch in NAMECH for ch in name):
            ctx.tag('oracle:cmakedefine-nonstandard-skipped')
            return False
        # the line-shaped placeholder is rendered as `#define NAME <rest, blanks normalised>` (trailing blanks
        # dropped), then the placeholders of that text are replaced
        r = ref_subst_cmake(f'#define {name} {" ".join(rest)}'.strip(), data, at_only)
        if r is None:
            ctx.tag('oracle:cmakedefine-nonsimple-skipped')
            return False
        want = r[0] + '\n'
    if got != want:
        if line[:1].isspace() and line.lstrip()[1:2].isspace():
            ctx.violation('cmakedefine-indented-hash-space-takes-wrong-token',
                          'indented "# cmakedefine VAR" is processed with "cmakedefine" as the variable name',
                          {**case, 'line': line, 'got': got, 'want': want})
        else:
            ctx.violation('cmakedefine:' + json.dumps([line, data_json(data)]),
                          f'#cmakedefine line rendered as {got!r}, expected {want!r}',
                          {**case, 'line': line, 'got': got, 'want': want})
    ctx.tag('oracle:cmakedefine')
    return True


def oracle_file(ctx: Ctx, fmt: str, data: dict, text: str, out: T.Optional[str]) -> None:
    """bytes outside placeholders (line endings included) are copied: for a text without `@`, `$`, `#` the
    output file is the input file"""
    if out is None:
        return
    if not any(ch in text for ch in '@$#') and out != text:
        ctx.violation('file-copy:' + json.dumps([fmt, text]), 'placeholder-free text was not copied byte for byte',
                      {'kind': 'file', 'fmt': fmt, 'data': data_json(data), 'text': text, 'got': out})


def oracle_header(ctx: Ctx, ofmt: str, macro: T.Optional[str], data: dict, descs: dict, out: str) -> None:
    """a header generated without a template defines exactly the keys, once each, in sorted order"""
    case = {'kind': 'hdr', 'ofmt': ofmt, 'macro': macro, 'data': data_json(data), 'descs': descs}
    if ofmt == 'json':
        try:
            obj = json.loads(out)
        except ValueError:
            ctx.violation('hdr-json:' + json.dumps(case, sort_keys=True), 'json output does not parse', case)
            return
        if list(obj.keys()) != sorted(data.keys()) or any(obj[k] != data[k] for k in data):
            ctx.violation('hdr-json:' + json.dumps(case, sort_keys=True), 'json output is not the sorted data', case)
        return
    pfx = '#' if ofmt == 'c' else '%'
    defs: T.List[T.Tuple[str, str, str]] = []
    for ln in out.split('\n'):
        for kw in ('define', 'undef'):
            if ln.startswith(pfx + kw + ' '):
                body = ln[len(pfx + kw + ' '):]
                nm, _sep, val = body.partition(' ')
                defs.append((kw, nm, val))
    if ofmt == 'c' and macro:
        if not defs or defs[0] != ('define', macro, ''):
            ctx.violation('hdr-guard:' + json.dumps(case, sort_keys=True), 'include guard missing', case)
            return
        defs = defs[1:]
    want = []
    for k in sorted(data):
        v = data[k]
        if isinstance(v, bool):
            want.append(('define' if v else 'undef', k, ''))
        else:
            want.append(('define', k, py_str(v)))
    if defs != want:
        ctx.violation('hdr:' + json.dumps(case, sort_keys=True),
                      f'header defines {defs}, data says {want}', case)


# ------------------------------------------------------------------ generators

def rand_name(rng) -> str:
    return rng.choice(NAMES)


def rand_value(rng, fmt: str):
    r = rng.random()
    if r < 0.12:
        return rng.choice([True, False])
    if r < 0.27:
        return rng.choice([0, 1, -5, 42, 1234567, -1])
    if r < 0.37:
        return ''
    if r < 0.62:
        # looks like a placeholder
        n = rng.choice(DEFINED + ['UNDEF'])
        forms = ['@%s@', '\\@%s\\@', 'x@%s@', '\\\\@%s@', 'y@%s@z', '@%s', ' @%s@ ']
        if fmt != 'meson' or rng.random() < 0.3:
            forms += ['${%s}', 'x${%s}', 'y${%s}z', '${${%s}}', 'x${%s}${%s}', '${%s', 'q@%s@']
        f = rng.choice(forms)
        return f.replace('%s', n)
    return rng.choice(['x', 'value', '"str"', 'a b', ' lead', 'trail ', '1', '0', 'é€', '\\', '@', 'a.b', '\ttab\t', '$', '{}'])


def rand_data(rng, fmt: str) -> dict:
    if rng.random() < 0.06:
        return {}
    d = {}
    for n in rng.sample(DEFINED, rng.randint(1, 5)):
        d[n] = rand_value(rng, fmt)
    return d


def frag_meson(rng) -> str:
    n = rand_name(rng)
    bs = '\\' * rng.randint(0, 5)
    return rng.choice([
        '@' + n + '@', '@' + n + '@', bs + '@' + n + '@', '\\@' + n + '\\@', bs + '\\@' + n + '\\@', bs + '@', bs,
        '@' + n, n + '@', '@@', '@ ' + n + '@', '@' + n + '.x@', '@' + n + '@' + rand_name(rng) + '@', '\\@' + n + '@',
        '@' + n + '\\@', '${' + n + '}', '$', '{', '}', rng.choice(FILLER), rng.choice(FILLER), '@é@', '@' + n + '\\',
    ])


def frag_cmake(rng) -> str:
    n = rand_name(rng)
    return rng.choice([
        '${' + n + '}', '${' + n + '}', '@' + n + '@', '@' + n + '@', '${${' + n + '}}', '${' + n, '$' + n, '${}',
        '${' + n + ' x}', '@' + n, n + '@', '@@', '@ ' + n + '@', '@' + n + '/a.b+c@', '${' + n + '@}', '$', '{', '}', '$$',
        '${' + n + '}${' + rand_name(rng) + '}', '@' + n + '@@' + rand_name(rng) + '@', '${' + n + '}@' + rand_name(rng) + '@',
        '\\${' + n + '}', '\\@' + n + '@', rng.choice(FILLER), rng.choice(FILLER), '${a${' + n + '}}', '${é}',
    ])


def define_line(rng, fmt: str) -> str:
    n = rand_name(rng)
    ws = lambda: rng.choice(['', ' ', ' ', '\t', '  '])  # noqa: E731
    sp = lambda: rng.choice([' ', ' ', '\t', '  '])  # noqa: E731
    if fmt == 'meson':
        return rng.choice([
            ws() + '#mesondefine' + sp() + n + ws(),
            ws() + '#mesondefine' + sp() + n + ws(),
            '#mesondefine ' + n,
            '#mesondefine',
            '#mesondefine ' + n + ' extra',
            '#mesondefine' + n + ' ' + rand_name(rng),
            '# mesondefine ' + n,
            'x #mesondefine ' + n,
            '#mesondefine @' + n + '@',
            ws() + '#cmakedefine ' + n,
            '#' + sp() + 'cmakedefine ' + n,
            '// #cmakedefine',
        ])
    return rng.choice([
        ws() + '#cmakedefine' + sp() + n + ws(),
        '#cmakedefine ' + n,
        '#cmakedefine ' + n + ' ' + frag_cmake(rng),
        '#cmakedefine ' + n + '  x  ${' + rand_name(rng) + '} @' + rand_name(rng) + '@',
        '#cmakedefine ' + n + ' ' + rand_name(rng),
        ws() + '#cmakedefine01' + sp() + n + ws(),
        '#cmakedefine01 ' + n,
        '#' + sp() + 'cmakedefine ' + n,
        ws() + '#' + sp() + 'cmakedefine ' + n,
        ' # cmakedefine01 ' + n,
        '#cmakedefine',
        '#cmakedefine01',
        '#cmakedefine' + n + ' ' + rand_name(rng),
        '#cmakedefine ' + n + ' cmakedefine01',
        'x #cmakedefine ' + n,
        '#mesondefine ' + n,
        ' #mesondefine',
    ])


def rand_line(rng, fmt: str) -> str:
    r = rng.random()
    if r < 0.2:
        body = define_line(rng, fmt)
    else:
        frag = frag_meson if fmt == 'meson' else frag_cmake
        body = ''.join(frag(rng) for _ in range(rng.randint(0, 5)))
    return body + rng.choice(ENDINGS)


def rand_junk_line(rng) -> str:
    alpha = '\\\\@@${}#AB \t\r\n-_x.émcdefinos01'
    return ''.join(rng.choice(alpha) for _ in range(rng.randint(0, 14)))


CORPUS: T.List[T.Tuple[str, dict, T.List[str]]] = [
    ('cmake', {'A': 'x${A}'}, ['${A}\n']),
    ('cmake@', {'A': 'x@A@'}, ['@A@\n']),
    ('cmake', {'A': 'x${${A}}'}, ['${A}\n']),
    ('cmake', {'A': '', 'B': 'bee'}, ['${A}${B}\n']),
    ('cmake', {'B': 'bee'}, ['${A}${B}\n']),
    ('cmake@', {'A': '', 'B': 'bee'}, ['@A@@B@\n']),
    ('cmake', {'A': 'y${B}', 'B': 'bee'}, ['${A}\n']),
    ('cmake', {'A': '${B}', 'B': 'bee'}, ['${A}\n']),
    ('cmake', {'FOO': '1'}, [' # cmakedefine FOO\n']),
    ('cmake', {'FOO': '1'}, ['# cmakedefine FOO\n', ' #cmakedefine FOO\n', '#cmakedefine\n']),
    ('cmake', {'VAR': 'value'}, ['#cmakedefine VAR xxx ${VAR} yyy ${VAR}']),
    ('cmake@', {'VAR': 'value'}, ['#cmakedefine VAR xxx @VAR@ yyy @VAR@']),
    ('cmake', {'A': 'B', 'B': 'val'}, ['${${A}}\n']),
    ('meson', {'var': '@var2@', 'var2': 'error'}, ['#define MESSAGE "@var@"\n']),
    ('meson', {'var': '@var2@', 'var2': 'error'}, ['#mesondefine var\n']),
    ('meson', {'var1': 'foo', 'var2': 'bar'}, ['\\@var1@\n', '\\\\@var1@\n', '\\\\\\@var1@\n', '\\@var1\\@\n', '\\\\@var1\\@',
                                               '\\\\\\@var1\\@\r\n']),
    ('meson', {'FOO': '1'}, ['#mesondefine FOO\r\n', '  #mesondefine\tFOO  \n', '#mesondefineX FOO\n']),
    ('meson', {'A': True, 'B': False, 'C': 0, 'x-y': -5}, ['@A@ @B@ @C@ @x-y@\n', '#mesondefine A\n', '#mesondefine B\n',
                                                        '#mesondefine C\n', '#mesondefine x-y\n', '#mesondefine NOPE\n']),
    ('meson', {}, ['nothing here\r\n', '@UNDEF@\n']),
    ('meson', {'A': 'x'}, ['#cmakedefine A\n']),
    ('cmake', {'A': 'x'}, ['#mesondefine A\n']),
]


# ------------------------------------------------------------------ file layer as its own tie: bytes in, bytes out

ENCODINGS = ['utf-8', 'iso-8859-1', 'cp1252', 'utf-16', 'utf-8-sig']
# characters that encode differently (or not at all) in the encodings above; none is a Unicode space/digit/letter-free
# problem for the scanners: the placeholder syntax is ASCII, so every one of them is "other" text
ENC_CHARS = {
    'utf-8': ['\xe9', '\xfc', '\u20ac', '\u4e2d', '\xdf', '\U0001f600'],
    'utf-8-sig': ['\xe9', '\xfc', '\u20ac', '\u4e2d', '\xdf'],
    'utf-16': ['\xe9', '\xfc', '\u20ac', '\u4e2d', '\xdf', '\U0001f600'],
    'iso-8859-1': ['\xe9', '\xfc', '\xdf', '\xa4', '\xff', '\xd7'],
    'cp1252': ['\xe9', '\xfc', '\xdf', '\u20ac', '\u0152', '\xff', '\u2122'],
}
NOT_IN = {'iso-8859-1': ['\u20ac', '\u4e2d'], 'cp1252': ['\u4e2d', '\u0100']}
BAD_BYTES = {
    'utf-8': [b'\xff', b'\xc3', b'\xe2\x82', b'\xc0\xaf', b'\xed\xa0\x80'],
    'utf-8-sig': [b'\xff', b'\xc3'],
    'cp1252': [b'\x81', b'\x8d', b'\x8f', b'\x90', b'\x9d'],
    'utf-16': [b'\xff\xfea', b'\xff\xfe\x00\xd8a\x00'],
}


def plain_line(rng, fmt: str, enc: str) -> str:
    """one template line without define directives: placeholder fragments + filler + characters special to `enc`"""
    frag = frag_meson if fmt == 'meson' else frag_cmake
    parts = []
    for _ in range(rng.randint(0, 5)):
        r = rng.random()
        if r < 0.3:
            parts.append(rng.choice(ENC_CHARS[enc]))
        else:
            f = frag(rng)
            if any(ch in f for ch in '\xe9\u20ac#') and '\u20ac' in f and enc == 'iso-8859-1':
                f = 'x'
            parts.append(f.replace('\u20ac', rng.choice(ENC_CHARS[enc])).replace('#', '%'))
    return ''.join(parts) + rng.choice(ENDINGS)


def enc_data(rng, fmt: str, enc: str) -> dict:
    d = {}
    for n in rng.sample(DEFINED, rng.randint(0, 4)):
        r = rng.random()
        if r < 0.5:
            v = ''.join(rng.choice(ENC_CHARS[enc] + ['a', ' ', 'Z', '"']) for _ in range(rng.randint(0, 4)))
        elif r < 0.6 and enc in NOT_IN:
            v = 'u' + rng.choice(NOT_IN[enc])     # cannot be written in this encoding
        else:
            v = rand_value(rng, fmt)
            if isinstance(v, str) and enc in ('iso-8859-1', 'cp1252'):
                v = v.replace('\u20ac', '\xe9')
        d[n] = v
    return d


def ref_file_text(fmt: str, data: dict, text: str):
    """reference substitution of a whole decoded text (lines keep their CR/LF/CRLF); None outside the oracle's domain"""
    import io
    out = []
    for line in io.StringIO(text, newline='').readlines():
        st = line.lstrip()
        if st.startswith('#'):
            return None
        if fmt == 'meson':
            out.append(ref_subst_meson(line, data)[0])
        else:
            r = ref_subst_cmake(line, data, fmt == 'cmake@')
            if r is None:
                return None
            out.append(r[0])
    return ''.join(out)


def impl_file_bytes(I, fmt: str, data: dict, enc: str, src_bytes: bytes, src: str, dst: str):
    """-> (canonical answer, output bytes or None, exception or None)"""
    U, CD, ME = I
    with open(src, 'wb') as f:
        f.write(src_bytes)
    if os.path.exists(dst):
        os.unlink(dst)
    signal.setitimer(signal.ITIMER_REAL, ALARM_S)
    try:
        U.do_conf_file(src, dst, CD(dict(data)), fmt, encoding=enc)
        signal.setitimer(signal.ITIMER_REAL, 0)
        with open(dst, 'rb') as f:
            out = f.read()
        return 'OK|' + ' '.join(str(b) for b in out), out, None
    except BaseException as e:  # noqa: B036
        signal.setitimer(signal.ITIMER_REAL, 0)
        if isinstance(e, (KeyboardInterrupt, SystemExit)):
            raise
        if isinstance(e, ME) and str(e).startswith('Could not read input file'):
            return 'ERR:read', None, e
        if isinstance(e, ME) and str(e).startswith('Could not write output file'):
            return 'ERR:write', None, e
        return err_class(e, ME), None, e


def oracle_file_bytes(ctx: Ctx, fmt: str, data: dict, enc: str, src_bytes: bytes, out: T.Optional[bytes],
                      exc: T.Optional[BaseException], ME, where: str = 'do_conf_file') -> None:
    """The property at the byte level: output = encode(substitute(decode(input))) in the *same* encoding - every byte
    outside a placeholder equals the input byte; input that is not valid in the encoding is reported as a
    MesonException."""
    case = {'kind': 'fileb', 'fmt': fmt, 'data': data_json(data), 'enc': enc, 'src': list(src_bytes)}
    try:
        text = src_bytes.decode(enc)
    except UnicodeError:
        if out is not None or not isinstance(exc, ME):
            ctx.violation('fileb-undecodable:' + json.dumps(case, sort_keys=True),
                          f'{where}: input invalid in {enc} gives {type(exc).__name__ if exc else "output"} '
                          f'instead of a MesonException', case)
        return
    if out is None:
        if exc is not None and not isinstance(exc, (ME, _Hang, RecursionError)):
            ctx.violation('fileb-exception:' + json.dumps(case, sort_keys=True),
                          f'{where}: {type(exc).__name__} escapes', case)
        return
    if text == '':
        return
    want_text = ref_file_text(fmt, data, text)
    if want_text is None:
        ctx.tag('oracle:fileb-skipped')
        return
    try:
        want = want_text.encode(enc)
    except UnicodeError:
        ctx.violation('fileb-unencodable:' + json.dumps(case, sort_keys=True),
                      f'{where}: a value that {enc} cannot represent was written', {**case, 'got': list(out)})
        return
    ctx.tag('oracle:fileb:' + enc)
    if out != want:
        plain = not any(ch in text for ch in '@$#')
        ctx.violation('fileb:' + json.dumps(case, sort_keys=True),
                      f'{where} ({enc}): ' + ('placeholder-free input not copied byte for byte' if plain else
                                              'bytes outside the placeholders changed / wrong encoding of values'),
                      {**case, 'got': list(out), 'want': list(want)})


def file_bytes_stream(ctx: Ctx, I, rng, cases, n: int) -> None:
    scratch = common.scratch_dir('mverif-c14-fb-')
    try:
        src, dst = os.path.join(scratch, 'in.bin'), os.path.join(scratch, 'out.bin')
        for i in range(n):
            enc = ENCODINGS[i % len(ENCODINGS)]
            fmt = rng.choice(FORMATS)
            data = enc_data(rng, fmt, enc)
            r = rng.random()
            if r < 0.07 and enc in BAD_BYTES:
                pre = ''.join(plain_line(rng, fmt, enc) for _ in range(rng.randint(0, 2)))
                src_bytes = (pre.encode(enc) if pre else b'') + rng.choice(BAD_BYTES[enc]) + b'\n'
                if enc == 'utf-16':
                    src_bytes = rng.choice(BAD_BYTES[enc])
            elif r < 0.25:
                text = ''.join(rng.choice(ENC_CHARS[enc] + ['a', ' ', '\n', '\r\n', '\r', '\\', '{', '}', 'word'])
                               for _ in range(rng.randint(1, 12)))
                src_bytes = text.encode(enc)
            else:
                text = ''.join(plain_line(rng, fmt, enc) for _ in range(rng.randint(1, 4))) or 'x'
                src_bytes = text.encode(enc)
            ans, out, exc = impl_file_bytes(I, fmt, data, enc, src_bytes, src, dst)
            ctx.tag('fileb:' + enc + ':' + ans.split('|')[0])
            oracle_file_bytes(ctx, fmt, data, enc, src_bytes, out, exc, I[2])
            if enc in ('utf-8', 'iso-8859-1'):
                cases.append(('fileb', {'fmt': fmt, 'data': data_json(data), 'enc': enc, 'src': list(src_bytes)},
                              f'fileb {"latin1" if enc == "iso-8859-1" else "utf8"}|{fmt}|{data_items(data)}|'
                              + ' '.join(str(b) for b in src_bytes), ans))
            else:
                ctx.count()
    finally:
        common.rmtree(scratch)


# ------------------------------------------------------------------ end to end: configure_file() through meson setup

def meson_str(v: str) -> str:
    return "'" + v.replace('\\', '\\\\').replace("'", "\\'").replace('\n', '\\n').replace('\r', '\\r').replace('\t', '\\t') + "'"


def meson_val(v) -> str:
    if isinstance(v, bool):
        return 'true' if v else 'false'
    if isinstance(v, int):
        return str(v)
    return meson_str(v)


def e2e_stream(ctx: Ctx, I, rng, nproj: int, nfiles: int) -> None:
    """Real `configure_file()` calls evaluated by `meson setup --backend=none` on generated projects; every produced
    file is compared byte for byte with the in-process result (which the rest of the run ties to the model) and
    judged by the file / header oracles."""
    import subprocess
    import sys
    from concurrent.futures import ThreadPoolExecutor
    U = I[0]
    scratch = common.scratch_dir('mverif-c14-e2e-')
    old_handler = signal.getsignal(signal.SIGALRM)
    try:
        projects = []
        for pi in range(nproj):
            src = os.path.join(scratch, f'p{pi}')
            os.makedirs(src)
            mb = [f"project('c14e2e{pi}')"]
            expect = []
            j = 0
            while j < nfiles:
                fmt = rng.choice(FORMATS)
                if j < 2 or rng.random() < 0.35:
                    # configure_file(encoding: …): template bytes in that encoding, judged at the byte level
                    enc = ENCODINGS[1:][(pi + j + rng.randint(0, 3)) % 4]
                    data = {k: v for k, v in enc_data(rng, fmt, enc).items()
                            if not (isinstance(v, str) and any(ch in v for ch in '\x0c\x1f'))}
                    text = ''.join(plain_line(rng, fmt, enc) for _ in range(rng.randint(1, 4))).replace('\x0c', ' ') \
                        .replace('\x1f', ' ') or 'x'
                    src_bytes = text.encode(enc)
                    ans, out, _exc = impl_file_bytes(I, fmt, data, enc, src_bytes, os.path.join(src, f't{j}.in'),
                                                     os.path.join(scratch, 'probe.out'))
                    if out is None:
                        continue
                    mb.append(f'd{j} = configuration_data()')
                    for k, v in data.items():
                        mb.append(f'd{j}.set({meson_str(k)}, {meson_val(v)})')
                    mb.append(f"configure_file(input: 't{j}.in', output: 't{j}.out', format: '{fmt}', "
                              f"encoding: '{enc}', configuration: d{j})")
                    expect.append((f't{j}.out', 'bytes', fmt, data, (enc, src_bytes), out))
                    j += 1
                    continue
                data = {k: v for k, v in rand_data(rng, fmt).items()
                        if not (isinstance(v, str) and any(ch in v for ch in '\x0c\x1f'))}
                lines = [ln for ln in (rand_line(rng, fmt) for _ in range(rng.randint(1, 5)))
                         if not any(ch in ln for ch in '\x0c\x1f')]
                text = ''.join(lines)
                with open(os.path.join(src, f't{j}.in'), 'w', encoding='utf-8', newline='') as f:
                    f.write(text)
                with open(os.path.join(src, f't{j}.in'), encoding='utf-8', newline='') as f:
                    rl = f.readlines()
                ans, raw = impl_conf(I, fmt, data, rl)
                if raw is None:
                    continue    # an error aborts the whole setup; error classes are covered in-process
                mb.append(f'd{j} = configuration_data()')
                for k, v in data.items():
                    mb.append(f'd{j}.set({meson_str(k)}, {meson_val(v)})')
                mb.append(f"configure_file(input: 't{j}.in', output: 't{j}.out', format: '{fmt}', configuration: d{j})")
                expect.append((f't{j}.out', 'file', fmt, data, text, ''.join(raw[0])))
                if data and rng.random() < 0.5:
                    ofmt = rng.choice(['c', 'nasm', 'json'])
                    clean = {k: v for k, v in data.items() if not (isinstance(v, str) and any(c in v for c in '\n\r'))}
                    mb.append(f'h{j} = configuration_data()')
                    for k, v in clean.items():
                        mb.append(f'h{j}.set({meson_str(k)}, {meson_val(v)})')
                    mb.append(f"configure_file(output: 'h{j}.h', output_format: '{ofmt}', configuration: h{j})")
                    expect.append((f'h{j}.h', 'hdr', ofmt, clean, None, None))
                j += 1
            with open(os.path.join(src, 'meson.build'), 'w', encoding='utf-8') as f:
                f.write('\n'.join(mb) + '\n')
            projects.append((src, expect))
        signal.setitimer(signal.ITIMER_REAL, 0)
        env = dict(os.environ, PYTHONPATH=common.REPO, PYTHONDONTWRITEBYTECODE='1')

        def setup(src):
            return subprocess.run([sys.executable, os.path.join(common.REPO, 'meson.py'), 'setup', '--backend=none',
                                   os.path.join(src, 'build'), src], env=env, stdout=subprocess.PIPE,
                                  stderr=subprocess.STDOUT, text=True, timeout=300)
        with ThreadPoolExecutor(max_workers=8) as ex:
            results = list(ex.map(setup, [p[0] for p in projects]))
        for (src, expect), res in zip(projects, results):
            if res.returncode != 0:
                ctx.disagreement({'kind': 'e2e-setup', 'input': open(os.path.join(src, 'meson.build')).read()[:3000],
                                  'impl': res.stdout[-600:], 'model': 'setup succeeds (every template is OK in-process)'})
                continue
            for name, kind, fmt, data, text, want in expect:
                ctx.count()
                ctx.tag('e2e:' + kind)
                if kind == 'bytes':
                    enc, src_bytes = text
                    with open(os.path.join(src, 'build', name), 'rb') as f:
                        gotb = f.read()
                    if gotb != want:
                        ctx.disagreement({'kind': 'e2e-bytes', 'input': {'fmt': fmt, 'data': data_json(data), 'enc': enc,
                                                                         'src': list(src_bytes)},
                                          'impl': list(gotb), 'model': list(want)})
                    oracle_file_bytes(ctx, fmt, data, enc, src_bytes, gotb, None, I[2], where='configure_file(encoding:)')
                    continue
                with open(os.path.join(src, 'build', name), encoding='utf-8', newline='') as f:
                    got = f.read()
                if kind == 'file':
                    if got != want:
                        ctx.disagreement({'kind': 'e2e-file', 'input': {'fmt': fmt, 'data': data_json(data), 'text': text},
                                          'impl': got, 'model': want})
                    oracle_file(ctx, fmt, data, text, got)
                else:
                    oracle_header(ctx, fmt, None, data, {}, got)
        ctx.extra['e2e_projects'] = nproj
    finally:
        signal.signal(signal.SIGALRM, old_handler)
        common.rmtree(scratch)


# ------------------------------------------------------------------ run

def run(ctx: Ctx) -> None:
    I = impl()
    U = I[0]
    rng = ctx.rng
    old = signal.signal(signal.SIGALRM, _on_alarm)
    try:
        _run(ctx, I, U, rng)
    finally:
        signal.setitimer(signal.ITIMER_REAL, 0)
        signal.signal(signal.SIGALRM, old)


def _run(ctx: Ctx, I, U, rng) -> None:
    ctx.rule = ('corpus first; exhaustive: every string of length <=7 over {\\,@,a,space} (meson matcher + one-pass '
                'substitution) and every string of length <=6 over {$,{,},@,A} with 3 data sets in both cmake formats; '
                'random beyond: 1-4 line templates from a fragment grammar (placeholder-like fragments, runs of 0-5 '
                'backslashes, @ $ { }, CR/LF/CRLF, filler, define lines with odd spacing) plus a junk stream, data with '
                'placeholder-looking values, ints, bools, empty strings; files through do_conf_file; headers through '
                'dump_conf_header; real configure_file() calls through an in-process Interpreter over the exhaustive '
                'keyword / emptiness grid (which of configuration, command, copy are given; empty dict / unpopulated '
                'configuration_data(); 0-2 inputs; capture) and random calls. A case is non-trivial when the model answer differs from the plain copy of its input '
                '(or is an error), counted distinct by input.')
    cases: T.List[T.Tuple[str, T.Any, str, str]] = []   # (kind, replay-able input, protocol line, impl answer)
    regex = U.get_variable_regex('meson')

    def add_conf(fmt, data, lines, judge=True):
        ans, raw = impl_conf(I, fmt, data, lines)
        cases.append(('conf:' + fmt, {'fmt': fmt, 'data': data_json(data), 'lines': lines},
                      f'conf {fmt}|{data_items(data)}|{show_lines(lines)}', ans))
        ctx.tag('outcome:' + fmt + ':' + ans.split('|')[0])
        if judge:
            oracle_conf(ctx, fmt, data, lines, ans, raw)

    # -- corpus
    for fmt, data, lines in CORPUS:
        add_conf(fmt, data, lines)

    # -- exhaustive: meson matcher
    d0 = {'a': 'V', 'aa': 7, 'aaa': True}
    for n in range(0, ctx.scale(7, 8) + 1):
        for tup in itertools.product('\\@a ', repeat=n):
            s = ''.join(tup)
            segs = []
            for m in regex.finditer(s):
                kind = 'E' if m.group(0).endswith('\\') else ('X' if m.group('escaped') is not None else 'V')
                segs.append(f'{kind}:{m.start()}:{m.end()}')
            cases.append(('seg', s, f'seg {enc(s)}', ' '.join(segs)))
            out, miss = U.do_replacement_meson(regex, s, I[1](d0))
            cases.append(('subm', {'data': data_json(d0), 'line': s}, f'subm {data_items(d0)}|{enc(s)}',
                          f'{enc(out)}|{canon_names(miss)}'))
            want, wmiss = ref_subst_meson(s, d0)
            if (out, set(miss)) != (want, wmiss):
                ctx.violation('subst:' + json.dumps([s, data_json(d0)]),
                              f'meson-format line became {out!r}, exactly-the-placeholders gives {want!r}',
                              {'kind': 'subm', 'data': data_json(d0), 'line': s, 'got': out, 'want': want})
    # -- exhaustive: cmake scanner
    cm_data = [{'A': 'v'}, {'A': ''}, {'A': 'A}', 'AA': True}]
    for n in range(0, ctx.scale(6, 7) + 1):
        for tup in itertools.product('${}@A', repeat=n):
            s = ''.join(tup)
            for fmt in ('cmake', 'cmake@'):
                for d in (cm_data if n <= 5 else cm_data[:2]):
                    add_conf(fmt, d, [s])

    # -- random templates
    for fmt in FORMATS:
        for _ in range(ctx.scale(14000, 250000)):
            data = rand_data(rng, fmt)
            lines = [rand_line(rng, fmt) for _ in range(rng.randint(1, 4))]
            add_conf(fmt, data, lines)
        for _ in range(ctx.scale(3000, 50000)):
            add_conf(fmt, rand_data(rng, fmt), [rand_junk_line(rng) for _ in range(rng.randint(1, 3))])

    # -- file layer: do_conf_file on real files (readlines/writelines with newline='')
    scratch = common.scratch_dir('mverif-c14-')
    try:
        src, dst = os.path.join(scratch, 'in.txt'), os.path.join(scratch, 'out.txt')
        for i in range(ctx.scale(600, 6000)):
            fmt = rng.choice(FORMATS)
            data = rand_data(rng, fmt)
            if i % 3 == 0:
                text = ''.join(rng.choice(FILLER + ['\n', '\r\n', '\r', '\r\r\n', '\n\n', 'abc', '\\', '{', '}'])
                               for _ in range(rng.randint(0, 12)))
            else:
                text = ''.join(rand_line(rng, fmt) for _ in range(rng.randint(0, 4)))
            with open(src, 'w', encoding='utf-8', newline='') as f:
                f.write(text)
            with open(src, encoding='utf-8', newline='') as f:
                rl = f.readlines()
            cases.append(('split', text, f'split {enc(text)}', show_lines(rl)))
            if os.path.exists(dst):
                os.unlink(dst)
            cd = I[1](dict(data))
            signal.setitimer(signal.ITIMER_REAL, ALARM_S)
            out = None
            try:
                miss, useless = U.do_conf_file(src, dst, cd, fmt)
                signal.setitimer(signal.ITIMER_REAL, 0)
                with open(dst, encoding='utf-8', newline='') as f:
                    out = f.read()
                ans = f'OK|{enc(out)}|{canon_names(miss)}|{int(bool(useless))}'
            except BaseException as e:  # noqa: B036
                signal.setitimer(signal.ITIMER_REAL, 0)
                if isinstance(e, (KeyboardInterrupt, SystemExit)):
                    raise
                ans = err_class(e, I[2])
            cases.append(('file:' + fmt, {'fmt': fmt, 'data': data_json(data), 'text': text},
                          f'file {fmt}|{data_items(data)}|{enc(text)}', ans))
            oracle_file(ctx, fmt, data, text, out)

        # -- header without a template
        hdr = os.path.join(scratch, 'conf.h')
        for i in range(ctx.scale(2500, 30000)):
            ofmt = rng.choice(['c', 'c', 'nasm', 'json'])
            keys = rng.sample(['A', 'B', 'a', 'AB', 'A_B', 'Z', 'b', 'HAVE_X', 'HAVE_Y', '_', 'a1', 'a10', 'a2', 'É', 'z'],
                              rng.randint(0, 6))
            data = {}
            descs = {}
            for k in keys:
                r = rng.random()
                data[k] = (rng.choice([True, False]) if r < 0.3 else rng.choice([0, 1, -7, 99]) if r < 0.5
                           else rng.choice(['', 'x', '"s"', 'a b', '@A@', '1']))
                descs[k] = rng.choice([None, None, '', 'desc', 'two words', 'l1\nl2', 'l1\r\nl2\rl3', 'é', 'x\x0cy\x1cz\x85w'])
            macro = rng.choice([None, None, '', 'CONF_H', 'G_1']) if ofmt == 'c' else None
            cd = I[1]({k: (v, descs[k]) for k, v in data.items()})
            if os.path.exists(hdr):
                os.unlink(hdr)
            U.dump_conf_header(hdr, cd, ofmt, macro)
            with open(hdr, encoding='utf-8', newline='') as f:
                out = f.read()
            simple = all(not d or not any(ch in d for ch in '\n\r\x0c\x1c\x85') for d in descs.values())
            if simple or ofmt == 'json':
                oracle_header(ctx, ofmt, macro, data, descs, out)
            if ofmt != 'json':
                cases.append(('hdr:' + ofmt, {'ofmt': ofmt, 'macro': macro, 'data': data_json(data), 'descs': descs},
                              f'hdr {ofmt}|{0 if macro is None else 1}|{enc(macro or "")}|{data_items(data, descs)}',
                              enc(out)))
            else:
                ctx.count()
    finally:
        common.rmtree(scratch)

    # -- file layer as its own tie: bytes in, bytes out, five encodings
    file_bytes_stream(ctx, I, rng, cases, ctx.scale(2500, 30000))

    # -- end to end: configure_file() evaluated by meson setup (thorough tier: 16 projects; quick: 2)
    e2e_stream(ctx, I, rng, ctx.scale(2, 16), ctx.scale(6, 12))

    # -- interpreter level: real configure_file() calls (in-process Interpreter) over the keyword / emptiness grid
    c14_cf.cf_stream(ctx, rng, cases, ctx.scale(900, 12000),
                     [None, 'cmake'] if not ctx.deep else [None, 'meson', 'cmake', 'cmake@'])

    # -- correspondence with the model
    ctx.count(len(cases))
    if ctx.model_available:
        answers = ctx.driver('template', [c[2] for c in cases])
        for (kind, inp, _line, impl_ans), model_ans in zip(cases, answers):
            ctx.tag('kind:' + kind.split(':')[0])
            if impl_ans != model_ans:
                ctx.disagreement({'kind': kind, 'input': inp, 'impl': impl_ans, 'model': model_ans})
            if nontrivial(kind, inp, model_ans):
                ctx.seen_nontrivial((kind, json.dumps(inp, sort_keys=True)))
    step = max(1, len(cases) // 8)
    for c in cases[::step][:8]:
        ctx.sample({'kind': c[0], 'input': c[1], 'impl': c[3][:200]})
    ctx.assumptions += TRUSTED
    ctx.notes.append('observations (not violations): CRLF of a #mesondefine line becomes LF (line-shaped placeholder); '
                     '"#mesondefineX Y" is processed as a define of Y; "@VAR@" is also replaced in format "cmake"; a lone '
                     '"#cmakedefine" raises IndexError.')


def nontrivial(kind: str, inp, model_ans: str) -> bool:
    if kind.startswith('conf'):
        return model_ans != f'OK|{show_lines(inp["lines"])}||0' and model_ans != f'OK|{show_lines(inp["lines"])}||1'
    if kind == 'fileb':
        return model_ans != 'OK|' + ' '.join(str(b) for b in inp['src'])
    if kind.startswith('file'):
        return not model_ans.startswith(f'OK|{enc(inp["text"])}|')
    if kind == 'seg':
        return model_ans != ''
    if kind == 'subm':
        return model_ans != f'{enc(inp["line"])}|'
    return True


# ------------------------------------------------------------------ search / replay

def neighbours(s: str) -> T.Iterable[str]:
    yield s
    for i in range(len(s)):
        yield s[:i] + s[i + 1:]
    for i in range(len(s) + 1):
        for ch in '@\\$A':
            yield s[:i] + ch + s[i:]


def search(ctx: Ctx, disagreements: T.List[dict]) -> None:
    """failing-input search: the oracle on the disagreeing inputs, their lines one by one, neighbours (one
    character removed / inserted) and a fresh random stream; oracle only, no model."""
    I = impl()
    rng = ctx.rng
    old = signal.signal(signal.SIGALRM, _on_alarm)
    try:
        todo: T.List[T.Tuple[str, dict, T.List[str]]] = []
        fbytes: T.List[dict] = []
        for d in disagreements:
            inp = d.get('input')
            k = d.get('kind', '')
            if k.startswith('conf'):
                data = data_unjson(inp['data'])
                todo.append((inp['fmt'], data, inp['lines']))
                for ln in inp['lines']:
                    todo.append((inp['fmt'], data, [ln]))
                    for nb in itertools.islice(neighbours(ln), 120):
                        todo.append((inp['fmt'], data, [nb]))
            elif k in ('fileb', 'e2e-bytes'):
                fbytes.append(inp)
            elif k.startswith('file'):
                data = data_unjson(inp['data'])
                todo.append((inp['fmt'], data, inp['text'].splitlines(True)))
            elif k in ('seg', 'subm'):
                s = inp if isinstance(inp, str) else inp['line']
                for nb in itertools.islice(neighbours(s), 200):
                    todo.append(('meson', {'a': 'V', 'aa': 7}, [nb]))
            elif k.startswith('hdr'):
                data = data_unjson(inp['data'])
                search_header(ctx, I, inp['ofmt'], inp['macro'], data, {k2: None for k2 in data})
        search_file_bytes(ctx, I, rng, fbytes)
        if ctx.violations:
            return
        todo += CORPUS
        for fmt, data, lines in todo:
            ans, raw = impl_conf(I, fmt, data, lines)
            oracle_conf(ctx, fmt, data, lines, ans, raw)
            if ctx.violations:
                return
        for _ in range(60000):
            fmt = rng.choice(FORMATS)
            data = rand_data(rng, fmt)
            lines = [rand_line(rng, fmt)]
            ans, raw = impl_conf(I, fmt, data, lines)
            oracle_conf(ctx, fmt, data, lines, ans, raw)
            if ctx.violations:
                return
        for _ in range(3000):
            keys = rng.sample(['A', 'B', 'a', 'AB', 'Z', 'b', 'a1', 'a10', 'a2'], rng.randint(0, 6))
            data = {k: rng.choice([True, False, 0, 5, 'x', '']) for k in keys}
            search_header(ctx, I, rng.choice(['c', 'nasm', 'json']), rng.choice([None, 'G']), data, {k: None for k in keys})
            if ctx.violations:
                return
    finally:
        signal.setitimer(signal.ITIMER_REAL, 0)
        signal.signal(signal.SIGALRM, old)


def search_file_bytes(ctx, I, rng, inputs: T.List[dict], extra: int = 1500) -> None:
    """byte-level oracle on the disagreeing file cases, then on a fresh stream over all encodings"""
    scratch = common.scratch_dir('mverif-c14-fb-')
    try:
        src, dst = os.path.join(scratch, 'in.bin'), os.path.join(scratch, 'out.bin')
        for inp in inputs:
            data = data_unjson(inp['data'])
            sb = bytes(inp['src'])
            _ans, out, exc = impl_file_bytes(I, inp['fmt'], data, inp['enc'], sb, src, dst)
            oracle_file_bytes(ctx, inp['fmt'], data, inp['enc'], sb, out, exc, I[2])
            if ctx.violations:
                return
        for i in range(extra):
            enc = ENCODINGS[i % len(ENCODINGS)]
            fmt = rng.choice(FORMATS)
            data = enc_data(rng, fmt, enc)
            sb = (''.join(plain_line(rng, fmt, enc) for _ in range(rng.randint(1, 3))) or 'x').encode(enc)
            _ans, out, exc = impl_file_bytes(I, fmt, data, enc, sb, src, dst)
            oracle_file_bytes(ctx, fmt, data, enc, sb, out, exc, I[2])
            if ctx.violations:
                return
    finally:
        common.rmtree(scratch)


def search_header(ctx, I, ofmt, macro, data, descs) -> None:
    scratch = common.scratch_dir('mverif-c14-')
    try:
        hdr = os.path.join(scratch, 'conf.h')
        I[0].dump_conf_header(hdr, I[1]({k: (v, descs.get(k)) for k, v in data.items()}), ofmt, macro if ofmt == 'c' else None)
        with open(hdr, encoding='utf-8', newline='') as f:
            oracle_header(ctx, ofmt, macro if ofmt == 'c' else None, data, descs, f.read())
    finally:
        common.rmtree(scratch)


def replay(ctx: Ctx, rep: dict) -> None:
    I = impl()
    case = rep.get('case', rep)
    print('replay:', rep.get('what', ''), json.dumps(case)[:600])
    old = signal.signal(signal.SIGALRM, _on_alarm)
    try:
        kind = case.get('kind', 'conf')
        if kind in ('conf',) or kind.startswith('conf'):
            data = data_unjson(case['data'])
            ans, raw = impl_conf(I, case['fmt'], data, case['lines'])
            print('implementation:', ans if raw is None else raw)
            oracle_conf(ctx, case['fmt'], data, case['lines'], ans, raw)
            if ctx.model_available:
                print('model         :', ctx.driver('template', [
                    f'conf {case["fmt"]}|{data_items(data)}|{show_lines(case["lines"])}'])[0])
                print('impl canonical:', ans)
        elif kind == 'subm':
            data = data_unjson(case['data'])
            U = I[0]
            out, miss = U.do_replacement_meson(U.get_variable_regex('meson'), case['line'], I[1](data))
            print('implementation:', repr(out), sorted(miss), ' reference:', ref_subst_meson(case['line'], data))
        elif kind == 'fileb':
            search_file_bytes(ctx, I, ctx.rng, [case], extra=0)
            if ctx.model_available and case['enc'] in ('utf-8', 'iso-8859-1'):
                data = data_unjson(case['data'])
                print('model         :', ctx.driver('template', [
                    f'fileb {"latin1" if case["enc"] == "iso-8859-1" else "utf8"}|{case["fmt"]}|{data_items(data)}|'
                    + ' '.join(str(b) for b in case['src'])])[0])
        elif kind == 'hdr':
            data = data_unjson(case['data'])
            search_header(ctx, I, case['ofmt'], case.get('macro'), data, case.get('descs') or {})
        elif kind == 'cf':
            c14_cf.replay_case(ctx, {k: v for k, v in case.items() if k not in ('got', 'want', 'message', 'status')})
        for v in ctx.violations:
            print('oracle: VIOLATION', v['key'][:120], '-', v['what'])
        for k in ctx.known_hits:
            print('oracle: KNOWN-FINDING', k)
    finally:
        signal.setitimer(signal.ITIMER_REAL, 0)
        signal.signal(signal.SIGALRM, old)
