"""A small reader/evaluator of generated `build.ninja` files (Python side of C05; independent of the Lean parser).

Written from ninja's manual / `lexer.in.cc` / `eval_env.cc` / `graph.cc`:

* top-level `name = value` bindings are evaluated immediately in the file scope;
* `rule` bindings stay unevaluated and are evaluated per edge in the edge's environment
  (`$in`, `$in_newline`, `$out`, then the edge's own bindings, then the rule's bindings (recursively), then the file scope);
* bindings of a `build` block are evaluated in the file scope when read; the paths of the statement are
  evaluated in the block's scope (bindings + file scope);
* `$in` / `$out` hold the *explicit* inputs / outputs only, shell-escaped the way `GetShellEscapedString` does it;
* escapes `$$`, `$ `, `$:`, `$\\n` (continuation, swallows the leading blanks of the next line), `$name`, `${name}`.

Everything returned is plain data (dicts / lists) so that it can go into replay files.
"""
from __future__ import annotations

import os
import re
import typing as T

Piece = T.Union[str, T.Tuple[str]]     # literal text or ('varname',)


class ManifestError(Exception):
    pass


_SIMPLE = set('abcdefghijklmnopqrstuvwxyzABCDEFGHIJKLMNOPQRSTUVWXYZ0123456789_-')
_IDENT = _SIMPLE | {'.'}


def _read_eval(s: str, i: int, path: bool) -> T.Tuple[T.List[Piece], int]:
    """read an eval string starting at s[i]; a path stops (without consuming) at blank, ':', '|', newline;
    a value stops at newline (consumed)"""
    out: T.List[Piece] = []
    lit: T.List[str] = []
    n = len(s)

    def flush():
        if lit:
            out.append(''.join(lit))
            lit.clear()
    while True:
        if i >= n:
            if path:
                break
            raise ManifestError('unexpected EOF')
        c = s[i]
        if c == '\n':
            if not path:
                i += 1
            break
        if path and c in ' :|':
            break
        if c == '$':
            d = s[i + 1] if i + 1 < n else ''
            if d in '$ :':
                lit.append(d)
                i += 2
            elif d == '\n':
                i += 2
                while i < n and s[i] == ' ':
                    i += 1
            elif d == '{':
                j = s.index('}', i)
                flush()
                out.append((s[i + 2:j],))
                i = j + 1
            elif d in _SIMPLE:
                j = i + 1
                while j < n and s[j] in _SIMPLE:
                    j += 1
                flush()
                out.append((s[i + 1:j],))
                i = j
            else:
                raise ManifestError('bad $-escape')
        else:
            lit.append(c)
            i += 1
    flush()
    return out, i


def _skip_ws(s: str, i: int) -> int:
    n = len(s)
    while i < n:
        if s[i] == ' ':
            i += 1
        elif s.startswith('$\n', i):
            i += 2
        else:
            break
    return i


def _evaluate(pieces: T.List[Piece], lookup: T.Callable[[str], str]) -> str:
    return ''.join(p if isinstance(p, str) else lookup(p[0]) for p in pieces)


def shell_escape(p: str) -> str:
    """ninja `GetShellEscapedString`"""
    if p and all(c.isalnum() and c.isascii() or c in '_+-./' for c in p):
        return p
    return "'" + p.replace("'", "'\\''") + "'"


def canon(p: str) -> str:
    """ninja CanonicalizePath (POSIX): collapse `.`, `..`, `//`"""
    if not p:
        return p
    absolute = p.startswith('/')
    ups = 0
    stack: T.List[str] = []
    for c in p.split('/'):
        if c in ('', '.'):
            continue
        if c == '..':
            if stack:
                stack.pop()
            else:
                ups += 1
        else:
            stack.append(c)
    body = '/'.join(['..'] * ups + stack)
    if absolute:
        return '/' + body
    return body or '.'


def read_manifest(text: str) -> dict:
    """-> {'rules': {name: {key: pieces}}, 'edges': [edge…], 'defaults': [...], 'vars': {...}}
    edge = {'idx', 'rule', 'outs', 'impl_outs', 'ins', 'impl_ins', 'order_ins', 'vals', 'binds': {k: v}}"""
    rules: T.Dict[str, T.Dict[str, T.List[Piece]]] = {}
    edges: T.List[dict] = []
    defaults: T.List[str] = []
    fvars: T.Dict[str, str] = {}
    i = 0
    n = len(text)
    s = text

    def file_lookup(k: str) -> str:
        return fvars.get(k, '')

    def read_binds(i: int) -> T.Tuple[T.List[T.Tuple[str, T.List[Piece]]], int]:
        res = []
        while i < n:
            # comment / blank lines inside a block do not end it only if indented … keep it simple: a block is a run of
            # indented `k = v` lines
            if s[i] != ' ':
                break
            j = i
            while j < n and s[j] == ' ':
                j += 1
            if j < n and s[j] == '\n':
                i = j + 1
                continue
            if j < n and s[j] == '#':
                i = s.index('\n', j) + 1
                continue
            m = re.compile(r'([A-Za-z0-9_.-]+) *= *').match(s, j)
            if not m:
                raise ManifestError('expected binding at %d' % j)
            val, i = _read_eval(s, m.end(), False)
            res.append((m.group(1), val))
        return res, i

    def read_paths(i: int) -> T.Tuple[T.List[T.List[Piece]], int]:
        ps = []
        while True:
            i = _skip_ws(s, i)
            p, i = _read_eval(s, i, True)
            if not p:
                break
            ps.append(p)
        return ps, i

    while i < n:
        c = s[i]
        if c == '\n':
            i += 1
            continue
        if c == '#':
            i = s.find('\n', i)
            i = n if i < 0 else i + 1
            continue
        if c == ' ':
            j = i
            while j < n and s[j] == ' ':
                j += 1
            if j >= n:
                break
            if s[j] == '\n':
                i = j + 1
                continue
            if s[j] == '#':
                i = s.index('\n', j) + 1
                continue
            raise ManifestError('unexpected indent at %d' % i)
        m = re.compile(r'[A-Za-z0-9_.-]+').match(s, i)
        if not m:
            raise ManifestError('unexpected character at %d' % i)
        word = m.group(0)
        i = _skip_ws(s, m.end())
        if word == 'rule' or word == 'pool':
            m2 = re.compile(r'([A-Za-z0-9_.-]+) *\n').match(s, i)
            if not m2:
                raise ManifestError('expected rule name')
            binds, i = read_binds(m2.end())
            if word == 'rule':
                rules[m2.group(1)] = dict(binds)
        elif word == 'build':
            outs, i = read_paths(i)
            impl_outs: T.List[T.List[Piece]] = []
            if s.startswith('|', i) and not s.startswith('||', i):
                impl_outs, i = read_paths(i + 1)
            if not s.startswith(':', i):
                raise ManifestError('expected : at %d' % i)
            i = _skip_ws(s, i + 1)
            m2 = re.compile(r'[A-Za-z0-9_.-]+').match(s, i)
            if not m2:
                raise ManifestError('expected rule name')
            rule = m2.group(0)
            ins, i = read_paths(m2.end())
            impl_ins: T.List[T.List[Piece]] = []
            order_ins: T.List[T.List[Piece]] = []
            vals: T.List[T.List[Piece]] = []
            if s.startswith('|', i) and not s.startswith('||', i) and not s.startswith('|@', i):
                impl_ins, i = read_paths(i + 1)
            if s.startswith('||', i):
                order_ins, i = read_paths(i + 2)
            if s.startswith('|@', i):
                vals, i = read_paths(i + 2)
            if not s.startswith('\n', i):
                raise ManifestError('expected newline at %d' % i)
            raw_binds, i = read_binds(i + 1)
            binds: T.Dict[str, str] = {}
            for k, v in raw_binds:
                binds[k] = _evaluate(v, file_lookup)

            def edge_lookup(k: str, binds=binds) -> str:
                return binds[k] if k in binds else fvars.get(k, '')

            def ev(ps):
                return [canon(_evaluate(p, edge_lookup)) for p in ps]
            if rule != 'phony' and rule not in rules:
                raise ManifestError('unknown rule ' + rule)
            edges.append({'idx': len(edges), 'rule': rule, 'outs': ev(outs), 'impl_outs': ev(impl_outs), 'ins': ev(ins),
                          'impl_ins': ev(impl_ins), 'order_ins': ev(order_ins), 'vals': ev(vals), 'binds': binds})
        elif word == 'default':
            ps, i = read_paths(i)
            defaults += [canon(_evaluate(p, file_lookup)) for p in ps]
        elif word in ('include', 'subninja'):
            raise ManifestError('include not supported')
        else:
            if not s.startswith('=', i):
                raise ManifestError('expected = at %d' % i)
            i = _skip_ws(s, i + 1)
            val, i = _read_eval(s, i, False)
            fvars[word] = _evaluate(val, file_lookup)
    return {'rules': rules, 'edges': edges, 'defaults': defaults, 'vars': fvars}


def edge_binding(man: dict, e: dict, key: str, _depth: int = 0) -> str:
    """`Edge::GetBinding(key)`"""
    rule = man['rules'].get(e['rule'], {})

    def lookup(k: str, depth=_depth) -> str:
        if k == 'in':
            return ' '.join(shell_escape(p) for p in e['ins'])
        if k == 'in_newline':
            return '\n'.join(shell_escape(p) for p in e['ins'])
        if k == 'out':
            return ' '.join(shell_escape(p) for p in e['outs'])
        if k in e['binds']:
            return e['binds'][k]
        if k in rule:
            if depth > 20:
                raise ManifestError('cycle in rule variables')
            return _evaluate(rule[k], lambda kk: lookup(kk, depth + 1))
        return man['vars'].get(k, '')
    return lookup(key)


def edge_command(man: dict, e: dict) -> dict:
    """what running the edge means: command line for `/bin/sh -c`, response file, depfile"""
    return {
        'command': edge_binding(man, e, 'command'),
        'rspfile': edge_binding(man, e, 'rspfile'),
        'rspfile_content': edge_binding(man, e, 'rspfile_content'),
        'depfile': edge_binding(man, e, 'depfile'),
        'deps': edge_binding(man, e, 'deps'),
    }


def parse_depfile(text: str) -> T.List[str]:
    """prerequisites of a Makefile-style depfile (gcc -MD / custom targets)"""
    text = text.replace('\\\n', ' ')
    deps: T.List[str] = []
    for line in text.split('\n'):
        if ':' not in line:
            continue
        # target: deps   (targets may contain escaped characters; take the first unescaped ': ' or ':' at end)
        m = re.search(r':(\s|$)', line)
        if not m:
            continue
        rest = line[m.end():]
        cur = ''
        k = 0
        while k < len(rest):
            ch = rest[k]
            if ch == '\\' and k + 1 < len(rest) and rest[k + 1] in ' \\#:':
                cur += rest[k + 1]
                k += 2
            elif ch == '$' and rest.startswith('$$', k):
                cur += '$'
                k += 2
            elif ch in ' \t':
                if cur:
                    deps.append(cur)
                    cur = ''
                k += 1
            else:
                cur += ch
                k += 1
        if cur:
            deps.append(cur)
    return deps
