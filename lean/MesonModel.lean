import MesonModel.Py.Str
import MesonModel.Version.Model
