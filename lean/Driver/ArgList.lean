import Driver.Proto
import MesonModel.ArgList.Spec
import MesonModel.ArgList.Assemble
import MesonModel.Generated.ArgTables
/-
Driver commands of area `arglist`.

  run   <cls>|<gnu>|<default dirs>|<script>    replay a script over several objects; answer = outputs `;`-joined,
                                              then `#`, then the raw state of every object
  class <cls>|<arg>                            `_can_dedup`, `_should_prepend`
  gf    <arg>                                  `GROUP_FLAGS.search`
  spec  <cls>|<list>|<batch>                   `specAdd`
  tables <cls>                                 the generated tables, for the round-trip self test
  tablesok <cls>                               `tablesOk` and `tablesWitness`
  native <cls>|<gnu>|<default dirs>|<list>     `nativeList` on a given (flushed) list
  assemble <cls>|<30 fields>                   the backend's assembly of one compile line from abstract groups:
                                              base list # target list # compile line # lazy = eager meaning

Lists: items `,`-joined, each item `s` followed by the code points (so `s` is the empty string and the
empty field the empty list).  Script: ops `;`-joined, tokens of an op `:`-joined.
-/
namespace Driver.ArgList
open MesonModel.ArgList MesonModel.Generated Driver

def decItem (w : String) : List Char := decodeStr ((w.drop 1).toString)

def decList (f : String) : List Arg :=
  (f.splitOn ",").filterMap (fun w => if w.isEmpty then none else some (decItem w))

def encItem (a : Arg) : String := "s" ++ encodeStr a
def encList (l : List Arg) : String := ",".intercalate (l.map encItem)

def entryOf (cls : String) : Option (String × Bool × Tables) :=
  allTables.find? (fun e => e.1 == cls)

def tablesOf (cls : String) : Option Tables := (entryOf cls).map (fun e => e.2.2)

def cfgOf (cls : String) (gnu : Bool) (dirs : List Arg) : Option Cfg :=
  (entryOf cls).map fun e =>
    { K := e.2.2.classify, always := e.2.2.alwaysDedupArgs,
      native := if e.2.1 then .clike gnu dirs else .plain }

def parseOp (ts : List String) : Option Op :=
  match ts with
  | ["iadd", l] => some (.iadd (decList l))
  | ["append", a] => some (.append (decItem a))
  | ["appd", a] => some (.appendDirect (decItem a))
  | ["extd", l] => some (.extendDirect (decList l))
  | ["extl", l] => some (.extendLflags (decList l))
  | ["ins", i, a] => i.toInt?.map (fun i => .insert i (decItem a))
  | ["set", i, a] => i.toInt?.map (fun i => .setItem i (decItem a))
  | ["del", i] => i.toInt?.map .delItem
  | ["get", i] => i.toInt?.map .getItem
  | ["iter"] => some .iter
  | ["cp"] => some .copy
  | ["len"] => some .len
  | ["eql", l] => some (.eqList (decList l))
  | ["nat", c] => some (.toNative (c == "1"))
  | ["rev"] => some .reverse
  | ["revd"] => some .reversed
  | ["pop", i] => i.toInt?.map .pop
  | ["remove", a] => some (.remove (decItem a))
  | ["index", a] => some (.index (decItem a))
  | ["count", a] => some (.count (decItem a))
  | ["contains", a] => some (.contains (decItem a))
  | ["clear"] => some .clear
  | _ => none

def parseHOp (ts : List String) : Option HOp :=
  match ts with
  | "on" :: i :: rest => do
    let i ← i.toNat?
    let op ← parseOp rest
    pure (.on i op)
  | ["copy", i] => i.toNat?.map .copy
  | ["newfrom", i] => i.toNat?.map .newFrom
  | ["new", l] => some (.new (decList l))
  | ["add", i, l] => i.toNat?.map (fun i => .add i (decList l))
  | ["radd", l, i] => i.toNat?.map (fun i => .radd (decList l) i)
  | ["iaddobj", i, j] => do
    let i ← i.toNat?
    let j ← j.toNat?
    pure (.iaddObj i j)
  | ["eqobj", i, j] => do
    let i ← i.toNat?
    let j ← j.toNat?
    pure (.eqObj i j)
  | _ => none

def showOut : Out → String
  | .none => "-"
  | .list l => "L" ++ encList l
  | .nat n => s!"N{n}"
  | .bool b => "B" ++ boolStr b
  | .arg a => "A" ++ encItem a
  | .indexError => "E"
  | .valueError => "V"

def showState (s : State) : String :=
  s!"C{encList s.container}!P{encList s.pre}!Q{encList s.post}!N{boolStr s.noc}"

def runScript (cfg : Cfg) : List State → List HOp → List String → List State × List String
  | h, [], acc => (h, acc.reverse)
  | h, op :: ops, acc =>
    let r := hstep cfg h op
    runScript cfg r.1 ops (showOut r.2 :: acc)

def showDedup : Dedup → String
  | .noDedup => "N" | .unique => "U" | .overridden => "O"

def showTables (T : Tables) : String :=
  "/".intercalate ([T.prependPrefixes, T.dedup2Prefixes, T.dedup2Suffixes, T.dedup2Args,
    T.dedup1Prefixes, T.dedup1Suffixes, T.dedup1Args, T.alwaysDedupArgs].map encList)


/-! ### `assemble`: decoding of `Sources` -/

def splitNE (s : String) (sep : String) : List String := (s.splitOn sep).filter (fun w => !w.isEmpty)

def decKind (f : String) : TargetKind :=
  match f.splitOn ":" with
  | ["shared"] => .sharedLib
  | ["static", a, b] => .staticLib (a == "1") (b == "1")
  | ["exe", a] => .executable (a == "1")
  | _ => .other

/-- `found:compile:exe` -/
def decDep (f : String) : Dep :=
  match f.splitOn ":" with
  | [a, b, c] => ⟨a == "1", decList b, decList c⟩
  | _ => ⟨false, [], []⟩

/-- `sargs+bargs:sargs+bargs/extra:extra` -/
def decInc (f : String) : IncDir :=
  let halves := f.splitOn "/"
  let ds := halves.getD 0 ""
  let ex := halves.getD 1 ""
  { dirs := (ds.splitOn ":").filterMap (fun p =>
      match p.splitOn "+" with
      | [a, b] => some (decList a, decList b)
      | _ => none),
    extra := (ex.splitOn ":").filterMap (fun p => if p == "-" then some [] else if p.isEmpty then none else some (decList p)) }

def decSources (fs : List String) : Option Sources :=
  match fs with
  | [vis, bo, ns, al, wa, we, wea, oc, os, op, db, pr, gl, ex, kd, pic, pie, deps, fo, foi, sd, imp, ctd, incs, xt, isd, df,
      sdi, bdi, pdi] =>
    some { visibility := decList vis, baseOpts := decList bo, noStdlib := decList ns, always := decList al, warn := decList wa,
           werror := we == "1", werrorArgs := decList wea, optionCompile := decList oc, optionStd := decList os,
           optimization := decList op, debug := decList db, project := decList pr, globalArgs := decList gl, ext := decList ex,
           kind := decKind kd, picArgs := decList pic, pieArgs := decList pie,
           deps := (splitNE deps ";").map decDep, fortran := fo == "1",
           fortranIncs := (splitNE foi ";").map (fun p => if p == "-" then [] else decList p),
           showDep := decList sd, implicitIncs := imp == "1", customTargetDirs := decList ctd,
           incDirs := (splitNE incs ";").map decInc, extra := decList xt, isD := isd == "1", dFeatures := decList df,
           srcDirInc := decList sdi, buildDirInc := decList bdi, privateDirInc := decList pdi }
  | _ => none

def handle (cmd : String) (fs : List String) : String :=
  match cmd, fs with
  | "run", [cls, gnu, dirs, script] =>
    match cfgOf cls (gnu == "1") (decList dirs) with
    | none => "bad-class"
    | some cfg =>
      let toks := (script.splitOn ";").filter (fun s => !s.isEmpty)
      match toks.mapM (fun o => parseHOp (o.splitOn ":")) with
      | none => "bad-script"
      | some ops =>
        let (h, outs) := runScript cfg [] ops []
        ";".intercalate outs ++ "#" ++ "@".intercalate (h.map showState)
  | "class", [cls, a] =>
    match tablesOf cls with
    | none => "bad-class"
    | some T => showDedup (T.dd (decItem a)) ++ boolStr (T.pp (decItem a))
  | "gf", [a] => boolStr (groupFlags (decItem a))
  | "spec", [cls, l, b] =>
    match tablesOf cls with
    | none => "bad-class"
    | some T => encList (specAdd T.classify (decList l) (decList b))
  | "tables", [cls] =>
    match tablesOf cls with
    | none => "bad-class"
    | some T => showTables T
  | "tablesok", [cls] =>
    match tablesOf cls with
    | none => "bad-class"
    | some T => boolStr (tablesOk T) ++ "|" ++
      (match tablesWitness T with | none => "none" | some w => encItem w)
  | "native", [cls, gnu, dirs, l] =>
    match cfgOf cls (gnu == "1") (decList dirs) with
    | none => "bad-class"
    | some cfg => encList (nativeList cfg.native (decList l))
  | "assemble", cls :: rest =>
    match tablesOf cls, decSources rest with
    | some T, some src =>
      let K := T.classify
      encList (baseArgsLazy K src) ++ "#" ++ encList (targetArgsLazy K src) ++ "#" ++ encList (compileLine K src) ++ "#" ++
        boolStr (decide (compileLine K src = compileSpec K src))
    | none, _ => "bad-class"
    | _, none => "bad-sources"
  | _, _ => "bad-op"

end Driver.ArgList
