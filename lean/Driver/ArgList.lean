import Driver.Proto
/- driver commands of area `arglist` (stub until the area is built) -/
namespace Driver.ArgList

def handle (cmd : String) (fs : List String) : String := "bad-op"

end Driver.ArgList
