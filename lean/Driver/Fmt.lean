import MesonModel.Fmt.Tree
import MesonModel.Fmt.Layout
import MesonModel.Fmt.SortKey
import MesonModel.Generated.FmtTables
import Driver.Proto
/- driver commands of area `fmt` (C16): translation-validation checker and the modelled rewriting decisions -/
namespace Driver.Fmt
open MesonModel.Fmt MesonModel.Generated.FmtTables Driver

/-- one serialised node header `kind:flags:nkids:text:ws` -/
structure Hdr where
  kind : Kind
  flags : Nat
  nkids : Nat
  text : List Char
  ws : List Char

def parseHdr (s : String) : Option Hdr :=
  match s.splitOn ":" with
  | [k, fl, n, tx, ws] =>
    match k.trimAscii.toString.toNat?, fl.trimAscii.toString.toNat?, n.trimAscii.toString.toNat? with
    | some k, some fl, some n => some ⟨Kind.ofIdx k, fl, n, decodeStr tx, decodeStr ws⟩
    | _, _, _ => none
  | _ => none

mutual
partial def parseTree : List Hdr → Option (Tree × List Hdr)
  | [] => none
  | h :: rest =>
    match parseKids h.nkids rest with
    | some (kids, rest') => some (.node h.kind h.flags h.text kids h.ws, rest')
    | none => none
partial def parseKids : Nat → List Hdr → Option (List Tree × List Hdr)
  | 0, rest => some ([], rest)
  | n + 1, rest =>
    match parseTree rest with
    | some (t, rest') =>
      match parseKids n rest' with
      | some (ts, rest'') => some (t :: ts, rest'')
      | none => none
    | none => none
end

def readTree (f : String) : Option Tree :=
  match (f.splitOn ",").mapM parseHdr with
  | some hs =>
    match parseTree hs with
    | some (t, []) => some t
    | _ => none
  | none => none

def flagBool (s : String) : Bool := s.trimAscii.toString == "1"

def showStrNode (n : StrNode) : String :=
  s!"{boolStr n.multi};{boolStr n.fstr};{encodeStr (printStr n)}"

/-! abstract argument lists (`MesonModel.Fmt.Layout`): prefix notation, tokens separated by blanks:
`L<key>`, `M<key>:<plain>`, `K<key>` + node, `C<cont>:<n>:<tr><ci><co>` + n nodes -/
namespace Lay
open MesonModel.Fmt.Layout

def contOf : Nat → Cont
  | 0 => .func | 1 => .files | 2 => .method | 3 => .array | _ => .dict
def contIdx : Cont → Nat
  | .func => 0 | .files => 1 | .method => 2 | .array => 3 | .dict => 4

def bit (s : String) (i : Nat) : Bool := (s.toList.getD i '0') == '1'

mutual
partial def parseNode : List String → Option (Node × List String)
  | [] => none
  | t :: rest =>
    let body := (t.drop 1).toString
    match t.toList.head? with
    | some 'L' => body.toInt?.map (fun k => (.leaf k, rest))
    | some 'M' =>
      match body.splitOn ":" with
      | [k, p] => k.toInt?.map (fun k => (.mstr k (p == "1"), rest))
      | _ => none
    | some 'K' =>
      match body.toInt?, parseNode rest with
      | some k, some (v, rest') => some (.kw k v, rest')
      | _, _ => none
    | some 'C' =>
      match body.splitOn ":" with
      | [c, n, fl] =>
        match c.toNat?, n.toNat? with
        | some c, some n =>
          match parseNodes n rest with
          | some (items, rest') => some (.coll (contOf c) items (bit fl 0) (bit fl 1) (bit fl 2), rest')
          | none => none
        | _, _ => none
      | _ => none
    | _ => none
partial def parseNodes : Nat → List String → Option (List Node × List String)
  | 0, rest => some ([], rest)
  | n + 1, rest =>
    match parseNode rest with
    | some (x, rest') =>
      match parseNodes n rest' with
      | some (xs, rest'') => some (x :: xs, rest'')
      | none => none
    | none => none
end

/-- printed with the layout a second run reads: for every non-empty list `1`/`0` (one item per line or not) -/
partial def showNode (cfg : Cfg) : Node → String
  | .leaf k => s!"L{k}"
  | .mstr k p => s!"M{k}:{boolStr p}"
  | .kw k v => s!"K{k} " ++ showNode cfg v
  | .coll c items tr ci co =>
    let ml := if items.isEmpty then "-" else boolStr (multiline cfg (.coll c items tr ci co))
    " ".intercalate (s!"C{contIdx c}:{items.length}:{boolStr tr}{boolStr ci}{boolStr co}:{ml}" :: items.map (showNode cfg))

def cfgOf (s : String) : Cfg := ⟨bit s 0, bit s 1, bit s 2, bit s 3⟩

def run (cfg node : String) : String :=
  match parseNode ((node.splitOn " ").filter (· ≠ "")) with
  | some (n, []) => let c := cfgOf cfg; showNode c (fmt c n)
  | _ => "bad-node"
end Lay

def handle (cmd : String) (fs : List String) : String :=
  match cmd, fs with
  | "layout", [cfg, node] => Lay.run cfg node
  | "pkey", [a, b] =>
    -- `pathname_sort_key(a) < pathname_sort_key(b)`: lt / ge / ERR:TypeError
    match MesonModel.Fmt.SortKey.pathLt? (decodeStr a) (decodeStr b) with
    | some true => "lt"
    | some false => "ge"
    | none => "ERR:TypeError"
  | "check", [so, a, b] =>
    match readTree a, readTree b with
    | some ta, some tb => s!"S{boolStr (sameProgram (flagBool so) ta tb)}C{boolStr (sameComments ta tb)}"
    | _, _ => "bad-tree"
  | "coms", [a] =>
    match readTree a with
    | some t => encodeStrList (comments t)
    | none => "bad-tree"
  | "simp", [on, raw, multi, fstr] =>
    showStrNode (simplify simplifyExcluded fstringMarkers (flagBool on) (parseStr (decodeStr raw) (flagBool multi) (flagBool fstr)))
  | "den", [raw, multi, fstr] =>
    let d := denote (parseStr (decodeStr raw) (flagBool multi) (flagBool fstr))
    s!"{encodeStr d.1};{boolStr d.2};{boolStr (plainLexable (decodeStr raw))}"
  | "sort", [l] =>
    encodeStrList (sortByKey (fun s => argKey (some s)) (decodeStrList l))
  | "keyle", [a, b] => boolStr (keyLe (pathKey (decodeStr a)) (pathKey (decodeStr b)))
  | "flat", [a] =>
    match readTree a with
    | some t =>
      let r := flattenFiles 64 t
      toString r.2 ++ ";" ++ " ".intercalate ((Skel.encodeList (erase r.1)).map toString)
    | none => "bad-tree"
  | "skel", [a] =>
    match readTree a with
    | some t => " ".intercalate ((Skel.encodeList (erase t)).map toString)
    | none => "bad-tree"
  | "tables", _ =>
    s!"{encodeStr simplifyExcluded};{encodeStr fstringMarkers};{boolStr (simplifyExcluded.contains '\\')}"
  | _, _ => "bad-op"

end Driver.Fmt
