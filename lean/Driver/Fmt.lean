import Driver.Proto
/- driver commands of area `fmt` (stub until the area is built) -/
namespace Driver.Fmt

def handle (cmd : String) (fs : List String) : String := "bad-op"

end Driver.Fmt
