import MesonModel.Fmt.Tree
import MesonModel.Generated.FmtTables
import Driver.Proto
/- driver commands of area `fmt` (C16): translation-validation checker and the modelled rewriting decisions -/
namespace Driver.Fmt
open MesonModel.Fmt MesonModel.Generated.FmtTables Driver

/-- one serialised node header `kind:flags:nkids:text:ws` -/
structure Hdr where
  kind : Kind
  flags : Nat
  nkids : Nat
  text : List Char
  ws : List Char

def parseHdr (s : String) : Option Hdr :=
  match s.splitOn ":" with
  | [k, fl, n, tx, ws] =>
    match k.trimAscii.toString.toNat?, fl.trimAscii.toString.toNat?, n.trimAscii.toString.toNat? with
    | some k, some fl, some n => some ⟨Kind.ofIdx k, fl, n, decodeStr tx, decodeStr ws⟩
    | _, _, _ => none
  | _ => none

mutual
partial def parseTree : List Hdr → Option (Tree × List Hdr)
  | [] => none
  | h :: rest =>
    match parseKids h.nkids rest with
    | some (kids, rest') => some (.node h.kind h.flags h.text kids h.ws, rest')
    | none => none
partial def parseKids : Nat → List Hdr → Option (List Tree × List Hdr)
  | 0, rest => some ([], rest)
  | n + 1, rest =>
    match parseTree rest with
    | some (t, rest') =>
      match parseKids n rest' with
      | some (ts, rest'') => some (t :: ts, rest'')
      | none => none
    | none => none
end

def readTree (f : String) : Option Tree :=
  match (f.splitOn ",").mapM parseHdr with
  | some hs =>
    match parseTree hs with
    | some (t, []) => some t
    | _ => none
  | none => none

def flagBool (s : String) : Bool := s.trimAscii.toString == "1"

def showStrNode (n : StrNode) : String :=
  s!"{boolStr n.multi};{boolStr n.fstr};{encodeStr (printStr n)}"

def handle (cmd : String) (fs : List String) : String :=
  match cmd, fs with
  | "check", [so, a, b] =>
    match readTree a, readTree b with
    | some ta, some tb => s!"S{boolStr (sameProgram (flagBool so) ta tb)}C{boolStr (sameComments ta tb)}"
    | _, _ => "bad-tree"
  | "coms", [a] =>
    match readTree a with
    | some t => encodeStrList (comments t)
    | none => "bad-tree"
  | "simp", [on, raw, multi, fstr] =>
    showStrNode (simplify simplifyExcluded fstringMarkers (flagBool on) (parseStr (decodeStr raw) (flagBool multi) (flagBool fstr)))
  | "den", [raw, multi, fstr] =>
    let d := denote (parseStr (decodeStr raw) (flagBool multi) (flagBool fstr))
    s!"{encodeStr d.1};{boolStr d.2};{boolStr (plainLexable (decodeStr raw))}"
  | "sort", [l] =>
    encodeStrList (sortByKey (fun s => argKey (some s)) (decodeStrList l))
  | "keyle", [a, b] => boolStr (keyLe (pathKey (decodeStr a)) (pathKey (decodeStr b)))
  | "flat", [a] =>
    match readTree a with
    | some t =>
      let r := flattenFiles 64 t
      toString r.2 ++ ";" ++ " ".intercalate ((Skel.encodeList (erase r.1)).map toString)
    | none => "bad-tree"
  | "skel", [a] =>
    match readTree a with
    | some t => " ".intercalate ((Skel.encodeList (erase t)).map toString)
    | none => "bad-tree"
  | "tables", _ =>
    s!"{encodeStr simplifyExcluded};{encodeStr fstringMarkers};{boolStr (simplifyExcluded.contains '\\')}"
  | _, _ => "bad-op"

end Driver.Fmt
