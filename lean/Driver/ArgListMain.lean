import Driver.Loop
import Driver.ArgList

def main : IO Unit := Driver.mainLoop Driver.ArgList.handle
