import Driver.Proto
/- driver commands of area `intro` (stub until the area is built) -/
namespace Driver.Intro

def handle (cmd : String) (fs : List String) : String := "bad-op"

end Driver.Intro
