import Driver.Proto
import MesonModel.Intro.Model
import MesonModel.Intro.TestSer
/-
driver commands of area `intro` (C15)

Encoding: fields `|`, records `/`, record components `;`, sub-records `&`, sub-components `:`, list items `,`;
a string is `s` followed by its code points (`s 97 98`; the empty string is `s`), so that the empty list (empty
text) and the list holding one empty string differ.

  targets <targets>|<edges>             target = id;kind;files;priv;srcs;groups   kind = b|c|p|o   group = lang:compiler:params:srcs&…
                                        edge = rule;outs;ins;exe;args
        -> OK|<agree>|<fsg,fsg,…>|<claimed>      per target: files-exact, sources-exact, groups-exact bits
  tests <intro>|<ser>|<target ids>      intro = name;cmd;k:v&k:v;workdir;timeout;suite;par;prio;proto;depends;extra
                                        ser   = name;fname;args;m:name:vals:sep&…;workdir;timeout;suite;par;prio;proto;depends;extra
        -> OK|<agree>|<n intro>,<n ser>|<bit per position>|<depends-known>
  testdeps <uses>|<targets>|<prereq>    use = depends;paths   target = id;files
        -> OK|<agree>|<prereq-agrees>|<bit per test: built command words covered by depends>
  install <dirs>|<prefix>|<plan>|<installed>|<plan recs>|<installed recs>
                                        dirs = k:v&…   plan = sect;path;dest;tag;sub   installed = key;value
                                        rec = kind;datatype;path;installpath;tag;sub   kind = t|d|h|m|s|l
        -> OK|<agree>|<recs named>|<entries backed>|<recs listed>|<entries backed>      (bit strings)
  options <rows>|<observed>             row = name;value     observed = sub;name;builtin;value
        -> OK|<agree>|<bit per observation>
  files <listed>|<read>                 -> OK|<agree>
  getenv <ops>                          -> OK|k:v&k:v
  expand <dirs>|<prefix>|<dest>         -> OK|<path>  /  NONE
  destused <prefix>|<rec>               -> OK|<path>
  testser <builddir>|<darwin>|<mode d/s>|<objs>|<cells>|<targets>|<tests>
                                        obj = envvars cell;unset cell   cell = op&op;names   op = m:name:vals:sep
                                        target = obj;id;kind(e/h/a/b/c/i);dir;filename;outputs;kind:dir&…
                                        test = name;suite;exe;args;depends;env ref;par;timeout;workdir;protocol;priority
                                        exe / arg item (args `&`-separated) = s:<str> | f:<str> | t:<index> | x:<cmd> | o:   (prefix `l` = LocalProgram)
                                        depends = target indices `&`-separated; workdir = n | <str>
        -> OK|<pickled of call 1>|<get_test_list of call 2 on the heap call 1 left>   /  ERR:<exception>
           pickled = name;fname;args;ops;unset;workdir;timeout;suite;par;prio;proto;depends;extra
           intro   = name;cmd;k:v&…;workdir;timeout;suite;par;prio;proto;depends;extra
-/
namespace Driver.Intro
open MesonModel.Intro Driver

def recs (f : String) : List String := if f.isEmpty then [] else f.splitOn "/"
def subs (f : String) : List String := if f.isEmpty then [] else f.splitOn "&"
def comps (r : String) : List String := r.splitOn ";"
def bits (l : List Bool) : String := String.join (l.map boolStr)

def decKind : String → TKind
  | "b" => .build | "c" => .custom | "p" => .phony | _ => .other

def decGroup (r : String) : Option Group :=
  match r.splitOn ":" with
  | [l, c, p, s] => some { language := decodeStr l, compiler := decodeStrList c, params := decodeStrList p, srcs := decodeStrList s }
  | _ => none

def decTarget (r : String) : Option Target :=
  match comps r with
  | [i, k, f, p, s, g] =>
    (subs g).mapM decGroup |>.map (fun gs =>
      { id := decodeStr i, kind := decKind k, files := decodeStrList f, priv := decodeStr p, srcs := decodeStrList s, groups := gs })
  | _ => none

def decEdge (r : String) : Option Edge :=
  match comps r with
  | [ru, o, i, x, a] => some { rule := decodeStr ru, outs := decodeStrList o, ins := decodeStrList i, exe := decodeStrList x, args := decodeStrList a }
  | _ => none

def decPair (r : String) : Option (Str × Str) :=
  match r.splitOn ":" with
  | [k, v] => some (decodeStr k, decodeStr v)
  | _ => none

def decOp (r : String) : Option EnvOp :=
  match r.splitOn ":" with
  | [m, n, v, s] =>
    let meth := match m with | "set" => some EnvMethod.set | "append" => some .append | "prepend" => some .prepend | _ => none
    meth.map (fun mm => { method := mm, name := decodeStr n, values := decodeStrList v, sep := decodeStr s })
  | _ => none

def decIntroTest (r : String) : Option IntroTest :=
  match comps r with
  | [n, c, e, w, t, su, pa, pr, po, d, x] =>
    (subs e).mapM decPair |>.map (fun env =>
      { name := decodeStr n, cmd := decodeStrList c, env := env, workdir := decodeStr w, timeout := decodeStr t,
        suite := decodeStrList su, isParallel := decodeStr pa, priority := decodeStr pr, protocol := decodeStr po,
        depends := decodeStrList d, extraPaths := decodeStrList x })
  | _ => none

def decSerTest (r : String) : Option SerTest :=
  match comps r with
  | [n, f, a, e, w, t, su, pa, pr, po, d, x] =>
    (subs e).mapM decOp |>.map (fun env =>
      { name := decodeStr n, fname := decodeStrList f, cmdArgs := decodeStrList a, env := env, workdir := decodeStr w,
        timeout := decodeStr t, suite := decodeStrList su, isParallel := decodeStr pa, priority := decodeStr pr,
        protocol := decodeStr po, depends := decodeStrList d, extraPaths := decodeStrList x })
  | _ => none

def decUse (r : String) : Option TestUse :=
  match comps r with
  | [d, p] => some { depends := decodeStrList d, paths := decodeStrList p }
  | _ => none

def decTF (r : String) : Option TargetFiles :=
  match comps r with
  | [i, f] => some { id := decodeStr i, files := decodeStrList f }
  | _ => none

def decIKind : String → Option IKind
  | "t" => some .targets | "d" => some .data | "h" => some .headers | "m" => some .man | "s" => some .subdirs
  | "l" => some .symlinks | _ => none

def decRec (r : String) : Option InstRec :=
  match comps r with
  | [k, dt, p, ip, t, s] =>
    (decIKind k).map (fun kk => { kind := kk, dataType := decodeStr dt, path := decodeStr p, installPath := decodeStr ip,
                                  tag := decodeStr t, subproject := decodeStr s })
  | _ => none

def decPlan (r : String) : Option PlanEntry :=
  match comps r with
  | [se, p, d, t, s] => some { sect := decodeStr se, path := decodeStr p, dest := decodeStr d, tag := decodeStr t, subproject := decodeStr s }
  | _ => none

def decKV (r : String) : Option (Str × Str) :=
  match comps r with
  | [k, v] => some (decodeStr k, decodeStr v)
  | _ => none

def decRow (r : String) : Option OptRow :=
  match comps r with
  | [n, v] => some { name := decodeStr n, value := decodeStr v }
  | _ => none

def decObs (r : String) : Option Observed :=
  match comps r with
  | [s, n, b, v] => some { sub := decodeStr s, name := decodeStr n, builtin := b == "1", value := decodeStr v }
  | _ => none

def zipBits : List IntroTest → List SerTest → List Bool
  | i :: is, s :: ss => checkTest i s :: zipBits is ss
  | _, _ => []

def encS (s : Str) : String := if s.isEmpty then "s" else "s " ++ encodeStr s

/-! #### testser -/
section testser
open MesonModel.Intro.TestSer

def encL (l : List Str) : String := ",".intercalate (l.map encS)

def decTgtKind : String → Option TgtKind
  | "e" => some .executable | "h" => some .sharedLibrary | "a" => some .staticLibrary | "b" => some .otherBuild
  | "c" => some .custom | "i" => some .index | _ => none

def decLinkDep (r : String) : Option (TgtKind × Str) :=
  match r.splitOn ":" with
  | [k, d] => (decTgtKind k).map (fun kk => (kk, decodeStr d))
  | _ => none

def decTgt (r : String) : Option Tgt :=
  match comps r with
  | [o, i, k, d, f, outs, l] =>
    match o.trimAscii.toString.toNat?, decTgtKind k, (subs l).mapM decLinkDep with
    | some oo, some kk, some ls =>
      some { obj := oo, id := decodeStr i, kind := kk, dir := decodeStr d, filename := decodeStr f, outputs := decodeStrList outs, linkDeps := ls }
    | _, _, _ => none
  | _ => none

def decObjBase (tgts : List Tgt) (k payload : String) : Option Obj :=
  match k with
  | "s" => some (.str (decodeStr payload))
  | "f" => some (.file (decodeStr payload))
  | "t" => (payload.trimAscii.toString.toNat?).bind (fun i => tgts[i]?.map Obj.target)
  | "x" => some (.external (decodeStrList payload))
  | "o" => some .other
  | _ => none

def decObj (tgts : List Tgt) (r : String) : Option Obj :=
  match r.splitOn ":" with
  | [k, payload] =>
    if k.startsWith "l" then (decObjBase tgts (k.drop 1).toString payload).map Obj.localProg else decObjBase tgts k payload
  | _ => none

def decTest (tgts : List Tgt) (r : String) : Option Test :=
  match comps r with
  | [n, su, e, a, d, env, par, to, w, proto, prio] =>
    match decObj tgts e, (subs a).mapM (decObj tgts), (subs d).mapM (fun i => (i.trimAscii.toString.toNat?).bind (fun k => tgts[k]?)),
          env.trimAscii.toString.toNat?, prio.trimAscii.toString.toInt? with
    | some exe, some args, some deps, some envr, some p =>
      some { name := decodeStr n, suite := decodeStrList su, exe := exe, args := args, depends := deps, env := envr,
             isParallel := decodeStr par, timeout := decodeStr to, workdir := if w == "n" then none else some (decodeStr w),
             protocol := decodeStr proto, priority := p }
    | _, _, _, _, _ => none
  | _ => none

def decCell (r : String) : Option (List EnvOp × List Str) :=
  match comps r with
  | [o, u] => ((subs o).mapM decOp).map (fun ops => (ops, decodeStrList u))
  | _ => none

def decEnvObj (r : String) : Option EnvObj :=
  match comps r with
  | [a, b] =>
    match a.trimAscii.toString.toNat?, b.trimAscii.toString.toNat? with
    | some x, some y => some ⟨x, y⟩
    | _, _ => none
  | _ => none

def mkHeap (objs : List EnvObj) (cells : List (List EnvOp × List Str)) : Heap :=
  { nObjs := objs.length, nCells := cells.length, obj := fun i => objs.getD i ⟨0, 0⟩,
    ops := fun i => (cells.getD i ([], [])).1, uns := fun i => (cells.getD i ([], [])).2 }

def encMethod : EnvMethod → String
  | .set => "set" | .append => "append" | .prepend => "prepend"

def encOp (o : EnvOp) : String := s!"{encMethod o.method}:{encS o.name}:{encL o.values}:{encS o.sep}"

def encPickled (p : SerTest × List Str) : String :=
  let t := p.1
  ";".intercalate [encS t.name, encL t.fname, encL t.cmdArgs, "&".intercalate (t.env.map encOp), encL p.2, encS t.workdir,
    encS t.timeout, encL t.suite, encS t.isParallel, encS t.priority, encS t.protocol, encL t.depends, encL t.extraPaths]

def encIntro (t : IntroTest) : String :=
  ";".intercalate [encS t.name, encL t.cmd, "&".intercalate (t.env.map (fun kv => encS kv.1 ++ ":" ++ encS kv.2)), encS t.workdir,
    encS t.timeout, encL t.suite, encS t.isParallel, encS t.priority, encS t.protocol, encL t.depends, encL t.extraPaths]

def errName : Err → String
  | .prependToUnset => "prepend-to-unset" | .badObject => "bad-object" | .badExe => "bad-exe"
  | .emptyCommand => "empty-command" | .noOutput => "no-output"

def handleTestSer (fs : List String) : String :=
  match fs with
  | [bd, dw, mode, objs, cells, tgts, tests] =>
    match (recs objs).mapM decEnvObj, (recs cells).mapM decCell, (recs tgts).mapM decTgt with
    | some os, some cs, some ts =>
      match (recs tests).mapM (decTest ts) with
      | some tt =>
        match configure (if mode == "s" then .shallow else .deep) (decodeStr bd) (dw == "1") tt (mkHeap os cs) with
        | .ok (p, i) => s!"OK|{"/".intercalate (p.map encPickled)}|{"/".intercalate (i.map encIntro)}"
        | .error e => "ERR:" ++ errName e
      | none => "bad-op"
    | _, _, _ => "bad-op"
  | _ => "bad-op"

end testser

def handle (cmd : String) (fs : List String) : String :=
  match cmd, fs with
  | "testser", fs => handleTestSer fs
  | "targets", [t, e] =>
    match (recs t).mapM decTarget, (recs e).mapM decEdge with
    | some ts, some es =>
      let per := ts.map (fun t => boolStr (checkFiles t es) ++ boolStr (checkSources t es) ++ boolStr (checkGroups t es))
      s!"OK|{boolStr (checkTargets ts es)}|{",".intercalate per}|{boolStr (checkClaimed ts es)}"
    | _, _ => "bad-op"
  | "tests", [i, s, ids] =>
    match (recs i).mapM decIntroTest, (recs s).mapM decSerTest with
    | some is, some ss =>
      let tids := decodeStrList ids
      let depsOk := is.all (fun i => i.depends.all (fun d => decide (d ∈ tids)))
      s!"OK|{boolStr (checkTests is ss tids)}|{is.length},{ss.length}|{bits (zipBits is ss)}|{boolStr depsOk}"
    | _, _ => "bad-op"
  | "testdeps", [u, t, p] =>
    match (recs u).mapM decUse, (recs t).mapM decTF with
    | some us, some ts =>
      let pre := decodeStrList p
      s!"OK|{boolStr (checkTestDeps us ts pre)}|{boolStr (checkPrereq us ts pre)}|{bits (us.map (fun x => checkCmdCovered [x] ts))}"
    | _, _ => "bad-op"
  | "install", [d, pfx, pl, ins, pr, ir] =>
    match (subs d).mapM decPair, (recs pl).mapM decPlan, (recs ins).mapM decKV, (recs pr).mapM decRec, (recs ir).mapM decRec with
    | some dirs, some plan, some inst, some prs, some irs =>
      let p := decodeStr pfx
      let b1 := prs.map (fun r => plan.any (fun e => decide (Matches dirs p e r)))
      let b2 := plan.map (fun e => prs.any (fun r => decide (Matches dirs p e r)))
      let b3 := irs.map (fun r => inst.any (fun kv => decide (InstalledMatches p kv r)))
      let b4 := inst.map (fun kv => irs.any (fun r => decide (InstalledMatches p kv r)))
      s!"OK|{boolStr (checkInstall dirs p plan inst prs irs)}|{bits b1}|{bits b2}|{bits b3}|{bits b4}"
    | _, _, _, _, _ => "bad-op"
  | "options", [r, o] =>
    match (recs r).mapM decRow, (recs o).mapM decObs with
    | some rows, some obs => s!"OK|{boolStr (checkOptions rows obs)}|{bits (obs.map (checkOption rows))}"
    | _, _ => "bad-op"
  | "files", [a, b] => s!"OK|{boolStr (checkBuildFiles (decodeStrList a) (decodeStrList b))}"
  | "getenv", [o] =>
    match (subs o).mapM decOp with
    | some ops => "OK|" ++ "&".intercalate ((getEnv ops []).map (fun kv => encS kv.1 ++ ":" ++ encS kv.2))
    | none => "bad-op"
  | "expand", [d, pfx, x] =>
    match (subs d).mapM decPair with
    | some dirs =>
      match expandDest dirs (decodeStr pfx) (decodeStr x) with
      | some r => "OK|" ++ encS (normDest r)
      | none => "NONE"
    | none => "bad-op"
  | "destused", [pfx, r] =>
    match decRec r with
    | some rr => "OK|" ++ encS (normDest (destUsed (decodeStr pfx) rr))
    | none => "bad-op"
  | _, _ => "bad-op"

end Driver.Intro
