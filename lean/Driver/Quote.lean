import Driver.Proto
/- driver commands of area `quote` (stub until the area is built) -/
namespace Driver.Quote

def handle (cmd : String) (fs : List String) : String := "bad-op"

end Driver.Quote
