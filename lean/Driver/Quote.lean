import MesonModel.Quote.Model
import Driver.Proto
/-
Driver commands of area `quote` (property C03).
Lists of strings use their own codec here because `['']` and `[]` must differ:
every item is `x` followed by the code points, items are separated by `,`.
-/
namespace Driver.Quote
open MesonModel.Quote Driver

def decList (f : String) : List (List Char) :=
  if f.trimAscii.isEmpty then [] else (f.splitOn ",").map (fun it => decodeStr (it.drop 1).toString)

def encList (l : List (List Char)) : String := ",".intercalate (l.map (fun s => "x" ++ encodeStr s))

def showQErr : QErr → String
  | .newline => "ERR:newline"
  | .pipe => "ERR:pipe"

def showQ : Except QErr (List Char) → String
  | .ok s => "ok:" ++ encodeStr s
  | .error e => showQErr e

def showQuoting : Quoting → String
  | .both => "both" | .notShell => "notShell" | .notNinja => "notNinja" | .none => "none"

def parseQuoting : String → Option Quoting
  | "b" => some .both | "s" => some .notShell | "n" => some .notNinja | "0" => some .none | _ => none

/-- items `<tag>x<codepoints>`; tag `-` = plain `str` (goes through `strToCommandArg`) -/
def decArgs (f : String) : List CmdArg :=
  if f.trimAscii.isEmpty then [] else (f.splitOn ",").map (fun it =>
    let tag := (it.take 1).toString
    let s := decodeStr (it.drop 2).toString
    match parseQuoting tag with
    | some q => ⟨s, q⟩
    | none => strToCommandArg s)

def parseStyle : String → RspStyle
  | "msvc" => .msvc | "tasking" => .tasking | _ => .gcc

def showSErr : SErr → String
  | .noInputs => "ERR:noInputs" | .plainWithMany => "ERR:plainWithMany"
  | .badInputIndex => "ERR:badInputIndex" | .noOutputs => "ERR:noOutputs"
  | .badOutputIndex => "ERR:badOutputIndex" | .partInputMany => "ERR:partInputMany"
  | .partOutputMany => "ERR:partOutputMany"

def showNErr : NErr → String
  | .badEscape => "ERR:badEscape" | .newlineInValue => "ERR:newlineInValue"
  | .unterminatedBrace => "ERR:unterminatedBrace" | .cycle => "ERR:cycle"

def showN : Except NErr (List Char) → String
  | .ok s => "ok:" ++ encodeStr s
  | .error e => showNErr e

def showShErr : ShErr → String
  | .unsupported _ => "ERR:unsupported" | .unterminated => "ERR:unterminated"
  | .emptyCommand => "ERR:emptyCommand" | .operator => "ERR:operator"

/-- values: keys `k1,k2,…` (list codec) and parallel values `o<list of one>` / `m<list>` separated by `;` -/
def decValues (ks vs : String) : Values :=
  let keys := decList ks
  let vals := if vs.trimAscii.isEmpty then [] else (vs.splitOn ";").map (fun v =>
    let body := decList (v.drop 1).toString
    if (v.take 1).toString == "m" then TVal.many body else TVal.one (body.headD []))
  keys.zip vals

def optField (f : String) : Option (List Char) :=
  if (f.take 1).toString == "s" then some (decodeStr (f.drop 1).toString) else none

def flag (s : String) (i : Nat) : Bool := (s.toList.getD i '0') == '1'

def showWrapped : Wrapped → String
  | .direct a => "direct:" ++ encList a
  | .envPrefix a => "env:" ++ encList a
  | .internalExe o a => "exe:" ++ encList o ++ ";" ++ encList a
  | .pickled => "pickled"

def zipAssoc (ks vs : String) : List (List Char × List Char) := (decList ks).zip (decList vs)

def handle (cmd : String) (fs : List String) : String :=
  match cmd, fs with
  | "shq", [s] => encodeStr (shQuote (decodeStr s))
  | "nq", [b, s] => showQ (ninjaQuote (b == "1") (decodeStr s))
  | "rspq", [s] => encodeStr (gccRspQuote (decodeStr s))
  | "cmdq", [s] => encodeStr (cmdQuote (decodeStr s))
  | "s2c", [s] => showQuoting (strToCommandArg (decodeStr s)).q
  | "rule", [style, c, a] =>
    let r : Rule := { command := decArgs c, args := decArgs a, rspStyle := parseStyle style }
    showQ r.commandStr ++ ";" ++ showQ r.rspCommandStr ++ ";" ++ showQ r.rspContentStr
  | "var", [userRsp, style, name, elems] =>
    showQ (varLine (elemQuoteFunc (userRsp == "1") (parseStyle style)) (decodeStr name) (decList elems))
  | "esc", [l] => encList (escapeExtraArgs (decList l))
  | "subst", [c, ks, vs] =>
    match evalCustomCommand (decList c) (decValues ks vs) with
    | .ok l => "ok:" ++ encList l
    | .error e => showSErr e
  | "substonly", [c, ks, vs] =>
    match substituteValues (decList c) (decValues ks vs) with
    | .ok l => "ok:" ++ encList l
    | .error e => showSErr e
  | "wrap", [flags, args, eks, evs, cap, feed] =>
    showWrapped (asMesonExeCmdline {
      extraPaths := flag flags 0, exeWrapper := flag flags 1, workdir := flag flags 2,
      canUseEnv := flag flags 3, sepIsSpace := flag flags 4, forceSerialize := flag flags 5,
      haveEnvProgram := flag flags 6, cmdArgs := decList args, envVars := zipAssoc eks evs,
      capture := optField cap, feed := optField feed })
  | "nineval", [ks, vs, v] =>
    let env := zipAssoc ks vs
    showN (ninjaEval (fun k => (assocGet env k).getD []) (decodeStr v))
  | "edge", [rks, rvs, vks, vvs, ins, outs, name] =>
    -- statement-level bindings are evaluated when the statement is parsed (enclosing scope: empty)
    let raw := zipAssoc vks vvs
    match raw.mapM (fun kv => (fun v => (kv.1, v)) <$> ninjaEval (fun _ => []) kv.2) with
    | .error e => showNErr e
    | .ok vars =>
      showN (edgeBinding { ruleBindings := zipAssoc rks rvs, vars := vars,
                           ins := decList ins, outs := decList outs } (decodeStr name))
  | "shsplit", [s] =>
    match shSplit (decodeStr s) with
    | .ok l => "ok:" ++ encList l
    | .error e => showShErr e
  | "shcmds", [s] =>
    match shCommands (decodeStr s) with
    | .ok ls => "ok:" ++ ";".intercalate (ls.map encList)
    | .error e => showShErr e
  | "bav", [s] => encList (buildargv (decodeStr s))
  | "exeparse", [l] =>
    let showOpt (o : Option (List Char)) : String := match nonEmpty? o with
      | some v => "s" ++ encodeStr v | none => "n"
    match mesonExeParse (decList l) with
    | .run c f argv => "run:" ++ showOpt c ++ ";" ++ showOpt f ++ ";" ++ encList argv
    | .unpickle f => "unpickle:" ++ encodeStr f
    | .helpExit => "exit:0"
    | .usageError => "exit:2"
  | "enceq", [a, b] => boolStr (decide (reprList (decList a) = reprList (decList b)))
  | "testcmd", [w, p, a, e] => encList (testCmd (decList w) (decList p) (decList a) (decList e))
  | "nshesc", [s] => encodeStr (ninjaShellEscape (decodeStr s))
  | _, _ => "bad-op"

end Driver.Quote
