import MesonModel.Quote.Model
import MesonModel.Quote.Env
import MesonModel.Quote.Gen
import MesonModel.Quote.AddArgs
import Driver.Proto
/-
Driver commands of area `quote` (property C03).
Lists of strings use their own codec here because `['']` and `[]` must differ:
every item is `x` followed by the code points, items are separated by `,`.
-/
namespace Driver.Quote
open MesonModel.Quote Driver

def decList (f : String) : List (List Char) :=
  if f.trimAscii.isEmpty then [] else (f.splitOn ",").map (fun it => decodeStr (it.drop 1).toString)

def encList (l : List (List Char)) : String := ",".intercalate (l.map (fun s => "x" ++ encodeStr s))

def showQErr : QErr → String
  | .newline => "ERR:newline"
  | .pipe => "ERR:pipe"

def showQ : Except QErr (List Char) → String
  | .ok s => "ok:" ++ encodeStr s
  | .error e => showQErr e

def showQuoting : Quoting → String
  | .both => "both" | .notShell => "notShell" | .notNinja => "notNinja" | .none => "none"

def parseQuoting : String → Option Quoting
  | "b" => some .both | "s" => some .notShell | "n" => some .notNinja | "0" => some .none | _ => none

/-- items `<tag>x<codepoints>`; tag `-` = plain `str` (goes through `strToCommandArg`) -/
def decArgs (f : String) : List CmdArg :=
  if f.trimAscii.isEmpty then [] else (f.splitOn ",").map (fun it =>
    let tag := (it.take 1).toString
    let s := decodeStr (it.drop 2).toString
    match parseQuoting tag with
    | some q => ⟨s, q⟩
    | none => strToCommandArg s)

def parseStyle : String → RspStyle
  | "msvc" => .msvc | "tasking" => .tasking | _ => .gcc

def showSErr : SErr → String
  | .noInputs => "ERR:noInputs" | .plainWithMany => "ERR:plainWithMany"
  | .badInputIndex => "ERR:badInputIndex" | .noOutputs => "ERR:noOutputs"
  | .badOutputIndex => "ERR:badOutputIndex" | .partInputMany => "ERR:partInputMany"
  | .partOutputMany => "ERR:partOutputMany"

def showNErr : NErr → String
  | .badEscape => "ERR:badEscape" | .newlineInValue => "ERR:newlineInValue"
  | .unterminatedBrace => "ERR:unterminatedBrace" | .cycle => "ERR:cycle"

def showN : Except NErr (List Char) → String
  | .ok s => "ok:" ++ encodeStr s
  | .error e => showNErr e

def showShErr : ShErr → String
  | .unsupported _ => "ERR:unsupported" | .unterminated => "ERR:unterminated"
  | .emptyCommand => "ERR:emptyCommand" | .operator => "ERR:operator"

/-- values: keys `k1,k2,…` (list codec) and parallel values `o<list of one>` / `m<list>` separated by `;` -/
def decValues (ks vs : String) : Values :=
  let keys := decList ks
  let vals := if vs.trimAscii.isEmpty then [] else (vs.splitOn ";").map (fun v =>
    let body := decList (v.drop 1).toString
    if (v.take 1).toString == "m" then TVal.many body else TVal.one (body.headD []))
  keys.zip vals

def optField (f : String) : Option (List Char) :=
  if (f.take 1).toString == "s" then some (decodeStr (f.drop 1).toString) else none

def flag (s : String) (i : Nat) : Bool := (s.toList.getD i '0') == '1'

def showWrapped : Wrapped → String
  | .direct a => "direct:" ++ encList a
  | .envPrefix a => "env:" ++ encList a
  | .internalExe o a => "exe:" ++ encList o ++ ";" ++ encList a
  | .pickled => "pickled"

def zipAssoc (ks vs : String) : List (List Char × List Char) := (decList ks).zip (decList vs)


/-! ### environment() objects -/

def decListList (f : String) : List (List (List Char)) :=
  if f.trimAscii.isEmpty then [] else (f.splitOn ";").map decList

def parseKind (k : List Char) : EnvKind :=
  if k = "append".toList then .append else if k = "prepend".toList then .prepend else .set

/-- four parallel fields: kinds, names, separators (list codec) and values (`;`-separated lists) -/
def decOps (kinds names seps vals : String) : List EnvOp :=
  let ks := decList kinds
  let ns := decList names
  let ss := decList seps
  let vs := decListList vals
  let vs := vs ++ List.replicate (ks.length - vs.length) []
  let ss := ss ++ List.replicate (ks.length - ss.length) []
  (ks.zip (ns.zip (ss.zip vs))).map (fun q => ⟨parseKind q.1, q.2.1, q.2.2.2, q.2.2.1⟩)

def showKind : EnvKind → List Char
  | .set => "set".toList | .append => "append".toList | .prepend => "prepend".toList

def showErr : Option EnvErr → List Char
  | none => "ok".toList
  | some .setUnset => "setUnset".toList | some .unsetSet => "unsetSet".toList
  | some .appendUnset => "appendUnset".toList | some .prependUnset => "prependUnset".toList

def sortStrs (l : List (List Char)) : List (List Char) :=
  ((l.map String.ofList).toArray.qsort (· < ·)).toList.map String.toList

/-- API calls: kinds `set`/`append`/`prepend`/`unset`, and `mbegin` … `mend` bracketing the calls that
build the object handed to `merge` -/
def runCalls (kinds names seps vals : String) : EnvVars × List (List Char) :=
  let ks := decList kinds
  let ns := decList names
  let ss := decList seps ++ List.replicate ks.length []
  let vs := decListList vals ++ List.replicate ks.length []
  let calls := ks.zip (ns.zip (ss.zip vs))
  let r := calls.foldl (fun (st : EnvVars × Option EnvVars × List (List Char)) q =>
    let (outer, inner, errs) := st
    let k := q.1
    if k = "mbegin".toList then (outer, some {}, errs)
    else if k = "mend".toList then
      match inner with
      | some o => ((outer.step (.merge o)).1, none, errs)
      | none => (outer, none, errs)
    else
      let call : EnvCall :=
        if k = "unset".toList then .unset q.2.1
        else if k = "append".toList then .append q.2.1 q.2.2.2 q.2.2.1
        else if k = "prepend".toList then .prepend q.2.1 q.2.2.2 q.2.2.1
        else .set q.2.1 q.2.2.2 q.2.2.1
      match inner with
      | some o => let (o', e) := o.step call; (outer, some o', errs ++ [showErr e])
      | none => let (o', e) := outer.step call; (o', none, errs ++ [showErr e])) (({} : EnvVars), none, [])
  (r.1, r.2.2)

def showEnvVars (e : EnvVars) : String :=
  encList (e.ops.map (fun o => showKind o.kind)) ++ "/" ++ encList (e.ops.map (·.name)) ++ "/" ++
  encList (e.ops.map (·.sep)) ++ "/" ++ ";".intercalate (e.ops.map (fun o => encList o.values)) ++ "/" ++
  encList (sortStrs e.unset) ++ "/" ++ boolStr e.canUseEnv

def showDict (d : Dict) : String := encList (d.map (·.1)) ++ ";" ++ encList (d.map (·.2))

def dfltOf (f : String) : List Char → Option (List Char) :=
  if f == "1" then (fun n => some ('$' :: n)) else noDflt

def showGenErr : GenErr → String
  | .outputIndex => "ERR:outputIndex" | .diverges => "ERR:diverges"

def handle (cmd : String) (fs : List String) : String :=
  match cmd, fs with
  | "shq", [s] => encodeStr (shQuote (decodeStr s))
  | "nq", [b, s] => showQ (ninjaQuote (b == "1") (decodeStr s))
  | "rspq", [s] => encodeStr (gccRspQuote (decodeStr s))
  | "cmdq", [s] => encodeStr (cmdQuote (decodeStr s))
  | "s2c", [s] => showQuoting (strToCommandArg (decodeStr s)).q
  | "rule", [style, c, a] =>
    let r : Rule := { command := decArgs c, args := decArgs a, rspStyle := parseStyle style }
    showQ r.commandStr ++ ";" ++ showQ r.rspCommandStr ++ ";" ++ showQ r.rspContentStr
  | "var", [userRsp, style, name, elems] =>
    showQ (varLine (elemQuoteFunc (userRsp == "1") (parseStyle style)) (decodeStr name) (decList elems))
  | "esc", [l] => encList (escapeExtraArgs (decList l))
  | "subst", [c, ks, vs] =>
    match evalCustomCommand (decList c) (decValues ks vs) with
    | .ok l => "ok:" ++ encList l
    | .error e => showSErr e
  | "substonly", [c, ks, vs] =>
    match substituteValues (decList c) (decValues ks vs) with
    | .ok l => "ok:" ++ encList l
    | .error e => showSErr e
  | "wrap", [flags, args, eks, evs, cap, feed] =>
    showWrapped (asMesonExeCmdline {
      extraPaths := flag flags 0, exeWrapper := flag flags 1, workdir := flag flags 2,
      canUseEnv := flag flags 3, sepIsSpace := flag flags 4, forceSerialize := flag flags 5,
      haveEnvProgram := flag flags 6, cmdArgs := decList args, envVars := zipAssoc eks evs,
      capture := optField cap, feed := optField feed })
  | "nineval", [ks, vs, v] =>
    let env := zipAssoc ks vs
    showN (ninjaEval (fun k => (assocGet env k).getD []) (decodeStr v))
  | "edge", [rks, rvs, vks, vvs, ins, outs, name] =>
    -- statement-level bindings are evaluated when the statement is parsed (enclosing scope: empty)
    let raw := zipAssoc vks vvs
    match raw.mapM (fun kv => (fun v => (kv.1, v)) <$> ninjaEval (fun _ => []) kv.2) with
    | .error e => showNErr e
    | .ok vars =>
      showN (edgeBinding { ruleBindings := zipAssoc rks rvs, vars := vars,
                           ins := decList ins, outs := decList outs } (decodeStr name))
  | "shsplit", [s] =>
    match shSplit (decodeStr s) with
    | .ok l => "ok:" ++ encList l
    | .error e => showShErr e
  | "shcmds", [s] =>
    match shCommands (decodeStr s) with
    | .ok ls => "ok:" ++ ";".intercalate (ls.map encList)
    | .error e => showShErr e
  | "bav", [s] => encList (buildargv (decodeStr s))
  | "exeparse", [l] =>
    let showOpt (o : Option (List Char)) : String := match nonEmpty? o with
      | some v => "s" ++ encodeStr v | none => "n"
    match mesonExeParse (decList l) with
    | .run c f argv => "run:" ++ showOpt c ++ ";" ++ showOpt f ++ ";" ++ encList argv
    | .unpickle f => "unpickle:" ++ encodeStr f
    | .helpExit => "exit:0"
    | .usageError => "exit:2"
  | "enceq", [a, b] => boolStr (decide (reprList (decList a) = reprList (decList b)))
  | "testcmd", [w, p, a, e] => encList (testCmd (decList w) (decList p) (decList a) (decList e))
  | "envcalls", [ks, ns, ss, vs] =>
    let (e, errs) := runCalls ks ns ss vs
    showEnvVars e ++ "/" ++ encList errs
  | "envget", [ks, ns, ss, vs, un, bk, bv, d] =>
    showDict (getEnv { ops := decOps ks ns ss vs, unset := decList un } (dfltOf d) (zipAssoc bk bv))
  | "envtest", [hasSetup, sk, sn, ss, sv, su, tk, tn, ts, tv, tu, bk, bv] =>
    let setup : Option EnvVars := if hasSetup == "1" then some { ops := decOps sk sn ss sv, unset := decList su } else none
    showDict (deliverTest setup { ops := decOps tk tn ts tv, unset := decList tu } (zipAssoc bk bv))
  | "envutil", [bk, bv, words] =>
    match envUtility (zipAssoc bk bv) (decList words) with
    | .ok (d, c) => "ok:" ++ showDict d ++ ";" ++ encList c
    | .error .option => "ERR:option" | .error .emptyName => "ERR:emptyName" | .error .noUtility => "ERR:noUtility"
  | "wrapenv", [flags, args, ks, ns, ss, vs, cap, feed] =>
    let (e, _) := runCalls ks ns ss vs
    let e := if flag flags 3 then e else { e with canUseEnv := false }
    let r : ExeReq := {
      extraPaths := flag flags 0, exeWrapper := flag flags 1, workdir := flag flags 2,
      sepIsSpace := flag flags 4, forceSerialize := flag flags 5, haveEnvProgram := flag flags 6,
      cmdArgs := decList args, capture := optField cap, feed := optField feed }
    showWrapped (asMesonExeCmdline (r.ofEnv (some e)))
  | "genargs", [infile, sole, priv, outs, dep, b2s, std, arglist, extra] =>
    match genCommandArgs {
                           infile := decodeStr infile, soleOutput := decodeStr sole, privDir := decodeStr priv,
                           outfiles := decList outs, depfile := optField dep, buildToSrc := decodeStr b2s,
                           sourceTargetDir := decodeStr std } (decList arglist) (decList extra) with
    | .ok l => "ok:" ++ encList l
    | .error e => showGenErr e
  | "addargs", [langs, batches, l] =>
    -- history: `;`-separated language lists and (parallel) argument batches; answer: the list stored for `l`
    encList (argsGet (addHistory [] ((decListList langs).zip (decListList batches))) (decodeStr l))
  | "nshesc", [s] => encodeStr (ninjaShellEscape (decodeStr s))
  | _, _ => "bad-op"

end Driver.Quote
