import Driver.Proto
import MesonModel.Ninja.Manifest
import MesonModel.Graph.Model
import MesonModel.Graph.HeaderDeps
/-
driver commands of area `graph` (C05)

  sched <manifest text>|<included step indices, `,`-joined>|<schedule>;<schedule>;…      (a schedule = `,`-joined indices)
      -> OK|n=<number of build statements>|anc=<i>:<ancestors of i, blank separated, ascending>,…  (for the included steps,
            computed on the whole graph)|closed=<1 iff every ancestor list passed the closedness check>|valid=<one bit per
            schedule: valid and complete for the graph restricted to the included steps>
      -> ERR:Parse:<kind>:<chars-left> / ERR:Load:<kind>:<arg>   (the C04 manifest model rejects the text)
  valid <n>|<edges: ins>outs;…  with paths as numbers, `,`-joined>|<schedule>     -> 0/1   (abstract graphs, for tests)

  hdeps <dependency records>|<target records>
      records `;`-joined, fields of a record `:`-joined, numbers blank separated, strings as code points
        generated element   C!<dir>!<out>~<out>…  (whole custom target) | I!<dir>!<out>  (ct[i]) | L!<out>~<out>…  (generator list)
                            with <out> = <name>^<class digit: 0 source 1 object 2 library 3 header 4 other>; elements `,`-joined
        dependency          <sources>:<dependencies>:<link_with>:<link_whole>
        target              <kind digit: 0 executable 1 static 2 shared 3 other>:<private dir>:<sources>:<dependencies>:<link_with>:<link_whole>
      -> OK|wf=<0/1>|<order-only inputs of target 0, `,`-joined strings>;<… of target 1>;…
      -> ERR:Table   (a record does not have the shape above)

Step i is the i-th `build` statement of the file (0-based); its declared inputs are explicit ++ implicit ++ order-only
inputs, its outputs explicit ++ implicit outputs (validations `|@` are not dependencies).
-/
namespace Driver.Graph
open MesonModel.Graph
open MesonModel.Ninja (Manifest BuildStmt Str)

def idxOf (l : List Str) (s : Str) : Nat :=
  match l.findIdx? (· == s) with
  | some i => i
  | none => l.length

/-- the manifest as an execution graph over interned paths (only identity of paths matters here) -/
def mkGraph (m : Manifest) : Graph Nat Nat Unit :=
  let outs := (m.builds.flatMap (fun b => b.outs ++ b.implOuts)).eraseDups
  let arr := (m.builds.map (fun b =>
    (((b.ins ++ b.implIns ++ b.orderIns).map (idxOf outs)).filter (· < outs.length),
     (b.outs ++ b.implOuts).map (idxOf outs)))).toArray
  { steps := List.range arr.size,
    step := fun i => match arr[i]? with
      | some (is, os) => { ins := is, outs := os }
      | none => { ins := [], outs := [] } }

def natList (f : String) (sep : String) : List Nat :=
  if f.trimAscii.isEmpty then [] else (f.splitOn sep).filterMap (fun w => w.trimAscii.toString.toNat?)

def sortNat (l : List Nat) : List Nat := (l.toArray.qsort (· < ·)).toList

def loadText (t : Str) : Except String Manifest :=
  match MesonModel.Ninja.parse t with
  | .error (e, n) => .error s!"ERR:Parse:{e.name}:{n}"
  | .ok ss =>
    match MesonModel.Ninja.load ss with
    | .error e => .error s!"ERR:Load:{e.name}:{encodeStr e.arg}"
    | .ok m => .ok m

def schedCmd (t inc scheds : String) : String :=
  match loadText (decodeStr t) with
  | .error e => e
  | .ok m =>
    let g := mkGraph m
    let included := natList inc ","
    let ancs := included.map (fun i => (i, ancestorsB g i))
    let closed := ancs.all (fun ia => ancClosedB g ia.1 ia.2)
    let g' : Graph Nat Nat Unit := { g with steps := included }
    let ss := if scheds.trimAscii.isEmpty then [] else scheds.splitOn ";"
    let bits := ss.map (fun s => let o := natList s ","; boolStr (validScheduleB g' o && completeB g' o))
    let ancStr := ",".intercalate (ancs.map (fun ia =>
      s!"{ia.1}:" ++ " ".intercalate ((sortNat ia.2).map toString)))
    s!"OK|n={g.steps.length}|anc={ancStr}|closed={boolStr closed}|valid={String.join bits}"

def absGraph (edges : String) : Graph Nat Nat Unit :=
  let es := if edges.trimAscii.isEmpty then [] else edges.splitOn ";"
  let arr := (es.map (fun e => match e.splitOn ">" with
    | [i, o] => (natList i ",", natList o ",")
    | _ => ([], []))).toArray
  { steps := List.range arr.size,
    step := fun i => match arr[i]? with
      | some (is, os) => { ins := is, outs := os }
      | none => { ins := [], outs := [] } }

/-! ### target tables (order-only derivation) -/

namespace HD
open MesonModel.Graph.HeaderDeps

def clsOf : String → Option Cls
  | "0" => some .source | "1" => some .object | "2" => some .library | "3" => some .header | "4" => some .other
  | _ => none

def kindOf : String → Option Kind
  | "0" => some .executable | "1" => some .static | "2" => some .shared | "3" => some .other
  | _ => none

def outOf (f : String) : Option Out :=
  match f.splitOn "^" with
  | [n, c] => (clsOf c.trimAscii.toString).map (fun k => ⟨decodeStr n, k⟩)
  | _ => none

def outsOf (f : String) : Option (List Out) :=
  if f.trimAscii.isEmpty then some [] else (f.splitOn "~").mapM outOf

def genOf (f : String) : Option Gen :=
  match f.splitOn "!" with
  | ["C", d, os] => (outsOf os).map (fun l => Gen.ct (decodeStr d) l)
  | ["I", d, o] => (outOf o).map (fun x => Gen.cti (decodeStr d) x)
  | ["L", os] => (outsOf os).map (fun l => Gen.glist l)
  | _ => none

def gensOf (f : String) : Option (List Gen) :=
  if f.trimAscii.isEmpty then some [] else (f.splitOn ",").mapM genOf

def depOf (f : String) : Option Dep :=
  match f.splitOn ":" with
  | [s, d, l, w] => (gensOf s).map (fun gs => { sources := gs, deps := natList d " ", libs := natList l " ", whole := natList w " " })
  | _ => none

def tgtOf (f : String) : Option Tgt :=
  match f.splitOn ":" with
  | [k, p, s, d, l, w] =>
    match kindOf k.trimAscii.toString, gensOf s with
    | some kd, some gs => some { kind := kd, priv := decodeStr p, sources := gs, deps := natList d " ",
                                 linkWith := natList l " ", linkWhole := natList w " " }
    | _, _ => none
  | _ => none

def recs {α : Type} (f : String) (one : String → Option α) : Option (List α) :=
  if f.trimAscii.isEmpty then some [] else (f.splitOn ";").mapM one

def cmd (ds ts : String) : String :=
  match recs ds depOf, recs ts tgtOf with
  | some dl, some tl =>
    let tb : Table := { deps := dl, tgts := tl }
    let per := (List.range tl.length).map (fun t => encodeStrList (orderOnly tb t))
    s!"OK|wf={boolStr (wfB tb)}|" ++ ";".intercalate per
  | _, _ => "ERR:Table"

end HD

def handle (cmd : String) (fs : List String) : String :=
  match cmd, fs with
  | "hdeps", [ds, ts] => HD.cmd ds ts
  | "sched", [t, inc, scheds] => schedCmd t inc scheds
  | "valid", [edges, s] =>
    let g := absGraph edges
    let o := natList s ","
    boolStr (validScheduleB g o) ++ boolStr (completeB g o)
  | "anc", [edges, i] =>
    let g := absGraph edges
    match i.trimAscii.toString.toNat? with
    | some k => " ".intercalate ((sortNat (ancestorsB g k)).map toString) ++ "|" ++ boolStr (ancClosedB g k (ancestorsB g k))
    | none => "bad-op"
  | _, _ => "bad-op"

end Driver.Graph
