import Driver.Proto
/- driver commands of area `graph` (stub until the area is built) -/
namespace Driver.Graph

def handle (cmd : String) (fs : List String) : String := "bad-op"

end Driver.Graph
