import Driver.Loop
import Driver.Quote

def main : IO Unit := Driver.mainLoop Driver.Quote.handle
