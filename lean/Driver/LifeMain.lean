import Driver.Loop
import Driver.Life

def main : IO Unit := Driver.mainLoop Driver.Life.handle
