/-
Line protocol helpers. A request line is `<area> <cmd> <field>|<field>|...`; every string field is a
space-separated list of decimal code points (so control characters, quotes, `|` and non-ASCII pass
unharmed); the empty string is the empty field.
-/
namespace Driver

def decodeStr (f : String) : List Char :=
  (f.splitOn " ").filterMap (fun w => if w.isEmpty then none else (w.toNat?).map Char.ofNat)

def encodeStr (s : List Char) : String :=
  " ".intercalate (s.map (fun c => toString c.toNat))

def fields (s : String) : List String := s.splitOn "|"

def boolStr (b : Bool) : String := if b then "1" else "0"

/-- list of strings packed into one field: items separated by `,` -/
def decodeStrList (f : String) : List (List Char) :=
  if f.trimAscii.isEmpty then [] else (f.splitOn ",").map decodeStr

def encodeStrList (l : List (List Char)) : String := ",".intercalate (l.map encodeStr)

end Driver
