import Driver.Loop
import Driver.Ninja

def main : IO Unit := Driver.mainLoop Driver.Ninja.handle
