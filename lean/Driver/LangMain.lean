import Driver.Loop
import Driver.Lang

def main : IO Unit := Driver.mainLoop Driver.Lang.handle
