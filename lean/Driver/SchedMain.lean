import Driver.Loop
import Driver.Sched

def main : IO Unit := Driver.mainLoop Driver.Sched.handle
