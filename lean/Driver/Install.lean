import Driver.Proto
/- driver commands of area `install` (stub until the area is built) -/
namespace Driver.Install

def handle (cmd : String) (fs : List String) : String := "bad-op"

end Driver.Install
