import Driver.Proto
import MesonModel.Install.Model
import MesonModel.Install.Glue
/-
Driver commands of area `install`.

Small commands take ordinary protocol fields (strings as space-separated code points).
`hist` takes one S-expression (tokens separated by single spaces; atoms: `s<cp>.<cp>…` strings,
decimal numbers, `-` for None, `T`/`F`) describing plan, initial tree, listing root and a history of
operations, and answers with one result per operation separated by `|`.
-/
namespace Driver.Install
open MesonModel.Install Driver

inductive Sx
  | atom (s : String)
  | list (xs : List Sx)
deriving Inhabited

partial def parseSx : List String → Sx × List String
  | [] => (.atom "", [])
  | "(" :: rest =>
    let rec go (acc : List Sx) (ts : List String) : Sx × List String :=
      match ts with
      | [] => (.list acc.reverse, [])
      | ")" :: r => (.list acc.reverse, r)
      | _ =>
        let (x, r) := parseSx ts
        go (x :: acc) r
    go [] rest
  | t :: rest => (.atom t, rest)

def decS (a : String) : Str :=
  -- `s47.116` → "/t"
  ((a.drop 1).toString.splitOn ".").filterMap (fun w => if w.isEmpty then none else w.toNat?.map Char.ofNat)

def encS (s : Str) : String := "s" ++ ".".intercalate (s.map (fun c => toString c.toNat))

def sxStr : Sx → Str
  | .atom a => decS a
  | _ => []

def sxNat : Sx → Nat
  | .atom a => a.toNat?.getD 0
  | _ => 0

def sxBool : Sx → Bool
  | .atom "T" => true
  | _ => false

def sxOpt {α} (f : Sx → α) : Sx → Option α
  | .atom "-" => none
  | x => some (f x)

def sxList : Sx → List Sx
  | .list xs => xs
  | _ => []

def sxMode : Sx → Option FileMode
  | .list [_, p, c] => some { perms := sxOpt sxNat p, chown := sxBool c }
  | _ => none

def sxSrc : Sx → Src
  | .list [.atom "f", m, d, t] => .file (sxNat m) (sxNat d) (sxNat t)
  | .list [.atom "d"] => .dir
  | .list [.atom "ld", t] => .linkDangling (sxStr t)
  | .list [.atom "lf", t, m, d, mt] => .linkFile (sxStr t) (sxNat m) (sxNat d) (sxNat mt)
  | .list [.atom "lD", t] => .linkDir (sxStr t)
  | _ => .missing

def sxDirEnt : Sx → DirEnt
  | .list [.atom "L", t] => .link (sxStr t)
  | .list [_, m] => .real (sxNat m)
  | _ => .real 0

def sxWalkRec : Sx → WalkRec
  | .list [_, rel, rm, ds, fs] =>
    { rel := (sxList rel).map sxStr, rootMode := sxNat rm,
      dirs := (sxList ds).filterMap (fun x => match x with
        | .list [n, e] => some (sxStr n, sxDirEnt e) | _ => none),
      files := (sxList fs).filterMap (fun x => match x with
        | .list [n, e] => some (sxStr n, sxSrc e) | _ => none) }
  | _ => { rel := [], rootMode := 0, dirs := [], files := [] }

def sxData : Sx → Option DataEntry
  | .list [_, p, src, ip, m, sp, tag, fo] =>
    some { path := sxStr p, src := sxSrc src, installPath := sxStr ip, mode := sxMode m,
           subproject := sxStr sp, tag := sxOpt sxStr tag, follow := sxOpt sxBool fo }
  | _ => none

def sxExclude : Sx → Option (List Str × List Str)
  | .list [a, b] => some ((sxList a).map sxStr, (sxList b).map sxStr)
  | _ => none

def sxSubdir : Sx → Option SubdirEntry
  | .list [_, p, ip, m, ex, sp, tag, fo, w] =>
    some { path := sxStr p, installPath := sxStr ip, mode := sxMode m, exclude := sxExclude ex,
           subproject := sxStr sp, tag := sxOpt sxStr tag, follow := sxOpt sxBool fo,
           walk := (sxList w).map sxWalkRec }
  | _ => none

def sxTarget : Sx → Option TargetEntry
  | .list [_, p, src, od, m, sp, tag, opt, w] =>
    some { fname := sxStr p, src := sxSrc src, outdir := sxStr od, mode := sxMode m,
           subproject := sxStr sp, tag := sxOpt sxStr tag, optional := sxBool opt,
           walk := (sxList w).map sxWalkRec }
  | _ => none

def sxEmptydir : Sx → Option EmptyDirEntry
  | .list [_, p, m, sp, tag] =>
    some { path := sxStr p, mode := sxMode m, subproject := sxStr sp, tag := sxOpt sxStr tag }
  | _ => none

def sxSymlink : Sx → Option SymlinkEntry
  | .list [_, t, n, ip, sp, tag] =>
    some { target := sxStr t, name := sxStr n, installPath := sxStr ip, subproject := sxStr sp,
           tag := sxOpt sxStr tag }
  | _ => none

def sxPlan : Sx → Option Plan
  | .list [_, bd, pf, um, sd, tg, hd, mn, ed, dt, sl] =>
    some { buildDir := sxStr bd, pfx := sxStr pf, umask := sxOpt sxNat um,
           subdirs := (sxList sd).filterMap sxSubdir, targets := (sxList tg).filterMap sxTarget,
           headers := (sxList hd).filterMap sxData, man := (sxList mn).filterMap sxData,
           emptydirs := (sxList ed).filterMap sxEmptydir, data := (sxList dt).filterMap sxData,
           symlinks := (sxList sl).filterMap sxSymlink }
  | _ => none

def sxNode : Sx → Option (Key × Node)
  | .list [p, .atom "d", m] => some (keyOfAbs (sxStr p), .dir (sxNat m))
  | .list [p, .atom "f", m, d, t] => some (keyOfAbs (sxStr p), .file (sxNat m) (sxNat d) (sxNat t))
  | .list [p, .atom "l", t] => some (keyOfAbs (sxStr p), .link (sxStr t))
  | _ => none

def showErr : Option Err → String
  | none => "ok"
  | some .meson => "ERR:Meson"
  | some .exit => "ERR:Exit"
  | some .os => "ERR:OS"
  | some .value => "ERR:Value"
  | some .unsupported => "ERR:Unsupported"

def showNode (k : Key) : Node → String
  | .dir m => s!"{encS (keyToStr k)}:d:{m}"
  | .file m d t => s!"{encS (keyToStr k)}:f:{m}:{d}:{t}"
  | .link t => s!"{encS (keyToStr k)}:l:{encS t}"

def strLe (a b : String) : Bool := decide (a < b) || a == b

/-- canonical listing of everything strictly below `root` -/
def showTree (root : Key) (fs : FS) : String :=
  let ents := fs.filterMap (fun e =>
    if root.isPrefixOf e.1 && e.1 ≠ root && fs.get e.1 == some e.2 then some (showNode e.1 e.2) else none)
  ",".intercalate (ents.mergeSort strLe)

def showLog (l : List Str) : String := ",".intercalate (l.map encS)

structure HState where
  fs : FS
  log : List Str
  out : List String

def runOp (p : Plan) (root : Key) (h : HState) : Sx → HState
  | .list [.atom "install", dd, dry, only, tags, skip, amb] =>
    let o : Opts := { destdir := sxOpt sxStr dd, dryRun := sxBool dry, onlyChanged := sxBool only,
                      tags := sxOpt sxStr tags, skipSubprojects := sxStr skip, ambientUmask := sxNat amb }
    let s := install p o h.fs
    let confined := true
    { fs := s.fs, log := s.log,
      out := h.out ++ [s!"E={showErr s.err};L={showLog s.log};T={showTree root s.fs}"] }
  | .list [.atom "uninstall"] =>
    let fs := uninstall p.buildDir h.log h.fs
    { h with fs := fs, out := h.out ++ [s!"E=ok;L=;T={showTree root fs}"] }
  | _ => { h with out := h.out ++ ["bad-op"] }

def hist (req : String) : String :=
  let toks := (req.splitOn " ").filter (· ≠ "")
  match (parseSx toks).1 with
  | .list [_, plan, .list (_ :: nodes), .list [_, root], .list (_ :: ops)] =>
    match sxPlan plan with
    | none => "bad-plan"
    | some p =>
      let fs : FS := nodes.filterMap sxNode
      let h := ops.foldl (runOp p (keyOfAbs (sxStr root))) { fs := fs, log := [], out := [] }
      "|".intercalate h.out
  | _ => "bad-request"

def showOptNat : Option Nat → String
  | none => "None"
  | some n => toString n

def handle (cmd : String) (fs : List String) : String :=
  match cmd, fs with
  | "join", [a, b] => encodeStr (join (decodeStr a) (decodeStr b))
  | "normpath", [a] => encodeStr (normpath (decodeStr a))
  | "dirname", [a] => encodeStr (dirname (decodeStr a))
  | "basename", [a] => encodeStr (basename (decodeStr a))
  | "djoin", [a, b] => encodeStr (destdirJoin (decodeStr a) (decodeStr b))
  | "gdp", [d, f, p] =>
    let out := getDestdirPath (decodeStr d) (decodeStr f) (decodeStr p)
    if destOk (decodeStr d) out then encodeStr out else "ERR:Meson"
  | "perms", [s] => showOptNat (permsBits (decodeStr s))
  | "sanitized", [c, u] => toString (sanitizedMode (c.toNat?.getD 0) (u.toNat?.getD 0))
  | "should", [skip, tags, hasTags, sub, tag, hasTag] =>
    let cfg : Cfg := { cwd := [], buildDir := [], destdir := [], fullprefix := [], umask := none, procUmask := 0,
                       dryRun := false, onlyChanged := false,
                       tags := if hasTags == "1" then (if decodeStr tags = [] then none else some (parseList (decodeStr tags))) else none,
                       skip := parseList (decodeStr skip) }
    boolStr (shouldInstall cfg (decodeStr sub) (if hasTag == "1" then some (decodeStr tag) else none))
  | "preserve", [only, sk, smt, dk, dmt] =>
    -- `Installer.should_preserve_existing_file` on a stat tuple: --only-changed, kind and mtime_ns of the source,
    -- kind and mtime_ns of the destination
    let cfg : Cfg := { cwd := ['/'], buildDir := ['/'], destdir := [], fullprefix := [], umask := none, procUmask := 0,
                       dryRun := false, onlyChanged := only == "1", tags := none, skip := [] }
    let k : Key := ["d".toList, "f".toList]
    let sm := smt.toNat?.getD 0
    let dm := dmt.toNat?.getD 0
    let src : Src := match sk with
      | "f" => .file 0o644 2 sm
      | "lf" => .linkFile "t".toList 0o644 2 sm
      | "ld" => .linkDangling "t".toList
      | "lD" => .linkDir "t".toList
      | _ => .missing
    let fs : FS := match dk with
      | "f" => [(k, .file 0o644 1 dm)]
      | "lf" => [(k, .link "real".toList), (["d".toList, "real".toList], .file 0o644 1 dm)]
      | _ => []
    boolStr (shouldPreserve cfg src { fs := fs } k)
  | "ghdr", [inc, hc, c, hs, sd, pres, f] =>
    encodeStr (hdrInstallPath (decodeStr inc) (if hc == "1" then some (decodeStr c) else none)
      (if hs == "1" then some (decodeStr sd) else none) (pres == "1") (decodeStr f))
  | "gman", [mr, hc, c, hl, l, f] =>
    encodeStr (manInstallPath (decodeStr mr) (if hc == "1" then some (decodeStr c) else none)
      (if hl == "1" then some (decodeStr l) else none) (decodeStr f))
  | "gdata", [d, hr, r, pres, f] =>
    encodeStr (dataInstallPath (decodeStr d) (if hr == "1" then some (decodeStr r) else none) (pres == "1") (decodeStr f))
  | "gsubsrc", [a, b, c] => encodeStr (subdirSrc (decodeStr a) (decodeStr b) (decodeStr c))
  | "gsub", [pf, d, src, strip] => encodeStr (subdirInstallPath (decodeStr pf) (decodeStr d) (decodeStr src) (strip == "1"))
  | "gsym", [d, n] => encodeStr (symlinkName (decodeStr d) (decodeStr n))
  | "replace", [p, r, x] =>
    (match decodeStr p with
     | p0 :: pt => encodeStr (replaceAll p0 pt (decodeStr r) (decodeStr x))
     | [] => "bad-op")
  | "lastfield", [x] => encodeStr (lastField '.' (decodeStr x))
  | "hist", [r] => hist r
  | _, _ => "bad-op"

end Driver.Install
