import MesonModel.Version.Model
import Driver.Proto
namespace Driver.Version
open MesonModel.Version Driver

def showTok : Tok → String
  | .num n => s!"n{n}"
  | .alpha s => "a" ++ String.ofList s

def showVer (v : Ver) : String := " ".intercalate (v.map showTok)

def showOptVer : Option Ver → String
  | none => "None"
  | some v => "[" ++ showVer v ++ "]"

def showRange (r : Range) : String :=
  s!"{showOptVer r.min};{boolStr r.minEq};{showOptVer r.max};{boolStr r.maxEq};{boolStr r.isEmpty}"

/-- a range argument: `minflag,minstr,mineq,maxflag,maxstr,maxeq,isempty` passed through the
dataclass constructor -/
def parseRange (f : String) : Range :=
  match f.splitOn "," with
  | [mf, ms, me, xf, xs, xe, ie] =>
    Range.new (if mf == "1" then some (tokenize (decodeStr ms)) else none) (me == "1")
              (if xf == "1" then some (tokenize (decodeStr xs)) else none) (xe == "1") (ie == "1")
  | _ => {}

def showOptBool : Option Bool → String
  | none => "None" | some true => "True" | some false => "False"

def handle (cmd : String) (fs : List String) : String :=
  match cmd, fs with
  | "tok", [a] => showVer (tokenize (decodeStr a))
  | "cmp", [a, b] =>
    let x := tokenize (decodeStr a); let y := tokenize (decodeStr b)
    "".intercalate ([vlt x y, vgt x y, vle x y, vge x y, veq x y, vne x y,
                     decide (hashKey x = hashKey y)].map boolStr)
  | "vc", [a, b] => boolStr (versionCompare (decodeStr a) (decodeStr b))
  | "many", [a, cs] =>
    let (ok, nf, f) := versionCompareMany (decodeStr a) (decodeStrList cs)
    s!"{boolStr ok};{encodeStrList nf};{encodeStrList f}"
  | "mkrange", [r] => showRange (parseRange r)
  | "contains", [r, x] => boolStr ((parseRange r).contains (tokenize (decodeStr x)))
  | "intersect", [a, b] => showRange ((parseRange a).intersect (parseRange b))
  | "always", [a, b] => showOptBool ((parseRange a).always (parseRange b))
  | "c2r", [cs, st] => showRange (versionCheckToRange (decodeStrList cs) (parseRange st))
  | "cwm", [c, m] => boolStr (condWithMin (decodeStr c) (decodeStr m))
  | "cwmr", [r, m] => boolStr (condWithMinRange (parseRange r) (decodeStr m))
  | _, _ => "bad-op"

end Driver.Version
