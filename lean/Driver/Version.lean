import MesonModel.Version.Model
import MesonModel.Version.Gate
import MesonModel.Version.Entry
import Driver.Proto
namespace Driver.Version
open MesonModel.Version Driver

def showTok : Tok → String
  | .num n => s!"n{n}"
  | .alpha s => "a" ++ String.ofList s

def showVer (v : Ver) : String := " ".intercalate (v.map showTok)

def showOptVer : Option Ver → String
  | none => "None"
  | some v => "[" ++ showVer v ++ "]"

def showRange (r : Range) : String :=
  s!"{showOptVer r.min};{boolStr r.minEq};{showOptVer r.max};{boolStr r.maxEq};{boolStr r.isEmpty}"

/-- a range argument: `minflag,minstr,mineq,maxflag,maxstr,maxeq,isempty` passed through the
dataclass constructor -/
def parseRange (f : String) : Range :=
  match f.splitOn "," with
  | [mf, ms, me, xf, xs, xe, ie] =>
    Range.new (if mf == "1" then some (tokenize (decodeStr ms)) else none) (me == "1")
              (if xf == "1" then some (tokenize (decodeStr xs)) else none) (xe == "1") (ie == "1")
  | _ => {}


/-! `gate` programs: tokens separated by `;` — `P<n>` probe, `I` opens an if statement, `C<0|1>:<checks>` opens a
clause (truth value, comma separated encoded constraint strings of its meson.version().version_compare call,
empty = no such call), `E` opens the else block, `F` closes the statement, `L1`/`L2` … `M` a foreach over one/two items, `Xb`/`Xc`/`Xd`
break / continue / subdir_done(). -/

instance : Inhabited GExpr := ⟨.plain false⟩

/-- condition expressions in prefix form, tokens separated by `/`: `c<constraints>` a
`meson.version().version_compare(…)` call, `t`/`f` an opaque boolean, `n` not, `a` and, `o` or,
`q<lit><ne>` comparison of the operand with the boolean literal `lit` (`ne` = 1 for `!=`) -/
partial def parseExpr (ts : List String) : GExpr × List String :=
  match ts with
  | [] => (.plain false, [])
  | t :: rest =>
    if t == "t" then (.plain true, rest)
    else if t == "f" then (.plain false, rest)
    else if t == "n" then
      let (e, r) := parseExpr rest
      (.not e, r)
    else if t == "a" || t == "o" then
      let (l, r1) := parseExpr rest
      let (r, r2) := parseExpr r1
      (if t == "a" then .and l r else .or l r, r2)
    else if t.startsWith "q" then
      let (e, r) := parseExpr rest
      (.cmpb e ((t.drop 1).toString.startsWith "1") ((t.drop 2).toString.startsWith "1"), r)
    else if t.startsWith "c" then (.check (decodeStrList (t.drop 1).toString), rest)
    else (.plain false, rest)

def parseExprField (f : String) : GExpr := (parseExpr ((f.splitOn "/").filter (fun t => !t.isEmpty))).1

instance : Inhabited GBlock := ⟨.nil⟩
instance : Inhabited GClauses := ⟨.els .nil⟩

mutual
  partial def parseBlock (cv : List Char) (ts : List String) : GBlock × List String :=
    match ts with
    | [] => (.nil, [])
    | t :: rest =>
      if t.startsWith "P" then
        let (b, r) := parseBlock cv rest
        (.cons (.probe ((t.drop 1).toString.toNat?.getD 0)) b, r)
      else if t == "I" then
        let (cs, r1) := parseClauses cv rest
        let (b, r2) := parseBlock cv r1
        (.cons (.ifs cs) b, r2)
      else if t == "Xb" || t == "Xc" || t == "Xd" then
        let (b, r) := parseBlock cv rest
        (.cons (.exit (if t == "Xb" then .brk else if t == "Xc" then .cont else .done)) b, r)
      else if t == "L1" || t == "L2" then
        let (body, r1) := parseBlock cv rest
        let r1 := match r1 with
          | "M" :: r => r
          | r => r
        let (b, r2) := parseBlock cv r1
        (.cons (if t == "L1" then .loop1 body else .loop2 body) b, r2)
      else (.nil, ts)
  partial def parseClauses (cv : List Char) (ts : List String) : GClauses × List String :=
    match ts with
    | [] => (.els .nil, [])
    | t :: rest =>
      if t.startsWith "C" then
        let val := (t.drop 1).toString.startsWith "1"
        let checks := decodeStrList ((t.splitOn ":").getD 1 "")
        let own := if checks.isEmpty then none else some (versionCheckToRange checks)
        let (b, r1) := parseBlock cv rest
        let (cs, r2) := parseClauses cv r1
        (.cons ⟨own, val⟩ b cs, r2)
      else if t.startsWith "K:" then
        let c := (parseExprField (t.drop 2).toString).toCond cv
        let (b, r1) := parseBlock cv rest
        let (cs, r2) := parseClauses cv r1
        (.cons c b cs, r2)
      else if t == "E" then
        let (b, r1) := parseBlock cv rest
        match r1 with
        | "F" :: r2 => (.els b, r2)
        | _ => (.els b, r1)
      else if t == "F" then (.els .nil, rest)
      else (.els .nil, ts)
end

def showLog (l : GLog) : String := "&".intercalate (l.map (fun p => s!"{p.1}:{showRange p.2}"))

def showOptBool : Option Bool → String
  | none => "None" | some true => "True" | some false => "False"

def handle (cmd : String) (fs : List String) : String :=
  match cmd, fs with
  | "tok", [a] => showVer (tokenize (decodeStr a))
  | "cmp", [a, b] =>
    let x := tokenize (decodeStr a); let y := tokenize (decodeStr b)
    "".intercalate ([vlt x y, vgt x y, vle x y, vge x y, veq x y, vne x y,
                     decide (hashKey x = hashKey y)].map boolStr)
  | "vc", [a, b] => boolStr (versionCompare (decodeStr a) (decodeStr b))
  | "many", [a, cs] =>
    let (ok, nf, f) := versionCompareMany (decodeStr a) (decodeStrList cs)
    s!"{boolStr ok};{encodeStrList nf};{encodeStrList f}"
  | "mkrange", [r] => showRange (parseRange r)
  | "contains", [r, x] => boolStr ((parseRange r).contains (tokenize (decodeStr x)))
  | "intersect", [a, b] => showRange ((parseRange a).intersect (parseRange b))
  | "always", [a, b] => showOptBool ((parseRange a).always (parseRange b))
  | "c2r", [cs, st] => showRange (versionCheckToRange (decodeStrList cs) (parseRange st))
  | "cwm", [c, m] => boolStr (condWithMin (decodeStr c) (decodeStr m))
  | "cwmr", [r, m] => boolStr (condWithMinRange (parseRange r) (decodeStr m))
  | "gate", [pv, prog] =>
    let base := versionCheckToRange [decodeStr pv]
    let (b, _) := parseBlock [] ((prog.splitOn ";").filter (fun t => !t.isEmpty))
    let r := runBlock b base none
    showLog r.log ++ (match r.sig with | .done => "#done" | .none => "" | .brk => "#brk" | .cont => "#cont")
  | "gatex", [pv, cv, prog] =>
    let base := versionCheckToRange [decodeStr pv]
    let (b, _) := parseBlock (decodeStr cv) ((prog.splitOn ";").filter (fun t => !t.isEmpty))
    let r := runBlock b base none
    showLog r.log ++ (match r.sig with | .done => "#done" | .none => "" | .brk => "#brk" | .cont => "#cont")
  | "mv", [v, cs] =>
    let r := mvCompare (decodeStr v) (decodeStrList cs) none
    s!"{boolStr r.1};{match r.2 with | some x => showRange x | none => "None"}"
  | "entry", [kind, v, cs] =>
    let v := decodeStr v; let cs := decodeStrList cs
    if kind == "str" then boolStr (strCompare v cs)
    else if kind == "mv" then boolStr (mvCompare v cs none).1
    else if kind == "dep" then boolStr (depCheck v cs)
    else if kind == "sub" then boolStr (subprojectCheck v cs)
    else if kind == "prog" then boolStr (programCheck v cs)
    else if kind == "ext" then boolStr (extDepCheck v cs)
    else "bad-kind"
  | "hmv", [st, pv] =>
    (match handleMesonVersion (decodeStr st) (decodeStr pv) with
     | some r => showRange r
     | none => "ERR")
  | "cond", [cv, e] =>
    let c := (parseExprField e).toCond (decodeStr cv)
    s!"{boolStr c.val};{match c.own with | some x => showRange x | none => "None"}"
  | "gateh", [pv, prog] =>
    let base := versionCheckToRange [decodeStr pv]
    let (b, _) := parseBlock [] ((prog.splitOn ";").filter (fun t => !t.isEmpty))
    showLog (runBlockH b base none).1
  | _, _ => "bad-op"

end Driver.Version
