import MesonModel.Options.Model
import Driver.Proto
/-
Driver commands of area `options` (C07/C08).  One request line is one whole scenario:

  run <cross>|<probe keys>|<op>|<op>|...        → per op `res#values#augments#pending#pendingSub#subprojects#objects`
  val <kind>|<val>                               → `validate`
  sp <str>            sd <prefix>|<key>|<val>    → `sanitize_prefix`, `sanitize_dir_option_value`
  rc <dict>                                      → `parse_cmd_line_options` re-ordering

Encoding (see harness/c07.py): strings are space separated code points; key `name:N|S<sub>:h|b`;
value `s<str>` `i<int>` `b0|b1` `a~item~item`; dict `key=val,key=val`; object spec `kind/default/y/r`.
-/
namespace Driver.Options
open MesonModel.Options Driver

def splitOn1 (s : String) (sep : String) : List String := s.splitOn sep

def parseInt (s : String) : Int :=
  if s.startsWith "-" then - (Int.ofNat ((s.drop 1).toString.toNat?.getD 0)) else Int.ofNat (s.toNat?.getD 0)

def parseKey (f : String) : Key :=
  match f.splitOn ":" with
  | [n, sb, m] =>
    { name := decodeStr n,
      sub := if sb.startsWith "S" then some (decodeStr (sb.drop 1).toString) else none,
      machine := if m == "b" then .build else .host }
  | _ => default

def parseVal (f : String) : Val :=
  if f.startsWith "s" then .str (decodeStr (f.drop 1).toString)
  else if f.startsWith "i" then .int (parseInt (f.drop 1).toString)
  else if f.startsWith "b" then .bool (f == "b1")
  else if f.startsWith "a" then .arr (((f.splitOn "~").drop 1).map decodeStr)
  else default

def parseDict (f : String) : Dict :=
  if f.isEmpty then [] else
  (f.splitOn ",").map (fun e => match e.splitOn "=" with
    | [k, v] => (parseKey k, parseVal v)
    | _ => default)

def parseOptDict (f : String) : List (Key × Option Val) :=
  if f.isEmpty then [] else
  (f.splitOn ",").map (fun e => match e.splitOn "=" with
    | [k, v] => (parseKey k, if v == "-" then none else some (parseVal v))
    | _ => default)

def parseOptInt (s : String) : Option Int := if s == "n" then none else some (parseInt s)

def parseKind (f : String) : Kind :=
  if f == "S" then .string
  else if f == "B" then .boolean
  else if f == "U" then .umask
  else if f == "F" then .feature
  else if f == "An" then .array none
  else if f.startsWith "A" then .array (some (((f.splitOn "~").drop 1).map decodeStr))
  else if f.startsWith "C" then .combo (((f.splitOn "~").drop 1).map decodeStr)
  else if f.startsWith "I" then
    match ((f.drop 1).toString).splitOn "_" with
    | [a, b] => .integer (parseOptInt a) (parseOptInt b)
    | _ => .integer none none
  else .string

def parseSpec (f : String) : ObjSpec :=
  match f.splitOn "/" with
  | [k, d, y, r] => { kind := parseKind k, default := parseVal d, yielding := y == "1", readonly := r == "1" }
  | _ => default

def parseSpecs (f : String) : List (Key × ObjSpec) :=
  if f.isEmpty then [] else
  (f.splitOn ",").map (fun e => match e.splitOn "=" with
    | [k, v] => (parseKey k, parseSpec v)
    | _ => default)

def parseOp (f : String) : Option Op :=
  match f.splitOn ";" with
  | ["as", k, sp] => some (.addSystem (parseKey k) (parseSpec sp))
  | ["ap", k, sp] => some (.addProject (parseKey k) (parseSpec sp))
  | ["ib"] => some .initBuiltins
  | ["so", k, v, fi] => some (.setOption (parseKey k) (parseVal v) (fi == "1"))
  | ["su", k, v, fi] => some (.setUser (parseKey k) (parseVal v) (fi == "1"))
  | ["it", pdo, cmd, mf] => some (.initTop (parseDict pdo) (parseDict cmd) (parseDict mf))
  | ["is", sub, sc, pdo, cmd, mf] =>
    some (.initSub (decodeStr sub) (parseDict sc) (parseDict pdo) (parseDict cmd) (parseDict mf))
  | ["cf", args] => some (.configure (parseOptDict args))
  | ["up", sub, specs] => some (.updateProject (decodeStr sub) (parseSpecs specs))
  | _ => none

def showKey (k : Key) : String :=
  encodeStr k.name ++ ":" ++ (match k.sub with | none => "N" | some s => "S" ++ encodeStr s) ++ ":" ++
    (match k.machine with | .host => "h" | .build => "b")

def showVal : Val → String
  | .str s => "s" ++ encodeStr s
  | .int n => "i" ++ toString n
  | .bool b => if b then "b1" else "b0"
  | .arr l => "a" ++ String.join (l.map (fun x => "~" ++ encodeStr x))

def showErr : Err → String
  | .meson => "MesonException"
  | .key => "KeyError"
  | .assertion => "AssertionError"
  | .bug => "MesonBugException"
  | .attribute => "AttributeError"
  | .unsupported => "UNSUPPORTED"

def showRes {α : Type} (f : α → String) : Except Err α → String
  | .ok a => f a
  | .error e => "!" ++ showErr e

def insertSorted (x : String) : List String → List String
  | [] => [x]
  | y :: r => if x < y then x :: y :: r else y :: insertSorted x r

def sortStrs (l : List String) : List String := l.foldr insertSorted []

def showDict (d : Dict) : String :=
  ",".intercalate (sortStrs (d.map (fun p => showKey p.1 ++ "=" ++ showVal p.2)))

def showObjects (s : Store) (probes : List Key) : String :=
  ",".intercalate (sortStrs ((s.options.filter (fun p => probes.any (fun k => k.name == p.1.name))).map (fun p =>
    match s.heap[p.2]? with
    | some o => showKey p.1 ++ "=" ++ showVal o.value ++ "^" ++ boolStr o.yielding ++ "^" ++ boolStr o.parent.isSome ++
        "^" ++ boolStr (s.isProjectOption p.1) ++ "^" ++ boolStr (s.moduleOptions.contains p.1)
    | none => showKey p.1 ++ "=?")))

def showState (s : Store) (probes : List Key) : String :=
  ",".intercalate (probes.map (fun k => showRes showVal (getValueFor s k))) ++ "#" ++
  showDict s.augments ++ "#" ++ showDict s.pending ++ "#" ++ showDict s.pendingSub ++ "#" ++
  ",".intercalate (sortStrs (s.subprojects.map encodeStr)) ++ "#" ++ showObjects s probes

def showOut : Out → String
  | .none => "ok"
  | .bool b => "ok:" ++ boolStr b

def runOps (probes : List Key) : Store → List String → List String
  | _, [] => []
  | s, f :: r =>
    if f == "cd" then
      -- `CoreData.__init__`: cross fixup of the builtin table + init_builtins (not an `Op`: coredata layer)
      let (res, s') := coreDataInit s
      (showRes (fun _ => "ok") res ++ "#" ++ showState s' probes) :: runOps probes s' r
    else
    match parseOp f with
    | none => ["bad-op"]
    | some op =>
      let (res, s') := applyOp op s
      (showRes showOut res ++ "#" ++ showState s' probes) :: runOps probes s' r

def handle (cmd : String) (fs : List String) : String :=
  match cmd, fs with
  | "run", cross :: probes :: ops =>
    let pk := if probes.isEmpty then [] else (probes.splitOn ",").map parseKey
    "|".intercalate (runOps pk (Store.new (cross == "1")) ops)
  | "val", [k, v] => showRes showVal (validate (parseKind k) (parseVal v))
  | "sp", [p] => showRes (fun s => "s" ++ encodeStr s) (sanitizePrefix (decodeStr p))
  | "sd", [p, k, v] => showRes showVal (sanitizeDirValue (decodeStr p) (parseKey k) (parseVal v))
  | "rc", [d] =>
    -- order matters here: do not sort
    ",".intercalate ((reorderCmd (parseDict d)).map (fun p => showKey p.1 ++ "=" ++ showVal p.2))
  | _, _ => "bad-op"

end Driver.Options
