import Driver.Proto
/- driver commands of area `options` (stub until the area is built) -/
namespace Driver.Options

def handle (cmd : String) (fs : List String) : String := "bad-op"

end Driver.Options
