import Driver.Loop
import Driver.Det

def main : IO Unit := Driver.mainLoop Driver.Det.handle
