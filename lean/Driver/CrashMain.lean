import Driver.Loop
import Driver.Crash

def main : IO Unit := Driver.mainLoop Driver.Crash.handle
