import Driver.Proto
/- driver commands of area `template` (stub until the area is built) -/
namespace Driver.Template

def handle (cmd : String) (fs : List String) : String := "bad-op"

end Driver.Template
