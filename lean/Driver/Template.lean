import MesonModel.Template.Model
import MesonModel.Template.Dispatch
import Driver.Proto
/- driver commands of area `template` (C14) -/
namespace Driver.Template
open MesonModel.Template Driver

/-- fuel given to the cmake scanner; the harness classes an implementation run that performs more
than this many variable look-ups in one call as "does not return" -/
def cmakeFuel : Nat := 6000

def parseVal (t payload : String) : Val :=
  if t == "s" then .str (decodeStr payload)
  else if t == "i" then .int (payload.trimAscii.toString.toInt?.getD 0)
  else .bool (payload.trimAscii.toString == "1")

/-- data field: items `key:type:payload:descflag:desc` separated by `,` -/
def parseEntries (f : String) : List Entry :=
  if f.trimAscii.isEmpty then [] else
    (f.splitOn ",").filterMap fun item =>
      match item.splitOn ":" with
      | [k, t, p, df, ds] => some ⟨decodeStr k, parseVal t p, if df == "1" then some (decodeStr ds) else none⟩
      | [k, t, p] => some ⟨decodeStr k, parseVal t p, none⟩
      | _ => none

def parseData (f : String) : Data := (parseEntries f).map fun e => (e.key, e.val)

/-- list of lines: items separated by `,`, each item prefixed with `=` so that empty strings survive -/
def parseLines (f : String) : List (List Char) :=
  (f.splitOn ",").filterMap fun item =>
    if item.startsWith "=" then some (decodeStr (item.drop 1).toString) else none

def showLines (l : List (List Char)) : String := ",".intercalate (l.map fun s => "=" ++ encodeStr s)

def parseFormat (f : String) : Format :=
  if f == "cmake" then .cmake else if f == "cmake@" then .cmakeAt else .meson

def showErr : Err → String
  | .defineTokens => "ERR:MesonException:tokens"
  | .formatError => "ERR:MesonException:format"
  | .invalidChar => "ERR:MesonException:invalid"
  | .incomplete => "ERR:MesonException:incomplete"
  | .indexError => "ERR:IndexError"
  | .fuel => "ERR:HANG"

/-- insertion sort + dedup on encoded strings (canonical form of a Python set of names) -/
def canonNames (l : List Name) : String :=
  let enc := l.map encodeStr
  let sorted := enc.toArray.qsort (· < ·) |>.toList
  ",".intercalate ((sorted.eraseDups).map fun s => "=" ++ s)

def showSeg (off : Nat) (s : Seg) : Option String :=
  let e := off + s.src.length
  match s with
  | .lit _ => none
  | .esc _ => some s!"E:{off}:{e}"
  | .var _ => some s!"V:{off}:{e}"
  | .escaped _ => some s!"X:{off}:{e}"

def showSegs : Nat → List Seg → List String
  | _, [] => []
  | off, s :: r => (match showSeg off s with | some t => [t] | none => []) ++ showSegs (off + s.src.length) r

def parseBytes (b : String) : Bytes :=
  (b.splitOn " ").filterMap fun w => if w.isEmpty then none else w.toNat?.map Nat.toUInt8

def showBytes (b : Bytes) : String := " ".intercalate (b.map fun x => toString x.toNat)

def showVal : Val → String
  | .str s => "s:" ++ encodeStr s
  | .int i => "i:" ++ toString i
  | .bool b => "b:" ++ (if b then "1" else "0")

def showFileErr : FileErr → String
  | .read => "ERR:Meson:read"
  | .write => "ERR:Meson:write"
  | .conf .defineTokens => "ERR:Meson:tokens"
  | .conf .formatError => "ERR:Meson:format"
  | .conf .invalidChar => "ERR:Meson:invalid"
  | .conf .incomplete => "ERR:Meson:incomplete"
  | .conf .indexError => "ERR:IndexError"
  | .conf .fuel => "ERR:HANG"

def showCfErr : CfErr → String
  | .noAction => "ERR:Meson:no-action"
  | .twoActions _ _ => "ERR:Meson:two-actions"
  | .threeActions => "ERR:Meson:three-actions"
  | .captureNeedsCommand => "ERR:Meson:capture-needs-command"
  | .configManyInputs => "ERR:Meson:config-many-inputs"
  | .copyNeedsOneInput => "ERR:Meson:copy-needs-one-input"
  | .file e => showFileErr e
  | .captureEncode => "ERR:UnicodeEncodeError"

def showAction : Action → String
  | .command => "command"
  | .configuration => "configuration"
  | .copy => "copy"

def showOutFile : OutFile → String
  | .untouched => "-"
  | .bytes b => "B:" ++ showBytes b
  | .json es => "J:" ++ ",".intercalate (es.map fun e => encodeStr e.key ++ ":" ++ showVal e.val)

/-- `cf` request: kind(n|d|c) | entries | command | copy | capture | inputs (`,`-separated, each prefixed `=`) |
format | output_format | macro flag | macro | codec | stdout | writes flag | writes -/
def handleCf (fs : List String) : String :=
  match fs with
  | [kind, es, cmdF, copyF, capF, ins, fmt, ofmt, mf, m, enc, so, wf, w] =>
    let entries := parseEntries es
    let conf : ConfKw := if kind == "d" then .dict entries else if kind == "c" then .cdata entries else .absent
    let inputs : List Bytes := (ins.splitOn ",").filterMap fun item =>
      if item.startsWith "=" then some (parseBytes (item.drop 1).toString) else none
    let a : CfArgs := {
      configuration := conf, command := cmdF == "1", copy := copyF == "1", capture := capF == "1",
      inputs := inputs, format := parseFormat fmt,
      outputFormat := if ofmt == "nasm" then .nasm else if ofmt == "json" then .json else .c,
      macroName := if mf == "1" then some (decodeStr m) else none,
      cmdStdout := decodeStr so, cmdWrites := if wf == "1" then some (parseBytes w) else none }
    let codec := if enc == "latin1" then latin1 else utf8
    match cfRun codec cmakeFuel a with
    | .error e => showCfErr e
    | .ok o =>
      let used := if kind == "c" then boolStr o.used else "-"
      s!"OK|{showAction o.action}|{showOutFile o.out}|{canonNames o.missing}|{boolStr o.useless}|{used}"
  | _ => "bad-op"

def handle (cmd : String) (fs : List String) : String :=
  match cmd, fs with
  | "cf", _ => handleCf fs
  | "seg", [l] => " ".intercalate (showSegs 0 (segments (decodeStr l)))
  | "subm", [d, l] =>
    let dd := parseData d; let s := decodeStr l
    s!"{encodeStr (substMeson dd s)}|{canonNames (missingMeson dd s)}"
  | "conf", [fmt, d, ls] =>
    match confStr (parseFormat fmt) (parseData d) cmakeFuel (parseLines ls) with
    | .error e => showErr e
    | .ok o => s!"OK|{showLines o.lines}|{canonNames o.missing}|{boolStr o.useless}"
  | "file", [fmt, d, t] =>
    match confFile (parseFormat fmt) (parseData d) cmakeFuel (decodeStr t) with
    | .error e => showErr e
    | .ok (txt, m, u) => s!"OK|{encodeStr txt}|{canonNames m}|{boolStr u}"
  | "fileb", [enc, fmt, d, b] =>
    let codec := if enc == "latin1" then latin1 else utf8
    let bytes : Bytes := (b.splitOn " ").filterMap fun w => if w.isEmpty then none else w.toNat?.map Nat.toUInt8
    match confFileBytes codec (parseFormat fmt) (parseData d) cmakeFuel bytes with
    | .error .read => "ERR:read"
    | .error .write => "ERR:write"
    | .error (.conf e) => showErr e
    | .ok out => "OK|" ++ " ".intercalate (out.map fun x => toString x.toNat)
  | "split", [t] => showLines (splitLines (decodeStr t))
  | "hdr", [f, mf, m, es] =>
    let hf := if f == "nasm" then HdrFormat.nasm else HdrFormat.c
    encodeStr (dumpHeader hf (if mf == "1" then some (decodeStr m) else none) (parseEntries es))
  | _, _ => "bad-op"

end Driver.Template
