import MesonModel.Template.Model
import Driver.Proto
/- driver commands of area `template` (C14) -/
namespace Driver.Template
open MesonModel.Template Driver

/-- fuel given to the cmake scanner; the harness classes an implementation run that performs more
than this many variable look-ups in one call as "does not return" -/
def cmakeFuel : Nat := 6000

def parseVal (t payload : String) : Val :=
  if t == "s" then .str (decodeStr payload)
  else if t == "i" then .int (payload.trimAscii.toString.toInt?.getD 0)
  else .bool (payload.trimAscii.toString == "1")

/-- data field: items `key:type:payload:descflag:desc` separated by `,` -/
def parseEntries (f : String) : List Entry :=
  if f.trimAscii.isEmpty then [] else
    (f.splitOn ",").filterMap fun item =>
      match item.splitOn ":" with
      | [k, t, p, df, ds] => some ⟨decodeStr k, parseVal t p, if df == "1" then some (decodeStr ds) else none⟩
      | [k, t, p] => some ⟨decodeStr k, parseVal t p, none⟩
      | _ => none

def parseData (f : String) : Data := (parseEntries f).map fun e => (e.key, e.val)

/-- list of lines: items separated by `,`, each item prefixed with `=` so that empty strings survive -/
def parseLines (f : String) : List (List Char) :=
  (f.splitOn ",").filterMap fun item =>
    if item.startsWith "=" then some (decodeStr (item.drop 1).toString) else none

def showLines (l : List (List Char)) : String := ",".intercalate (l.map fun s => "=" ++ encodeStr s)

def parseFormat (f : String) : Format :=
  if f == "cmake" then .cmake else if f == "cmake@" then .cmakeAt else .meson

def showErr : Err → String
  | .defineTokens => "ERR:MesonException:tokens"
  | .formatError => "ERR:MesonException:format"
  | .invalidChar => "ERR:MesonException:invalid"
  | .incomplete => "ERR:MesonException:incomplete"
  | .indexError => "ERR:IndexError"
  | .fuel => "ERR:HANG"

/-- insertion sort + dedup on encoded strings (canonical form of a Python set of names) -/
def canonNames (l : List Name) : String :=
  let enc := l.map encodeStr
  let sorted := enc.toArray.qsort (· < ·) |>.toList
  ",".intercalate ((sorted.eraseDups).map fun s => "=" ++ s)

def showSeg (off : Nat) (s : Seg) : Option String :=
  let e := off + s.src.length
  match s with
  | .lit _ => none
  | .esc _ => some s!"E:{off}:{e}"
  | .var _ => some s!"V:{off}:{e}"
  | .escaped _ => some s!"X:{off}:{e}"

def showSegs : Nat → List Seg → List String
  | _, [] => []
  | off, s :: r => (match showSeg off s with | some t => [t] | none => []) ++ showSegs (off + s.src.length) r

def handle (cmd : String) (fs : List String) : String :=
  match cmd, fs with
  | "seg", [l] => " ".intercalate (showSegs 0 (segments (decodeStr l)))
  | "subm", [d, l] =>
    let dd := parseData d; let s := decodeStr l
    s!"{encodeStr (substMeson dd s)}|{canonNames (missingMeson dd s)}"
  | "conf", [fmt, d, ls] =>
    match confStr (parseFormat fmt) (parseData d) cmakeFuel (parseLines ls) with
    | .error e => showErr e
    | .ok o => s!"OK|{showLines o.lines}|{canonNames o.missing}|{boolStr o.useless}"
  | "file", [fmt, d, t] =>
    match confFile (parseFormat fmt) (parseData d) cmakeFuel (decodeStr t) with
    | .error e => showErr e
    | .ok (txt, m, u) => s!"OK|{encodeStr txt}|{canonNames m}|{boolStr u}"
  | "fileb", [enc, fmt, d, b] =>
    let codec := if enc == "latin1" then latin1 else utf8
    let bytes : Bytes := (b.splitOn " ").filterMap fun w => if w.isEmpty then none else w.toNat?.map Nat.toUInt8
    match confFileBytes codec (parseFormat fmt) (parseData d) cmakeFuel bytes with
    | .error .read => "ERR:read"
    | .error .write => "ERR:write"
    | .error (.conf e) => showErr e
    | .ok out => "OK|" ++ " ".intercalate (out.map fun x => toString x.toNat)
  | "split", [t] => showLines (splitLines (decodeStr t))
  | "hdr", [f, mf, m, es] =>
    let hf := if f == "nasm" then HdrFormat.nasm else HdrFormat.c
    encodeStr (dumpHeader hf (if mf == "1" then some (decodeStr m) else none) (parseEntries es))
  | _, _ => "bad-op"

end Driver.Template
