import Driver.Loop
import Driver.Graph

def main : IO Unit := Driver.mainLoop Driver.Graph.handle
