import Driver.Loop
import Driver.Fmt

def main : IO Unit := Driver.mainLoop Driver.Fmt.handle
