import Driver.Loop
import Driver.Version

def main : IO Unit := Driver.mainLoop Driver.Version.handle
