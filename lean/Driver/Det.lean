import Driver.Proto
/- driver commands of area `det` (stub until the area is built) -/
namespace Driver.Det

def handle (cmd : String) (fs : List String) : String := "bad-op"

end Driver.Det
