import MesonModel.Det.Model
import MesonModel.Det.EnvModel
import Driver.Proto
/- driver commands of area `det` (C06 emitters) -/
namespace Driver.Det
open MesonModel.Det Driver

def showErr : EmitError → String
  | .newlineInNinjaText => "ERR:newline"
  | .unknownConfType k => "ERR:conftype:" ++ encodeStr k

def showRes : Except EmitError Str → String
  | .ok s => "OK:" ++ encodeStr s
  | .error e => showErr e

def natOf (s : String) : Nat := (s.trimAscii.toString.toNat?).getD 0

def natList (f : String) : List Nat :=
  if f.trimAscii.isEmpty then [] else (f.splitOn ",").map natOf

def parseVal (kind : Nat) (v : Str) : ConfVal :=
  match kind with
  | 0 => .bool false
  | 1 => .bool true
  | 2 => .int (match (String.ofList v).toInt? with | some i => i | none => 0)
  | 3 => .str v
  | _ => .other

/-- the list encoding cannot tell `[]` from `[""]`: parallel lists are padded to the length of their key list -/
def padTo (n : Nat) (l : List Str) : List Str := l ++ List.replicate (n - l.length) []

def zip3 {α β γ} : List α → List β → List γ → List (α × β × γ)
  | a :: as, b :: bs, c :: cs => (a, b, c) :: zip3 as bs cs
  | _, _, _ => []

def mkKeys (subFlags : List Nat) (subs : List Str) (machines : List Nat) (names : List Str) : List OptKey :=
  let subs := padTo subFlags.length subs
  let names := padTo subFlags.length names
  (zip3 (subFlags.zip subs) machines names).map fun ((f, s), m, n) =>
    { sub := if f = 1 then some s else none, machine := m, name := n }

def kindOf : Nat → OptKind
  | 0 => .dir | 1 => .test | 2 => .core | 3 => .backend | 4 => .base | 5 => .compiler | 6 => .project
  | _ => .other

def showRows (rows : List (Str × Str)) : String :=
  ";".intercalate (rows.map fun (n, s) => encodeStr n ++ "/" ++ encodeStr s)

/-- index permutation produced by `sorted` on (key, index) pairs -/
def sortIdx (lt : OptKey → OptKey → Bool) (keys : List OptKey) : List Nat :=
  (pySortedBy (fun (a b : OptKey × Nat) => lt a.1 b.1) (keys.zip (List.range keys.length))).map Prod.snd

/-- file-system trace: ops `w:i:c` (in place), `r:i:c` (tmp + replace_if_different), `x:i:c`
(tmp + os.replace); answer: per op the touched paths, then the final contents -/
def pathOf (i : Nat) : Str := ("p" ++ toString i).toList
def contentOf (i : Nat) : Str := ("c" ++ toString i).toList

def modeOf (i : Nat) : Nat := match i with | 1 => 493 | 2 => 292 | 3 => 384 | _ => 420

def runFs (ops : List (String × Nat × Nat × Nat)) : String :=
  let step := fun (acc : FS × List String) (op : String × Nat × Nat × Nat) =>
    let (fs, out) := acc
    let (k, i, c, m) := op
    let fs' :=
      if k == "t" then
        -- do_conf_file from a template (kept outside the listed directory) whose mode is `modeOf m`
        let src : Str := "SRC".toList
        (doConfFile (fs.set src ⟨[], 0, modeOf m⟩) src (pathOf i) (contentOf c)).remove src
      else
        let w := if k == "w" then Writer.inPlace else if k == "r" then Writer.viaReplaceIfDifferent else Writer.viaReplace
        writeOut fs w (pathOf i) (contentOf c)
    let touched := (fs'.files.filter fun e => e.2.mtime > fs.clock).map fun e => String.ofList e.1
    let touched := touched.toArray.qsort (· < ·) |>.toList
    (fs', out ++ [",".intercalate touched])
  let (fs, out) := ops.foldl step (⟨[], 0⟩, [])
  let final := (fs.files.map fun e => String.ofList e.1 ++ "=" ++ String.ofList e.2.content ++ "@" ++ toString e.2.mode).toArray.qsort (· < ·) |>.toList
  ";".intercalate out ++ "#" ++ ",".intercalate final

def parseOps (f : String) : List (String × Nat × Nat × Nat) :=
  if f.trimAscii.isEmpty then [] else
  (f.splitOn ",").filterMap fun o =>
    match o.splitOn ":" with
    | [k, i, c] => some (k, natOf i, natOf c, 0)
    | [k, i, c, m] => some (k, natOf i, natOf c, natOf m)
    | _ => none

/-! environment → options / arguments -/

def showDict (d : OptDict) : String :=
  ";".intercalate (d.map fun e => toString e.1.machine ++ ":" ++ encodeStr e.1.name ++ "=" ++ encodeStrList e.2)

def splitSemi (f : String) : List String := if f.trimAscii.isEmpty then [] else f.splitOn ";"

def padLists (n : Nat) (l : List (List Str)) : List (List Str) := l ++ List.replicate (n - l.length) []

/-- one `add_lang_args` query: `lang:machine:driver:paFlag:paList:plFlag:plList` -/
def runQuery (envOpts : OptDict) (q : String) : String :=
  match q.splitOn ":" with
  | [lang, m, drv, paf, pa, plf, pl] =>
    let r := addLangArgs (if paf == "1" then some (decodeStrList pa) else none)
               (if plf == "1" then some (decodeStrList pl) else none) envOpts (decodeStr lang) (natOf m) (drv == "1")
    encodeStrList r.1 ++ "/" ++ encodeStrList r.2
  | _ => "bad-query"

def handleEnv (fs : List String) : String :=
  match fs with
  | [cross, first, wb, wh, langs, lvars, nlv, nlk, ld, cpp, en, ev, sk, sv, oms, onames, queries] =>
    let names := decodeStrList en
    let env : EnvMap := names.zip (padTo names.length (decodeStrList ev))
    let skeys := decodeStrList sk
    let tbl := skeys.zip (padLists skeys.length ((splitSemi sv).map decodeStrList))
    let ls := decodeStrList langs
    let nlvs := decodeStrList nlv
    let c : EnvCfg :=
      { isCross := cross == "1", firstInvocation := first == "1",
        isWindows := fun m => if m = 0 then wb == "1" else wh == "1", pathsep := ':',
        split := fun v => (tbl.lookup v).getD [],
        langFlags := ls.zip (padTo ls.length (decodeStrList lvars)),
        nonLang := nlvs.zip (padTo nlvs.length (decodeStrList nlk)),
        ldLangs := decodeStrList ld, cppLangs := decodeStrList cpp }
    let onm := decodeStrList onames
    let options : OptDict := ((natList oms).zip onm).map fun e => (envKey e.1 e.2, [])
    let r := setDefaultOptionsFromEnv c env options
    showDict (r.1.drop options.length) ++ "#" ++ showDict r.2 ++ "#" ++
      "!".intercalate ((splitSemi queries).map (runQuery r.2))
  | _ => "bad-op"

def handleEnvTable : String :=
  "#".intercalate [encodeStrList (liveLangFlags.map Prod.fst), encodeStrList (liveLangFlags.map Prod.snd),
                   encodeStrList (liveNonLang.map Prod.fst), encodeStrList (liveNonLang.map Prod.snd),
                   encodeStrList (sortedStrs liveLdLangs), encodeStrList (sortedStrs liveCppLangs)]

def handle (cmd : String) (fs : List String) : String :=
  match cmd, fs with
  | "envargs", fs => handleEnv fs
  | "envtable", _ => handleEnvTable
  | "buildrpaths", [l] => encodeStrList (installPlanBuildRpaths (decodeStrList l))
  | "depacc", [scan, json, linked, od] =>
    showRes (depaccumulateLine (decodeStr scan) (decodeStr json) (decodeStrList linked) (decodeStrList od))
  | "sorted", [l] => encodeStrList (sortedStrs (decodeStrList l))
  | "quote", [b, t] => showRes (ninjaQuote (b == "1") (decodeStr t))
  | "buildline", [outs, imp, rule, rsp, ins, deps, od] =>
    showRes (buildLine { outs := decodeStrList outs, implicitOuts := decodeStrList imp, rule := decodeStr rule,
                         useRsp := rsp == "1", ins := decodeStrList ins, deps := decodeStrList deps,
                         orderdeps := decodeStrList od })
  | "envhash", [u] =>
    -- R := the unset component of the hashed pair (the operations are passed through unchanged)
    encodeStrList ((envHashInput (fun x => x.2.flatMap (fun s => s ++ ['\n'])) [] (decodeStrList u)).splitOn '\n' |>.dropLast)
  | "cheader", [nasm, mac, ks, kinds, vs, ds] =>
    let n := (natList kinds).length
    let vals := ((natList kinds).zip (padTo n (decodeStrList vs))).map fun (k, v) => parseVal k v
    showRes (dumpCHeader (nasm == "1") (decodeStr mac) (zip3 (padTo n (decodeStrList ks)) vals (padTo n (decodeStrList ds))))
  | "optsort", [sf, subs, ms, ns] =>
    let keys := mkKeys (natList sf) (decodeStrList subs) (natList ms) (decodeStrList ns)
    ",".intercalate ((sortIdx optKeyLt keys).map toString)
  | "optstr", [sf, subs, ms, ns] =>
    encodeStrList ((mkKeys (natList sf) (decodeStrList subs) (natList ms) (decodeStrList ns)).map OptKey.show)
  | "buildopts", [sf, subs, ms, ns, kinds, bsf, bsubs, bms, bns] =>
    let keys := mkKeys (natList sf) (decodeStrList subs) (natList ms) (decodeStrList ns)
    let store := keys.zip ((natList kinds).map kindOf)
    let base := mkKeys (natList bsf) (decodeStrList bsubs) (natList bms) (decodeStrList bns)
    showRows (introBuildoptions store base)
  | "testser", [d, l] => encodeStrList (testDepends (decodeStrList d)) ++ "#" ++ encodeStr (ldLibraryPath (decodeStrList l))
  | "testdeps", [l] => encodeStrList (testDepends (decodeStrList l))
  | "ldpath", [l] => encodeStr (ldLibraryPath (decodeStrList l))
  | "depnames", [flags, names] =>
    -- flags: 1 = named, 0 = anonymous (the field then holds str(uuid) minted for it)
    let ds := ((natList flags).zip (decodeStrList names)).zipIdx
    let fresh := fun (i : Nat) => match ds.find? (fun e => e.2 = i) with | some e => e.1.2 | none => []
    encodeStrList (targetDependencies fresh (ds.map fun e => if e.1.1 = 1 then DepRef.named e.1.2 else DepRef.anon e.2))
  | "excludes", [f, d] =>
    let r := installPlanExcludes (decodeStrList f) (decodeStrList d)
    encodeStrList r.1 ++ "|" ++ encodeStrList r.2
  | "depfile", [ks, ds, name] =>
    -- ks: targets in dict order; ds: their dep sets in iteration order, `;` separated
    let keys := decodeStrList ks
    let deps := if keys.isEmpty then [] else (ds.splitOn ";").map decodeStrList
    let df := (padTo deps.length keys).zip deps
    encodeStrList (getAllDependenciesDfs df (decodeStr name)) ++ "#" ++ encodeStrList (getAllDependencies df (decodeStr name))
  | "formatreqs", [reqs, names, vs] =>
    -- names: packages that carry constraints; vs: their constraint sets in iteration order, `;` separated
    let ns := decodeStrList names
    let sets := if ns.isEmpty then [] else (vs.splitOn ";").map decodeStrList
    let tbl := ns.zip sets
    encodeStr (formatReqs (decodeStrList reqs) (fun n => (tbl.lookup n).getD []))
  | "depid", [l] => encodeStrList (depIdentifierListValue (decodeStrList l))
  | "genlistdeps", [l] => encodeStrList (genlistDepends (decodeStrList l))
  | "gnuarg", [isC, rc, err] =>
    let r : CheckResult := ⟨(rc.trimAscii.toString.toInt?).getD 0, [], decodeStr err⟩
    boolStr (gnuHasArguments (isC == "1") r) ++ boolStr (reconfigureVerdict (gnuHasArguments (isC == "1")) id (fun (_ : Unit) => r) ())
  | "fs", [ops] => runFs (parseOps ops)
  | _, _ => "bad-op"

end Driver.Det
