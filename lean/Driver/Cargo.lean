import MesonModel.Cargo.Model
import MesonModel.Cargo.CacheModel
import MesonModel.Cargo.CfgTableModel
import MesonModel.Cargo.ResolveModel
import MesonModel.Generated.CargoCache
import Driver.Proto
/- driver commands of area `cargo` (C20) -/
namespace Driver.Cargo
open MesonModel.Cargo Driver

def showOp : Op → String
  | .ge => ">=" | .le => "<=" | .ne => "!=" | .tilde => "~" | .eq => "=" | .caret => "^"
  | .gt => ">" | .lt => "<"

def showComp : Comp → String
  | .int n => s!"i{n}"
  | .str s => "s" ++ encodeStr s

def showSemVer (x : SemVer) : String :=
  s!"{x.count};{boolStr x.hasPre};" ++ ",".intercalate (x.v.map showComp)

def showTok : Token → String
  | .lparen => "L" | .rparen => "R" | .comma => "C" | .equal => "E"
  | .all => "ALL" | .any => "ANY" | .not => "NOT"
  | .str s => "S" ++ encodeStr s
  | .ident s => "I" ++ encodeStr s

def readTok (w : String) : Option Token :=
  if w == "L" then some .lparen else if w == "R" then some .rparen
  else if w == "C" then some .comma else if w == "E" then some .equal
  else if w == "ALL" then some .all else if w == "ANY" then some .any
  else if w == "NOT" then some .not
  else if w.startsWith "S" then some (.str (decodeStr (w.drop 1).toString))
  else if w.startsWith "I" then some (.ident (decodeStr (w.drop 1).toString))
  else none

def readToks (f : String) : List Token :=
  if f.trimAscii.isEmpty then [] else (f.splitOn ",").filterMap readTok

mutual
def showIR : IR → String
  | .ident n => "I(" ++ encodeStr n ++ ")"
  | .equal n v => "Q(" ++ encodeStr n ++ ";" ++ encodeStr v ++ ")"
  | .not e => "NOT[" ++ showIR e ++ "]"
  | .any as => "ANY[" ++ showIRs as ++ "]"
  | .all as => "ALL[" ++ showIRs as ++ "]"
def showIRs : List IR → String
  | [] => ""
  | [e] => showIR e
  | e :: es => showIR e ++ "," ++ showIRs es
end

def showErr : PErr → String
  | .expectedString => "ERR:expected-string"
  | .expectedLParen => "ERR:expected-lparen"
  | .expectedRParenComma => "ERR:expected-rparen-or-comma"
  | .expectedRParen => "ERR:expected-rparen"
  | .unhandled => "ERR:unhandled-token"
  | .malformed => "ERR:malformed"
  | .trailing => "ERR:trailing"
  | .unterminated => "ERR:unterminated"
  | .assertion => "ERR:AssertionError"
  | .fuel => "ERR:model-fuel"

/-- `k=v,k=v` with both sides code-point encoded -/
def readCfgs (f : String) : Cfgs :=
  if f.trimAscii.isEmpty then [] else
  (f.splitOn ",").map (fun kv =>
    match kv.splitOn "=" with
    | [k, v] => (decodeStr k, decodeStr v)
    | _ => ([], []))

def showApi : Except ApiErr (List Char) → String
  | .ok a => "OK:" ++ encodeStr a
  | .error .valueError => "ERR:ValueError"
  | .error .mesonException => "ERR:MesonException"

/-- one history on a `Dependency` object: ops `ra:<ver>` (call `accepts_version`), `rp` (read `api`),
`u:<req>` (`update_version`); one answer per op, then the final `version` field -/
def runHist (init : List Char) (ops : List String) : String :=
  let blocks := MesonModel.Generated.CargoCache.updateBlocks
  let rec go (o : Cache.Obj) (ops : List String) (acc : List String) : List String × Cache.Obj :=
    match ops with
    | [] => (acc.reverse, o)
    | w :: rest =>
      if w.startsWith "ra:" then
        let ver := decodeStr (w.drop 3).toString
        let r := Cache.read o "accepts_version"
        go r.1 rest (boolStr (cargoParse r.2 ver) :: acc)
      else if w == "rp" then
        let r := Cache.read o "api"
        go r.1 rest (showApi (api r.2) :: acc)
      else if w.startsWith "u:" then
        go (Cache.update blocks o (decodeStr (w.drop 2).toString)) rest ("-" :: acc)
      else go o rest ("?" :: acc)
  let (outs, o) := go (Cache.fresh init) ops []
  ";".intercalate (outs ++ ["V:" ++ encodeStr o.version])

def readKey (w : String) : CfgTable.Key :=
  match w.splitOn "." with
  | [m, s] => (m == "1", s.toNat?.getD 0)
  | _ => (false, 0)

def showTable (t : Cfgs) : String :=
  ",".intercalate (t.map (fun kv => encodeStr kv.1 ++ "=" ++ encodeStr kv.2))

/-- a history of `_get_cfgs` calls on one interpreter: host / build compiler cfg lines, the
`rust_args` of every key (`m.sub:arg,arg;…`), the calls (`m.sub;…`) -/
def runCfgs (host build : List (List Char)) (args calls : String) : String :=
  let tbl : List (CfgTable.Key × List (List Char)) :=
    if args.trimAscii.isEmpty then [] else
    (args.splitOn ";").map (fun e =>
      match e.splitOn ":" with
      | [k, v] => (readKey k, decodeStrList v)
      | _ => ((false, 0), []))
  let rustArgs : CfgTable.Key → List (List Char) := fun k => (tbl.lookup k).getD []
  let copies := !(MesonModel.Generated.CargoCache.aliasedMutations.any (fun p => p.1 == "_get_cfgs"))
  let ks := if calls.trimAscii.isEmpty then [] else (calls.splitOn ";").map readKey
  let (outs, st) := ks.foldl (fun (acc : List String × CfgTable.State) k =>
      let r := CfgTable.getCfgs copies rustArgs acc.2 k
      (showTable r.2 :: acc.1, r.1)) ([], ⟨host, build, []⟩)
  ";".intercalate (outs.reverse ++ ["H:" ++ encodeStrList st.baseHost, "B:" ++ encodeStrList st.baseBuild])

/-! consumers (`Cargo/ResolveModel.lean`) -/
open MesonModel.Cargo.Resolve in
/-- `name=version,name=version` (both sides code-point encoded); the field `NOLOCK` = no Cargo.lock -/
def readLock (f : String) : Option (List LockPkg) :=
  if f.trimAscii.toString == "NOLOCK" then none
  else some ((readCfgs f).map (fun kv => ⟨kv.1, kv.2⟩))

def showDeps (d : MesonModel.Cargo.Resolve.Deps) : String := showTable d

/-- `cond:k=v,k=v;cond:…` -/
def readTargets (f : String) : List (List Char × MesonModel.Cargo.Resolve.Deps) :=
  if f.trimAscii.isEmpty then [] else
  (f.splitOn ";").map (fun e =>
    match e.splitOn ":" with
    | [c, d] => (decodeStr c, readCfgs d)
    | _ => ([], []))

def showMerge : Except PErr MesonModel.Cargo.Resolve.Deps → String
  | .ok d => "OK:" ++ showDeps d
  | .error _ => "ERR"

open MesonModel.Cargo.Resolve in
def handleResolve (cmd : String) (fs : List String) : Option String :=
  match cmd, fs with
  | "apiof", [v] => some (showApi (apiOf (decodeStr v)))
  | "named", [l, n] =>
    match readLock l with
    | none => some "NOLOCK"
    | some lk => some (encodeStrList ((named lk (decodeStr n)).map (fun p => p.version)))
  | "resolve", [l, n, r] =>
    match resolveWith (readLock l) (decodeStr n) (cargoParse (decodeStr r)) with
    | none => some "NONE"
    | some p => some ("V:" ++ encodeStr p.version)
  | "resolveapi", [l, n, a] =>
    match resolvePackageApi (readLock l) (decodeStr n) (decodeStr a) with
    | none => some "NONE"
    | some x => some (showApi x)
  | "deppin", [l, n, r] =>
    let x := depPin (readLock l) (decodeStr n) (decodeStr r)
    some ("R:" ++ encodeStr x.1 ++ ";" ++ showApi x.2)
  | "merge", [t, cs, b, ts] =>
    some (showMerge (mergeTargets (decodeStr t) (readCfgs cs) (readCfgs b) (readTargets ts)))
  | "mergehist", [b, ts, calls] =>
    let cl : List (List Char × Cfgs) :=
      if calls.trimAscii.isEmpty then [] else
      (calls.splitOn ";").map (fun e =>
        match e.splitOn ":" with
        | [t, c] => (decodeStr t, readCfgs c)
        | _ => ([], []))
    match mergeHistory (readCfgs b) (readTargets ts) cl with
    | .error _ => some "ERR"
    | .ok ds => some ("OK:" ++ ";".intercalate (ds.map showDeps))
  | "mesonver", [v] =>
    match mesonVersion (decodeStr v) with
    | .error _ => some "ERR:IndexError"
    | .ok cs => some ("OK:" ++ encodeStrList cs)
  | "sysdep", [r, v] =>
    match systemDepAccepts (decodeStr r) (decodeStr v) with
    | .error _ => some "ERR:IndexError"
    | .ok b => some (boolStr b)
  | _, _ => none

def handle (cmd : String) (fs : List String) : String :=
  match handleResolve cmd fs with
  | some a => a
  | none =>
  match cmd, fs with
  | "split", [r] =>
    ";".intercalate ((split (decodeStr r)).map (fun c => showOp c.1 ++ ":" ++ encodeStr c.2))
  | "semver", [s] => showSemVer (SemVer.parse (decodeStr s))
  | "cmp", [a, b] =>
    let x := (SemVer.parse (decodeStr a)).v; let y := (SemVer.parse (decodeStr b)).v
    "".intercalate ([vlt x y, vgt x y, vle x y, vge x y, veq x y, vne x y].map boolStr)
  | "match", [r, v] => boolStr (cargoParse (decodeStr r) (decodeStr v))
  | "api", [r] => showApi (api (decodeStr r))
  | "cfgs", [h, b, args, calls] => runCfgs (decodeStrList h) (decodeStrList b) args calls
  | "hist", [r, ops] =>
    runHist (decodeStr r) (if ops.trimAscii.isEmpty then [] else ops.splitOn ",")
  | "lex", [r] =>
    let l := lexer (decodeStr r)
    ",".intercalate (l.toks.map showTok ++ (if l.unterminated then ["ERR:unterminated"] else []))
  | "parse", [ts] =>
    match parse (readToks ts) with
    | .ok e => "OK:" ++ showIR e
    | .error e => showErr e
  | "lexparse", [r] =>
    match parseLexed (lexer (decodeStr r)) with
    | .ok e => "OK:" ++ showIR e
    | .error e => showErr e
  | "evalcfg", [r, cs] =>
    match evalCfg (decodeStr r) (readCfgs cs) with
    | .ok b => boolStr b
    | .error e => showErr e
  | _, _ => "bad-op"

end Driver.Cargo
