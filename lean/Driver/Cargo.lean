import Driver.Proto
/- driver commands of area `cargo` (stub until the area is built) -/
namespace Driver.Cargo

def handle (cmd : String) (fs : List String) : String := "bad-op"

end Driver.Cargo
