import MesonModel.Life.Model
import Driver.Options
/-
Driver commands of area `life` (C08).  One request line is one whole history:

  hist <top defs>|<sub defs>|<pdoTop>|<pdoSub>|<spcall>|<cmd>|<cmd>|…   → one observation per command, joined by `|`
  (pdoTop / pdoSub / spcall: the default_options dicts of project('top'), project('sub'), subproject('sub'))

defs  `name=spec,name=spec` (spec as in Driver/Options.lean: `kind/default/y/r`)
  histx <top defs>|<sub defs>|<pdoTop>|<pdoSub>|<spcall>|<n>|(<name>|<defs>|<pdo>|<spcall>){n}|<cmd>|…   the same with n
        further subprojects; their option files are edited by `xs;<proj>;<name>;<spec>` `xr;<proj>;<name>` `xf;<proj>;<-|0|1>`

cmd   `su;<dict>`  `rc;<dict>`  `cf;<optdict>`  `wi;<dict>`  `es;<0|1>;<name>;<spec>`  `er;<0|1>;<name>`  `co` (truncate coredata.dat)  `fs;<0|1>;<-|0|1>` (option file: deleted / meson.options / meson_options.txt)
      (dict / optdict / keys / values as in Driver/Options.lean)

observation  `<out>#<core>#<cmdline>#<intro>`
  out      `ok` | `ok;top:n=v,…` (the get_option values of a (re)configuration, sorted) | `fail`
  core     `-` | `eff:k=v,…;own:k=v,…;aug:k=v,…;yield:k,…;stale:k,…`      (sorted; keys `top:n` / `sub:n`)
  cmdline  `-` | `k=v,…` in file order
  intro    `-` | `k=v,…` sorted (rows of mintro._list_buildoptions: effective values, augments as rows)
Values are printed as plain text (the harness only uses [A-Za-z0-9_] in names and values).
-/
namespace Driver.Life
open MesonModel.Options MesonModel.Life Driver Driver.Options

def txt (s : List Char) : String := String.ofList s

def showV : Val → String
  | .str s => txt s
  | .int n => toString n
  | .bool b => if b then "true" else "false"
  | .arr l => "[" ++ ", ".intercalate (l.map txt) ++ "]"

def showK (k : Key) : String :=
  (match k.sub with | none => "" | some [] => "top:" | some s => txt s ++ ":") ++ txt k.name

/-- as `str(OptionKey)` prints it on the command line / in cmd_line.txt -/
def showCmdKey (k : Key) : String :=
  (match k.sub with | none => "" | some [] => ":" | some s => txt s ++ ":") ++ txt k.name

def showR : Except Err Val → String
  | .ok v => showV v
  | .error e => "!" ++ showErr e

def parseDefs (f : String) : Defs :=
  if f.isEmpty then [] else
  (f.splitOn ",").map (fun e => match e.splitOn "=" with
    | [k, v] => (decodeStr k, parseSpec v)
    | _ => default)

def parseCmd (f : String) : Option Cmd :=
  match f.splitOn ";" with
  | ["su", d] => some (.setup (parseDict d))
  | ["rc", d] => some (.reconfigure (parseDict d))
  | ["cf", a] => some (.configure (parseOptDict a))
  | ["wi", d] => some (.wipe (parseDict d))
  | ["es", p, n, sp] => some (.editSet (p == "1") (decodeStr n) (parseSpec sp))
  | ["er", p, n] => some (.editRemove (p == "1") (decodeStr n))
  | ["co"] => some .corrupt
  | ["fs", p, f] => some (.fileSet (p == "1") (if f == "-" then none else some (f == "1")))
  | ["xs", p, n, sp] => some (.extra (decodeStr p) (.set (decodeStr n) (parseSpec sp)))
  | ["xr", p, n] => some (.extra (decodeStr p) (.remove (decodeStr n)))
  | ["xf", p, f] => some (.extra (decodeStr p) (.file (if f == "-" then none else some (f == "1"))))
  | _ => none

def join (l : List String) : String := ",".intercalate (sortStrs l)

def wlKeys (extra : List Str := []) : List Key :=
  [projKey [] sWarningLevel, projKey sSub sWarningLevel] ++ extra.map (fun n => projKey n sWarningLevel)

def showCore (c : Core) (extra : List Str := []) : String :=
  let s := c.store
  let pk := c.projectKeys
  "eff:" ++ join ((pk ++ wlKeys extra).map (fun k => showK k ++ "=" ++ showR (getValueFor s k))) ++
  ";own:" ++ join (pk.filterMap (fun k => (alookup k s.options).bind (fun id => s.heap[id]?.map (fun o => showK k ++ "=" ++ showV o.value)))) ++
  ";aug:" ++ join (s.augments.map (fun p => showK p.1 ++ "=" ++ showV p.2)) ++
  ";yield:" ++ join (pk.filterMap (fun k => (alookup k s.options).bind (fun id => s.heap[id]?.bind (fun o => if o.yielding then some (showK k) else none)))) ++
  -- options whose parent pointer is not the object registered under the top-level key (`ParentCurrent` violated)
  ";stale:" ++ join (pk.filterMap (fun k => (alookup k s.options).bind (fun id => s.heap[id]?.bind (fun o =>
    match o.parent with
    | some pid => if alookup k.asRoot s.options == some pid then none else some (showK k)
    | none => none))))

/-- `mintro._list_buildoptions`: the value a row shows — the parent's value for an inheriting option with a parent,
else the own value; an augment under the same key wins -/
def introVal (s : Store) (k : Key) (o : Obj) : Val :=
  let v := if o.yielding then
      (match o.parent with
       | some pid => (s.heap[pid]?.map (·.value)).getD o.value
       | none => o.value)
    else o.value
  (alookup k s.augments).getD v

def showIntro (s : Store) : String :=
  let pk := (s.options.map (·.1)).filter s.isProjectOption
  let wl : Key := { name := sWarningLevel, sub := none, machine := .host }
  let rows := (pk ++ [wl]).filterMap (fun k => (alookup k s.options).bind (fun id => s.heap[id]?.map (fun o =>
    (if k.sub.isNone then "top:" ++ txt k.name else showK k) ++ "=" ++ showV (introVal s k o))))
  -- per-subproject overrides of global options are listed as rows of their own
  let augRows := s.augments.filterMap (fun p =>
    match (alookup p.1.global s.options).bind (fun id => s.heap[id]?) with
    | some g =>
      -- an override that merely repeats the global value has no row (a subproject without a row has the global value)
      if !(ahas p.1 s.options) && p.2 != g.value then some (showK p.1 ++ "=" ++ showV p.2) else none
    | none => none)
  join (rows ++ augRows)

def showOut : MesonModel.Life.Out → String
  | .ok [] => "ok"
  | .ok msgs => "ok;" ++ join (msgs.map (fun m => (if m.1 == [] then "top:" else txt m.1 ++ ":") ++ txt m.2.1 ++ "=" ++ showV m.2.2))
  | .failed _ _ => "fail"

def showObs (x : Dir × MesonModel.Life.Out) : String :=
  showOut x.2 ++ "#" ++ (match x.1.core with | none => (if x.1.corrupt then "!corrupt" else "-") | some c => showCore c (x.1.more.map (·.name))) ++ "#" ++
  (match x.1.cmdline with
   | none => "-"
   | some cl => ",".intercalate ((cl.filter (fun p => p.1.name != "backend".toList)).map (fun p => showCmdKey p.1 ++ "=" ++ showV p.2))) ++ "#" ++
  (match x.1.intro with | none => "-" | some s => showIntro s)

def runCmds : Dir → List String → List String
  | _, [] => []
  | d, f :: r =>
    match parseCmd f with
    | none => ["bad-op"]
    | some c => let x := step d c; showObs x :: runCmds x.1 r

def handle (cmd : String) (fs : List String) : String :=
  match cmd, fs with
  | "hist", top :: sub :: pdoTop :: pdoSub :: spcall :: cmds =>
    "|".intercalate (runCmds { top := parseDefs top, sub := parseDefs sub, pdoTop := parseDict pdoTop,
                               pdoSub := parseDict pdoSub, spcall := parseDict spcall } cmds)
  | "histx", top :: sub :: pdoTop :: pdoSub :: spcall :: n :: rest =>
    -- n further subprojects, four fields each: name, defs, project(default_options), subproject(default_options)
    let k := n.toNat?.getD 0
    let rec extras : Nat → List String → List Extra × List String
      | 0, r => ([], r)
      | m + 1, nm :: df :: pdo :: spc :: r =>
        let x := extras m r
        ({ name := decodeStr nm, defs := parseDefs df, pdo := parseDict pdo, spcall := parseDict spc } :: x.1, x.2)
      | _ + 1, _ => ([], [])
    let x := extras k rest
    "|".intercalate (runCmds { top := parseDefs top, sub := parseDefs sub, pdoTop := parseDict pdoTop,
                               pdoSub := parseDict pdoSub, spcall := parseDict spcall, more := x.1 } x.2)
  | _, _ => "bad-op"

end Driver.Life
