import Driver.Proto
/- driver commands of area `life` (stub until the area is built) -/
namespace Driver.Life

def handle (cmd : String) (fs : List String) : String := "bad-op"

end Driver.Life
