import Driver.Loop
import Driver.DepPolicy

def main : IO Unit := Driver.mainLoop Driver.DepPolicy.handle
