import Driver.Loop
import Driver.Cargo

def main : IO Unit := Driver.mainLoop Driver.Cargo.handle
