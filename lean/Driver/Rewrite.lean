import Driver.Proto
import MesonModel.Rewrite.Splice
import MesonModel.Rewrite.StrLit
import MesonModel.Rewrite.Compare
import MesonModel.Rewrite.Parse
import MesonModel.Rewrite.ListEdit
import MesonModel.Rewrite.PathMatch
import MesonModel.Rewrite.Command
import MesonModel.Rewrite.SrcCommand
/-
driver commands of area `rewrite` (C17).

Tree field: tokens separated by `;`, token parts by `:`, prefix order. Strings inside a token are
space-separated decimal code points (`decodeStr`).
  b:L:0|1   i:L:<name>   n:L:<dec>   s:L:<ml><fs>:<value>   A:L:AL:<n> items…   D:L:AL:<n> items…
  O:L l r   N:L l r   C:L:<ctype> l r   R:L:<operation>:<optext> l r   !:L e   -:L e   X:L o i
  M:L:<name>:AL:<n> obj items…   F:L:<name>:AL:<n> items…   T:L c t f   P:L e   =:L:<name> e
  +:L:<name> e   E
items: `p` e  |  `k` key value
-/
namespace Driver.Rewrite
open MesonModel.Rewrite Driver

abbrev Tok := List String

def tokNat (s : String) : Nat := s.toNat?.getD 0

mutual
def decE : Nat → List Tok → Option (Expr × List Tok)
  | 0, _ => none
  | _, [] => none
  | f + 1, t :: ts =>
    match t with
    | ["b", l, v] => some (.bool (tokNat l) (v == "1"), ts)
    | ["i", l, n] => some (.id (tokNat l) (decodeStr n), ts)
    | ["n", l, v] => some (.num (tokNat l) (tokNat v), ts)
    | ["s", l, fl, v] => some (.str (tokNat l) (decodeStr v) (fl == "10" || fl == "11") (fl == "01" || fl == "11"), ts)
    | ["A", l, al, n] => (decI f (tokNat n) ts).map (fun (i, r) => (.arr (tokNat l) (tokNat al) i, r))
    | ["D", l, al, n] => (decI f (tokNat n) ts).map (fun (i, r) => (.dict (tokNat l) (tokNat al) i, r))
    | ["O", l] => do let (a, r) ← decE f ts; let (b, r) ← decE f r; pure (.or (tokNat l) a b, r)
    | ["N", l] => do let (a, r) ← decE f ts; let (b, r) ← decE f r; pure (.and (tokNat l) a b, r)
    | ["C", l, c] => do let (a, r) ← decE f ts; let (b, r) ← decE f r; pure (.cmp (tokNat l) (decodeStr c) a b, r)
    | ["R", l, o, ot] => do
      let (a, r) ← decE f ts; let (b, r) ← decE f r
      pure (.arith (tokNat l) (decodeStr o) (decodeStr ot) a b, r)
    | ["!", l] => do let (a, r) ← decE f ts; pure (.not (tokNat l) a, r)
    | ["-", l] => do let (a, r) ← decE f ts; pure (.uminus (tokNat l) a, r)
    | ["X", l] => do let (a, r) ← decE f ts; let (b, r) ← decE f r; pure (.index (tokNat l) a b, r)
    | ["M", l, n, al, cnt] => do
      let (o, r) ← decE f ts
      let (i, r) ← decI f (tokNat cnt) r
      pure (.method (tokNat l) o (decodeStr n) (tokNat al) i, r)
    | ["F", l, n, al, cnt] => do
      let (i, r) ← decI f (tokNat cnt) ts
      pure (.call (tokNat l) (decodeStr n) (tokNat al) i, r)
    | ["T", l] => do
      let (a, r) ← decE f ts; let (b, r) ← decE f r; let (c, r) ← decE f r
      pure (.ternary (tokNat l) a b c, r)
    | ["P", l] => do let (a, r) ← decE f ts; pure (.paren (tokNat l) a, r)
    | ["=", l, n] => do let (a, r) ← decE f ts; pure (.assign (tokNat l) (decodeStr n) a, r)
    | ["+", l, n] => do let (a, r) ← decE f ts; pure (.plusassign (tokNat l) (decodeStr n) a, r)
    | ["E"] => some (.empty, ts)
    | _ => none
def decI : Nat → Nat → List Tok → Option (Items × List Tok)
  | 0, _, _ => none
  | _, 0, ts => some (.nil, ts)
  | f + 1, n + 1, t :: ts =>
    match t with
    | ["p"] => do
      let (e, r) ← decE f ts
      let (rest, r) ← decI f n r
      pure (.pos e rest, r)
    | ["k"] => do
      let (k, r) ← decE f ts
      let (v, r) ← decE f r
      let (rest, r) ← decI f n r
      pure (.kw k v rest, r)
    | _ => none
  | _, _, [] => none
end

def decodeTree (field : String) : Option Expr :=
  let toks := (field.splitOn ";").map (fun t => t.splitOn ":")
  match decE (toks.length + 1) toks with
  | some (e, []) => some e
  | _ => none

mutual
def encE : Expr → List String
  | .bool l v => [s!"b:{l}:{boolStr v}"]
  | .id l n => [s!"i:{l}:{encodeStr n}"]
  | .num l v => [s!"n:{l}:{v}"]
  | .str l v ml fs => [s!"s:{l}:{boolStr ml}{boolStr fs}:{encodeStr v}"]
  | .arr l al i => s!"A:{l}:{al}:{i.length}" :: encI i
  | .dict l al i => s!"D:{l}:{al}:{i.length}" :: encI i
  | .or l a b => s!"O:{l}" :: (encE a ++ encE b)
  | .and l a b => s!"N:{l}" :: (encE a ++ encE b)
  | .cmp l c a b => s!"C:{l}:{encodeStr c}" :: (encE a ++ encE b)
  | .arith l o ot a b => s!"R:{l}:{encodeStr o}:{encodeStr ot}" :: (encE a ++ encE b)
  | .not l e => s!"!:{l}" :: encE e
  | .uminus l e => s!"-:{l}" :: encE e
  | .index l o i => s!"X:{l}" :: (encE o ++ encE i)
  | .method l o n al i => s!"M:{l}:{encodeStr n}:{al}:{i.length}" :: (encE o ++ encI i)
  | .call l n al i => s!"F:{l}:{encodeStr n}:{al}:{i.length}" :: encI i
  | .ternary l c t f => s!"T:{l}" :: (encE c ++ encE t ++ encE f)
  | .paren l e => s!"P:{l}" :: encE e
  | .assign l n e => s!"=:{l}:{encodeStr n}" :: encE e
  | .plusassign l n e => s!"+:{l}:{encodeStr n}" :: encE e
  | .empty => ["E"]
def encI : Items → List String
  | .nil => []
  | .pos e r => "p" :: (encE e ++ encI r)
  | .kw k v r => "k" :: (encE k ++ encE v ++ encI r)
end

def encodeTree (e : Expr) : String := ";".intercalate (encE e)

def natList (f : String) : List Nat := (f.splitOn ",").filterMap (fun w => w.trimAscii.toString.toNat?)

/-- `action,kind,line,col,eline,ecol,vflag,vline,vcol,veline,vecol` + tree -/
def decodeWork (mt tree : String) : Option Work :=
  match natList mt, decodeTree tree with
  | [a, k, l, c, el, ec, vf, vl, vc, vel, vec], some e =>
    let action := if a == 0 then Action.modify else if a == 1 then Action.rm else Action.add
    let kind := if k == 0 then NodeKind.arrOrFunc
      else if k == 1 then NodeKind.assignment (if vf == 1 then some ⟨vl, vc, vel, vec⟩ else none)
      else NodeKind.other
    some ⟨action, ⟨l, c, el, ec⟩, kind, e⟩
  | _, _ => none

def decodeWorks : List String → Option (List Work)
  | [] => some []
  | [_] => none
  | m :: t :: rest => do
    let w ← decodeWork m t
    let ws ← decodeWorks rest
    pure (w :: ws)

def showErr : Err → String
  | .indexError => "ERR:IndexError"

def withTree (f : String) (k : Expr → String) : String :=
  match decodeTree f with
  | some e => if e.opsKnown then k e else "ERR:MesonBugException"
  | none => "bad-tree"

/-- `key|kind|value` triples of a `kwargs` command: kind s (string) b (bool) S (string list) I (id list) i (id) -/
def decodeKvs : List String → Option (List (List Char × NewVal))
  | [] => some []
  | k :: kind :: v :: rest => do
    let nv ← match kind with
      | "s" => some (NewVal.str (decodeStr v))
      | "b" => some (NewVal.bool (v == "1"))
      | "S" => some (NewVal.strList (decodeStrList v))
      | "I" => some (NewVal.idList (decodeStrList v))
      | "i" => some (NewVal.ident (decodeStr v))
      | _ => none
    let r ← decodeKvs rest
    pure ((decodeStr k, nv) :: r)
  | _ => none

def handle (cmd : String) (fs : List String) : String :=
  match cmd, fs with
  | "echo", [t] => withTree t encodeTree
  | "print", [t] => withTree t (fun e => encodeStr (astPrint e))
  | "newdata", [t] => withTree t (fun e => encodeStr (newData e))
  | "prec", [t] => withTree t (fun e => toString (precLevel e))
  | "esc", [s] => encodeStr (escape (decodeStr s))
  | "post", [s] => encodeStr (postProcess (decodeStr s))
  | "strip", [s] => encodeStr (stripU (decodeStr s))
  | "decode", [s] =>
    match decodeEscapes (decodeStr s) with
    | some v => "1 " ++ encodeStr v
    | none => "unmodelled"
  | "lexstr", [s] =>
    match lexString (decodeStr s) with
    | some v => "1 " ++ encodeStr v
    | none => "0"
  | "offsets", [s] => ",".intercalate ((lineOffsets (decodeStr s)).map toString)
  | "lexoffsets", [s] => ",".intercalate ((lexLineOffsets (decodeStr s)).map toString)
  | "apply", text :: nm :: nr :: works =>
    match decodeWorks works with
    | none => "bad-work"
    | some ws =>
      if ws.all (fun w => w.node.opsKnown) then
        let m := tokNat nm; let r := tokNat nr
        match applyChanges (decodeStr text) (ws.take m) ((ws.drop m).take r) (ws.drop (m + r)) with
        | .ok out => encodeStr out
        | .error e => showErr e
      else "ERR:MesonBugException"
  | "kwcmd", text :: mt :: tree :: del :: kvs =>
    -- one whole `kwargs set/delete` command on the text of a build file: span + node AS PARSED + the command
    match natList mt, decodeTree tree, decodeKvs kvs with
    | [l, c, el, ec], some e, some kv =>
      if e.opsKnown then
        match applyKw (decodeStr text) ⟨l, c, el, ec⟩ e ⟨del == "1", kv⟩ with
        | .ok out => encodeStr out
        | .error er => showErr er
      else "ERR:MesonBugException"
    | _, _, _ => "bad-kwcmd"
  | "srccmd", [text, mt, tree, kind, rm, root, oldT, files] =>
    -- one whole `target add/rm (extra) files` command: the chosen list node AS PARSED + the command
    match natList mt, decodeTree tree with
    | [l, c, el, ec], some e =>
      if e.opsKnown then
        let k := if kind == "1" then ListKind.target else if kind == "2" then ListKind.newExtra else ListKind.plain
        match applySrc (decodeStr text) ⟨l, c, el, ec⟩ e (decodeStr root) k (decodeStrList oldT) ⟨rm == "1", decodeStrList files⟩ with
        | .ok out => encodeStr out
        | .error er => showErr er
      else "ERR:MesonBugException"
    | _, _ => "bad-srccmd"
  | "sortkeylt", [a, b] => boolStr (pathKeyLt (decodeStr a) (decodeStr b))
  | "normpath", [p] => encodeStr (normpath (decodeStr p))
  | "pmatch", root :: req :: cands =>
    -- candidates: relto1|strings1|relto2|strings2|...; answer: `i:j` pairs find_node accepts
    let rec mk : List String → List Cand
      | r :: ss :: rest => ⟨decodeStr r, decodeStrList ss⟩ :: mk rest
      | _ => []
    ",".intercalate ((findNodeMatches (decodeStr root) (decodeStr req) (mk cands)).map (fun (i, j) => s!"{i}:{j}"))
  | "order", nm :: nr :: metas =>
    -- the order in which the work items (numbered as queued: modified, removed, added) are applied
    let ws := (metas.zipIdx).filterMap (fun (m, i) => decodeWork m s!"n:0:{i}")
    let m := tokNat nm; let r := tokNat nr
    let sorted := sortDesc ((ws.take m) ++ ((ws.drop m).take r)) ++ ws.drop (m + r)
    ",".intercalate (sorted.map (fun w => match w.node with | .num _ i => toString i | _ => "?"))
  | "same", [u, cf, keys, a, b] =>
    match decodeTree a, decodeTree b with
    | some x, some y => boolStr (sameExcept (decodeStrList u) (decodeStrList cf) (decodeStrList keys) x y)
    | _, _ => "bad-tree"
  | "rmeq", [vals, l] => encodeStrList (removeEqual (decodeStrList vals) (decodeStrList l))
  | "addv", [vals, l] => encodeStrList (addValues (decodeStrList vals) (decodeStrList l))
  | "dodel", [keys, l] => encodeStrList (defaultOptionsDelete (decodeStrList keys) (decodeStrList l))
  | "erase", [t] => withTree t (fun e => encodeTree e.erase)
  | "reparse", [t] =>
    -- parse (own token-level parser) the text the printer produces for `t`; answer the erased tree
    withTree t (fun e =>
      match parseText (astPrint e) with
      | some p => "1 " ++ encodeTree p.erase
      | none => "0")
  | "parse", [s] =>
    match parseText (decodeStr s) with
    | some p => "1 " ++ encodeTree p.erase
    | none => "0"
  | _, _ => "bad-op"

end Driver.Rewrite
