import Driver.Proto
/- driver commands of area `rewrite` (stub until the area is built) -/
namespace Driver.Rewrite

def handle (cmd : String) (fs : List String) : String := "bad-op"

end Driver.Rewrite
