import Driver.Loop
import Driver.Rewrite

def main : IO Unit := Driver.mainLoop Driver.Rewrite.handle
