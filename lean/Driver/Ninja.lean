import Driver.Proto
import MesonModel.Ninja.Manifest
import MesonModel.Ninja.Emit
import MesonModel.Ninja.Ending
/-
driver commands of area `ninja`

  parse <text>                         -> OK|R:<rules>|D:<defaults>|L:<pools>|E:<edge>|E:<edge>…   (canonical dump, file order)
                                          edge = rule;outs;implOuts;ins;implIns;orderIns;vals;k=v&k=v;effective-pool
                                          ERR:Parse:<kind>:<chars-left> / ERR:Load:<kind>:<arg>
  leaves <text>                        -> OK|<inputs that no statement produces>  (what the caller must stat)
  check <text>|<fs>|<reqs>             -> verdict of the verified checker on the manifest text
  checkg <rules>|<edges>|<fs>|<reqs>[|<pools>|<defaults>]
                                       -> the same on a graph given directly; edges `rule;outs;ins;vals[;pool]` joined by `/`
  canon <path>                         -> canonicalised path
  quote <name>                         -> ninja_quote(name, is_build_line=True) of the emission model
  readpath <text>                      -> OK|<first path as read by the lexer>|<rest>
  emit <ops>                           -> the emission state machine (see MesonModel/Ninja/Emit.lean)
  check <text>|<fs>|<reqs>|<inst>      -> as `check`, plus the install clause (root `install`, inst = files copied unconditionally)
  checkg <rules>|<edges>|<fs>|<reqs>|<pools>|<defaults>|<iroot>|<inst>
  ending <targets>|<tests>|<benchmarks>
                                       -> the aggregate targets of MesonModel/Ninja/Ending.lean for a target table
                                          target = k;dir;out0;rest;bbd;install;build_always;mask  (k = b|c, bbd/build_always = n|t|f,
                                          mask = 0/1 per output) joined by `/`; test = exe;args;depends with references
                                          T<i> I<i> LT<i> LI<i> O joined by `,`, tests joined by `/`
                                          OK|bbd=<bits>|all=…|test=…|bench=…|mand=…|opt=…|install=<ins of the install statements>

lists are `,`-joined encoded strings; reqs = root,target,root,target,…
-/
namespace Driver.Ninja
open MesonModel.Ninja

def encL (l : List Str) : String := encodeStrList l

def dumpEdge (b : BuildStmt) : String :=
  ";".intercalate [encodeStr b.rule, encL b.outs, encL b.implOuts, encL b.ins, encL b.implIns, encL b.orderIns,
    encL b.vals, "&".intercalate (b.binds.map (fun kv => encodeStr kv.1 ++ "=" ++ encodeStr kv.2)), encodeStr b.pool]

def loadText (t : Str) : Except String Manifest :=
  match parse t with
  | .error (e, n) => .error s!"ERR:Parse:{e.name}:{n}"
  | .ok ss =>
    match load ss with
    | .error e => .error s!"ERR:Load:{e.name}:{encodeStr e.arg}"
    | .ok m => .ok m

def pairs : List String → List (String × String)
  | a :: b :: r => (a, b) :: pairs r
  | _ => []

def encS (l : List String) : String := encodeStrList (l.map String.toList)

def verdict (g : Graph String) (fs : List String) (reqs : List (String × String)) (iroot : String := "install")
    (inst : List String := []) : String :=
  let es := g.edges
  let r1 := rulesDefined g
  let r2 := outputsDisjoint es
  let r3 := acyclicB es
  let r4 := closedB fs es
  let r5 := reqsOk es reqs
  let r6 := poolsB g
  let r7 := defaultsB g
  let r8 := installB fs es iroot inst
  let wf := r1 && r2 && r3 && r4 && r5 && r6 && r7 && r8   -- = wellFormedInst g fs reqs iroot inst (by definition)
  let instMissing := if r8 then [] else installMissing fs es iroot inst
  let dup := if r2 then "" else match firstDup (allOuts es) with | some d => encodeStr d.toList | none => ""
  let missing := if r4 then [] else (missingInputs fs es).eraseDups
  let unreached := if r5 then [] else
    (reqs.filter (fun rt => !decide (rt.2 ∈ reachSet es rt.1))).map (fun rt => rt.1 ++ ">" ++ rt.2)
  let stuck := if r3 then 0 else (kahnStuck es.length es).length
  let badrules := (es.filter (fun e => !ruleOk g.rules e)).map (·.rule) |>.eraseDups
  s!"OK|wf={boolStr wf}|rules={boolStr r1}|unique={boolStr r2}|acyclic={boolStr r3}|closed={boolStr r4}|reach={boolStr r5}" ++
  s!"|dup={dup}|missing={encS missing}|unreached={encS unreached}|stuck={stuck}|badrules={encL badrules}" ++
  s!"|edges={es.length}|pools={boolStr r6}|defaults={boolStr r7}|install={boolStr r8}|instmissing={encS instMissing}"

def strs (f : String) : List String := (decodeStrList f).map String.ofList

def decodeEdge (s : String) : Edge String :=
  match s.splitOn ";" with
  | [r, o, i, v, p] => { rule := decodeStr r, outs := strs o, ins := strs i, vals := strs v, pool := decodeStr p }
  | [r, o, i, v] => { rule := decodeStr r, outs := strs o, ins := strs i, vals := strs v }
  | [r, o, i] => { rule := decodeStr r, outs := strs o, ins := strs i }
  | _ => { rule := [], outs := [], ins := [] }

/-! the aggregate targets -/

open MesonModel.Ninja.Ending in
def decodeTri (s : String) : Option Bool := if s == "t" then some true else if s == "f" then some false else none

open MesonModel.Ninja.Ending in
def decodeTarget (s : String) : Option Target :=
  match s.splitOn ";" with
  | [k, d, o, r, b, i, ba, m] =>
    some { kind := if k == "c" then .custom else .build, dir := decodeStr d, out0 := decodeStr o, outRest := decodeStrList r,
           bbdKw := decodeTri b, install := i == "1", buildAlways := decodeTri ba, instMask := m.toList.map (· == '1') }
  | _ => none

open MesonModel.Ninja.Ending in
def decodeRef (tbl : Array Target) (s : String) : Option Ref :=
  let num (pre : String) : Option Target := (s.drop pre.length).toString.toNat? >>= (tbl[·]?)
  if s == "O" then some .other
  else if s.startsWith "LT" then (num "LT").map .localTarget
  else if s.startsWith "LI" then (num "LI").map .localIndex
  else if s.startsWith "T" then (num "T").map .target
  else if s.startsWith "I" then (num "I").map .index
  else none

open MesonModel.Ninja.Ending in
def decodeDRef (tbl : Array Target) (s : String) : Option DRef :=
  match decodeRef tbl s with
  | some (.target t) => some (.target t)
  | some (.index t) => some (.index t)
  | _ => none

def splitNonEmpty (s : String) (sep : String) : List String := if s.trimAscii.isEmpty then [] else s.splitOn sep

open MesonModel.Ninja.Ending in
def decodeTest (tbl : Array Target) (s : String) : Option Test :=
  match s.splitOn ";" with
  | [e, a, d] => do
    let exe ← decodeRef tbl e
    let args ← (splitNonEmpty a ",").mapM (decodeRef tbl)
    let deps ← (splitNonEmpty d ",").mapM (decodeDRef tbl)
    pure { exe := exe, args := args, depends := deps }
  | _ => none

open MesonModel.Ninja.Ending in
def endingCmd (ts tests benches : String) : String :=
  match (splitNonEmpty ts "/").mapM decodeTarget with
  | none => "bad-op"
  | some tbl =>
    let arr := tbl.toArray
    match (splitNonEmpty tests "/").mapM (decodeTest arr), (splitNonEmpty benches "/").mapM (decodeTest arr) with
    | some tl, some bl =>
      match endingEdges tbl tl bl with
      | [a, t, b] =>
        "|".intercalate ["OK", "bbd=" ++ String.join (tbl.map (fun t => boolStr t.buildByDefault)),
          "all=" ++ encL a.ins, "test=" ++ encL t.ins, "bench=" ++ encL b.ins,
          "mand=" ++ encL (tbl.flatMap mandatoryInstall), "opt=" ++ encL (tbl.flatMap optionalInstall),
          "install=" ++ "/".intercalate (installEdges.map (fun e => encL e.outs ++ ";" ++ encL e.ins ++ ";" ++ encodeStr e.rule))]
      | _ => "bad-model"
    | _, _ => "bad-op"

def decodeOp (s : String) : Option Emit.Op :=
  match s.splitOn ";" with
  | ["R", n, rsp] => some (.addRule (decodeStr n) (rsp == "1"))
  | ["B", o, io, rn, i, d, od, long] =>
    some (.addBuild (decodeStrList o) (decodeStrList io) (decodeStr rn) (decodeStrList i) (decodeStrList d)
      (decodeStrList od) (long == "1"))
  | _ => none

def stepAll : List Emit.Op → Emit.State → List Bool → Emit.State × List Bool
  | [], st, acc => (st, acc.reverse)
  | op :: r, st, acc => let (st', ok) := Emit.step st op; stepAll r st' (ok :: acc)

def dumpOut (b : Emit.OutBuild) : String :=
  "B:" ++ ";".intercalate [encL b.outs, encL b.implOuts, encodeStr b.rule, encL b.ins, encL b.deps, encL b.orderdeps]

/-- emit <op>/<op>/…   op = R;name;rspable | B;outs;implOuts;rule;ins;deps;orderdeps;long -/
def emitCmd (ops : String) : String :=
  let parts := if ops.trimAscii.isEmpty then [] else ops.splitOn "/"
  match parts.mapM decodeOp with
  | none => "bad-op"
  | some os =>
    let (st, oks) := stepAll os {} []
    let steps := String.join (oks.map boolStr)
    match Emit.write st with
    | .error .unmappedRule => s!"ERR:UnmappedRule|steps={steps}"
    | .error .multipleProducers => s!"ERR:MultipleProducers|steps={steps}"
    | .error .newline => s!"ERR:Newline|steps={steps}"
    | .error .pipe => s!"ERR:Pipe|steps={steps}"
    | .ok o => "|".intercalate ([s!"OK|steps={steps}", "R:" ++ encL o.rules, "P:" ++ encodeStr (Emit.printBuilds o.builds)]
        ++ o.builds.map dumpOut)

def handle (cmd : String) (fs : List String) : String :=
  match cmd, fs with
  | "parse", [t] =>
    match loadText (decodeStr t) with
    | .error e => e
    | .ok m =>
      "|".intercalate (["OK", "R:" ++ encL (m.rules.map (·.1)), "D:" ++ encL m.defaults, "L:" ++ encL (m.pools.map (·.1))] ++
        m.builds.map (fun b => "E:" ++ dumpEdge b))
  | "leaves", [t] =>
    match loadText (decodeStr t) with
    | .error e => e
    | .ok m =>
      let es := m.graph.edges
      let outs := allOuts es
      "OK|" ++ encS ((es.flatMap (fun e => e.ins ++ e.vals)).eraseDups.filter (fun i => !outs.contains i))
  | "check", [t, f, r] =>
    match loadText (decodeStr t) with
    | .error e => e
    | .ok m => verdict m.graph (strs f) (pairs (strs r))
  | "checkg", [rules, edges, f, r] =>
    let es := if edges.trimAscii.isEmpty then [] else (edges.splitOn "/").map decodeEdge
    verdict { rules := decodeStrList rules, edges := es } (strs f) (pairs (strs r))
  | "checkg", [rules, edges, f, r, pools, dflt] =>
    let es := if edges.trimAscii.isEmpty then [] else (edges.splitOn "/").map decodeEdge
    verdict { rules := decodeStrList rules, edges := es, pools := decodeStrList pools, defaults := strs dflt }
      (strs f) (pairs (strs r))
  | "check", [t, f, r, i] =>
    match loadText (decodeStr t) with
    | .error e => e
    | .ok m => verdict m.graph (strs f) (pairs (strs r)) "install" (strs i)
  | "checkg", [rules, edges, f, r, pools, dflt, iroot, inst] =>
    let es := if edges.trimAscii.isEmpty then [] else (edges.splitOn "/").map decodeEdge
    verdict { rules := decodeStrList rules, edges := es, pools := decodeStrList pools, defaults := strs dflt }
      (strs f) (pairs (strs r)) (String.ofList (decodeStr iroot)) (strs inst)
  | "ending", [ts, tests, benches] => endingCmd ts tests benches
  | "canon", [p] => encodeStr (canonPath (decodeStr p))
  | "quote", [p] =>
    match Emit.ninjaQuoteBuild (decodeStr p) with
    | some q => "OK|" ++ encodeStr q
    | none => "RAISES"
  | "readpath", [t] =>
    -- first path of the text as the lexer reads it (literal pieces only), and what is left
    let s := decodeStr t
    match readPath (s.length + 1) s with
    | .ok (e, r) => "OK|" ++ encodeStr (evalStr [] e) ++ "|" ++ encodeStr r
    | .error e => "ERR:" ++ e.name
  | "emit", [ops] => emitCmd ops
  | _, _ => "bad-op"

end Driver.Ninja
