import Driver.Proto
/- driver commands of area `ninja` (stub until the area is built) -/
namespace Driver.Ninja

def handle (cmd : String) (fs : List String) : String := "bad-op"

end Driver.Ninja
