import Driver.Loop
import Driver.Options

def main : IO Unit := Driver.mainLoop Driver.Options.handle
