import Driver.Loop
import Driver.Tap

def main : IO Unit := Driver.mainLoop Driver.Tap.handle
