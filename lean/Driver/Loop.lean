import Driver.Proto
/-
Generic request loop of a model driver: one request line in, one answer line out.
A request line is `<cmd> <field>|<field>|...` (see Driver/Proto.lean for the field encoding).
-/
namespace Driver

def dispatchWith (handle : String → List String → String) (line : String) : String :=
  let line := (line.dropEndWhile (fun c => c == '\n' || c == '\r')).toString
  match line.splitOn " " with
  | cmd :: rest => handle cmd (fields (" ".intercalate rest))
  | _ => "bad-line"

partial def loop (handle : String → List String → String) (hin hout : IO.FS.Stream) : IO Unit := do
  let line ← hin.getLine
  if line.isEmpty then return ()
  hout.putStrLn (dispatchWith handle line)
  loop handle hin hout

def mainLoop (handle : String → List String → String) : IO Unit := do
  let hin ← IO.getStdin
  let hout ← IO.getStdout
  loop handle hin hout

end Driver
