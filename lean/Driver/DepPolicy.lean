import Driver.Proto
/- driver commands of area `dep` (stub until the area is built) -/
namespace Driver.DepPolicy

def handle (cmd : String) (fs : List String) : String := "bad-op"

end Driver.DepPolicy
