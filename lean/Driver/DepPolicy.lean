import Driver.Proto
import MesonModel.DepPolicy.Model
import MesonModel.DepPolicy.Policy
import MesonModel.DepPolicy.Register
import MesonModel.DepPolicy.Cache
import MesonModel.Generated.DepCacheTable
import MesonModel.Version.Model
import MesonModel.DepPolicy.Wrap
import MesonModel.DepPolicy.WrapFile
/- driver commands of area `dep`:
   `seq  wrap_mode|fff|overrides|cache|system|provides|subprojects|requests`  (C10 a)
   `wrap <config>|<env>|<faults>`                                              (C10 b)
   `wraps <files~dirs>|<fs>|<wrapdb>|<merges>|<nopromote>|<queries>`            (C10 d: wrap files → provider tables) -/
namespace Driver.DepPolicy
open MesonModel.DepPolicy Driver

def sat (found : Str) (wanted : List Str) : Bool :=
  (MesonModel.Version.versionCompareMany found wanted).1

def splitNE (sep : String) (f : String) : List String := if f == "" then [] else f.splitOn sep

def decItem (f : String) : Str := if f == "E" then [] else decodeStr f

def decDep (i f v : String) : Dep := { ident := decodeStr i, found := f == "1", version := decodeStr v }

def parseMode : String → WrapMode
  | "nofallback" => .nofallback | "nodownload" => .nodownload
  | "forcefallback" => .forcefallback | "nopromote" => .nopromote | _ => .default

def parseSub (f : String) : Option Sub :=
  match f.splitOn ";" with
  | [n, st, cf, o, v] =>
    let ovs := (splitNE "+" o).filterMap (fun e => match e.splitOn ":" with
      | [n, i, fd, ver] => some (decodeStr n, decDep i fd ver) | _ => none)
    let vars := (splitNE "+" v).filterMap (fun e => match e.splitOn ":" with
      | [n, "N"] => some (decodeStr n, VarVal.notdep)
      | [n, "D", i, fd, ver] => some (decodeStr n, VarVal.dep (decDep i fd ver)) | _ => none)
    some { name := decodeStr n,
           state := (match st with | "found" => .found | "disabled" => .disabled | _ => .no),
           configureOk := cf == "ok", overrides := ovs, vars := vars }
  | _ => none

def parseWorld (wm fff ov ca sy pr sp : String) : World :=
  { wrapMode := parseMode wm,
    fff := (splitNE "," fff).map decodeStr,
    overrides := (splitNE "," ov).filterMap (fun e => match e.splitOn ":" with
      | [n, i, fd, ver, ex] => some (decodeStr n, decDep i fd ver, ex == "1") | _ => none),
    cache := (splitNE "," ca).filterMap (fun e => match e.splitOn ":" with
      | [n, i, fd, ver] => some (decodeStr n, decDep i fd ver) | _ => none),
    system := (splitNE "," sy).filterMap (fun e => match e.splitOn ":" with
      | [n, v] => some (decodeStr n, decodeStr v) | _ => none),
    provides := (splitNE "," pr).filterMap (fun e => match e.splitOn ":" with
      | [n, s, hv, v] => some (decodeStr n, decodeStr s, if hv == "1" then some (decodeStr v) else none) | _ => none),
    subs := (splitNE "/" sp).filterMap parseSub }

def parseReq (f : String) : Option Request :=
  match f.splitOn "&" with
  | [names, wanted, req, allow, fb] =>
    some { names := (splitNE "," names).map decItem,
           wanted := (splitNE "," wanted).map decodeStr,
           required := req == "1",
           allowFallback := (match allow with | "T" => some true | "F" => some false | _ => none),
           fallback := if fb == "N" then none else some ((splitNE "," (fb.drop 1).toString).map decItem) }
  | _ => none

def showErr : ErrKind → String
  | .invalidArguments => "InvalidArguments" | .interpreter => "InterpreterException"
  | .dependency => "DependencyException" | .configure => "SubprojectConfigureError"

def showOut : Outcome → String
  | .found d => "found:" ++ encodeStr d.ident
  | .notFound => "notfound"
  | .error k => "error:" ++ showErr k

def showEffect : Effect → String
  | .cacheGet n => "cacheget:" ++ encodeStr n
  | .system n => "system:" ++ encodeStr n
  | .doSubproject s => "do_subproject:" ++ encodeStr s
  | .configure s => "configure:" ++ encodeStr s

def insertSorted (x : String) : List String → List String
  | [] => [x]
  | y :: ys => if x < y then x :: y :: ys else y :: insertSorted x ys

def sortStrs (l : List String) : List String := l.foldr insertSorted []

def showDep (d : Dep) : String := s!"{encodeStr d.ident}:{boolStr d.found}:{encodeStr d.version}"

def showWorld (w : World) : String :=
  let ov := sortStrs (w.overrides.map (fun (n, d, e) => s!"{encodeStr n}={showDep d}:{boolStr e}"))
  let ca := sortStrs (w.cache.map (fun (n, d) => s!"{encodeStr n}={showDep d}"))
  let sp := sortStrs (w.subs.map (fun s => s!"{encodeStr s.name}=" ++
    (match s.state with | .no => "no" | .found => "found" | .disabled => "disabled")))
  ",".intercalate ov ++ ";" ++ ",".intercalate ca ++ ";" ++ ",".intercalate sp

def showRes (r : Res) : String :=
  showOut r.out ++ "~" ++ ",".intercalate (r.trace.map showEffect) ++ "~" ++ showWorld r.world


/-! ### C10 (b): wrap acquisition -/
namespace W
open MesonModel.DepPolicy.Wrap

def b (s : String) : Bool := s == "1"

def parseContent (f : String) : Option Content :=
  match f.splitOn "." with
  | [sha, u, c, h] => some { sha := sha.toNat!, unpackOk := b u, createsDir := b c, hasBuildfile := b h }
  | _ => none

def parseFetch (f : String) : Fetch :=
  match f with
  | "W" => .wrapFail
  | "O" => .otherFail
  | _ => match parseContent f with | some c => .ok c | none => .wrapFail

def parseHash (f : String) : Option Hash := if f == "-" then none else some f.toNat!

def parseWhat : String → What
  | "p" => .patch | _ => .source

def parseFP (f : String) : Option FP :=
  match f.splitOn "." with
  | ["fetch", w, fb, i] => some (.fetch (parseWhat w) (b fb) i.toNat!)
  | ["hash", w] => some (.hash (parseWhat w))
  | ["rename", w] => some (.rename (parseWhat w))
  | ["mkdir"] => some .mkdir
  | ["pre", w] => some (.unpackPre (parseWhat w))
  | ["post", w] => some (.unpackPost (parseWhat w))
  | ["unpack2"] => some .unpack2
  | ["copytree"] => some .copyTree
  | ["cachedcopy"] => some .cachedCopy
  | ["diff", i] => some (.diff i.toNat!)
  | _ => none

def parseFaults (f : String) : Faults :=
  let tbl : List (FP × FaultKind) := (splitNE "," f).filterMap (fun e => match e.splitOn "=" with
    | [l, k] => (parseFP l).map (fun fp => (fp, if k == "os" then FaultKind.os else FaultKind.other))
    | _ => none)
  fun fp => match tbl.find? (fun p => p.1 == fp) with | some (_, k) => k | none => .none

def parseCfg (f : String) : Option Cfg :=
  match f.splitOn "," with
  | [nd, sF, sU, sB, sH, pF, pU, pB, pH, pD, lead] =>
    some { nodownload := b nd,
           source := { hasFilename := b sF, hasUrl := b sU, hasFallbackUrl := b sB, hash := parseHash sH },
           hasPatchFilename := b pF,
           patch := { hasFilename := b pF, hasUrl := b pU, hasFallbackUrl := b pB, hash := parseHash pH },
           hasPatchDirectory := b pD, leadDirMissing := b lead }
  | _ => none

def parseEnv (f : String) : Option Env :=
  match f.splitOn ";" with
  | [d, sC, sP, sU, sFb, pC, pP, pU, pFb, pd, diffs] =>
    match d.splitOn ",", pd.splitOn "," with
    | [de, dd, db, cd], [pde, pdb] =>
      some { dirExists := b de, dirIsDir := b dd, dirBuild := b db,
             cachedDir := (if cd == "-" then none else some (b cd)),
             source := { cache := parseContent sC, pkgfile := parseContent sP, url := parseFetch sU, fallbackUrl := parseFetch sFb },
             patch := { cache := parseContent pC, pkgfile := parseContent pP, url := parseFetch pU, fallbackUrl := parseFetch pFb },
             patchDirExists := b pde, patchDirBuild := b pdb,
             diffs := (splitNE "+" diffs).map (fun e => { present := e.startsWith "1", applies := e.endsWith "1" }) }
    | _, _ => none
  | _ => none

def showWhat : What → String | .source => "s" | .patch => "p"

def showEvent : Event → String
  | .fetch w fb => s!"fetch.{showWhat w}.{boolStr fb}"
  | .cacheStore w sha => s!"store.{showWhat w}.{sha}"
  | .used w sha => s!"used.{showWhat w}.{sha}"
  | .usedCachedDir => "cacheddir"
  | .rmtree => "rmtree"

def showErr : Option Err → String
  | none => "ok" | some .wrap => "err:wrap" | some .os => "err:os" | some .other => "err:other"

def showOptSha : Option Content → String
  | none => "-" | some c => toString c.sha

def showResult (r : Result) : String :=
  showErr r.err ++ ";" ++ ",".intercalate (r.st.trace.map showEvent) ++ ";" ++
  s!"{boolStr r.st.dirExists},{boolStr r.st.dirBuild},{showOptSha r.st.cacheS},{showOptSha r.st.cacheP}"

def handleWrap (cfg env faults : String) : String :=
  match parseCfg cfg, parseEnv env with
  | some c, some e => showResult (resolve c e (parseFaults faults))
  | _, _ => "bad-wrap-case"

end W

/-! ### C10 (d): wrap files → `Resolver` tables -/
namespace WF
open MesonModel.DepPolicy.WrapFile

def encI (x : Str) : String := if x.isEmpty then "E" else encodeStr x

def decList (sep : String) (f : String) : List Str := (splitNE sep f).map decItem

def parseListing (f : String) : List Str × List Str :=
  match f.splitOn "~" with
  | [a, b] => (decList "," a, decList "," b)
  | _ => ([], [])

def parseFS (f : String) : FS :=
  (splitNE ";" f).filterMap (fun e => match e.splitOn "=" with
    | [p, t] => some (decList "/" p, decItem t)
    | _ => none)

def parseWrapdb (f : String) : List (Str × List Str × List Str) :=
  (splitNE ";" f).filterMap (fun e => match e.splitOn ":" with
    | [n, d, p] => some (decItem n, decList "+" d, decList "+" p)
    | _ => none)

def parseMerges (f : String) : List (Path × List Str × List Str) :=
  (splitNE ";" f).filterMap (fun e => match e.splitOn "~" with
    | [b, fl, dl] => some (decList "/" b, decList "," fl, decList "," dl)
    | _ => none)

def showOpt : Option Str → String
  | none => "N"
  | some x => "S" ++ encodeStr x

def showErrW (e : WErr) : String :=
  (match e with
   | .keyError => "ERR:KeyError"
   | .unsupported => "ERR:unsupported"
   | .fuel => "ERR:fuel"
   | _ => "ERR:WrapException")

def showPkg (p : PkgDef) : String :=
  encI p.name ++ ":" ++ (match p.type with | none => "-" | some t => String.ofList t) ++ ":" ++ encI p.directory ++ ":" ++
  boolStr p.redirected ++ ":" ++ "+".intercalate (p.providedDeps.map (fun e => encI e.1 ++ "=" ++ showOpt e.2)) ++ ":" ++
  "+".intercalate (p.providedPrograms.map encI)

def showTable (t : List (Str × PkgDef)) : String :=
  ";".intercalate (t.map (fun e => encI e.1 ++ ">" ++ encI e.2.name))

def answer (r : Resolver) (q : String) : String :=
  match q.splitOn ":" with
  | ["d", n] => let a := findDepProvider r (decItem n); showOpt a.1 ++ "," ++ showOpt a.2
  | ["v", sp, n] => showOpt (getVarname r (decItem sp) (decItem n))
  | ["p", ns] => showOpt (findProgramProvider r (decList "+" ns))
  | ["g", n] => showOpt (getDirectory r (decItem n))
  | _ => "bad-query"

def mergeAll (fs : FS) (np : Bool) (wrapdb : List (Str × List Str × List Str)) :
    List (Path × List Str × List Str) → Resolver → Except WErr Resolver
  | [], r => .ok r
  | (b, fl, dl) :: rest, r =>
    match loadAndMerge fs 16 np r b fl dl [] with
    | .error e => .error e
    | .ok r' => mergeAll fs np wrapdb rest r'

def handleWraps (listing fsF wrapdbF mergesF np queries : String) : String :=
  let (files, dirs) := parseListing listing
  let fs := parseFS fsF
  let wrapdb := parseWrapdb wrapdbF
  match loadWraps fs 16 [] files dirs wrapdb with
  | .error e => showErrW e
  | .ok r0 =>
    match mergeAll fs (np == "1") wrapdb (parseMerges mergesF) r0 with
    | .error e => "M" ++ showErrW e
    | .ok r =>
      "ok~" ++ ";".intercalate (r.wraps.map (fun e => showPkg e.2)) ++ "~" ++ showTable r.providedDeps ++ "~" ++
      showTable r.providedPrograms ++ "~" ++ ";".intercalate ((splitNE ";" queries).map (answer r))

end WF

def showPOut : POutcome → String
  | .found d => "found:" ++ encodeStr d.ident
  | .notFound => "notfound"
  | .error => "error"

def parseRegOp (f : String) : Option (Str × Dep × Option Bool × DefLib × Bool) :=
  match f.splitOn ":" with
  | [n, i, fd, ver, st, nat, dl] =>
    some (decItem n, decDep i fd ver,
          (match st with | "t" => some true | "f" => some false | _ => none),
          (match dl with | "static" => DefLib.static | "both" => DefLib.both | _ => DefLib.shared),
          nat == "1")
  | _ => none

def showKey (e : Key × Dep × Bool) : String :=
  (if e.1.native then "B" else "H") ++ "|" ++ encodeStr e.1.name ++ "|" ++
  (match e.1.static with | none => "n" | some true => "t" | some false => "f") ++ "=" ++ encodeStr e.2.1.ident

def handleReg (f : String) : String :=
  let ops := ((splitNE "/" f).map (fun g => (splitNE "," g).filterMap parseRegOp)).flatten
  match registerAll [] ops with
  | none => "error"
  | some t => ",".intercalate (sortStrs (t.map showKey))

/-! ### C10 (c): the dependency cache -/
namespace CA
open MesonModel.DepPolicy.Cache

def parseVal (f : String) : List (List Char) := (splitNE "+" f).map decodeStr

def parseType : String → CType
  | "p" => .pkgconfig | "c" => .cmake | _ => .other

def parseOp (f : String) : Option Op :=
  match f.splitOn ":" with
  | ["s", m, "p", v] => some (.setPkg (m == "b") (parseVal v))
  | ["s", m, "c", v] => some (.setCmake (m == "b") (parseVal v))
  | ["p", m, i, t, id] => some (.put (m == "b") (decodeStr i) (decodeStr id) (parseType t))
  | ["g", m, i] => some (.get (m == "b") (decodeStr i))
  | ["c", m] => some (.clear (m == "b"))
  | _ => none

def handleCache (f : String) : String :=
  let ops := (splitNE "," f).filterMap parseOp
  let (_, answers) := run MesonModel.Generated.DepCacheTable.table init ops
  ",".intercalate (answers.map (fun a => match a with | none => "-" | some d => encodeStr d.id))

end CA

def handle (cmd : String) (fs : List String) : String :=
  match cmd, fs with
  | "seq", [wm, fff, ov, ca, sy, pr, sp, reqs] =>
    let w := parseWorld wm fff ov ca sy pr sp
    let rs := (splitNE "#" reqs).filterMap parseReq
    "#".intercalate ((lookupSeq sat w rs).map showRes)
  | "pol", [wm, fff, ov, ca, sy, pr, sp, reqs] =>
    let w := parseWorld wm fff ov ca sy pr sp
    let rs := (splitNE "#" reqs).filterMap parseReq
    "#".intercalate ((policySeq sat w rs).map (fun p => showPOut p.1 ++ "~" ++ showWorld p.2))
  | "reg", [ops] => handleReg ops
  | "cache", [ops] => CA.handleCache ops
  | "wrap", [cfg, env, faults] => W.handleWrap cfg env faults
  | "wraps", [listing, fs, wrapdb, merges, np, queries] => WF.handleWraps listing fs wrapdb merges np queries
  | _, _ => "bad-op"

end Driver.DepPolicy
