import MesonModel.Lang.Sexp
import Driver.Proto
/-
Driver commands of area `lang` (lexer + parser + raw printer model).

  lex   <code>            -> `<tok> <tok> …` (+ ` !<lineno>:<colno>` when the lexer raises), see `tokS`
  parse <code>|<names>    -> `OK|<dropped-not count>|<emit>|<sexp>`  (`<emit>` is `=` when the raw print equals
                             the input, else the printed text as a `strS` string)  or  `ERR:<class>[:line:col]`
  tree  <code>|<names>    -> canonical S-expression of the parsed tree (see MesonModel/Lang/Sexp.lean) or `ERR:…`
  emit  <code>|<names>    -> raw-printed text (code points) or `ERR:…`

`<names>` (optional) resolves `\N{name}` escapes: items `<name code points>=<code point>` separated by `,`.
-/
namespace Driver.Lang
open MesonModel.Lang Driver

def parseNames (f : String) : List (Str × Nat) :=
  if f.trimAscii.isEmpty then [] else
  (f.splitOn ",").filterMap (fun item =>
    match item.splitOn "=" with
    | [n, v] => (v.trimAscii.toString.toNat?).map (fun cp => (decodeStr n, cp))
    | _ => none)

def lexS (code : Str) : String :=
  let r := lex code
  let ts := " ".intercalate (r.toks.map tokS)
  match r.err with
  | some (l, c) => ts ++ s!" !{l}:{c}"
  | none => if r.fuelOut then ts ++ " !FUEL" else ts

def parseS (code : Str) (names : List (Str × Nat)) : String :=
  match parseWith names code with
  | .error e => errS e
  | .ok r =>
    let out := emit r.tree
    let e := if out == code then "=" else strS out
    s!"OK|{r.lossy}|{e}|{sexp r.tree}"

def handle (cmd : String) (fs : List String) : String :=
  let code := decodeStr (fs.headD "")
  let names := parseNames ((fs.drop 1).headD "")
  match cmd with
  | "lex" => lexS code
  | "parse" => parseS code names
  | "tree" => match parseWith names code with
    | .error e => errS e
    | .ok r => sexp r.tree
  | "emit" => match parseWith names code with
    | .error e => errS e
    | .ok r => encodeStr (emit r.tree)
  | _ => "bad-op"

end Driver.Lang
