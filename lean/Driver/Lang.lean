import Driver.Proto
/- driver commands of area `lang` (stub until the area is built) -/
namespace Driver.Lang

def handle (cmd : String) (fs : List String) : String := "bad-op"

end Driver.Lang
