import Driver.Proto
import Driver.Version

def dispatch (line : String) : String :=
  let line := (line.dropEndWhile (fun c => c == '\n' || c == '\r')).toString
  match line.splitOn " " with
  | area :: cmd :: rest =>
    let payload := " ".intercalate rest
    let fs := Driver.fields payload
    match area with
    | "ver" => Driver.Version.handle cmd fs
    | _ => "bad-area"
  | _ => "bad-line"

partial def loop (hin : IO.FS.Stream) (hout : IO.FS.Stream) : IO Unit := do
  let line ← hin.getLine
  if line.isEmpty then return ()
  hout.putStrLn (dispatch line)
  loop hin hout

def main : IO Unit := do
  let hin ← IO.getStdin
  let hout ← IO.getStdout
  loop hin hout
