import Driver.Proto
import MesonModel.Crash.Model
import MesonModel.Crash.Buffered
/-
driver commands of area `crash` (C09)

  bufsize <sizes>|<beffects>               byte-level model (Crash/Buffered.lean) on a logged effect prefix: for each state
                                           file `a` (absent) or `<lo>-<hi>`: its size when nothing leaves the buffers
                                           before flush/close, and when every write goes through at once
             <sizes>    `;`-separated id:nbytes of the files that exist beforehand
             <beffects> as <effects>, with w:p:nbytes and cl:p
  crash <cmd>|<init>|<effects>|<k>|<mode>|<mf>   state after a kill at effect k (mode b = before, t = inside) + recovery verdict
  scan  <cmd>|<init>|<effects>|<mf>         number of crash points and the unacceptable ones as k:mode:verdict

  <cmd>      setup | reconfigure | wipe | configure
  <init>     `;`-separated  id:st      st = a (absent) | d (dir) | t (torn) | o0 | o1 | o2 (ok older/old/new)
  <effects>  `;`-separated  ow:p oa:p w:p fl:p fs:p cl:p:g rp:s:d cp:s:d ul:p rd:p mk:p ot:p
-/
namespace Driver.Crash
open MesonModel.Crash

def parseGen (s : String) : Option Gen :=
  match s with
  | "0" => some .older
  | "1" => some .old
  | "2" => some .new
  | _ => none

def showGen : Gen → String
  | .older => "0"
  | .old => "1"
  | .new => "2"

def parseSt (s : String) : Option (FileSt Gen) :=
  match s with
  | "a" => some .absent
  | "d" => some .dir
  | "t" => some .torn
  | "o0" => some (.ok .older)
  | "o1" => some (.ok .old)
  | "o2" => some (.ok .new)
  | _ => none

def showSt : FileSt Gen → String
  | .absent => "a"
  | .dir => "d"
  | .torn => "t"
  | .ok g => "o" ++ showGen g

def parseInit (f : String) : Option (List (Path × FileSt Gen)) :=
  if f.trimAscii.isEmpty then some [] else
  (f.splitOn ";").mapM (fun item =>
    match item.splitOn ":" with
    | [p, st] => do
      let p ← p.toNat?
      let st ← parseSt st
      pure (p, st)
    | _ => none)

def parseEffect (item : String) : Option (Effect Gen) :=
  match item.splitOn ":" with
  | ["ow", p] => p.toNat?.map .openW
  | ["oa", p] => p.toNat?.map .openA
  | ["w", p] => p.toNat?.map .write
  | ["fl", p] => p.toNat?.map .flush
  | ["fs", p] => p.toNat?.map .fsync
  | ["cl", p, g] => do
    let p ← p.toNat?
    let g ← parseGen g
    pure (.close p g)
  | ["rp", s, d] => do
    let s ← s.toNat?
    let d ← d.toNat?
    pure (.replace s d)
  | ["cp", s, d] => do
    let s ← s.toNat?
    let d ← d.toNat?
    pure (.copyfile s d)
  | ["ul", p] => p.toNat?.map .unlink
  | ["rd", p] => p.toNat?.map .rmdir
  | ["mk", p] => p.toNat?.map .mkdir
  | ["ot", p] => p.toNat?.map .other
  | _ => none

def parseEffects (f : String) : Option (List (Effect Gen)) :=
  if f.trimAscii.isEmpty then some [] else (f.splitOn ";").mapM parseEffect

def parseCmd (s : String) : Option Cmd :=
  match s with
  | "setup" => some .setup
  | "reconfigure" => some .reconfigure
  | "wipe" => some .wipe
  | "configure" => some .configure
  | _ => none

def showVerdict : Verdict Gen → String
  | .usable (.coredata g) => "usable:cd:" ++ showGen g
  | .usable (.cmdline g) => "usable:cl:" ++ showGen g
  | .usable .fresh => "usable:fresh"
  | .rejectedCleanly => "rejected"
  | .internalError => "internal"

def statePaths : List Path := [0, 1, 2, 3, 4, 5, 6, 7, 8]

def parseBufEffect (item : String) : Option (Buf.Eff Unit) :=
  match item.splitOn ":" with
  | ["ow", p] => p.toNat?.map .openW
  | ["oa", p] => p.toNat?.map .openA
  | ["w", p, n] => do
    let p ← p.toNat?
    let n ← n.toNat?
    pure (.write p (List.replicate n ()))
  | ["fl", p] => p.toNat?.map .flush
  | ["fs", p] => p.toNat?.map .fsync
  | ["cl", p] => p.toNat?.map .close
  | ["rp", s, d] => do
    let s ← s.toNat?
    let d ← d.toNat?
    pure (.replace s d)
  | ["cp", s, d] => do
    let s ← s.toNat?
    let d ← d.toNat?
    pure (.copy s d)
  | ["ul", p] => p.toNat?.map .unlink
  | ["rd", p] => p.toNat?.map .fsync
  | ["mk", p] => p.toNat?.map .fsync
  | ["ot", p] => p.toNat?.map .fsync
  | _ => none

def parseSizes (f : String) : Option (List (Path × Nat)) :=
  if f.trimAscii.isEmpty then some [] else
  (f.splitOn ";").mapM (fun item =>
    match item.splitOn ":" with
    | [p, n] => do
      let p ← p.toNat?
      let n ← n.toNat?
      pure (p, n)
    | _ => none)

def bufFilePaths : List Path := [0, 1, 2, 3, 4, 5, 6, 8]

def handle (cmd : String) (fs : List String) : String :=
  match cmd, fs with
  | "crash", [c, ini, effs, k, mode, mf] =>
    match parseCmd c, parseInit ini, parseEffects effs, k.toNat? with
    | some c, some ini, some effs, some k =>
      let s := crashAt (FS.ofList ini) effs k (mode == "t")
      let v := recover s
      showVerdict v ++ "|" ++ ",".intercalate (statePaths.map (fun p => showSt (s p)))
        ++ "|" ++ boolStr (acceptable c (mf == "1") v) ++ "|" ++ boolStr (needsReconfigure s)
    | _, _, _, _ => "bad-args"
  | "bufsize", [sizes, effs] =>
    let items := if effs.trimAscii.isEmpty then some [] else (effs.splitOn ";").mapM parseBufEffect
    match parseSizes sizes, items with
    | some sz, some t =>
      let s0 : Buf.St Unit :=
        ⟨fun p => (sz.lookup p).map (fun n => List.replicate n ()), fun _ => none⟩
      let lo := (Buf.runS s0 t).file
      let hi := (Buf.runS s0 (Buf.writeThrough t)).file
      ",".intercalate (bufFilePaths.map (fun p =>
        match lo p, hi p with
        | some a, some b => toString a.length ++ "-" ++ toString b.length
        | none, none => "a"
        | _, _ => "?"))
    | _, _ => "bad-args"
  | "scan", [c, ini, effs, mf] =>
    match parseCmd c, parseInit ini, parseEffects effs with
    | some c, some ini, some effs =>
      let fs0 := FS.ofList ini
      let pts := (List.range (effs.length + 1)).flatMap (fun k =>
        let hasMid := match effs[k]? with
          | some e => (mid (run fs0 (effs.take k)) e).isSome
          | none => false
        if hasMid then [(k, false), (k, true)] else [(k, false)])
      let bad := pts.filterMap (fun (k, t) =>
        let v := recover (crashAt fs0 effs k t)
        if acceptable c (mf == "1") v then none
        else some (toString k ++ ":" ++ (if t then "t" else "b") ++ ":" ++ showVerdict v))
      toString pts.length ++ "|" ++ ";".intercalate bad
    | _, _, _ => "bad-args"
  | _, _ => "bad-op"

end Driver.Crash
