import Driver.Proto
/- driver commands of area `crash` (stub until the area is built) -/
namespace Driver.Crash

def handle (cmd : String) (fs : List String) : String := "bad-op"

end Driver.Crash
