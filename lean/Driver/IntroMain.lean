import Driver.Loop
import Driver.Intro

def main : IO Unit := Driver.mainLoop Driver.Intro.handle
