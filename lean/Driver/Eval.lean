import Driver.Proto
/- driver commands of area `eval` (stub until the area is built) -/
namespace Driver.Eval

def handle (cmd : String) (fs : List String) : String := "bad-op"

end Driver.Eval
