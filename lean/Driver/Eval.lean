import Driver.Proto
import MesonModel.Eval.Model
/-
Driver commands of area `eval` (C01).

`run <program>`: `<program>` is the prefix encoding of the tree the real parser produced (written by
`harness/c01_impl.py: serialise`): blank-separated tokens,
  nodes  := <count> node*           str := <len> codepoint*
  args   := <orderErr 0|1> nodes <nkw> (node node)*
  node   := S ln str | F ln str | B ln 0|1 | N ln int | I ln str | A ln args | D ln <n> (node node)*
          | and ln node node | or ln node node | not ln node | neg ln node | ar ln op node node
          | cmp ln op node node | idx ln node node | tern ln node node node | par ln node
          | asg ln str node | pasg ln str node | call ln str args | meth ln node str args
          | if ln <n> (node nodes)* <hasElse> nodes | for ln <n> str* node nodes | cont ln | brk ln | unk ln
`runfs <program>|<dir>|<program>|…`: the same with the other `meson.build` files of the source tree
(directory relative to the source root as a code-point string, block without the `project()` line).
Answer: `OK|name=value;…|messages|tags` or `ERR:<class>:<line>|messages|tags` (values in the canonical
syntax of `harness/c01_impl.py: canon`).
-/
namespace Driver.Eval
open MesonModel.Eval Driver

abbrev P := StateT (List String) Option

def tok : P String := fun ts => match ts with | t :: r => some (t, r) | [] => none
def nat : P Nat := do let t ← tok; match t.toNat? with | some n => pure n | none => failure
def int : P Int := do let t ← tok; match t.toInt? with | some n => pure n | none => failure

def rep {α} (p : P α) : Nat → P (List α)
  | 0 => pure []
  | n + 1 => do let a ← p; let r ← rep p n; pure (a :: r)

def str : P Str := do
  let n ← nat
  let cs ← rep nat n
  pure (cs.map Char.ofNat)

def arithOf : String → Option ArithOp
  | "add" => some .add | "sub" => some .sub | "mul" => some .mul | "div" => some .div | "mod" => some .mod
  | _ => none

def cmpOf : String → Option CmpOp
  | "eq" => some .eq | "ne" => some .ne | "lt" => some .lt | "le" => some .le | "gt" => some .gt
  | "ge" => some .ge | "in" => some .in_ | "notin" => some .notin | _ => none

mutual
partial def node : P Node := do
  let t ← tok
  let ln ← nat
  match t with
  | "S" => do let s ← str; pure (.str ln s)
  | "F" => do let s ← str; pure (.fstr ln s)
  | "B" => do let b ← nat; pure (.bool ln (b != 0))
  | "N" => do let i ← int; pure (.num ln i)
  | "I" => do let s ← str; pure (.id ln s)
  | "A" => do let (oe, pos, kw) ← args; pure (.arr ln pos kw oe)
  | "D" => do let n ← nat; let kw ← rep pair n; pure (.dict ln kw)
  | "and" => do let l ← node; let r ← node; pure (.and_ ln l r)
  | "or" => do let l ← node; let r ← node; pure (.or_ ln l r)
  | "not" => do let v ← node; pure (.not_ ln v)
  | "neg" => do let v ← node; pure (.uminus ln v)
  | "ar" => do
    let o ← tok
    match arithOf o with
    | some op => do let l ← node; let r ← node; pure (.arith ln op l r)
    | none => failure
  | "cmp" => do
    let o ← tok
    match cmpOf o with
    | some op => do let l ← node; let r ← node; pure (.cmp ln op l r)
    | none => failure
  | "idx" => do let o ← node; let i ← node; pure (.index ln o i)
  | "tern" => do let c ← node; let a ← node; let b ← node; pure (.tern ln c a b)
  | "par" => do let i ← node; pure (.paren ln i)
  | "asg" => do let n ← str; let v ← node; pure (.assign ln n v)
  | "pasg" => do let n ← str; let v ← node; pure (.plusassign ln n v)
  | "call" => do let f ← str; let (oe, pos, kw) ← args; pure (.call ln f pos kw oe)
  | "meth" => do let o ← node; let m ← str; let (oe, pos, kw) ← args; pure (.method ln o m pos kw oe)
  | "if" => do
    let n ← nat
    let ifs ← rep (do let c ← node; let b ← nodes; pure (c, b)) n
    let he ← nat
    let els ← nodes
    pure (.ifc ln ifs (he != 0) els)
  | "for" => do
    let n ← nat
    let vs ← rep str n
    let it ← node
    let b ← nodes
    pure (.foreach ln vs it b)
  | "cont" => pure (.cont ln)
  | "brk" => pure (.brk ln)
  | "unk" => pure (.unknown ln)
  | _ => failure
partial def nodes : P (List Node) := do let n ← nat; rep node n
partial def pair : P (Node × Node) := do let k ← node; let v ← node; pure (k, v)
partial def args : P (Bool × List Node × List (Node × Node)) := do
  let oe ← nat
  let pos ← nodes
  let n ← nat
  let kw ← rep pair n
  pure (oe != 0, pos, kw)
end

def parseProgram (f : String) : Option (List Node) :=
  match nodes ((f.splitOn " ").filter (fun w => !w.isEmpty)) with
  | some (p, []) => some p
  | _ => none

/-! ### canonical output -/

def showStr (s : Str) : String := "s" ++ ".".intercalate (s.map (fun c => toString c.toNat))

partial def showVal : Val → String
  | .int i => "i" ++ toString i
  | .bool b => if b then "t" else "f"
  | .str s => showStr s
  | .arr l => "[" ++ ",".intercalate (l.map showVal) ++ "]"
  | .dict d => "{" ++ ",".intercalate (d.map (fun e => showStr e.1 ++ ":" ++ showVal e.2)) ++ "}"
  | .range a b c => s!"r{a}.{b}.{c}"
  | .subproj n _ => "p" ++ showStr n

def tyName : Ty → String
  | .int => "int" | .bool => "bool" | .str => "str" | .arr => "array" | .dict => "dict" | .range => "range"
  | .subproj => "subproject"

def errName : ErrK → String
  | .invalidArguments => "InvalidArguments" | .invalidCode => "InvalidCode"
  | .interpreterException => "InterpreterException" | .mesonException => "MesonException"
  | .pyTypeError => "TypeError" | .breakRequest => "BreakRequest" | .continueRequest => "ContinueRequest"
  | .subdirDoneRequest => "SubdirDoneRequest"
  | .unsupported => "UNSUPPORTED"

def opName : Op → String
  | .plus => "+" | .minus => "-" | .times => "*" | .div => "/" | .mod => "%" | .uminus => "uminus"
  | .not_ => "not" | .bool => "bool()" | .equals => "==" | .notEquals => "!=" | .greater => ">"
  | .less => "<" | .greaterEquals => ">=" | .lessEquals => "<=" | .in_ => "in" | .notIn => "not-in"
  | .index => "[]"

def resName : Option ErrK → String
  | none => "ok"
  | some e => errName e

def showTag : Tag → String
  | .bin l op r pa res => s!"op:{tyName l}{if pa then "+=" else opName op}{tyName r}:{resName res}"
  | .unary op t res => s!"un:{opName op}:{tyName t}:{resName res}"
  | .method t n res => s!"m:{tyName t}.{String.ofList n}:{resName res}"
  | .func n => s!"f:{String.ofList n}"
  | .foreach t res => s!"foreach:{match t with | some t => tyName t | none => "void"}:{resName res}"
  | .expandKwargs res => s!"expand_kwargs:{resName res}"
  | .note n => String.ofList n

def insertSortedS (x : String) : List String → List String
  | [] => [x]
  | y :: r => if x < y then x :: y :: r else if x == y then y :: r else y :: insertSortedS x r

def showTags (l : List Tag) : String :=
  ",".intercalate ((l.map showTag).foldl (fun acc t => insertSortedS t acc) [])

def showVars (vs : List (Str × Val)) : String :=
  let items := vs.map (fun e => (String.ofList e.1, showVal e.2))
  let sorted := items.foldl (fun acc t =>
    let rec ins : List (String × String) → List (String × String)
      | [] => [t]
      | y :: r => if t.1 < y.1 then t :: y :: r else y :: ins r
    ins acc) []
  ";".intercalate (sorted.map (fun e => e.1 ++ "=" ++ e.2))

def showMsgs (l : List Str) : String := ",".intercalate (l.map showStr)

def showRes (r : Res Unit) : String :=
  match r with
  | .ok _ s => s!"OK|{showVars s.vars}|{showMsgs s.out}|{showTags s.cov}"
  | .err e s => s!"ERR:{errName e}:{s.line}|{showMsgs s.out}|{showTags s.cov}"
  | .sig b s => s!"ERR:{if b then "BreakRequest" else "ContinueRequest"}:0|{showMsgs s.out}|{showTags s.cov}"
  | .done s => s!"ERR:SubdirDoneRequest:0|{showMsgs s.out}|{showTags s.cov}"

/-- `path|block|path|block|…` : the other build files of the source tree -/
def parseFiles : List String → Option Files
  | [] => some []
  | p :: b :: r =>
    match parseProgram b, parseFiles r with
    | some blk, some rest => some ((decodeStr p, blk) :: rest)
    | _, _ => none
  | _ => none

def handle (cmd : String) (fs : List String) : String :=
  match cmd, fs with
  | "run", [p] =>
    match parseProgram p with
    | some prog => showRes (runProgram prog)
    | none => "bad-program"
  | "runfs", p :: rest =>
    match parseProgram p, parseFiles rest with
    | some prog, some files => showRes (runProgramIn files prog)
    | _, _ => "bad-program"
  | _, _ => "bad-op"

end Driver.Eval
