import Driver.Loop
import Driver.Template

def main : IO Unit := Driver.mainLoop Driver.Template.handle
