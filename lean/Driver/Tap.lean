import Driver.Proto
/- driver commands of area `tap` (stub until the area is built) -/
namespace Driver.Tap

def handle (cmd : String) (fs : List String) : String := "bad-op"

end Driver.Tap
