import MesonModel.Tap.Model
import MesonModel.Tap.Consumer
import Driver.Proto
/- driver commands of area `tap` -/
namespace Driver.Tap
open MesonModel.Tap MesonModel.Py Driver

def showStr (s : List Char) : String := encodeStr s

def showOpt : Option (List Char) → String
  | none => "N"
  | some s => "S" ++ encodeStr s

def showOptNat : Option Nat → String
  | none => "None"
  | some n => toString n

def showErr : Err → String
  | .yamlNotTerminated n => s!"yaml:{showOptNat n}"
  | .lateTest => "late"
  | .exceedsPlan => "exceeds"
  | .invalidDirective d => s!"baddir:{showStr d}"
  | .secondPlan => "plan2"
  | .planSkipInvalid => "planskip"
  | .planDirectiveInvalid => "plandir"
  | .versionNotFirst => "verpos"
  | .versionTooLow => "verlow"
  | .tooFew a b => s!"few:{a}:{b}"
  | .tooMany a b => s!"many:{a}:{b}"
  | .duplicate a b => s!"dup:{a}:{b}"
  | .missing a b => s!"miss:{a}:{b}"
  | .testNumberTooLarge => "numlarge"
  | .planCountTooLarge => "planlarge"
  | .versionTooLarge => "verlarge"

def showEvent : Event → String
  | .plan p => s!"P:{p.numTests}:{boolStr p.late}:{boolStr p.skipped}:{showOpt p.explanation}"
  | .bailout m => s!"B:{showStr m}"
  | .test n name r e => s!"T:{n}:{showStr name}:{r.name}:{showOpt e}"
  | .error e => s!"E:{showErr e}"
  | .unknown m n => s!"U:{showStr m}:{n}"
  | .version v => s!"V:{v}"

def showEvents (es : List Event) : String := ";".intercalate (es.map showEvent)

def showClass : LineClass → String
  | .skip => "skip"
  | .test ok num name dir expl => s!"test:{boolStr ok}:{showOpt num}:{showStr name}:{showOpt dir}:{showOpt expl}"
  | .plan ds dir expl => s!"plan:{showStr ds}:{showOpt dir}:{showOpt expl}"
  | .bailout m => s!"bail:{showStr m}"
  | .version ds => s!"version:{showStr ds}"
  | .unknown => "unknown"

/-- `n|item,item,…` (the count disambiguates `[]` from `['']`) -/
def decodeLines (n : String) (f : String) : List (List Char) :=
  if n.trimAscii.toString == "0" then [] else (f.splitOn ",").map decodeStr

def parseOpt (f : String) : Option (List Char) :=
  if f.startsWith "S" then some (decodeStr (f.drop 1).toString) else none

def showMode : Mode → String
  | .main => "1" | .afterTest => "2" | .yaml => "3"

def showState (s : PState) : String :=
  let p := match s.plan with
    | none => "None"
    | some p => s!"{p.numTests}:{boolStr p.late}:{boolStr p.skipped}:{showOpt p.explanation}"
  s!"{showMode s.state}/{p}/{s.numTests}/{s.lastTest}/{s.highestTest}/{boolStr s.foundLateTest}/{boolStr s.bailedOut}/{s.version}/{s.lineno}/{showOptNat s.yamlLineno}/{showStr s.yamlIndent}"

/-- `n1|ls1|n2|ls2|…` -/
def decodeStreams : List String → List (List (List Char))
  | n :: ls :: rest => decodeLines n ls :: decodeStreams rest
  | _ => []

def resultOfName (s : String) : TestResult :=
  match TestResult.all.find? (fun r => r.name == s) with
  | some r => r
  | none => .RUNNING

def showTrailer : WarnTrailer → String
  | .none => "none" | .ignored => "ignored" | .probablyBug => "bug"

/-- canonical text of a `TestRunTAP` after `parse` + `complete` -/
def showRun (t : RunTAP) : String :=
  let pr := passedRan t
  let prs := if t.results.isEmpty then "" else if pr.1 = pr.2 then s!"{pr.1}" else s!"{pr.1}/{pr.2}"
  let errs := ",".intercalate (t.errs.map showErr)
  let warns := ",".intercalate (t.warns.map (fun w => s!"{w.2}:{showStr w.1}"))
  let logged := ",".intercalate (t.logged.map (fun l => s!"{showStr l.1}:{l.2.1.name}:{showOpt l.2.2}"))
  s!"res={t.res.name}|results={showEvents t.results}|errs={errs}|warns={warns}|trailer={showTrailer t.trailer}|note={boolStr t.exitNote}|logged={logged}|pr={prs}"

def handle (cmd : String) (fs : List String) : String :=
  match cmd, fs with
  | "consume", [ef, inter, rc, res0, n, ls] =>
    showRun (runTAP (ef == "1") (inter == "1") rc.toInt! (resultOfName res0) (parse (decodeLines n ls)))
  | "reuse", [n1, ls1, n2, ls2] => showEvents (reuse (decodeLines n1 ls1) (decodeLines n2 ls2))
  | "session", fs => "|".intercalate ((session Proc.boot (decodeStreams fs)).2.map showEvents)
  | "cls", [l] => showClass (classify (rstrip (decodeStr l)))
  | "yaml", [l] =>
    let l := decodeStr l
    s!"{showOpt (yamlStart l)}:{boolStr (yamlEnd l)}"
  | "ptest", [ok, num, name, dir, expl] =>
    showEvents (parseTest (ok == "1") num.toNat! (decodeStr name) (parseOpt dir) (parseOpt expl))
  | "parse", [n, ls] =>
    match parseE (decodeLines n ls) with
    | .ok evs => showEvents evs
    | .error .valueError => "RAISE:ValueError"
  | "lines", [t] => ",".intercalate ((outputLines (decodeStr t)).map encodeStr)
  | "state", [n, ls] => showState (run PState.init (decodeLines n ls)).1
  | "verdict", [ef, inter, rc, n, ls] =>
    (verdict (ef == "1") (inter == "1") rc.toInt! (parse (decodeLines n ls))).name
  | _, _ => "bad-op"

end Driver.Tap
