import Driver.Proto
/- driver commands of area `sched` (stub until the area is built) -/
namespace Driver.Sched

def handle (cmd : String) (fs : List String) : String := "bad-op"

end Driver.Sched
