import Driver.Proto
import MesonModel.Sched.Model
import MesonModel.Sched.Select
import MesonModel.Sched.Report
import MesonModel.Sched.Timeout
import MesonModel.Sched.Args
/- driver commands of area `sched` (C12) -/
namespace Driver.Sched
open MesonModel.Sched Driver

def natOf (s : String) : Nat := (s.trimAscii.toString.toNat?).getD 0

def intOf (s : String) : Int :=
  let t := s.trimAscii.toString
  if t.startsWith "-" then - Int.ofNat ((t.drop 1).toString.toNat?.getD 0) else Int.ofNat (t.toNat?.getD 0)

def words (s : String) : List String := (s.splitOn " ").filter (fun w => !w.isEmpty)

def parseEvent (w : String) : Option Event :=
  if w.startsWith "s" then (w.drop 1).toString.toNat?.map Event.start
  else if w.startsWith "r" then
    match (w.drop 1).toString.splitOn ":" with
    | [i, r] => do
      let i ← i.toNat?
      let r ← TestResult.ofName? r
      pure (Event.result i r)
    | _ => none
  else none

def showSt : St → String
  | .notLaunched => "N" | .waiting => "W" | .running false => "R" | .running true => "C"
  | .done r => "D:" ++ r.name | .skipped => "S" | .cancelled => "X"

def showMain : Main → String
  | .top => "top" | .waitSerial => "waitSerial" | .final => "final" | .finished => "finished"

def showTally (t : Tally) : String :=
  ",".intercalate ([t.ok, t.expectedFail, t.fail, t.unexpectedPass, t.skip, t.ignored, t.timeout].map toString)

def showErr : ReplayErr → String
  | .notLaunchable => "notLaunchable" | .startNotEnabled => "startNotEnabled"
  | .resultNotEnabled => "resultNotEnabled" | .notFinished => "notFinished"

def showState (c : Config) (s : State) : String :=
  let sts := " ".intercalate ((List.range c.n).map (fun j => showSt (s.st j)))
  s!"main={showMain s.main} jobs={c.jobs} st=[{sts}] tally={showTally s.tally} exit={s.tally.exitStatus} maxfail_reached={boolStr s.maxfailReached}"

def parseWait : String → WaitOutcome
  | "timeout" => .timedOut | "cancel" => .cancelled | _ => .exited

def parseOptInt (s : String) : Option Int := if s.trimAscii.isEmpty then none else some (intOf s)

/-- tests field: `name:project:suite,suite;…` (all strings code-point encoded) -/
def parseTests (f : String) : List TestDesc :=
  if f.trimAscii.isEmpty then [] else
  (f.splitOn ";").map (fun t =>
    match t.splitOn ":" with
    | [n, p, ss] => { name := decodeStr n, project := decodeStr p, suites := decodeStrList ss }
    | _ => { name := [], project := [], suites := [] })

def parseSlice (f : String) : Option (Nat × Nat) :=
  match f.trimAscii.toString.splitOn "/" with
  | [a, b] => some (natOf a, natOf b)
  | _ => none

def showIdx (l : List Nat) : String := " ".intercalate (l.map toString)

def showResults (l : List TestResult) : String :=
  if l.isEmpty then "-" else ",".intercalate (l.map TestResult.name)

def parseROp (w : String) : Option ROp :=
  if w == "!" then some .reach else (TestResult.ofName? w).map ROp.result

def showReport (h : Report) : String :=
  let rows := " ".intercalate (h.tally.summaryRows.map (fun p => s!"{p.1}:{p.2}"))
  s!"{showTally h.tally};{h.exitStatus};{rows};{showResults h.collected};{boolStr h.maxfailReached};{showResults h.logged};{h.tally.printedTotal}"

def eventResults : List Event → List TestResult
  | [] => []
  | .result _ r :: es => r :: eventResults es
  | _ :: es => eventResults es

def parseFrac (f : String) : Option Frac :=
  match f.trimAscii.toString.splitOn "/" with
  | [a, b] => some ⟨intOf a, natOf b⟩
  | _ => none

def showFrac : Option Frac → String
  | none => "none"
  | some f => s!"{f.num}/{f.den}"

def showWait : Option WaitOutcome → String
  | none => "tie" | some .exited => "exited" | some .timedOut => "timedOut" | some .cancelled => "cancelled"

def handle (cmd : String) (fs : List String) : String :=
  match cmd, fs with
  | "trace", [jobs, rep, maxfail, par, evs] =>
    let c := mkConfig (natOf jobs) (natOf rep) (natOf maxfail) ((words par).map (· == "1"))
    match (words evs).mapM parseEvent with
    | none => "bad-events"
    | some es =>
      match replay c es with
      | .ok s =>
        let rp := match Report.run c.maxfail {} ((eventResults es).map ROp.result) with
          | some h => s!" collected={showResults h.collected} flag={boolStr h.maxfailReached} printed_total={h.tally.printedTotal} report_tally={showTally h.tally}"
          | none => " collected=ERR:exit"
        "ok " ++ showState c s ++ rp
      | .error (k, e) => s!"illegal {k} {showErr e}"
  | "config", [jobs, rep, maxfail, par] =>
    let c := mkConfig (natOf jobs) (natOf rep) (natOf maxfail) ((words par).map (· == "1"))
    s!"jobs={c.jobs} repeatGt1={boolStr c.repeatGt1} par={" ".intercalate (c.par.map boolStr)}"
  | "classify", ["exit", w, rc, ee, sf] =>
    (classifyRun (parseWait w) (intOf rc) (parseOptInt ee) (sf == "1")).name
  | "classify", ["tap", res, rc, sf] =>
    match TestResult.ofName? res with
    | some r => (completeTap r (intOf rc) (sf == "1")).name
    | none => "bad-result"
  | "tally", [rs] =>
    match (words rs).mapM TestResult.ofName? with
    | none => "bad-result"
    | some l =>
      match l.foldlM Tally.add ({} : Tally) with
      | none => "ERR:exit"
      | some t =>
        let rows := " ".intercalate (t.summaryRows.map (fun p => s!"{p.1}:{p.2}"))
        s!"{showTally t};{t.exitStatus};{rows};{boolStr (t == tallyOf l)}"
  | "report", [maxfail, ops] =>
    match (words ops).mapM parseROp with
    | none => "bad-op"
    | some l =>
      match Report.run (natOf maxfail) {} l with
      | none => "ERR:exit"
      | some h => showReport h
  | "limit", [inter, t, mult, dur] =>
    let lim := runnerTimeout (inter == "1") (parseOptInt t) (parseFrac mult)
    s!"{showFrac lim};{showWait (waitOutcome lim (natOf dur))}"
  | "suite", [sel, prjst] => boolStr (suiteMatches (decodeStr sel) (decodeStr prjst))
  | "select", [mainPrj, incl, excl, names, slice, tests] =>
    let ts := parseTests tests
    let idx := (List.range ts.length).zip ts
    let suit := fun (p : Nat × TestDesc) =>
      testSuitable (decodeStr mainPrj) (decodeStrList incl) (decodeStrList excl) (decodeStrList names) p.2
    match getTests suit (parseSlice slice) idx with
    | .ok l => showIdx (l.map (·.1))
    | .error .tooManySlices => "ERR:tooManySlices"
  | "selectargs", [mainPrj, incl, excl, names, slice, tests, args] =>
    let ts := parseTests tests
    let idx := (List.range ts.length).zip ts
    let suit := fun (p : Nat × TestDesc) =>
      testSuitable (decodeStr mainPrj) (decodeStrList incl) (decodeStrList excl) (decodeStrList names) p.2
    let pats := (decodeStrList args).map argPattern
    match getTestsArgs suit (fun (p : Nat × TestDesc) q => patMatches p.2 q) pats (parseSlice slice) idx with
    | .ok l => showIdx (l.map (·.1))
    | .error .tooManySlices => "ERR:tooManySlices"
    | .error .noMatch => "ERR:noMatch"
  | "glob", [pat, s] => boolStr (globMatch (decodeStr pat) (decodeStr s))
  | "slice", [len, i, n] => showIdx (pySlice (List.range (natOf len)) (natOf i) (natOf n))
  | _, _ => "bad-op"

end Driver.Sched
