import Driver.Loop
import Driver.Eval

def main : IO Unit := Driver.mainLoop Driver.Eval.handle
