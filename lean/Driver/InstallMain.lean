import Driver.Loop
import Driver.Install

def main : IO Unit := Driver.mainLoop Driver.Install.handle
