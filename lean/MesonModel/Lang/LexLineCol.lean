/-
Line bookkeeping of the lexer, stated against the text alone (DESIGN §4 C02, "position-accurate"):
for every input and every token, `lineno = 1 + number of '\n' before the token's first character` and
`colno = distance from the previous '\n'` (or from the start of the text). Holds for every token kind — also
after multi-line tokens (triple-quoted strings, single-quoted strings containing a raw newline, line
continuations with or without a trailing comment); a `'\r'` is an ordinary character (CRLF: the `'\r'` is
rejected by the lexer outside strings and comments, and counts as one column inside them).

Also: a closing `)` / `]` / `}` token is one character long and that character is not a newline.
-/
import MesonModel.Lang.LexSpan

namespace MesonModel.Lang

/-- `(l, c)` is the address the lexer's bookkeeping must give offset `off` of `s`: the offset lies inside the
text, the line is one more than the number of newline characters before it, and the column is the distance
to the previous newline character (to the start of the text on line 1) -/
def Addr (s : Str) (l c off : Nat) : Prop :=
  off ≤ s.length ∧ l = countNl (s.take off) + 1 ∧ c = lastLineLen (s.take off)

instance (s : Str) (l c off : Nat) : Decidable (Addr s l c off) := by unfold Addr; infer_instance

/-- an address denotes its offset in the rewriter's line table (`lineOff`) -/
theorem Addr.lineOff {s : Str} {l c off : Nat} (h : Addr s l c off) : lineOff s l + c = off := by
  obtain ⟨h1, h2, h3⟩ := h
  have hs : s = s.take off ++ s.drop off := (List.take_append_drop off s).symm
  have hlen : (s.take off).length = off := by rw [List.length_take]; exact Nat.min_eq_left h1
  have := lineOff_prefix (s.take off) (s.drop off)
  rw [← hs, ← h2] at this
  have hle := lastLineLen_le (s.take off)
  rw [this, h3, lineStartOf, hlen]; rw [hlen] at hle; omega

theorem Addr.inText {s : Str} {l c off : Nat} (h : Addr s l c off) : InText s (l, c) := by
  refine ⟨?_, by show MesonModel.Lang.lineOff s l + c ≤ _; rw [h.lineOff]; exact h.1⟩
  show l ≤ _
  have hs : s = s.take off ++ s.drop off := (List.take_append_drop off s).symm
  have : countNl s = countNl (s.take off) + countNl (s.drop off) := by
    conv => lhs; rw [hs]
    exact countNl_append _ _
  rw [h.2.1]; omega

/-- two addresses of one offset are equal: an offset has exactly one line/column -/
theorem Addr.unique {s : Str} {l c l' c' off : Nat} (h : Addr s l c off) (h' : Addr s l' c' off) :
    l = l' ∧ c = c' := ⟨h.2.1.trans h'.2.1.symm, h.2.2.trans h'.2.2.symm⟩

/-- the address of a prefix boundary -/
theorem addr_of_prefix (pre q : Str) : Addr (pre ++ q) (countNl pre + 1) (lastLineLen pre) pre.length := by
  refine ⟨by simp, ?_, ?_⟩ <;> simp [List.take_left']

/-- one step further over a character that is not a newline -/
theorem addr_succ {s pre v T : Str} {l c : Nat} (hs : s = pre ++ (v ++ T)) (hv : v.length = 1)
    (hn : countNl v = 0) (h : Addr s l c pre.length) : Addr s l (c + 1) (pre.length + 1) := by
  obtain ⟨_, h2, h3⟩ := h
  have e0 : s.take pre.length = pre := by rw [hs]; simp [List.take_left']
  have e1 : s.take (pre.length + 1) = pre ++ v := by
    have hl : (pre ++ v).length = pre.length + 1 := by rw [List.length_append, hv]
    rw [hs, ← List.append_assoc]; exact List.take_left' hl
  rw [e0] at h2 h3
  refine ⟨by rw [hs]; simp only [List.length_append, hv]; omega, ?_, ?_⟩
  · rw [e1, countNl_append, hn, h2]
  · rw [e1, lastLineLen_append_nonl _ _ hn, hv, h3]

/-! ### `lineno` / `colno` of every token -/

theorem lexGo_linecol (fuel : Nat) : ∀ (pre s : Str) (st : LexSt), LI pre st →
    ∀ t ∈ (lexGo fuel s st).toks, Addr (pre ++ s) t.lineno t.colno t.spanStart := by
  induction fuel with
  | zero => intro pre s st _; simp [lexGo]
  | succ k ih =>
    intro pre s st hi
    cases s with
    | nil => simp [lexGo]
    | cons a as =>
      simp only [lexGo]
      obtain ⟨h1, h2, h3⟩ := hi
      cases hstep : lexStep (a :: as) st with
      | err l col => simp
      | tok t st' n =>
        simp only
        have hle := lexStep_le hstep
        obtain ⟨⟨p1, p2, p3, p4⟩, heff⟩ := lexStep_line hstep
        have hlen : ((a :: as).take n).length = n := by
          rw [List.length_take]; exact Nat.min_eq_left hle
        have hi' := LI_step hlen ⟨h1, h2, h3⟩ heff
        have ih1 := ih (pre ++ (a :: as).take n) ((a :: as).drop n) st' hi'
        have hsplit : pre ++ (a :: as).take n ++ (a :: as).drop n = pre ++ a :: as := by
          rw [List.append_assoc, List.take_append_drop]
        rw [hsplit] at ih1
        intro x hx
        simp only [List.mem_cons] at hx
        rcases hx with rfl | hx
        · have := addr_of_prefix pre (a :: as)
          have hle' := lastLineLen_le pre
          have hc : x.colno = lastLineLen pre := by
            rw [p2, h1, h3, lineStartOf]; omega
          rw [p1, h2, hc, p3, h1]; exact this
        · exact ih1 x hx

/-- **line bookkeeping is exact**: for every input and every token the lexer yields, the token's line number is
one more than the number of newline characters before its first character and its column is the distance to
the previous newline character -/
theorem lex_token_linecol (s : Str) : ∀ t ∈ (lex s).toks, Addr s t.lineno t.colno t.spanStart := by
  have h0 : LI [] {} := ⟨rfl, rfl, rfl⟩
  unfold lex
  split
  · split
    · simp
    · simpa using lexGo_linecol _ [] _ {} h0
  · simpa using lexGo_linecol _ [] _ {} h0

/-! ### closing brackets: one character, not a newline -/

def isCloser (t : Tid) : Prop := t = .rparen ∨ t = .rbracket ∨ t = .rcurl

def kwNotCloser (p : Str × Tid) : Bool := p.2 != .rparen && p.2 != .rbracket && p.2 != .rcurl

theorem keywordTable_notCloser : keywordTable.all kwNotCloser = true := by decide

theorem lookupKeyword_notCloser {v : Str} {k : Tid} (h : lookupKeyword v = some k) : ¬ isCloser k := by
  unfold lookupKeyword at h
  simp [Option.map_eq_some_iff] at h
  obtain ⟨a, hf⟩ := h
  have hmem := List.mem_of_find?_eq_some hf
  have := List.all_eq_true.mp keywordTable_notCloser _ hmem
  simp [kwNotCloser] at this
  rintro (h | h | h) <;> simp_all

/-- a closer comes from the single-character branch: one character, and the line counter does not move -/
theorem lexStep_closer {s : Str} {st : LexSt} {t : Token} {st' : LexSt} {n : Nat}
    (h : lexStep s st = .tok t st' n) (hc : isCloser t.tid) : n = 1 ∧ st'.lineno = st.lineno := by
  unfold lexStep at h
  dsimp only at h
  split at h
  · rename_i tid m hm
    have hspec := firstMatch_spec hm
    cases tid <;> simp only [matchSpec] at hspec <;> try (simp at hspec; done)
    case id =>
      simp only at h
      split at h
      · rename_i k hk
        have hk' := lookupKeyword_notCloser hk
        injection h with h1 h2 h3
        subst h1
        exact absurd hc hk'
      · injection h with h1 h2 h3
        subst h1
        simp [isCloser] at hc
    all_goals (simp only at h; injection h with h1 h2 h3; subst h1; simp [isCloser] at hc)
  · split at h
    · simp at h
    · rename_i c cs
      split at h
      · simp at h
      · repeat' split at h
        all_goals (first
          | (simp at h; done)
          | (injection h with h1 h2 h3; subst h1 h2; exact ⟨h3.symm, rfl⟩)
          | (injection h with h1 h2 h3; subst h1; exfalso; revert hc; simp only [isCloser]; (try split) <;> simp))

theorem lexGo_closer (fuel : Nat) (s : Str) (st : LexSt) :
    ∀ t ∈ (lexGo fuel s st).toks, isCloser t.tid → t.text.length = 1 ∧ countNl t.text = 0 := by
  induction fuel generalizing s st with
  | zero => simp [lexGo]
  | succ k ih =>
    cases s with
    | nil => simp [lexGo]
    | cons c cs =>
      simp only [lexGo]
      cases hstep : lexStep (c :: cs) st with
      | err l col => simp
      | tok t st' n =>
        intro x hx hc
        simp only [List.mem_cons] at hx
        rcases hx with rfl | hx
        · obtain ⟨h1, h2⟩ := lexStep_closer hstep hc
          obtain ⟨_, _, heff⟩ := lexStep_line hstep
          rw [lexStep_text hstep]
          refine ⟨by rw [h1]; rfl, ?_⟩
          rcases heff with ⟨c0, _⟩ | ⟨c1, l1, _⟩
          · exact c0
          · omega
        · exact ih _ _ x hx hc

theorem lex_closer (s : Str) :
    ∀ t ∈ (lex s).toks, isCloser t.tid → t.text.length = 1 ∧ countNl t.text = 0 := by
  unfold lex
  split
  · split
    · simp
    · exact lexGo_closer _ _ _
  · exact lexGo_closer _ _ _

end MesonModel.Lang
