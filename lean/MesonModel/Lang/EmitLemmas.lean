/-
Unfolding equations of `emit` (one per node kind, all by `rfl`) and the effect of attaching whitespace.
-/
import MesonModel.Lang.ParserLemmas

namespace MesonModel.Lang

theorem emit_boolean (b v) : emit (.boolean b v) = (if v then "true".toList else "false".toList) ++ wsText b.ws := rfl
theorem emit_id (b v) : emit (.id b v) = v ++ wsText b.ws := rfl
theorem emit_number (b r v) : emit (.number b r v) = r ++ wsText b.ws := rfl
theorem emit_string (b raw v multi f) : emit (.string b raw v multi f) =
    (if f then ['f'] else []) ++
    (if multi then "'''".toList ++ v ++ "'''".toList else ['\''] ++ raw ++ ['\'']) ++ wsText b.ws := rfl
theorem emit_continue (b) : emit (.continue_ b) = "continue".toList ++ wsText b.ws := rfl
theorem emit_break (b) : emit (.break_ b) = "break".toList ++ wsText b.ws := rfl
theorem emit_symbol (b v) : emit (.symbol b v) = v ++ wsText b.ws := rfl
theorem emit_empty (b) : emit (.empty b) = wsText b.ws := rfl
theorem emit_args (b pos commas colons keys vals oe) : emit (.args b pos commas colons keys vals oe) =
    (interleavePos (emitL pos) (emitL commas)).1 ++
      interleaveKw (emitL keys) (emitL colons) (emitL vals) (interleavePos (emitL pos) (emitL commas)).2 ++
      wsText b.ws := rfl
theorem emit_array (b l a r) : emit (.array b l a r) = emit l ++ emit a ++ emit r ++ wsText b.ws := rfl
theorem emit_dict (b l a r) : emit (.dict b l a r) = emit l ++ emit a ++ emit r ++ wsText b.ws := rfl
theorem emit_binop (k b l o r) : emit (.binop k b l o r) = emit l ++ emit o ++ emit r ++ wsText b.ws := rfl
theorem emit_unop (k b o v) : emit (.unop k b o v) = emit o ++ emit v ++ wsText b.ws := rfl
theorem emit_codeblock (b pre lines) : emit (.codeblock b pre lines) =
    wsText pre ++ (emitL lines).flatten ++ wsText b.ws := rfl
theorem emit_index (b o l i r) : emit (.index b o l i r) = emit o ++ emit l ++ emit i ++ emit r ++ wsText b.ws := rfl
theorem emit_method (b o d n l a r) : emit (.method b o d n l a r) =
    emit o ++ emit d ++ emit n ++ emit l ++ emit a ++ emit r ++ wsText b.ws := rfl
theorem emit_function (b n l a r) : emit (.function b n l a r) =
    emit n ++ emit l ++ emit a ++ emit r ++ wsText b.ws := rfl
theorem emit_assign (p b n o v) : emit (.assign p b n o v) = emit n ++ emit o ++ emit v ++ wsText b.ws := rfl
theorem emit_foreach (b kw vars commas colon items block endkw) :
    emit (.foreach b kw vars commas colon items block endkw) =
    emit kw ++ interleaveVars (emitL vars) (emitL commas) ++ emit colon ++ emit items ++ emit block ++
      emit endkw ++ wsText b.ws := rfl
theorem emit_ifnode (b kw c bl) : emit (.ifnode b kw c bl) = emit kw ++ emit c ++ emit bl ++ wsText b.ws := rfl
theorem emit_elsenode (b kw bl) : emit (.elsenode b kw bl) = emit kw ++ emit bl ++ wsText b.ws := rfl
theorem emit_ifclause (b ifs e en) : emit (.ifclause b ifs e en) =
    (emitL ifs).flatten ++ emit e ++ emit en ++ wsText b.ws := rfl
theorem emit_ternary (b c q t cl f) : emit (.ternary b c q t cl f) =
    emit c ++ emit q ++ emit t ++ emit cl ++ emit f ++ wsText b.ws := rfl
theorem emit_paren (b l i r) : emit (.paren b l i r) = emit l ++ emit i ++ emit r ++ wsText b.ws := rfl
theorem emitL_nil : emitL [] = [] := rfl
theorem emitL_cons (n ns) : emitL (n :: ns) = emit n :: emitL ns := rfl

theorem emitL_append (a b : List Node) : emitL (a ++ b) = emitL a ++ emitL b := by
  induction a with
  | nil => rfl
  | cons x xs ih => simp [emitL_cons, ih]

/-- `append_whitespaces` on any node adds the text at the very end of its print -/
theorem emit_addWsBase (n : Node) (ws : List Token) : emit (n.addWsBase ws) = emit n ++ wsText ws := by
  cases n <;>
    simp only [Node.addWsBase, Node.mapBase, emit_boolean, emit_id, emit_number, emit_string, emit_continue,
      emit_break, emit_symbol, emit_empty, emit_args, emit_array, emit_dict, emit_binop, emit_unop,
      emit_codeblock, emit_index, emit_method, emit_function, emit_assign, emit_foreach, emit_ifnode,
      emit_elsenode, emit_ifclause, emit_ternary, emit_paren, wsText_append, List.append_assoc]

theorem emitL_modifyLast (ls : List Node) (ws : List Token) (h : ls ≠ []) :
    (emitL (Node.modifyLast (Node.addWsBase ws) ls)).flatten = (emitL ls).flatten ++ wsText ws := by
  induction ls with
  | nil => exact absurd rfl h
  | cons a as ih =>
    cases as with
    | nil => simp [Node.modifyLast, emitL_cons, emitL_nil, emit_addWsBase]
    | cons b bs =>
      have := ih (by simp)
      simp only [Node.modifyLast, emitL_cons, List.flatten_cons] at this ⊢
      rw [this]; simp [List.append_assoc]

def Node.isBlock : Node → Bool
  | .codeblock _ _ _ => true
  | _ => false

/-- code blocks never carry whitespace of their own (it goes to `pre_whitespaces` or the last line) -/
def Node.blockClean : Node → Prop
  | .codeblock b _ _ => b.ws = []
  | _ => True

theorem emit_addWs (n : Node) (ws : List Token) (h : n.blockClean) : emit (n.addWs ws) = emit n ++ wsText ws := by
  cases n
  case codeblock b pre lines =>
    simp only [Node.blockClean] at h
    simp only [Node.addWs]
    split
    · rename_i he
      have : lines = [] := by simpa using he
      subst this
      simp [emit_codeblock, emitL_nil, wsText_append, h]
    · rename_i he
      have : lines ≠ [] := by simpa using he
      simp [emit_codeblock, emitL_modifyLast _ _ this, h]
  all_goals exact emit_addWsBase _ _

end MesonModel.Lang
