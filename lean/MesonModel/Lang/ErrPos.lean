/-
`parser_error_located`: every `ParseException` / `BlockParseException` the model can raise carries a
line/column inside the text.
-/
import MesonModel.Lang.PosInv
import MesonModel.Lang.LexPos

namespace MesonModel.Lang

theorem parse_error_inText {s : Str} {names : List (Str × Nat)} {e : Err}
    (h : parseWith names s = .error e) : ErrOk (InText s) e := by
  obtain ⟨ht, he⟩ := lex_pos s
  refine parseToks_errOk (V := InText s) ⟨by simp, by simp [lineOff]⟩ (fun t hmem => ht t hmem)
    (fun p hp => he p.1 p.2 hp) h

end MesonModel.Lang
