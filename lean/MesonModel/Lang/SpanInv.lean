/-
`span_exact`, production by production (DESIGN §4 C02).

State invariant `Sync s st`: the unconsumed tokens `st.cur :: st.rest` print a suffix of the input `s`, each
token's line/column addresses the offset at which that suffix starts, and a `)` / `]` token prints as one
character (established by the lexer, `LexSpan.lean`/`LexPos.lean`; preserved by `getsym`).

`Step w w' st st' Q` packages what one parser action (or a whole production) contributes: the ghost counter
`lossy` does not decrease; and, provided it is still `0` afterwards, nothing is pending before (`w`) and the
state is in sync, then nothing is pending afterwards (`w'`), the state is in sync, and `Q` holds (`Q` is
`Spans s n` for the returned node). Steps compose (`Step.trans`). At the three places where a call or array
node is built (`e8`, `method_call`, `e9`) the text facts of the ghost-output-stream invariant
(`RoundTrip.lean`) are combined with `Sync` at the first and the last token of the construct.
-/
import MesonModel.Lang.TopLemmas
import MesonModel.Lang.PosInv
import MesonModel.Lang.LexSpan
import MesonModel.Lang.SpanLemmas

namespace MesonModel.Lang

/-! ### text lemma -/

theorem slice_core {s pre X v T pre5 : Str} (h1 : s = pre ++ (X ++ (v ++ T))) (h5 : s = pre5 ++ (v ++ T))
    (hv : v.length = 1) : slice s pre.length (pre5.length + 1) = X ++ v := by
  have e : pre5 = pre ++ X := by
    have : pre5 ++ (v ++ T) = (pre ++ X) ++ (v ++ T) := by rw [← h5, h1]; simp [List.append_assoc]
    exact List.append_cancel_right this
  subst e
  unfold slice
  rw [h1, List.drop_left]
  have : (pre ++ X).length + 1 - pre.length = X.length + v.length := by simp [hv]; omega
  rw [this, ← List.append_assoc, ← List.length_append, List.take_left]

section
variable (s : Str)

/-! ### the state invariant -/

/-- the token `t`, followed by `rest`, prints the suffix of `s` that starts at the offset its line/column denote -/
def TokOk (t : Token) (rest : List Token) : Prop :=
  ∃ pre, s = pre ++ (printed t ++ restText rest) ∧ Addr s t.lineno t.colno pre.length ∧
    (isCloser t.tid → (printed t).length = 1 ∧ countNl (printed t) = 0)

def StreamOk : List Token → Prop
  | [] => True
  | t :: rest => TokOk s t rest ∧ StreamOk rest

def Sync (st : PState) : Prop :=
  (st.cur.tid ≠ .eof → TokOk s st.cur st.rest) ∧ StreamOk s st.rest

variable {s}

theorem advance_sync {lexErr : Option (Nat × Nat)} {last : Token} {rest ws : List Token}
    {c : Token} {rest' ws' : List Token}
    (h : advance lexErr last rest ws = .ok (c, rest', ws')) (hr : StreamOk s rest) :
    (c.tid ≠ .eof → TokOk s c rest') ∧ StreamOk s rest' := by
  induction rest generalizing last ws with
  | nil =>
    unfold advance at h
    split at h
    · simp at h
    · simp at h; obtain ⟨rfl, rfl, _⟩ := h
      exact ⟨fun hne => absurd rfl hne, trivial⟩
  | cons t rest ih =>
    unfold advance at h
    split at h
    · simp at h; obtain ⟨rfl, rfl, _⟩ := h
      exact ⟨fun _ => hr.1, hr.2⟩
    · split at h
      · exact ih h hr.2
      · simp at h; obtain ⟨rfl, rfl, _⟩ := h
        exact ⟨fun _ => hr.1, hr.2⟩

theorem getsym_sync {st st' : PState} {u : Unit} (h : getsym st = .ok (u, st')) (hy : Sync s st) : Sync s st' := by
  unfold getsym at h
  split at h
  · cases h
  · rename_i c rest ws hadv
    cases h
    exact advance_sync hadv hy.2

theorem accept_sync {t : Tid} {st st' : PState} {b : Bool} (h : accept t st = .ok (b, st')) (hy : Sync s st) :
    Sync s st' := by
  unfold accept at h
  split at h
  · split at h
    · cases h
    · rename_i u s' hg
      cases h
      exact getsym_sync hg hy
  · cases h; exact hy

theorem acceptAny_sync {ts : List Tid} {st st' : PState} {o : Option Tid} (h : acceptAny ts st = .ok (o, st'))
    (hy : Sync s st) : Sync s st' := by
  unfold acceptAny at h
  split at h
  · split at h
    · cases h
    · rename_i u s' hg
      cases h
      exact getsym_sync hg hy
  · cases h; exact hy

theorem sync_congr {st st' : PState} (hc : st'.cur = st.cur) (hr : st'.rest = st.rest) (hy : Sync s st) :
    Sync s st' := by
  unfold Sync at *; rw [hc, hr]; exact hy

/-- what `Sync` says at a real token with nothing pending -/
theorem sync_rem {st : PState} (hy : Sync s st) (hne : st.cur.tid ≠ .eof) (hnl : st.cur.tid ≠ .eol) :
    ∃ pre, s = pre ++ rem st ∧ Addr s st.cur.lineno st.cur.colno pre.length ∧
      (isCloser st.cur.tid → (printed st.cur).length = 1 ∧ countNl (printed st.cur) = 0) := by
  obtain ⟨pre, h1, h2, h3⟩ := hy.1 hne
  exact ⟨pre, by simpa [rem, hnl] using h1, h2, h3⟩

/-! ### steps -/

variable (s)

structure Step (w w' : Bool) (st st' : PState) (Q : Prop) : Prop where
  back : st'.lossy = 0 → st.lossy = 0
  fwd : st'.lossy = 0 → (w = true → st.ws = []) → Sync s st → (w' = true → st'.ws = []) ∧ Sync s st' ∧ Q

variable {s}

theorem Step.trans {w w1 w2 : Bool} {a b c : PState} {Q1 Q2 : Prop} (h1 : Step s w w1 a b Q1)
    (h2 : Step s w1 w2 b c Q2) : Step s w w2 a c (Q1 ∧ Q2) := by
  refine ⟨fun hd => h1.back (h2.back hd), fun hd hw hy => ?_⟩
  obtain ⟨w1', y1, q1⟩ := h1.fwd (h2.back hd) hw hy
  obtain ⟨w2', y2, q2⟩ := h2.fwd hd w1' y1
  exact ⟨w2', y2, q1, q2⟩

theorem Step.mono {w w' : Bool} {a b : PState} {Q Q' : Prop} (h : Step s w w' a b Q) (hq : Q → Q') :
    Step s w w' a b Q' :=
  ⟨h.back, fun hd hw hy => by obtain ⟨w1, y1, q1⟩ := h.fwd hd hw hy; exact ⟨w1, y1, hq q1⟩⟩

theorem Step.refl {w : Bool} {a : PState} {Q : Prop} (hq : Q) : Step s w w a a Q :=
  ⟨id, fun _ hw hy => ⟨hw, hy, hq⟩⟩

theorem Step.strong {w' : Bool} {a b : PState} {Q : Prop} (h : Step s false w' a b Q) : Step s true w' a b Q :=
  ⟨h.back, fun hd _ hy => h.fwd hd (fun h => by cases h) hy⟩

theorem Step.weak {w : Bool} {a b : PState} {Q : Prop} (h : Step s w true a b Q) : Step s w false a b Q :=
  ⟨h.back, fun hd hw hy => by
    obtain ⟨_, y1, q1⟩ := h.fwd hd hw hy; exact ⟨(fun h => by cases h), y1, q1⟩⟩

/-- a state change that touches neither the stream, the pending whitespace nor the counter -/
theorem Step.same {w : Bool} {a b : PState} (hl : b.lossy = a.lossy) (hw : b.ws = a.ws) (hc : b.cur = a.cur)
    (hr : b.rest = a.rest) : Step s w w a b True :=
  ⟨fun hd => by rw [← hl]; exact hd, fun _ hw' hy => ⟨fun h => by rw [hw]; exact hw' h, sync_congr hc hr hy, trivial⟩⟩

/-- a state change that touches neither the stream nor the counter (the pending whitespace may change) -/
theorem Step.sameStream {w : Bool} {a b : PState} (hl : b.lossy = a.lossy) (hc : b.cur = a.cur)
    (hr : b.rest = a.rest) : Step s w false a b True :=
  ⟨fun hd => by rw [← hl]; exact hd, fun _ _ hy => ⟨(fun h => by cases h), sync_congr hc hr hy, trivial⟩⟩

theorem step_accept {w : Bool} {t : Tid} {st s1 : PState} {b : Bool} (ha : accept t st = .ok (b, s1)) :
    Step s w false st s1 True := by
  refine ⟨fun hd => ?_, fun _ _ hy => ⟨(fun h => by cases h), accept_sync ha hy, trivial⟩⟩
  rcases accept_spec ha with ⟨_, rfl, _⟩ | ⟨_, _, _, _, hfl⟩
  · exact hd
  · rw [← hfl.dropped]; exact hd

theorem step_acceptAny {w : Bool} {ts : List Tid} {st s1 : PState} {o : Option Tid}
    (ha : acceptAny ts st = .ok (o, s1)) : Step s w false st s1 True := by
  refine ⟨fun hd => ?_, fun _ _ hy => ⟨(fun h => by cases h), acceptAny_sync ha hy, trivial⟩⟩
  rcases acceptAny_spec ha with ⟨_, rfl⟩ | ⟨_, _, _, _, hfl⟩
  · exact hd
  · rw [← hfl.dropped]; exact hd

theorem step_create {w : Bool} {nd n : Node} {st st' : PState} (h : create nd st = .ok (n, st')) :
    Step s w true st st' (Spans s n ↔ Spans s nd) := by
  simp [create] at h; obtain ⟨rfl, rfl⟩ := h
  exact ⟨id, fun _ _ hy => ⟨fun _ => rfl, hy, spans_addWs _ _⟩⟩

theorem step_createSymbol {w : Bool} {t : Token} {o : Node} {st st' : PState}
    (h : createSymbol t st = .ok (o, st')) : Step s w true st st' (Spans s o) :=
  (step_create h).mono (fun hq => hq.mpr ((spans_symbol _ _).mpr (noEnd_ofTok _)))

theorem step_flushWs {w : Bool} {block n : Node} {st st' : PState} (h : flushWs block st = .ok (n, st')) :
    Step s w true st st' (Spans s n ↔ Spans s block) := by
  simp [flushWs] at h; obtain ⟨rfl, rfl⟩ := h
  exact ⟨id, fun _ _ hy => ⟨fun _ => rfl, hy, spans_addWs _ _⟩⟩

/-- `if self.accept(t): sym = self.create_node(SymbolNode, tok)` -/
theorem step_sym {w : Bool} {t : Tid} {st s1 s2 : PState} {b : Bool} {tok : Token} {o : Node}
    (ha : accept t st = .ok (b, s1)) (hc : createSymbol tok s1 = .ok (o, s2)) : Step s w true st s2 (Spans s o) :=
  ((step_accept ha).trans (step_createSymbol hc)).mono (fun h => h.2)

theorem step_symAny {w : Bool} {ts : List Tid} {st s1 s2 : PState} {ot : Option Tid} {tok : Token} {o : Node}
    (ha : acceptAny ts st = .ok (ot, s1)) (hc : createSymbol tok s1 = .ok (o, s2)) :
    Step s w true st s2 (Spans s o) :=
  ((step_acceptAny ha).trans (step_createSymbol hc)).mono (fun h => h.2)

theorem step_expect {w : Bool} {t : Tid} {st s1 : PState} {u : Unit} (h : expect t st = .ok (u, s1)) :
    Step s w false st s1 True := step_accept (expect_spec h)

theorem step_blockExpect {w : Bool} {t : Tid} {st s1 : PState} {u : Unit} (h : blockExpect t st = .ok (u, s1)) :
    Step s w false st s1 True := step_accept (blockExpect_spec h)

/-- a leaf: `if self.accept(t): return self.create_node(Leaf, tok)` -/
theorem step_leaf {w : Bool} {t : Tid} {st s1 s2 : PState} {b : Bool} {nd n : Node}
    (ha : accept t st = .ok (b, s1)) (hc : create nd s1 = .ok (n, s2)) (hq : Spans s nd) :
    Step s w true st s2 (Spans s n) :=
  ((step_accept ha).trans (step_create hc)).mono (fun h => h.2.mpr hq)

theorem step_leafAny {w : Bool} {ts : List Tid} {st s1 s2 : PState} {ot : Option Tid} {nd n : Node}
    (ha : acceptAny ts st = .ok (ot, s1)) (hc : create nd s1 = .ok (n, s2)) (hq : Spans s nd) :
    Step s w true st s2 (Spans s n) :=
  ((step_acceptAny ha).trans (step_create hc)).mono (fun h => h.2.mpr hq)

theorem step_noteOrder {w : Bool} {a : Node} {st st' : PState} {u : Unit} (h : noteOrder a st = .ok (u, st')) :
    Step s w w st st' (argsHasKw a = false) := by
  refine ⟨fun hd => ?_, fun hd hw hy => ?_⟩
  · rw [(noteOrder_spec h hd).2] at hd; exact hd
  · have hk := (noteOrder_spec h hd).1
    have := (noteOrder_spec h hd).2; subst this; exact ⟨hw, hy, hk⟩

/-- productions: entered with nothing pending, leave nothing pending -/
def Sp (f : P Node) : Prop := ∀ st n st', f st = .ok (n, st') → Step s true true st st' (Spans s n)

/-- the `while self.accept(op)` loops: the result contains `left` -/
def LoopSp (f : Node → P Node) : Prop :=
  ∀ left st n st', f left st = .ok (n, st') → Step s true true st st' (Spans s left → Spans s n)

theorem sp_of_loop {first : P Node} {loop : Node → P Node} (h1 : Sp (s := s) first) (h2 : LoopSp (s := s) loop) :
    Sp (s := s) (do let left ← first; loop left) := by
  intro st n st' h
  simp only [bind_ok] at h
  obtain ⟨left, s1, hf, hl⟩ := h
  exact ((h1 _ _ _ hf).trans (h2 _ _ _ _ hl)).mono (fun h => h.2 h.1)

end

end MesonModel.Lang
