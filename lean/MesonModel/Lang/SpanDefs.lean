/-
Definitions for `span_exact` (DESIGN §4 C02): the text an extent `(lineno, colno, end_lineno, end_colno)`
delimits, the sub-nodes of a tree, and what it means for the extent of a call / array node to be exact.
-/
import MesonModel.Lang.LinePos
import MesonModel.Lang.EmitLemmas
import MesonModel.Lang.LexLineCol

namespace MesonModel.Lang

/-- `s[a:b]` -/
def slice (s : Str) (a b : Nat) : Str := (s.drop a).take (b - a)

/-- the text the recorded extent of a node delimits: line/column pairs are turned into offsets with the
line table of the rewriter (`lineOff`, lines counted by `'\n'` only) -/
def extentSlice (s : Str) (b : Base) : Str :=
  slice s (lineOff s b.lineno + b.colno) (lineOff s b.endLineno + b.endColno)

/-- `SymbolNode.value` -/
def symValue : Node → Str
  | .symbol _ v => v
  | _ => []

mutual
/-- a node and all its descendants (symbols and attached children included) -/
def sub : Node → List Node
  | .boolean b v => [.boolean b v]
  | .id b v => [.id b v]
  | .number b r v => [.number b r v]
  | .string b r v m f => [.string b r v m f]
  | .continue_ b => [.continue_ b]
  | .break_ b => [.break_ b]
  | .symbol b v => [.symbol b v]
  | .empty b => [.empty b]
  | .args b pos commas colons keys vals oe =>
    .args b pos commas colons keys vals oe ::
      (subL pos ++ subL commas ++ subL colons ++ subL keys ++ subL vals)
  | .array b l a r => .array b l a r :: (sub l ++ sub a ++ sub r)
  | .dict b l a r => .dict b l a r :: (sub l ++ sub a ++ sub r)
  | .binop k b l op r => .binop k b l op r :: (sub l ++ sub op ++ sub r)
  | .unop k b op v => .unop k b op v :: (sub op ++ sub v)
  | .codeblock b pre lines => .codeblock b pre lines :: subL lines
  | .index b obj lb idx rb => .index b obj lb idx rb :: (sub obj ++ sub lb ++ sub idx ++ sub rb)
  | .method b obj dot name lpar a rpar =>
    .method b obj dot name lpar a rpar :: (sub obj ++ sub dot ++ sub name ++ sub lpar ++ sub a ++ sub rpar)
  | .function b name lpar a rpar => .function b name lpar a rpar :: (sub name ++ sub lpar ++ sub a ++ sub rpar)
  | .assign p b name op value => .assign p b name op value :: (sub name ++ sub op ++ sub value)
  | .foreach b kw vars commas colon items block endkw =>
    .foreach b kw vars commas colon items block endkw ::
      (sub kw ++ subL vars ++ subL commas ++ sub colon ++ sub items ++ sub block ++ sub endkw)
  | .ifnode b kw cond block => .ifnode b kw cond block :: (sub kw ++ sub cond ++ sub block)
  | .elsenode b kw block => .elsenode b kw block :: (sub kw ++ sub block)
  | .ifclause b ifs elseb endif => .ifclause b ifs elseb endif :: (subL ifs ++ sub elseb ++ sub endif)
  | .ternary b c q t col f => .ternary b c q t col f :: (sub c ++ sub q ++ sub t ++ sub col ++ sub f)
  | .paren b l inner r => .paren b l inner r :: (sub l ++ sub inner ++ sub r)
def subL : List Node → List Node
  | [] => []
  | n :: ns => sub n ++ subL ns
end

/-- the recorded extent `(lineno, colno) … (end_lineno, end_colno)` of a node is exact: both line/column pairs
are the addresses (`Addr`: line = 1 + newlines before, column = distance to the previous newline) of the
offsets they denote in the rewriter's line table, and the text between the two offsets is `core` -/
def ExtentIs (s : Str) (b : Base) (core : Str) : Prop :=
  Addr s b.lineno b.colno (lineOff s b.lineno + b.colno) ∧
  Addr s b.endLineno b.endColno (lineOff s b.endLineno + b.endColno) ∧
  extentSlice s b = core

instance (s : Str) (b : Base) (core : Str) : Decidable (ExtentIs s b core) := by unfold ExtentIs; infer_instance

/-- no end position is recorded on the node: `end_lineno/end_colno` are the `BaseNode` defaults (= start) -/
def NoEnd (b : Base) : Prop := b.endLineno = b.lineno ∧ b.endColno = b.colno

instance (b : Base) : Decidable (NoEnd b) := by unfold NoEnd; infer_instance

/-- what the position fields of a node must say. The five node kinds whose constructor records an end position
(`FunctionNode`, `MethodNode`, `ArrayNode`, `DictNode`, `ParenthesizedNode`): the extent delimits exactly the
source of the construct, from the first character of its first token (`f` of `f(...)`, the method name of
`obj.name(...)` — a `MethodNode` is positioned at its name, `mparser.py:534` —, the `[` / `{` / `(`) to the
last character of its closing `)` / `]` / `}`; that text is the raw print of the parts without the trivia that
follows the closing token. Every other node kind (strings — also multi-line ones —, numbers, ids, symbols,
index expressions, operators, assignments, blocks, clauses, argument lists, the empty node) records no end
position at all: `end_lineno/end_colno` repeat the start. (An `ArgumentNode` additionally has `order_error`
unset: the invariant is only established while the ghost counter `lossy` is `0`, and the counter is incremented
exactly where `ArgumentNode.append` sets the flag.) -/
def SpanExact (s : Str) : Node → Prop
  | .function b name lpar a rpar => ExtentIs s b (emit name ++ emit lpar ++ emit a ++ symValue rpar)
  | .method b _ _ name lpar a rpar => ExtentIs s b (emit name ++ emit lpar ++ emit a ++ symValue rpar)
  | .array b l a r => ExtentIs s b (emit l ++ emit a ++ symValue r)
  | .dict b l a r => ExtentIs s b (emit l ++ emit a ++ symValue r)
  | .paren b l i r => ExtentIs s b (emit l ++ emit i ++ symValue r)
  | .args b _ _ _ _ _ oe => NoEnd b ∧ oe = false
  | n => NoEnd n.base

instance (s : Str) (n : Node) : Decidable (SpanExact s n) := by
  cases n <;> simp only [SpanExact] <;> infer_instance

/-- executable form of `SpanExact` -/
def spanExactB (s : Str) (n : Node) : Bool := decide (SpanExact s n)

/-- the node kinds that record an end position -/
def Node.recordsEnd : Node → Bool
  | .function .. | .method .. | .array .. | .dict .. | .paren .. => true
  | _ => false

/-- call and array nodes -/
def Node.isCallOrArray : Node → Bool
  | .function .. | .method .. | .array .. => true
  | _ => false

/-- every node of the tree has exact position fields -/
def Spans (s : Str) (n : Node) : Prop := ∀ m ∈ sub n, SpanExact s m
def SpansL (s : Str) (l : List Node) : Prop := ∀ m ∈ subL l, SpanExact s m

end MesonModel.Lang
