/-
`span_exact`: every production returns a tree in which each call / array node has an exact extent
(`Sp`, see `SpanInv.lean`). Same order as `RoundTrip.lean`.
-/
import MesonModel.Lang.SpanInv

namespace MesonModel.Lang

variable {s : Str}

/-! ### the text between the first and the last token of a construct -/

theorem site_core {st0 st5 : PState} {X T : Str} (hy : Sync s st0) (hy5 : Sync s st5)
    (h0 : st0.cur.tid ≠ .eof) (h0' : st0.cur.tid ≠ .eol)
    (h5 : isCloser st5.cur.tid)
    (hX : rem st0 = X ++ rem st5) (hT : rem st5 = printed st5.cur ++ T) :
    ExtentIs s { lineno := st0.cur.lineno, colno := st0.cur.colno, endLineno := st5.cur.lineno,
                 endColno := st5.cur.colno + 1 } (X ++ st5.cur.value) := by
  have h5e : st5.cur.tid ≠ .eof := by rcases h5 with h | h | h <;> rw [h] <;> decide
  have h5l : st5.cur.tid ≠ .eol := by rcases h5 with h | h | h <;> rw [h] <;> decide
  obtain ⟨pre, e1, a1, _⟩ := sync_rem hy h0 h0'
  obtain ⟨pre5, e5, a5, c5⟩ := sync_rem hy5 h5e h5l
  have pv : printed st5.cur = st5.cur.value := printed_plain (by rcases h5 with h | h | h <;> rw [h] <;> decide)
  obtain ⟨cl, cn⟩ := c5 h5
  have e5' : s = pre5 ++ (printed st5.cur ++ T) := by rw [e5, hT]
  have a6 := addr_succ e5' cl cn a5
  have l1 := a1.lineOff
  have l5 := a5.lineOff
  refine ⟨?_, ?_, ?_⟩
  · show Addr s st0.cur.lineno st0.cur.colno (lineOff s st0.cur.lineno + st0.cur.colno)
    rw [l1]; exact a1
  · show Addr s st5.cur.lineno (st5.cur.colno + 1) (lineOff s st5.cur.lineno + (st5.cur.colno + 1))
    rw [← Nat.add_assoc, l5]; exact a6
  · show slice s (lineOff s st0.cur.lineno + st0.cur.colno) (lineOff s st5.cur.lineno + (st5.cur.colno + 1)) = _
    rw [l1, ← Nat.add_assoc, l5, ← pv]
    refine slice_core (T := T) ?_ e5' cl
    rw [e1, hX, hT]

/-! ### which results are `IdNode`s -/

theorem isId_addWs (n : Node) (ws : List Token) : (n.addWs ws).isId = n.isId := by
  cases n
  case codeblock b pre lines => simp only [Node.addWs]; split <;> rfl
  all_goals rfl

theorem lineno_addWs (n : Node) (ws : List Token) : (n.addWs ws).lineno = n.lineno ∧ (n.addWs ws).colno = n.colno :=
  base_addWs n ws

theorem e10_id {st st' : PState} {n : Node} (h : e10 st = .ok (n, st')) (hid : n.isId = true) :
    n.lineno = st.cur.lineno ∧ n.colno = st.cur.colno ∧ st.cur.tid = .id := by
  simp only [e10, bind_ok, cur_ok] at h
  obtain ⟨t, s0, ⟨rfl, rfl⟩, b1, s1, ha1, h⟩ := h
  cases b1
  · simp only [Bool.false_eq_true, if_false, bind_ok] at h
    obtain ⟨b2, s2, ha2, h⟩ := h
    cases b2
    · simp only [Bool.false_eq_true, if_false, bind_ok] at h
      obtain ⟨b3, s3, ha3, h⟩ := h
      cases b3
      · simp only [Bool.false_eq_true, if_false, bind_ok] at h
        obtain ⟨b4, s4, ha4, h⟩ := h
        cases b4
        · simp only [Bool.false_eq_true, if_false, bind_ok] at h
          obtain ⟨o, s5, ha5, h⟩ := h
          cases o
          · simp only [emptyAtCur] at h; cases h; cases hid
          · simp only at h
            split at h
            · rw [(create_spec h).1, isId_addWs] at hid; cases hid
            · simp only [bind_ok, get_ok] at h
              obtain ⟨_, _, ⟨rfl, rfl⟩, h⟩ := h
              cases hesc : escape s5.names st.cur.value <;> rw [hesc] at h <;> simp only at h
              · simp [fail_ok] at h
              · rw [(create_spec h).1, isId_addWs] at hid; cases hid
        · simp only [if_true] at h; rw [(create_spec h).1, isId_addWs] at hid; cases hid
      · simp only [if_true] at h
        cases accept_false ha1; cases accept_false ha2
        have htid : st.cur.tid = .id := by
          rcases accept_spec ha3 with ⟨h', _⟩ | ⟨_, ht, _⟩
          · cases h'
          · exact ht
        rw [(create_spec h).1]
        exact ⟨(lineno_addWs _ _).1, (lineno_addWs _ _).2, htid⟩
    · simp only [if_true] at h; rw [(create_spec h).1, isId_addWs] at hid; cases hid
  · simp only [if_true] at h; rw [(create_spec h).1, isId_addWs] at hid; cases hid

theorem e9_id {stmt : P Node} {k : Nat} {st st' : PState} {n : Node} (h : e9 stmt k st = .ok (n, st'))
    (hid : n.isId = true) : n.lineno = st.cur.lineno ∧ n.colno = st.cur.colno ∧ st.cur.tid = .id := by
  simp only [e9, bind_ok, cur_ok] at h
  obtain ⟨bs, s0, hbs, b1, s1, ha1, h⟩ := h
  cases hbs
  cases b1
  case true =>
    simp only [if_true, bind_ok, prev_ok, pure_ok] at h
    obtain ⟨lpar, s2, hl, e, s3, he, _, s4, hbe, tk, s5, hpv, rpar, s6, hr, h⟩ := h
    cases h; cases hid
  case false =>
    cases accept_false ha1
    simp only [Bool.false_eq_true, if_false, bind_ok] at h
    obtain ⟨b2, s2, ha2, h⟩ := h
    cases b2
    case true =>
      simp only [if_true, bind_ok, prev_ok] at h
      obtain ⟨lb, s3, hl, a, s4, hargs, _, s5, hbe, tk, s6, hpv, rb, s7, hr, hcr⟩ := h
      rw [(create_spec hcr).1, isId_addWs] at hid; cases hid
    case false =>
      cases accept_false ha2
      simp only [Bool.false_eq_true, if_false, bind_ok] at h
      obtain ⟨b3, s3, ha3, h⟩ := h
      cases b3
      case true =>
        simp only [if_true, bind_ok, prev_ok] at h
        obtain ⟨lb, s3, hl, a, s4, hargs, _, s5, hbe, tk, s6, hpv, rb, s7, hr, hcr⟩ := h
        rw [(create_spec hcr).1, isId_addWs] at hid; cases hid
      case false =>
        cases accept_false ha3
        simp only [Bool.false_eq_true, if_false] at h
        exact e10_id h hid

/-! ### `e10` -/

theorem e10_sp : Sp (s := s) e10 := by
  intro st n st' h
  simp only [e10, bind_ok, cur_ok] at h
  obtain ⟨t, s0, ⟨rfl, rfl⟩, b1, s1, ha1, h⟩ := h
  cases b1
  case true =>
    simp only [if_true] at h
    exact step_leaf ha1 h ((spans_boolean _ _).mpr (noEnd_ofTok _))
  case false =>
    cases accept_false ha1
    simp only [Bool.false_eq_true, if_false, bind_ok] at h
    obtain ⟨b2, s2, ha2, h⟩ := h
    cases b2
    case true =>
      simp only [if_true] at h
      exact step_leaf ha2 h ((spans_boolean _ _).mpr (noEnd_ofTok _))
    case false =>
      cases accept_false ha2
      simp only [Bool.false_eq_true, if_false, bind_ok] at h
      obtain ⟨b3, s3, ha3, h⟩ := h
      cases b3
      case true =>
        simp only [if_true] at h
        exact step_leaf ha3 h ((spans_id _ _).mpr (noEnd_ofTok _))
      case false =>
        cases accept_false ha3
        simp only [Bool.false_eq_true, if_false, bind_ok] at h
        obtain ⟨b4, s4, ha4, h⟩ := h
        cases b4
        case true =>
          simp only [if_true] at h
          exact step_leaf ha4 h ((spans_number _ _ _).mpr (noEnd_ofTok _))
        case false =>
          cases accept_false ha4
          simp only [Bool.false_eq_true, if_false, bind_ok] at h
          obtain ⟨o, s5, ha5, h⟩ := h
          cases o
          case none =>
            cases acceptAny_none ha5
            simp only [emptyAtCur] at h
            cases h
            exact Step.refl ((spans_empty _).mpr (noEnd_at _ _))
          case some tid =>
            simp only at h
            split at h
            · exact step_leafAny ha5 h ((spans_string _ _ _ _ _).mpr (noEnd_ofTok _))
            · simp only [bind_ok, get_ok] at h
              obtain ⟨_, _, ⟨rfl, rfl⟩, h⟩ := h
              cases hesc : escape s5.names st.cur.value <;> rw [hesc] at h <;> simp only at h
              · simp [fail_ok] at h
              · exact step_leafAny ha5 h ((spans_string _ _ _ _ _).mpr (noEnd_ofTok _))

/-! ### `args()` and `key_values()` -/

theorem argsHasKw_addComma (a c : Node) : argsHasKw (argsAddComma a c) = argsHasKw a := by
  cases a <;> rfl

/-- `ArgumentNode.append` with no keyword argument present: `order_error` stays unset -/
theorem spans_argsAppend {a x : Node} (ha : Spans s a) (hx : Spans s x) (hk : argsHasKw a = false) :
    Spans s (argsAppend a x) := by
  cases a <;> simp only [argsAppend] <;> try exact ha
  rw [spans_args] at ha ⊢
  simp only [argsHasKw] at hk
  have hoe : ∀ oe : Bool, oe = false → (oe || decide (_ > 0)) = false := fun oe h => by rw [h, hk]; rfl
  split
  · exact ⟨ha.1, hoe _ ha.2.1, ha.2.2⟩
  · exact ⟨ha.1, hoe _ ha.2.1, (spansL_snoc _ _).mpr ⟨ha.2.2.1, hx⟩, ha.2.2.2⟩

theorem spans_argsAddComma {a c : Node} (ha : Spans s a) (hc : Spans s c) : Spans s (argsAddComma a c) := by
  cases a <;> simp only [argsAddComma] <;> try exact ha
  rw [spans_args] at ha ⊢
  exact ⟨ha.1, ha.2.1, ha.2.2.1, (spansL_snoc _ _).mpr ⟨ha.2.2.2.1, hc⟩, ha.2.2.2.2⟩

theorem spans_argsAddColon {a c : Node} (ha : Spans s a) (hc : Spans s c) : Spans s (argsAddColon a c) := by
  cases a <;> simp only [argsAddColon] <;> try exact ha
  rw [spans_args] at ha ⊢
  exact ⟨ha.1, ha.2.1, ha.2.2.1, ha.2.2.2.1, (spansL_snoc _ _).mpr ⟨ha.2.2.2.2.1, hc⟩, ha.2.2.2.2.2⟩

theorem spans_argsSetKw {a k v : Node} (ha : Spans s a) (hk : Spans s k) (hv : Spans s v) :
    Spans s (argsSetKw a k v) := by
  cases a <;> simp only [argsSetKw] <;> try exact ha
  rw [spans_args] at ha ⊢
  exact ⟨ha.1, ha.2.1, ha.2.2.1, ha.2.2.2.1, ha.2.2.2.2.1, (spansL_snoc _ _).mpr ⟨ha.2.2.2.2.2.1, hk⟩,
    (spansL_snoc _ _).mpr ⟨ha.2.2.2.2.2.2, hv⟩⟩

theorem spans_emptyArgs (b : Base) (hb : NoEnd b) : Spans s (.args b [] [] [] [] [] false) :=
  (spans_args _ _ _ _ _ _ _).mpr ⟨hb, rfl, spansL_nil, spansL_nil, spansL_nil, spansL_nil, spansL_nil⟩

/-- the loops of `args()` / `key_values()`: the result contains the argument node and the pending statement -/
def ArgsLoopSp (s : Str) (f : Node → Node → P Node) : Prop :=
  ∀ a x st n st', f a x st = .ok (n, st') → Step s true true st st' (Spans s a → Spans s x → Spans s n)

theorem argsLoop_sp {stmt : P Node} (hp : Sp (s := s) stmt) (j : Nat) : ArgsLoopSp s (argsLoop stmt j) := by
  induction j with
  | zero => intro a x st n st' h; simp [argsLoop, fail_ok] at h
  | succ j ih =>
    intro a x st n st' h
    simp only [argsLoop] at h
    split at h
    · simp only [pure_ok] at h; cases h
      exact Step.refl (fun ha _ => ha)
    · simp only [bind_ok] at h
      obtain ⟨b1, s1, ha1, h⟩ := h
      cases b1
      case true =>
        simp only [if_true, bind_ok, prev_ok] at h
        obtain ⟨tk, s2, hpv, c, s3, hc, _, s4, hno, x', s5, hx', hloop⟩ := h
        cases hpv
        have t1 := step_sym (s := s) (w := true) ha1 hc
        have t2 := step_noteOrder (s := s) (w := true) hno
        have t3 := hp _ _ _ hx'
        have t4 := ih _ _ _ _ _ hloop
        exact (t1.trans (t2.trans (t3.trans t4))).mono
          (fun ⟨qc, qk, qx', ql⟩ ha hx =>
            ql (spans_argsAppend (spans_argsAddComma ha qc) hx ((argsHasKw_addComma _ _).trans qk)) qx')
      case false =>
        cases accept_false ha1
        simp only [Bool.false_eq_true, if_false, bind_ok] at h
        obtain ⟨b2, s2, ha2, h⟩ := h
        cases b2
        case false =>
          cases accept_false ha2
          simp only [Bool.false_eq_true, if_false, bind_ok, pure_ok] at h
          obtain ⟨_, s3, hno, h⟩ := h
          cases h
          exact (step_noteOrder (s := s) (w := true) hno).mono (fun qk ha hx => spans_argsAppend ha hx qk)
        case true =>
          simp only [if_true, bind_ok, prev_ok] at h
          obtain ⟨tk, s3, hpv, c, s4, hc, h⟩ := h
          cases hpv
          split at h
          · simp [raiseAt_ok] at h
          · simp only [bind_ok] at h
            obtain ⟨v, s5, hv, b3, s6, ha3, h⟩ := h
            have t1 := step_sym (s := s) (w := true) ha2 hc
            have t2 := hp _ _ _ hv
            cases b3
            case false =>
              cases accept_false ha3
              simp only [Bool.false_eq_true, Bool.not_false, if_true, pure_ok] at h
              cases h
              exact (t1.trans t2).mono (fun ⟨qc, qv⟩ ha hx => spans_argsSetKw (spans_argsAddColon ha qc) hx qv)
            case true =>
              simp only [Bool.not_true, Bool.false_eq_true, if_false, bind_ok, prev_ok] at h
              obtain ⟨tk2, s7, hpv2, c2, s8, hc2, x', s9, hx', hloop⟩ := h
              cases hpv2
              have t3 := step_sym (s := s) (w := true) ha3 hc2
              have t4 := hp _ _ _ hx'
              have t5 := ih _ _ _ _ _ hloop
              exact (t1.trans (t2.trans (t3.trans (t4.trans t5)))).mono
                (fun ⟨qc, qv, qc2, qx', ql⟩ ha hx =>
                  ql (spans_argsAddComma (spans_argsSetKw (spans_argsAddColon ha qc) hx qv) qc2) qx')

theorem args_sp {stmt : P Node} (hp : Sp (s := s) stmt) (k : Nat) : Sp (s := s) (args stmt k) := by
  intro st n st' h
  simp only [args, bind_ok, cur_ok] at h
  obtain ⟨x, s1, hx, c, s2, hc, a, s3, hcr, hloop⟩ := h
  cases hc
  have t1 := hp _ _ _ hx
  have t2 := step_create (s := s) (w := true) hcr
  have t3 := argsLoop_sp hp k _ _ _ _ _ hloop
  exact (t1.trans (t2.trans t3)).mono (fun ⟨qx, qa, ql⟩ => ql (qa.mpr (spans_emptyArgs _ (noEnd_at _ _))) qx)

theorem kvLoop_sp {stmt : P Node} (hp : Sp (s := s) stmt) (j : Nat) : ArgsLoopSp s (kvLoop stmt j) := by
  induction j with
  | zero => intro a x st n st' h; simp [kvLoop, fail_ok] at h
  | succ j ih =>
    intro a x st n st' h
    simp only [kvLoop] at h
    split at h
    · simp only [pure_ok] at h; cases h
      exact Step.refl (fun ha _ => ha)
    · simp only [bind_ok] at h
      obtain ⟨b2, s2, ha2, h⟩ := h
      cases b2
      case false =>
        simp [raiseAt_ok] at h
      case true =>
        simp only [if_true, bind_ok, prev_ok] at h
        obtain ⟨tk, s3, hpv, c, s4, hc, v, s5, hv, h⟩ := h
        cases hpv
        split at h
        · simp [raiseAt_ok] at h
        · simp only [bind_ok] at h
          obtain ⟨b3, s6, ha3, h⟩ := h
          have t1 := step_sym (s := s) (w := true) ha2 hc
          have t2 := hp _ _ _ hv
          cases b3
          case false =>
            cases accept_false ha3
            simp only [Bool.false_eq_true, Bool.not_false, if_true, pure_ok] at h
            cases h
            exact (t1.trans t2).mono (fun ⟨qc, qv⟩ ha hx => spans_argsSetKw (spans_argsAddColon ha qc) hx qv)
          case true =>
            simp only [Bool.not_true, Bool.false_eq_true, if_false, bind_ok, prev_ok] at h
            obtain ⟨tk2, s7, hpv2, c2, s8, hc2, x', s9, hx', hloop⟩ := h
            cases hpv2
            have t3 := step_sym (s := s) (w := true) ha3 hc2
            have t4 := hp _ _ _ hx'
            have t5 := ih _ _ _ _ _ hloop
            exact (t1.trans (t2.trans (t3.trans (t4.trans t5)))).mono
              (fun ⟨qc, qv, qc2, qx', ql⟩ ha hx =>
                ql (spans_argsAddComma (spans_argsSetKw (spans_argsAddColon ha qc) hx qv) qc2) qx')

theorem keyValues_sp {stmt : P Node} (hp : Sp (s := s) stmt) (k : Nat) : Sp (s := s) (keyValues stmt k) := by
  intro st n st' h
  simp only [keyValues, bind_ok, cur_ok] at h
  obtain ⟨x, s1, hx, c, s2, hc, a, s3, hcr, hloop⟩ := h
  cases hc
  have t1 := hp _ _ _ hx
  have t2 := step_create (s := s) (w := true) hcr
  have t3 := kvLoop_sp hp k _ _ _ _ _ hloop
  exact (t1.trans (t2.trans t3)).mono (fun ⟨qx, qa, ql⟩ => ql (qa.mpr (spans_emptyArgs _ (noEnd_at _ _))) qx)


/-! ### `e9`: parentheses, array and dictionary literals -/

/-- the extent of an `ArrayNode`: from its `[` to the end of its `]` -/
theorem arr_site {stmt : P Node} {k : Nat} {st s2 s3 s4 s5 s7 : PState} {lb a rb : Node} {u : Unit}
    (hs : Emits stmt)
    (ha : accept .lbracket st = .ok (true, s2)) (hl : createSymbol st.cur s2 = .ok (lb, s3))
    (hargs : args stmt k s3 = .ok (a, s4)) (hbe : blockExpect .rbracket s4 = .ok (u, s5))
    (hr : createSymbol s5.prev s5 = .ok (rb, s7)) (hd : s7.lossy = 0) (hws : st.ws = [])
    (hy : Sync s st) (hy4 : Sync s s4) :
    SpanExact s (.array { lineno := lb.lineno, colno := lb.colno, endLineno := rb.lineno,
                          endColno := rb.colno + 1 } lb a rb) := by
  obtain ⟨h1, h2, h3, h4, h5, h6, h7⟩ := accept_create (blockExpect_spec hbe) hr (by decide) trivial
  obtain ⟨da, ta⟩ := args_emits hs k _ _ _ hargs (by omega)
  obtain ⟨dl, wl, tl⟩ := sym_after_accept' ha hl (by decide)
  obtain ⟨w4, r4⟩ := ta wl
  have htid : st.cur.tid = .lbracket := by
    rcases accept_spec ha with ⟨h', _⟩ | ⟨_, ht, _⟩
    · cases h'
    · exact ht
  have core := site_core (X := emit lb ++ emit a) (T := wsText s5.ws ++ rem s7) hy hy4
    (by rw [htid]; decide) (by rw [htid]; decide) (Or.inr (Or.inl h2))
    (by rw [tl hws, r4]; simp [List.append_assoc]) (h7 w4)
  have erb : rb = Node.addWs s5.ws (symbolOf s5.prev) := (create_spec hr).1
  have elb : lb = Node.addWs s2.ws (symbolOf st.cur) := (create_spec hl).1
  have p1 : lb.lineno = st.cur.lineno := by rw [elb]; rfl
  have p2 : lb.colno = st.cur.colno := by rw [elb]; rfl
  have p3 : rb.lineno = s4.cur.lineno := by rw [erb, h3]; rfl
  have p4 : rb.colno = s4.cur.colno := by rw [erb, h3]; rfl
  have p5 : symValue rb = s4.cur.value := by rw [erb, h3]; rfl
  show ExtentIs s { lineno := lb.lineno, colno := lb.colno, endLineno := rb.lineno, endColno := rb.colno + 1 }
    (emit lb ++ emit a ++ symValue rb)
  rw [p1, p2, p3, p4, p5]; exact core

/-- the extent of a `DictNode`: from its `{` to the end of its `}` -/
theorem dict_site {stmt : P Node} {k : Nat} {st s2 s3 s4 s5 s7 : PState} {lb a rb : Node} {u : Unit}
    (hs : Emits stmt)
    (ha : accept .lcurl st = .ok (true, s2)) (hl : createSymbol st.cur s2 = .ok (lb, s3))
    (hargs : keyValues stmt k s3 = .ok (a, s4)) (hbe : blockExpect .rcurl s4 = .ok (u, s5))
    (hr : createSymbol s5.prev s5 = .ok (rb, s7)) (hd : s7.lossy = 0) (hws : st.ws = [])
    (hy : Sync s st) (hy4 : Sync s s4) :
    SpanExact s (.dict { lineno := lb.lineno, colno := lb.colno, endLineno := rb.lineno,
                         endColno := rb.colno + 1 } lb a rb) := by
  obtain ⟨h1, h2, h3, h4, h5, h6, h7⟩ := accept_create (blockExpect_spec hbe) hr (by decide) trivial
  obtain ⟨da, ta⟩ := keyValues_emits hs k _ _ _ hargs (by omega)
  obtain ⟨dl, wl, tl⟩ := sym_after_accept' ha hl (by decide)
  obtain ⟨w4, r4⟩ := ta wl
  have htid : st.cur.tid = .lcurl := by
    rcases accept_spec ha with ⟨h', _⟩ | ⟨_, ht, _⟩
    · cases h'
    · exact ht
  have core := site_core (X := emit lb ++ emit a) (T := wsText s5.ws ++ rem s7) hy hy4
    (by rw [htid]; decide) (by rw [htid]; decide) (Or.inr (Or.inr h2))
    (by rw [tl hws, r4]; simp [List.append_assoc]) (h7 w4)
  have erb : rb = Node.addWs s5.ws (symbolOf s5.prev) := (create_spec hr).1
  have elb : lb = Node.addWs s2.ws (symbolOf st.cur) := (create_spec hl).1
  have p1 : lb.lineno = st.cur.lineno := by rw [elb]; rfl
  have p2 : lb.colno = st.cur.colno := by rw [elb]; rfl
  have p3 : rb.lineno = s4.cur.lineno := by rw [erb, h3]; rfl
  have p4 : rb.colno = s4.cur.colno := by rw [erb, h3]; rfl
  have p5 : symValue rb = s4.cur.value := by rw [erb, h3]; rfl
  show ExtentIs s { lineno := lb.lineno, colno := lb.colno, endLineno := rb.lineno, endColno := rb.colno + 1 }
    (emit lb ++ emit a ++ symValue rb)
  rw [p1, p2, p3, p4, p5]; exact core

/-- the extent of a `ParenthesizedNode`: from its `(` to the end of its `)` -/
theorem paren_site {stmt : P Node} {st s2 s3 s4 s5 s7 : PState} {lb e rb : Node} {u : Unit}
    (hs : Emits stmt)
    (ha : accept .lparen st = .ok (true, s2)) (hl : createSymbol st.cur s2 = .ok (lb, s3))
    (he : stmt s3 = .ok (e, s4)) (hbe : blockExpect .rparen s4 = .ok (u, s5))
    (hr : createSymbol s5.prev s5 = .ok (rb, s7)) (hd : s7.lossy = 0) (hws : st.ws = [])
    (hy : Sync s st) (hy4 : Sync s s4) :
    SpanExact s (.paren { lineno := lb.lineno, colno := lb.colno, endLineno := rb.lineno,
                          endColno := rb.colno + 1 } lb e rb) := by
  obtain ⟨h1, h2, h3, h4, h5, h6, h7⟩ := accept_create (blockExpect_spec hbe) hr (by decide) trivial
  obtain ⟨de, _, te⟩ := hs _ _ _ he (by omega)
  obtain ⟨dl, wl, tl⟩ := sym_after_accept' ha hl (by decide)
  obtain ⟨w4, r4⟩ := te wl
  have htid : st.cur.tid = .lparen := by
    rcases accept_spec ha with ⟨h', _⟩ | ⟨_, ht, _⟩
    · cases h'
    · exact ht
  have core := site_core (X := emit lb ++ emit e) (T := wsText s5.ws ++ rem s7) hy hy4
    (by rw [htid]; decide) (by rw [htid]; decide) (Or.inl h2)
    (by rw [tl hws, r4]; simp [List.append_assoc]) (h7 w4)
  have erb : rb = Node.addWs s5.ws (symbolOf s5.prev) := (create_spec hr).1
  have elb : lb = Node.addWs s2.ws (symbolOf st.cur) := (create_spec hl).1
  have p1 : lb.lineno = st.cur.lineno := by rw [elb]; rfl
  have p2 : lb.colno = st.cur.colno := by rw [elb]; rfl
  have p3 : rb.lineno = s4.cur.lineno := by rw [erb, h3]; rfl
  have p4 : rb.colno = s4.cur.colno := by rw [erb, h3]; rfl
  have p5 : symValue rb = s4.cur.value := by rw [erb, h3]; rfl
  show ExtentIs s { lineno := lb.lineno, colno := lb.colno, endLineno := rb.lineno, endColno := rb.colno + 1 }
    (emit lb ++ emit e ++ symValue rb)
  rw [p1, p2, p3, p4, p5]; exact core

theorem e9_sp {stmt : P Node} (hs : Emits stmt) (hp : Sp (s := s) stmt) (k : Nat) : Sp (s := s) (e9 stmt k) := by
  intro st n st' h
  simp only [e9, bind_ok, cur_ok] at h
  obtain ⟨bs, s0, hbs, b1, s1, ha1, h⟩ := h
  cases hbs
  cases b1
  case true =>
    simp only [if_true, bind_ok, prev_ok, pure_ok] at h
    obtain ⟨lpar, s2, hl, e, s3, he, _, s4, hbe, tk, s5, hpv, rpar, s6, hr, h⟩ := h
    cases hpv; cases h
    have t1 := step_sym (s := s) (w := true) ha1 hl
    have t2 := hp _ _ _ he
    have t3 := step_sym (s := s) (w := true) (blockExpect_spec hbe) hr
    refine ⟨fun hd => t1.back (t2.back (t3.back hd)), fun hd hw hy => ?_⟩
    have d4 := t3.back hd
    have d3 := t2.back d4
    obtain ⟨w3, y3, q1⟩ := t1.fwd d3 hw hy
    obtain ⟨w4, y4, q2⟩ := t2.fwd d4 w3 y3
    obtain ⟨w7, y7, q3⟩ := t3.fwd hd w4 y4
    have site := paren_site hs ha1 hl he hbe hr hd (hw rfl) hy y4
    exact ⟨w7, y7, (spans_paren _ _ _ _).mpr ⟨site, q1, q2, q3⟩⟩
  case false =>
    cases accept_false ha1
    simp only [Bool.false_eq_true, if_false, bind_ok] at h
    obtain ⟨b2, s2, ha2, h⟩ := h
    cases b2
    case true =>
      simp only [if_true, bind_ok, prev_ok] at h
      obtain ⟨lb, s3, hl, a, s4, hargs, _, s5, hbe, tk, s6, hpv, rb, s7, hr, hcr⟩ := h
      cases hpv
      have t1 := step_sym (s := s) (w := true) ha2 hl
      have t2 := args_sp hp k _ _ _ hargs
      have t3 := step_sym (s := s) (w := true) (blockExpect_spec hbe) hr
      have t4 := step_create (s := s) (w := true) hcr
      refine ⟨fun hd => t1.back (t2.back (t3.back (t4.back hd))), fun hd hw hy => ?_⟩
      have d7 := t4.back hd
      have d4 := t3.back d7
      have d3 := t2.back d4
      obtain ⟨w3, y3, q1⟩ := t1.fwd d3 hw hy
      obtain ⟨w4, y4, q2⟩ := t2.fwd d4 w3 y3
      obtain ⟨w7, y7, q3⟩ := t3.fwd d7 w4 y4
      obtain ⟨wE, yE, q4⟩ := t4.fwd hd w7 y7
      have site := arr_site hs ha2 hl hargs hbe hr d7 (hw rfl) hy y4
      exact ⟨wE, yE, q4.mpr ((spans_array _ _ _ _).mpr ⟨site, q1, q2, q3⟩)⟩
    case false =>
      cases accept_false ha2
      simp only [Bool.false_eq_true, if_false, bind_ok] at h
      obtain ⟨b3, s3, ha3, h⟩ := h
      cases b3
      case true =>
        simp only [if_true, bind_ok, prev_ok] at h
        obtain ⟨lb, s3, hl, a, s4, hargs, _, s5, hbe, tk, s6, hpv, rb, s7, hr, hcr⟩ := h
        cases hpv
        have t1 := step_sym (s := s) (w := true) ha3 hl
        have t2 := keyValues_sp hp k _ _ _ hargs
        have t3 := step_sym (s := s) (w := true) (blockExpect_spec hbe) hr
        have t4 := step_create (s := s) (w := true) hcr
        refine ⟨fun hd => t1.back (t2.back (t3.back (t4.back hd))), fun hd hw hy => ?_⟩
        have d7 := t4.back hd
        have d4 := t3.back d7
        have d3 := t2.back d4
        obtain ⟨w3, y3, q1⟩ := t1.fwd d3 hw hy
        obtain ⟨w4, y4, q2⟩ := t2.fwd d4 w3 y3
        obtain ⟨w7, y7, q3⟩ := t3.fwd d7 w4 y4
        obtain ⟨wE, yE, q4⟩ := t4.fwd hd w7 y7
        have site := dict_site hs ha3 hl hargs hbe hr d7 (hw rfl) hy y4
        exact ⟨wE, yE, q4.mpr ((spans_dict _ _ _ _).mpr ⟨site, q1, q2, q3⟩)⟩
      case false =>
        cases accept_false ha3
        simp only [Bool.false_eq_true, if_false] at h
        exact e10_sp _ _ _ h

/-! ### indexing and method calls -/

theorem indexCall_sp {stmt : P Node} (hp : Sp (s := s) stmt) {source : Node} {s0 st st' : PState} {n : Node}
    (ha : accept .lbracket s0 = .ok (true, st)) (h : indexCall stmt source st = .ok (n, st')) :
    Step s true true s0 st' (Spans s source → Spans s n) := by
  simp only [indexCall, bind_ok, prev_ok] at h
  obtain ⟨tk, s1, hpv, lb, s2, hl, idx, s3, hi, _, s4, hex, tk2, s5, hpv2, rb, s6, hr, hcr⟩ := h
  cases hpv; cases hpv2
  have t1 := step_sym (s := s) (w := true) ha hl
  have t2 := hp _ _ _ hi
  have t3 := step_sym (s := s) (w := true) (expect_spec hex) hr
  have t4 := step_create (s := s) (w := true) hcr
  exact (t1.trans (t2.trans (t3.trans t4))).mono
    (fun ⟨q1, q2, q3, q4⟩ hsrc => q4.mpr ((spans_index _ _ _ _ _).mpr ⟨noEnd_at _ _, hsrc, q1, q2, q3⟩))

/-- the extent of a `MethodNode`: from its name to the end of its `)` -/
theorem meth_site {stmt : P Node} {k : Nat} {s2 s3 s4 s6 s7 s9 s10 : PState} {name lpar a rpar : Node}
    {u u' : Unit} (hs : Emits stmt)
    (hname : e10 s2 = .ok (name, s3)) (hid : name.isId = true)
    (hex : expect .lparen s3 = .ok (u, s4)) (hlp : createSymbol s4.prev s4 = .ok (lpar, s6))
    (hargs : args stmt k s6 = .ok (a, s7)) (hrp : createSymbol s7.cur s7 = .ok (rpar, s9))
    (hex2 : expect .rparen s9 = .ok (u', s10)) (hd : s10.lossy = 0) (hws : s2.ws = [])
    (hy : Sync s s2) (hy7 : Sync s s7) :
    ExtentIs s { lineno := name.lineno, colno := name.colno, endLineno := rpar.lineno,
                 endColno := rpar.colno + 1 } (emit name ++ emit lpar ++ emit a ++ symValue rpar) := by
  obtain ⟨d10, t10⟩ := accept_G (expect_spec hex2) (by decide)
  obtain ⟨_, _, _, d9⟩ := create_spec hrp
  obtain ⟨da, ta⟩ := args_emits hs k _ _ _ hargs (by omega)
  obtain ⟨dlp, wlp, tlp⟩ := sym_after_accept (expect_spec hex) hlp (by decide)
  obtain ⟨dn, en, tn⟩ := e10_emits _ _ _ hname (by omega)
  obtain ⟨w3, r3⟩ := tn hws
  obtain ⟨w7, r7⟩ := ta wlp
  obtain ⟨erp, hs9⟩ := create_nows hrp w7 trivial
  rw [hs9] at t10 hex2
  have htid : s7.cur.tid = .rparen := by
    rcases accept_spec (expect_spec hex2) with ⟨h', _⟩ | ⟨_, ht, _⟩
    · cases h'
    · exact ht
  obtain ⟨p1, p2, hidt⟩ := e10_id hname hid
  have pv : printed s7.cur = s7.cur.value := printed_plain (by rw [htid]; decide)
  have core := site_core (X := emit name ++ emit lpar ++ emit a) (T := G s10) hy hy7
    (by rw [hidt]; decide) (by rw [hidt]; decide) (Or.inl htid)
    (by rw [r3, tlp w3, r7]; simp [List.append_assoc]) (by rw [pv]; exact t10 w7)
  have erb : rpar = Node.addWs s7.ws (symbolOf s7.cur) := (create_spec hrp).1
  have p3 : rpar.lineno = s7.cur.lineno := by rw [erb]; rfl
  have p4 : rpar.colno = s7.cur.colno := by rw [erb]; rfl
  have p5 : symValue rpar = s7.cur.value := by rw [erb]; rfl
  rw [p1, p2, p3, p4, p5]; exact core

theorem methodCall_sp {stmt : P Node} (hs : Emits stmt) (hp : Sp (s := s) stmt) (k : Nat) (j : Nat) :
    ∀ {source : Node} {s0 st st' : PState} {n : Node},
    accept .dot s0 = .ok (true, st) → methodCall stmt k j source st = .ok (n, st') →
    Step s true true s0 st' (Spans s source → Spans s n) := by
  induction j with
  | zero => intro source s0 st st' n _ h; simp [methodCall, fail_ok] at h
  | succ j ih =>
    intro source s0 st st' n ha h
    simp only [methodCall, bind_ok, prev_ok] at h
    obtain ⟨tk, s1, hpv, dot, s2, hdot, name, s3, hname, h⟩ := h
    cases hpv
    split at h
    · split at h
      · simp [raiseAt_ok] at h
      · simp [bind_ok, cur_ok, fail_ok] at h
    · rename_i hnid
      have hid : name.isId = true := by simpa using hnid
      simp only [bind_ok, prev_ok, cur_ok] at h
      obtain ⟨_, s4, hex, tk2, s5, hpv2, lpar, s6, hlp, a, s7, hargs, ct, s8, hct, rpar, s9, hrp, _, s10, hex2,
        m, s11, hcr, b, s12, hdot2, h⟩ := h
      cases hpv2; cases hct
      have tail : Step s true true s11 st' (Spans s m → Spans s n) := by
        cases b
        case true =>
          simp only [if_true] at h
          exact ih hdot2 h
        case false =>
          cases accept_false hdot2
          simp only [Bool.false_eq_true, if_false, pure_ok] at h
          cases h
          exact Step.refl id
      have t1 := step_sym (s := s) (w := true) ha hdot
      have t2 := e10_sp (s := s) _ _ _ hname
      have t3 := step_sym (s := s) (w := true) (expect_spec hex) hlp
      have t4 := args_sp hp k _ _ _ hargs
      have t5 := step_createSymbol (s := s) (w := true) hrp
      have t6 := step_expect (s := s) (w := true) hex2
      have t7 := step_create (s := s) (w := false) hcr
      refine ⟨fun hd => t1.back (t2.back (t3.back (t4.back (t5.back (t6.back (t7.back (tail.back hd))))))),
        fun hd hw hy => ?_⟩
      have d11 := tail.back hd
      have d10 := t7.back d11
      have d9 := t6.back d10
      have d7 := t5.back d9
      have d6 := t4.back d7
      have d3 := t3.back d6
      have d2 := t2.back d3
      obtain ⟨w2, y2, q1⟩ := t1.fwd d2 hw hy
      obtain ⟨w3, y3, q2⟩ := t2.fwd d3 w2 y2
      obtain ⟨w6, y6, q3⟩ := t3.fwd d6 w3 y3
      obtain ⟨w7, y7, q4⟩ := t4.fwd d7 w6 y6
      obtain ⟨w9, y9, q5⟩ := t5.fwd d9 w7 y7
      obtain ⟨w10, y10, _⟩ := t6.fwd d10 w9 y9
      obtain ⟨w11, y11, q7⟩ := t7.fwd d11 w10 y10
      obtain ⟨wE, yE, qE⟩ := tail.fwd hd w11 y11
      have site := meth_site hs hname hid hex hlp hargs hrp hex2 d10 (w2 rfl) y2 y7
      exact ⟨wE, yE, fun hsrc => qE (q7.mpr ((spans_method _ _ _ _ _ _ _).mpr ⟨site, hsrc, q1, q2, q3, q4, q5⟩))⟩

theorem e8Loop_sp {stmt : P Node} (hs : Emits stmt) (hp : Sp (s := s) stmt) (k : Nat) (j : Nat) :
    LoopSp (s := s) (e8Loop stmt k j) := by
  induction j with
  | zero => intro left st n st' h; simp [e8Loop, fail_ok] at h
  | succ j ih =>
    intro left st n st' h
    simp only [e8Loop, bind_ok] at h
    obtain ⟨d, s1, hdot, h⟩ := h
    cases d
    case true =>
      simp only [if_true, bind_ok, Bool.true_or] at h
      obtain ⟨m, s2, hm, b, s3, hb, h⟩ := h
      have tm := methodCall_sp hs hp k k hdot hm
      cases b
      case true =>
        simp only [if_true, bind_ok] at h
        obtain ⟨ix, s4, hix, hloop⟩ := h
        have ti := indexCall_sp hp hb hix
        have tl := ih _ _ _ _ hloop
        exact (tm.trans (ti.trans tl)).mono (fun ⟨q1, q2, q3⟩ hl => q3 (q2 (q1 hl)))
      case false =>
        cases accept_false hb
        simp only [Bool.false_eq_true, if_false, bind_ok, pure_ok] at h
        obtain ⟨_, _, hpe, hloop⟩ := h
        cases hpe
        exact (tm.trans (ih _ _ _ _ hloop)).mono (fun ⟨q1, q3⟩ hl => q3 (q1 hl))
    case false =>
      cases accept_false hdot
      simp only [Bool.false_eq_true, if_false, bind_ok, pure_ok, Bool.false_or] at h
      obtain ⟨_, _, hpe, b, s3, hb, h⟩ := h
      cases hpe
      cases b
      case true =>
        simp only [if_true, bind_ok] at h
        obtain ⟨ix, s4, hix, hloop⟩ := h
        have ti := indexCall_sp hp hb hix
        exact (ti.trans (ih _ _ _ _ hloop)).mono (fun ⟨q2, q3⟩ hl => q3 (q2 hl))
      case false =>
        cases accept_false hb
        simp only [Bool.false_eq_true, if_false, bind_ok, pure_ok] at h
        obtain ⟨_, _, hpe, h⟩ := h
        cases hpe
        cases h
        exact Step.refl id

/-! ### `e8`: function calls -/

/-- the extent of a `FunctionNode`: from its name to the end of its `)` -/
theorem fn_site {stmt : P Node} {k : Nat} {st s1 s3 s4 s5 s6 s8 : PState} {left lpar a rpar : Node} {u : Unit}
    (hs : Emits stmt)
    (h9 : e9 stmt k st = .ok (left, s1)) (hid : left.isId = true)
    (hlp : accept .lparen s1 = .ok (true, s3)) (hl : createSymbol s1.cur s3 = .ok (lpar, s4))
    (hargs : args stmt k s4 = .ok (a, s5)) (hbe : blockExpect .rparen s5 = .ok (u, s6))
    (hr : createSymbol s6.prev s6 = .ok (rpar, s8)) (hd : s8.lossy = 0) (hws : st.ws = [])
    (hy : Sync s st) (hy5 : Sync s s5) :
    SpanExact s (.function { lineno := left.lineno, colno := left.colno, endLineno := rpar.base.endLineno,
                             endColno := rpar.base.endColno + 1 } left lpar a rpar) := by
  obtain ⟨h1, h2, h3, h4, h5, h6, h7⟩ := accept_create (blockExpect_spec hbe) hr (by decide) trivial
  obtain ⟨da, ta⟩ := args_emits hs k _ _ _ hargs (by omega)
  obtain ⟨dl, wl, tl⟩ := sym_after_accept' hlp hl (by decide)
  obtain ⟨d9, _, t9⟩ := e9_emits hs k _ _ _ h9 (by omega)
  obtain ⟨w1, r1⟩ := t9 hws
  obtain ⟨w5, r5⟩ := ta wl
  obtain ⟨p1, p2, hidt⟩ := e9_id h9 hid
  have core := site_core (X := emit left ++ emit lpar ++ emit a) (T := wsText s6.ws ++ rem s8) hy hy5
    (by rw [hidt]; decide) (by rw [hidt]; decide) (Or.inl h2)
    (by rw [r1, tl w1, r5]; simp [List.append_assoc]) (h7 w5)
  have erb : rpar = Node.addWs s6.ws (symbolOf s6.prev) := (create_spec hr).1
  have p3 : rpar.base.endLineno = s5.cur.lineno := by rw [erb, h3]; rfl
  have p4 : rpar.base.endColno = s5.cur.colno := by rw [erb, h3]; rfl
  have p5 : symValue rpar = s5.cur.value := by rw [erb, h3]; rfl
  show ExtentIs s { lineno := left.lineno, colno := left.colno, endLineno := rpar.base.endLineno,
                    endColno := rpar.base.endColno + 1 } (emit left ++ emit lpar ++ emit a ++ symValue rpar)
  rw [p1, p2, p3, p4, p5]; exact core

theorem e8_sp {stmt : P Node} (hs : Emits stmt) (hp : Sp (s := s) stmt) (k : Nat) : Sp (s := s) (e8 stmt k) := by
  intro st n st' h
  simp only [e8, bind_ok, cur_ok] at h
  obtain ⟨left, s1, h9, bs, s2, hbs, b, s3, hlp, h⟩ := h
  cases hbs
  have t9 := e9_sp hs hp k _ _ _ h9
  cases b
  case false =>
    cases accept_false hlp
    simp only [Bool.false_eq_true, if_false, bind_ok, pure_ok] at h
    obtain ⟨_, _, hpe, hloop⟩ := h
    cases hpe
    exact (t9.trans (e8Loop_sp hs hp k k _ _ _ _ hloop)).mono (fun ⟨q1, q2⟩ => q2 q1)
  case true =>
    simp only [if_true, bind_ok, prev_ok] at h
    obtain ⟨lpar, s4, hl, a, s5, hargs, _, s6, hbe, tk, s7, hpv, rpar, s8, hr, h⟩ := h
    cases hpv
    split at h
    · simp [bind_ok, raiseAt_ok] at h
    · rename_i hnid
      have hid : left.isId = true := by simpa using hnid
      simp only [bind_ok] at h
      obtain ⟨fn, s9, hcr, hloop⟩ := h
      have t1 := step_sym (s := s) (w := true) hlp hl
      have t2 := args_sp hp k _ _ _ hargs
      have t3 := step_sym (s := s) (w := true) (blockExpect_spec hbe) hr
      have t4 := step_create (s := s) (w := true) hcr
      have tL := e8Loop_sp hs hp k k _ _ _ _ hloop
      refine ⟨fun hd => t9.back (t1.back (t2.back (t3.back (t4.back (tL.back hd))))), fun hd hw hy => ?_⟩
      have d9 := tL.back hd
      have d8 := t4.back d9
      have d5 := t3.back d8
      have d4 := t2.back d5
      have d1 := t1.back d4
      obtain ⟨w1, y1, q0⟩ := t9.fwd d1 hw hy
      obtain ⟨w4, y4, q1⟩ := t1.fwd d4 w1 y1
      obtain ⟨w5, y5, q2⟩ := t2.fwd d5 w4 y4
      obtain ⟨w8, y8, q3⟩ := t3.fwd d8 w5 y5
      obtain ⟨w9, y9, q4⟩ := t4.fwd d9 w8 y8
      obtain ⟨wE, yE, qE⟩ := tL.fwd hd w9 y9
      have site := fn_site hs h9 hid hlp hl hargs hbe hr d8 (hw rfl) hy y5
      exact ⟨wE, yE, qE (q4.mpr ((spans_function _ _ _ _ _).mpr ⟨site, q0, q1, q2, q3⟩))⟩


/-! ### `e7 … e1` -/

theorem e7_sp {stmt : P Node} {k : Nat} (h8 : Sp (s := s) (e8 stmt k)) : Sp (s := s) (e7 stmt k) := by
  intro st n st' h
  simp only [e7, bind_ok] at h
  obtain ⟨b1, s1, ha1, h⟩ := h
  cases b1
  case true =>
    simp only [if_true, bind_ok, prev_ok, cur_ok] at h
    obtain ⟨tk, s2, hpv, sym, s3, hsym, t, s4, hc, v, s5, hv, hcr⟩ := h
    cases hpv; cases hc
    exact ((step_sym (w := true) ha1 hsym).trans ((h8 _ _ _ hv).trans (step_create hcr))).mono
      (fun ⟨q1, q2, q3⟩ => q3.mpr ((spans_unop _ _ _ _).mpr ⟨noEnd_at _ _, q1, q2⟩))
  case false =>
    cases accept_false ha1
    simp only [Bool.false_eq_true, if_false, bind_ok] at h
    obtain ⟨b2, s2, ha2, h⟩ := h
    cases b2
    case true =>
      simp only [if_true, bind_ok, prev_ok, cur_ok] at h
      obtain ⟨tk, s2, hpv, sym, s3, hsym, t, s4, hc, v, s5, hv, hcr⟩ := h
      cases hpv; cases hc
      exact ((step_sym (w := true) ha2 hsym).trans ((h8 _ _ _ hv).trans (step_create hcr))).mono
        (fun ⟨q1, q2, q3⟩ => q3.mpr ((spans_unop _ _ _ _).mpr ⟨noEnd_at _ _, q1, q2⟩))
    case false =>
      cases accept_false ha2
      simp only [Bool.false_eq_true, if_false] at h
      exact h8 _ _ _ h

/-- one round of a binary-operator loop: `op = create_node(SymbolNode, previous); left = create_node(BinOp, left, op, operand())` -/
theorem binop_round {k' : BinKind} {b : Base} {left sym r nd n : Node} {st s3 s4 s5 st' : PState}
    (hb : NoEnd b) (t1 : Step s true true st s3 (Spans s sym)) (t2 : Step s true true s3 s4 (Spans s r))
    (hcr : create (.binop k' b left sym r) s4 = .ok (nd, s5))
    (t4 : Step s true true s5 st' (Spans s nd → Spans s n)) :
    Step s true true st st' (Spans s left → Spans s n) :=
  (t1.trans (t2.trans ((step_create hcr).trans t4))).mono
    (fun ⟨q1, q2, q3, q4⟩ hl => q4 (q3.mpr ((spans_binop _ _ _ _ _).mpr ⟨hb, hl, q1, q2⟩)))

theorem e6Loop_sp {stmt : P Node} {k : Nat} (h7 : Sp (s := s) (e7 stmt k)) (j : Nat) :
    LoopSp (s := s) (e6Loop stmt k j) := by
  induction j with
  | zero => intro left st n st' h; simp [e6Loop, fail_ok] at h
  | succ j ih =>
    intro left st n st' h
    simp only [e6Loop, bind_ok] at h
    obtain ⟨o, s1, ha, h⟩ := h
    cases o
    case none =>
      cases acceptAny_none ha
      simp only [pure_ok] at h
      cases h
      exact Step.refl id
    case some op =>
      simp only [bind_ok, prev_ok] at h
      obtain ⟨tk, s2, hpv, sym, s3, hsym, r, s4, hr, nd, s5, hcr, hloop⟩ := h
      cases hpv
      exact binop_round (noEnd_at _ _) (step_symAny ha hsym) (h7 _ _ _ hr) hcr (ih _ _ _ _ hloop)

theorem e6_sp {stmt : P Node} {k : Nat} (h7 : Sp (s := s) (e7 stmt k)) : Sp (s := s) (e6 stmt k) :=
  sp_of_loop h7 (e6Loop_sp h7 k)

theorem e5Loop_sp {stmt : P Node} {k : Nat} (h6 : Sp (s := s) (e6 stmt k)) (j : Nat) :
    LoopSp (s := s) (e5Loop stmt k j) := by
  induction j with
  | zero => intro left st n st' h; simp [e5Loop, fail_ok] at h
  | succ j ih =>
    intro left st n st' h
    simp only [e5Loop, bind_ok] at h
    obtain ⟨o, s1, ha, h⟩ := h
    cases o
    case none =>
      cases acceptAny_none ha
      simp only [pure_ok] at h
      cases h
      exact Step.refl id
    case some op =>
      simp only [bind_ok, prev_ok] at h
      obtain ⟨tk, s2, hpv, sym, s3, hsym, r, s4, hr, nd, s5, hcr, hloop⟩ := h
      cases hpv
      exact binop_round (noEnd_at _ _) (step_symAny ha hsym) (h6 _ _ _ hr) hcr (ih _ _ _ _ hloop)

theorem e5_sp {stmt : P Node} {k : Nat} (h6 : Sp (s := s) (e6 stmt k)) : Sp (s := s) (e5 stmt k) :=
  sp_of_loop h6 (e5Loop_sp h6 k)

/-- the merged `not in` symbol -/
theorem step_notin {sA s1 s2 s4 : PState} {tok : Token} {o : Node}
    (ha1 : accept .kNot sA = .ok (true, s1)) (ha2 : accept .kIn s1 = .ok (true, s2))
    (hc : createSymbol tok { s2 with ws := s2.ws.drop s1.ws.length } = .ok (o, s4)) :
    Step s true true sA s4 (Spans s o) :=
  ((step_accept (w := true) ha1).trans ((step_accept ha2).trans
    ((Step.sameStream (w := false) (a := s2) (b := { s2 with ws := s2.ws.drop s1.ws.length }) rfl rfl rfl).trans
      (step_createSymbol hc)))).mono (fun h => h.2.2.2)

theorem e4_sp {stmt : P Node} {k : Nat} (h5 : Sp (s := s) (e5 stmt k)) : Sp (s := s) (e4 stmt k) := by
  intro st n st' h
  simp only [e4, bind_ok] at h
  obtain ⟨left, sA, hleft, o, s1, hany, h⟩ := h
  have t0 := h5 _ _ _ hleft
  cases o
  case some op =>
    simp only [bind_ok, prev_ok] at h
    obtain ⟨tk, s2, hpv, sym, s3, hsym, r, s4, hr, hcr⟩ := h
    cases hpv
    exact (t0.trans ((step_symAny hany hsym).trans ((h5 _ _ _ hr).trans (step_create hcr)))).mono
      (fun ⟨q0, q1, q2, q3⟩ => q3.mpr ((spans_binop _ _ _ _ _).mpr ⟨noEnd_at _ _, q0, q1, q2⟩))
  case none =>
    cases acceptAny_none hany
    simp only [bind_ok] at h
    obtain ⟨b, s2, hnot, h⟩ := h
    cases b
    case false =>
      cases accept_false hnot
      simp only [Bool.false_eq_true, if_false, pure_ok] at h
      cases h
      exact t0
    case true =>
      simp only [if_true, bind_ok, get_ok, prev_ok] at h
      obtain ⟨_, _, hg, nt, s3, hpv, b2, s4, hin, h⟩ := h
      cases hg; cases hpv
      cases b2
      case false =>
        cases accept_false hin
        simp [bind_ok, cur_ok, fail_ok] at h
      case true =>
        simp only [if_true, bind_ok, prev_ok, modify_ok] at h
        obtain ⟨it, s5, hpv2, _, s6, hm, h⟩ := h
        cases hpv2; cases hm
        split at h
        · simp [fail_ok] at h
        · simp only [bind_ok] at h
          obtain ⟨sym, s7, hsym, r, s8, hr, hcr⟩ := h
          exact (t0.trans ((step_notin hnot hin hsym).trans ((h5 _ _ _ hr).trans (step_create hcr)))).mono
            (fun ⟨q0, q1, q2, q3⟩ => q3.mpr ((spans_binop _ _ _ _ _).mpr ⟨noEnd_at _ _, q0, q1, q2⟩))

theorem e3Loop_sp {stmt : P Node} {k : Nat} (h4 : Sp (s := s) (e4 stmt k)) (j : Nat) :
    LoopSp (s := s) (e3Loop stmt k j) := by
  induction j with
  | zero => intro left st n st' h; simp [e3Loop, fail_ok] at h
  | succ j ih =>
    intro left st n st' h
    simp only [e3Loop, bind_ok] at h
    obtain ⟨b, s1, ha, h⟩ := h
    cases b
    case false =>
      cases accept_false ha
      simp only [Bool.false_eq_true, if_false, pure_ok] at h
      cases h
      exact Step.refl id
    case true =>
      simp only [if_true, bind_ok, prev_ok] at h
      obtain ⟨tk, s2, hpv, sym, s3, hsym, h⟩ := h
      cases hpv
      split at h
      · simp [raiseAt_ok] at h
      · simp only [bind_ok] at h
        obtain ⟨r, s4, hr, nd, s5, hcr, hloop⟩ := h
        exact binop_round (noEnd_at _ _) (step_sym ha hsym) (h4 _ _ _ hr) hcr (ih _ _ _ _ hloop)

theorem e3_sp {stmt : P Node} {k : Nat} (h4 : Sp (s := s) (e4 stmt k)) : Sp (s := s) (e3 stmt k) :=
  sp_of_loop h4 (e3Loop_sp h4 k)

theorem e2Loop_sp {stmt : P Node} {k : Nat} (h3 : Sp (s := s) (e3 stmt k)) (j : Nat) :
    LoopSp (s := s) (e2Loop stmt k j) := by
  induction j with
  | zero => intro left st n st' h; simp [e2Loop, fail_ok] at h
  | succ j ih =>
    intro left st n st' h
    simp only [e2Loop, bind_ok] at h
    obtain ⟨b, s1, ha, h⟩ := h
    cases b
    case false =>
      cases accept_false ha
      simp only [Bool.false_eq_true, if_false, pure_ok] at h
      cases h
      exact Step.refl id
    case true =>
      simp only [if_true, bind_ok, prev_ok] at h
      obtain ⟨tk, s2, hpv, sym, s3, hsym, h⟩ := h
      cases hpv
      split at h
      · simp [raiseAt_ok] at h
      · simp only [bind_ok] at h
        obtain ⟨r, s4, hr, nd, s5, hcr, hloop⟩ := h
        exact binop_round (noEnd_at _ _) (step_sym ha hsym) (h3 _ _ _ hr) hcr (ih _ _ _ _ hloop)

theorem e2_sp {stmt : P Node} {k : Nat} (h3 : Sp (s := s) (e3 stmt k)) : Sp (s := s) (e2 stmt k) :=
  sp_of_loop h3 (e2Loop_sp h3 k)

theorem e1_sp {stmt : P Node} {k : Nat} (hp : Sp (s := s) stmt) (h2 : Sp (s := s) (e2 stmt k)) :
    Sp (s := s) (e1 stmt k) := by
  intro st n st' h
  simp only [e1, bind_ok] at h
  obtain ⟨left, sA, hleft, b1, s1, ha1, h⟩ := h
  have t0 := h2 _ _ _ hleft
  cases b1
  case true =>
    simp only [if_true, bind_ok, prev_ok] at h
    obtain ⟨tk, s2, hpv, sym, s3, hsym, v, s4, hv, h⟩ := h
    cases hpv
    split at h
    · simp [raiseAt_ok] at h
    · exact (t0.trans ((step_sym ha1 hsym).trans ((hp _ _ _ hv).trans (step_create h)))).mono
        (fun ⟨q0, q1, q2, q3⟩ => q3.mpr ((spans_assign _ _ _ _ _).mpr ⟨noEnd_at _ _, q0, q1, q2⟩))
  case false =>
    cases accept_false ha1
    simp only [Bool.false_eq_true, if_false, bind_ok] at h
    obtain ⟨b2, s2, ha2, h⟩ := h
    cases b2
    case true =>
      simp only [if_true, bind_ok, prev_ok] at h
      obtain ⟨tk, s2, hpv, sym, s3, hsym, v, s4, hv, h⟩ := h
      cases hpv
      split at h
      · simp [raiseAt_ok] at h
      · exact (t0.trans ((step_sym ha2 hsym).trans ((hp _ _ _ hv).trans (step_create h)))).mono
          (fun ⟨q0, q1, q2, q3⟩ => q3.mpr ((spans_assign _ _ _ _ _).mpr ⟨noEnd_at _ _, q0, q1, q2⟩))
    case false =>
      cases accept_false ha2
      simp only [Bool.false_eq_true, if_false, bind_ok] at h
      obtain ⟨b3, s3, ha3, h⟩ := h
      cases b3
      case false =>
        cases accept_false ha3
        simp only [Bool.false_eq_true, if_false, pure_ok] at h
        cases h
        exact t0
      case true =>
        simp only [if_true, bind_ok, get_ok] at h
        obtain ⟨_, _, hg, h⟩ := h
        cases hg
        split at h
        · simp [raiseAt_ok] at h
        · simp only [bind_ok, prev_ok, modify_ok] at h
          obtain ⟨tk, s4, hpv, q, s5, hq, _, s6, hm, t, s7, ht, _, s8, hcol, tk2, s9, hpv2, c, s10, hc, f, s11, hf,
            _, s12, hm2, hcr⟩ := h
          cases hpv; cases hm; cases hpv2; cases hm2
          have t1 := step_sym (s := s) (w := true) ha3 hq
          have t2 : Step s true true s5 { s5 with inTernary := true } True := Step.same rfl rfl rfl rfl
          have t3 := hp _ _ _ ht
          have t4 := step_sym (s := s) (w := true) (expect_spec hcol) hc
          have t5 := hp _ _ _ hf
          have t6 : Step s true true s11 { s11 with inTernary := false } True := Step.same rfl rfl rfl rfl
          have t7 := step_create (s := s) (w := true) hcr
          exact (t0.trans (t1.trans (t2.trans (t3.trans (t4.trans (t5.trans (t6.trans t7))))))).mono
            (fun ⟨q0, q1, _, q3, q4, q5, _, q7⟩ => q7.mpr ((spans_ternary _ _ _ _ _ _).mpr ⟨noEnd_at _ _, q0, q1, q3, q4, q5⟩))

/-- `statement()` for every fuel -/
theorem statement_sp (fuel : Nat) : Sp (s := s) (statement fuel) := by
  induction fuel with
  | zero => intro st n st' h; simp [statement, fail_ok] at h
  | succ m ih =>
    have hs := statement_emits m
    have h8 := e8_sp hs ih m
    have h7 := e7_sp h8
    have h6 := e6_sp h7
    have h5 := e5_sp h6
    have h4 := e4_sp h5
    have h3 := e3_sp h4
    have h2 := e2_sp h3
    exact e1_sp ih h2


/-! ### blocks -/

/-- `codeblock()`: entered with anything pending, leaves nothing pending -/
def SpB (s : Str) (cb : P Node) : Prop := ∀ st n st', cb st = .ok (n, st') → Step s false true st st' (Spans s n)

theorem foreach_tail_sp {stmt cb : P Node} (hp : Sp (s := s) stmt) (hcb : SpB s cb) {kw : Node}
    {vars commas : List Node} {st : PState} {n : Node} {st' : PState}
    (h : (do
            expect Tid.colon
            let colon ← createSymbol (← prev)
            let items ← stmt
            let block ← cb
            let endkw ← createSymbol (← cur)
            create (Node.foreach (Base.at kw.lineno kw.colno) kw vars commas colon items block endkw)) st =
          .ok (n, st')) :
    Step s true true st st' (Spans s kw → SpansL s vars → SpansL s commas → Spans s n) := by
  simp only [bind_ok, prev_ok, cur_ok] at h
  obtain ⟨_, s1, hex, tk, s2, hpv, colon, s3, hcol, items, s4, hit, block, s5, hb, ct, s6, hct, endkw, s7, hek, hcr⟩ := h
  cases hpv; cases hct
  have t1 := step_sym (s := s) (w := true) (expect_spec hex) hcol
  have t2 := hp _ _ _ hit
  have t3 := (hcb _ _ _ hb).strong
  have t4 := step_createSymbol (s := s) (w := true) hek
  have t5 := step_create (s := s) (w := true) hcr
  exact (t1.trans (t2.trans (t3.trans (t4.trans t5)))).mono
    (fun ⟨q1, q2, q3, q4, q5⟩ hk hv hc => q5.mpr ((spans_foreach _ _ _ _ _ _ _ _).mpr ⟨noEnd_at _ _, hk, hv, hc, q1, q2, q3, q4⟩))

theorem foreachBlock_sp {stmt cb : P Node} (hp : Sp (s := s) stmt) (hcb : SpB s cb) {s0 st st' : PState} {n : Node}
    (ha : accept .kForeach s0 = .ok (true, st)) (h : foreachBlock stmt cb st = .ok (n, st')) :
    Step s true true s0 st' (Spans s n) := by
  simp only [foreachBlock, bind_ok, prev_ok] at h
  obtain ⟨tk, s1, hpv, kw, s2, hkw, _, s3, hex, p, s4, hpv2, v1, s5, hv1, b, s6, hcm, h⟩ := h
  cases hpv; cases hpv2
  have t1 := step_sym (s := s) (w := true) ha hkw
  have t2 := step_leaf (s := s) (w := true) (expect_spec hex) hv1 ((spans_id _ _).mpr (noEnd_ofTok _))
  cases b
  case false =>
    cases accept_false hcm
    simp only [Bool.false_eq_true, if_false, bind_ok, pure_ok] at h
    obtain ⟨_, _, hpe, h⟩ := h
    cases hpe
    have tt := foreach_tail_sp (kw := kw) (vars := [v1]) (commas := []) hp hcb (by simp only [bind_ok]; exact h)
    exact (t1.trans (t2.trans tt)).mono
      (fun ⟨q1, q2, q3⟩ => q3 q1 ((spansL_cons _ _).mpr ⟨q2, spansL_nil⟩) spansL_nil)
  case true =>
    simp only [if_true, bind_ok, prev_ok, pure_ok] at h
    obtain ⟨tk2, s7, hpv3, c, s8, hc, _, s9, hex2, p2, s10, hpv4, v2, s11, hv2, _, _, hpe, h⟩ := h
    cases hpv3; cases hpv4; cases hpe
    have tt := foreach_tail_sp (kw := kw) (vars := [v1, v2]) (commas := [c]) hp hcb
      (by simp only [bind_ok, prev_ok]; exact h)
    have t3 := step_sym (s := s) (w := true) hcm hc
    have t4 := step_leaf (s := s) (w := true) (expect_spec hex2) hv2 ((spans_id _ _).mpr (noEnd_ofTok _))
    exact (t1.trans (t2.trans (t3.trans (t4.trans tt)))).mono
      (fun ⟨q1, q2, q3, q4, q5⟩ =>
        q5 q1 ((spansL_cons _ _).mpr ⟨q2, (spansL_cons _ _).mpr ⟨q4, spansL_nil⟩⟩)
          ((spansL_cons _ _).mpr ⟨q3, spansL_nil⟩))

theorem elseifLoop_sp {stmt cb : P Node} (hp : Sp (s := s) stmt) (hcb : SpB s cb) (j : Nat) :
    ∀ {ifs ifs' : List Node} {st st' : PState}, elseifLoop stmt cb j ifs st = .ok (ifs', st') →
      Step s true true st st' (SpansL s ifs → SpansL s ifs') := by
  induction j with
  | zero => intro ifs ifs' st st' h; simp [elseifLoop, fail_ok] at h
  | succ j ih =>
    intro ifs ifs' st st' h
    simp only [elseifLoop, bind_ok] at h
    obtain ⟨b, s1, ha, h⟩ := h
    cases b
    case false =>
      cases accept_false ha
      simp only [Bool.false_eq_true, if_false, pure_ok] at h
      cases h
      exact Step.refl id
    case true =>
      simp only [if_true, bind_ok, prev_ok] at h
      obtain ⟨tk, s2, hpv, kw, s3, hkw, c, s4, hc, _, s5, hex, b, s6, hb, nd, s7, hcr, hloop⟩ := h
      cases hpv
      have t1 := step_sym (s := s) (w := true) ha hkw
      have t2 := hp _ _ _ hc
      have t3 := step_expect (s := s) (w := true) hex
      have t4 := hcb _ _ _ hb
      have t5 := step_create (s := s) (w := true) hcr
      have t6 := ih hloop
      exact (t1.trans (t2.trans (t3.trans (t4.trans (t5.trans t6))))).mono
        (fun ⟨q1, q2, _, q4, q5, q6⟩ hifs =>
          q6 ((spansL_snoc _ _).mpr ⟨hifs, q5.mpr ((spans_ifnode _ _ _ _).mpr ⟨noEnd_at _ _, q1, q2, q4⟩)⟩))

theorem elseBlock_sp {cb : P Node} (hcb : SpB s cb) {st st' : PState} {n : Node}
    (h : elseBlock cb st = .ok (n, st')) : Step s true true st st' (Spans s n) := by
  simp only [elseBlock, bind_ok] at h
  obtain ⟨b, s1, ha, h⟩ := h
  cases b
  case false =>
    cases accept_false ha
    simp only [Bool.false_eq_true, if_false, emptyAtCur] at h
    cases h
    exact Step.refl ((spans_empty _).mpr (noEnd_at _ _))
  case true =>
    simp only [if_true, bind_ok, prev_ok, pure_ok] at h
    obtain ⟨tk, s2, hpv, kw, s3, hkw, _, s4, hex, b, s5, hb, h⟩ := h
    cases hpv; cases h
    have t1 := step_sym (s := s) (w := true) ha hkw
    have t2 := step_expect (s := s) (w := true) hex
    have t3 := hcb _ _ _ hb
    exact (t1.trans (t2.trans t3)).mono (fun ⟨q1, _, q3⟩ => (spans_elsenode _ _ _).mpr ⟨noEnd_at _ _, q1, q3⟩)

theorem ifBlock_sp {stmt cb : P Node} (hp : Sp (s := s) stmt) (hcb : SpB s cb) (k : Nat) {s0 st st' : PState}
    {n : Node} (ha : accept .kIf s0 = .ok (true, st)) (h : ifBlock stmt cb k st = .ok (n, st')) :
    Step s true true s0 st' (Spans s n) := by
  simp only [ifBlock, bind_ok, prev_ok, cur_ok, pure_ok] at h
  obtain ⟨tk, s1, hpv, kw, s2, hkw, c, s3, hc, clause, s4, hcl, _, s5, hex, b, s6, hb, first, s7, hf,
    ifs, s8, hifs, elseb, s9, hel, ct, s10, hct, endif, s11, hen, h⟩ := h
  cases hpv; cases hct; cases h
  have t1 := step_sym (s := s) (w := true) ha hkw
  have t2 := hp _ _ _ hc
  have t3 := step_create (s := s) (w := true) hcl
  have t4 := step_expect (s := s) (w := true) hex
  have t5 := hcb _ _ _ hb
  have t6 := step_create (s := s) (w := true) hf
  have t7 := elseifLoop_sp hp hcb k hifs
  have t8 := elseBlock_sp hcb hel
  have t9 := step_createSymbol (s := s) (w := true) hen
  exact (t1.trans (t2.trans (t3.trans (t4.trans (t5.trans (t6.trans (t7.trans (t8.trans t9)))))))).mono
    (fun ⟨q1, q2, _, _, q5, q6, q7, q8, q9⟩ =>
      (spans_ifclause _ _ _ _).mpr
        ⟨by rw [(create_spec hcl).1]; exact ⟨rfl, rfl⟩,
          q7 ((spansL_cons _ _).mpr ⟨q6.mpr ((spans_ifnode _ _ _ _).mpr ⟨noEnd_at _ _, q1, q2, q5⟩), spansL_nil⟩),
          q8, q9⟩)

/-- a line may leave the trivia after its closing keyword pending -/
def SpLine (s : Str) (f : P Node) : Prop := ∀ st n st', f st = .ok (n, st') → Step s true false st st' (Spans s n)

theorem line_sp {stmt cb : P Node} (hp : Sp (s := s) stmt) (hcb : SpB s cb) (k : Nat) : SpLine s (line stmt cb k) := by
  intro st n st' h
  simp only [line, bind_ok, cur_ok] at h
  obtain ⟨bs, s0, hbs, h⟩ := h
  cases hbs
  split at h
  · simp only [emptyAtCur] at h; cases h
    exact (Step.refl ((spans_empty _).mpr (noEnd_at _ _))).weak
  · simp only [bind_ok] at h
    obtain ⟨b1, s1, ha1, h⟩ := h
    cases b1
    case true =>
      simp only [if_true, bind_ok, pure_ok] at h
      obtain ⟨nd, s2, hif, _, s3, hbe, h⟩ := h
      cases h
      exact ((ifBlock_sp hp hcb k ha1 hif).trans (step_blockExpect hbe)).mono (fun h => h.1)
    case false =>
      cases accept_false ha1
      simp only [Bool.false_eq_true, if_false, bind_ok] at h
      obtain ⟨b2, s2, ha2, h⟩ := h
      cases b2
      case true =>
        simp only [if_true, bind_ok, pure_ok] at h
        obtain ⟨nd, s3, hfe, _, s4, hbe, h⟩ := h
        cases h
        exact ((foreachBlock_sp hp hcb ha2 hfe).trans (step_blockExpect hbe)).mono (fun h => h.1)
      case false =>
        cases accept_false ha2
        simp only [Bool.false_eq_true, if_false, bind_ok] at h
        obtain ⟨b3, s3, ha3, h⟩ := h
        cases b3
        case true =>
          simp only [if_true, bind_ok, cur_ok] at h
          obtain ⟨c, s4, hc, hcr⟩ := h
          cases hc
          exact (step_leaf ha3 hcr ((spans_continue _).mpr (noEnd_ofTok _))).weak
        case false =>
          cases accept_false ha3
          simp only [Bool.false_eq_true, if_false, bind_ok] at h
          obtain ⟨b4, s4, ha4, h⟩ := h
          cases b4
          case true =>
            simp only [if_true, bind_ok, cur_ok] at h
            obtain ⟨c, s5, hc, hcr⟩ := h
            cases hc
            exact (step_leaf ha4 hcr ((spans_break _).mpr (noEnd_ofTok _))).weak
          case false =>
            cases accept_false ha4
            simp only [Bool.false_eq_true, if_false] at h
            exact (hp _ _ _ h).weak

theorem spans_blockAppendLine {block l : Node} (hb : Spans s block) (hl : Spans s l) :
    Spans s (blockAppendLine block l) := by
  cases block <;> simp only [blockAppendLine] <;> try exact hb
  split
  · exact hb
  · rw [spans_codeblock] at hb ⊢
    exact ⟨hb.1, (spansL_snoc _ _).mpr ⟨hb.2, hl⟩⟩

theorem codeblockLoop_sp {stmt cb : P Node} (hp : Sp (s := s) stmt) (hcb : SpB s cb) (k : Nat) (j : Nat) :
    ∀ {block n : Node} {st st' : PState}, codeblockLoop stmt cb k j block st = .ok (n, st') →
      Step s false true st st' (Spans s block → Spans s n) := by
  induction j with
  | zero => intro block n st st' h; simp [codeblockLoop, fail_ok] at h
  | succ j ih =>
    intro block n st st' h
    simp only [codeblockLoop, bind_ok] at h
    obtain ⟨b1, s1, hfl, l, s2, hl, b, s3, ha, h⟩ := h
    have t1 := step_flushWs (s := s) (w := false) hfl
    have t2 := line_sp hp hcb k _ _ _ hl
    cases b
    case true =>
      simp only [if_true] at h
      have t3 := step_accept (s := s) (w := false) ha
      have t4 := ih h
      exact (t1.trans (t2.trans (t3.trans t4))).mono
        (fun ⟨q1, q2, _, q4⟩ hb => q4 (spans_blockAppendLine (q1.mpr hb) q2))
    case false =>
      cases accept_false ha
      simp only [Bool.false_eq_true, if_false] at h
      have t3 := step_flushWs (s := s) (w := false) h
      exact (t1.trans (t2.trans t3)).mono
        (fun ⟨q1, q2, q3⟩ hb => q3.mpr (spans_blockAppendLine (q1.mpr hb) q2))

/-- `codeblock()` for every fuel -/
theorem codeblock_sp (fuel : Nat) : SpB s (codeblock fuel) := by
  induction fuel with
  | zero => intro st n st' h; simp [codeblock, fail_ok] at h
  | succ m ih =>
    intro st n st' h
    simp only [codeblock, bind_ok, cur_ok] at h
    obtain ⟨c, s0, hc, block, s1, hcr, hloop⟩ := h
    cases hc
    have t1 := step_create (s := s) (w := false) hcr
    have t2 := (codeblockLoop_sp (statement_sp m) ih m m hloop).strong
    exact (t1.trans t2).mono (fun ⟨q1, q2⟩ => q2 (q1.mpr ((spans_codeblock _ _ _).mpr ⟨noEnd_at _ _, spansL_nil⟩)))


/-! ### `Parser(code).parse()` -/

theorem streamOk_of_chain : ∀ (toks : List Token) (pre : Str), OffChain pre.length toks →
    (∀ t ∈ toks, printed t = t.text ∧ Addr s t.lineno t.colno t.spanStart ∧
      (isCloser t.tid → t.text.length = 1 ∧ countNl t.text = 0)) →
    s = pre ++ restText toks → StreamOk s toks := by
  intro toks
  induction toks with
  | nil => intro _ _ _ _; trivial
  | cons t ts ih =>
    intro pre hch hall heq
    obtain ⟨hs, hc⟩ := hch
    obtain ⟨h1, h2, h3⟩ := hall t List.mem_cons_self
    have hrt : restText (t :: ts) = printed t ++ restText ts := by simp [restText]
    refine ⟨⟨pre, by rw [heq, hrt], by rw [← hs]; exact h2, fun hcl => by rw [h1]; exact h3 hcl⟩, ?_⟩
    refine ih (pre ++ t.text) (by simpa using hc) (fun x hx => hall x (List.mem_cons_of_mem _ hx)) ?_
    rw [heq, hrt, h1]; simp [List.append_assoc]

/-- the lexer establishes the stream invariant -/
theorem lex_streamOk (s : Str) (he : (lex s).err = none) : StreamOk s (lex s).toks := by
  have hp := lex_printed s
  have ho := lex_token_linecol s
  have hc := lex_closer s
  refine streamOk_of_chain (lex s).toks [] (lex_chain s) (fun t ht => ⟨(hp t ht).2, ho t ht, hc t ht⟩) ?_
  rw [restText_eq_texts (fun t ht => (hp t ht).2)]
  exact (lex_complete s he).symm

theorem parseToks_spans {names : List (Str × Nat)} {lr : LexResult} {fuel : Nat} {r : ParseOk}
    (h : parseToks names lr fuel = .ok r) (hl : r.lossy = 0) (hok : StreamOk s lr.toks) : Spans s r.tree := by
  unfold parseToks at h
  simp only at h
  split at h
  · cases h
  · rename_i u s1 hg
    split at h
    · cases h
    · rename_i block s2 hcb
      split at h
      · cases h
      · rename_i u2 s3 hex
        cases h
        simp only at hl
        have y1 : Sync s s1 := getsym_sync hg ⟨fun hne => absurd rfl hne, hok⟩
        have d2 : s2.lossy = 0 := (step_expect (s := s) (w := false) hex).back hl
        exact ((codeblock_sp fuel _ _ _ hcb).fwd d2 (fun h => by cases h) y1).2.2

/-- every node of an accepted input has exact position fields -/
theorem parse_spans {s : Str} {names : List (Str × Nat)} {r : ParseOk}
    (h : parseWith names s = .ok r) (hl : r.lossy = 0) : Spans s r.tree := by
  unfold parseWith at h
  simp only at h
  have hp := lex_printed s
  have hne : NoEofTok (lex s).toks := fun t ht => (hp t ht).1
  exact parseToks_spans h hl (lex_streamOk s (parseToks_lexErr h hne))

end MesonModel.Lang
