/-
Stage B of `parser_error_located`: the lexer's line bookkeeping is exact. For the token produced from state
`st` on input `s` with consumed text `T = s.take n`: either `T` contains no newline and `lineno`/`line_start`
are unchanged, or they advance by the number of newlines in `T` to just after its last newline.
-/
import MesonModel.Lang.LinePos
import MesonModel.Lang.LexPrinted

namespace MesonModel.Lang
open MesonModel.Py

theorem countNl_eq_zero_of_forall {l : Str} (h : ∀ c ∈ l, c ≠ '\n') : countNl l = 0 := by
  induction l with
  | nil => rfl
  | cons a as ih =>
    rw [countNl_cons, ih (fun c hc => h c (List.mem_cons_of_mem _ hc))]
    have := h a List.mem_cons_self
    simp [this]

theorem mem_takeWhile {α} {p : α → Bool} {l : List α} {x : α} (h : x ∈ l.takeWhile p) : p x = true := by
  induction l with
  | nil => simp at h
  | cons a as ih =>
    simp only [List.takeWhile_cons] at h
    split at h
    · rename_i ha
      rcases List.mem_cons.mp h with rfl | h'
      · exact ha
      · exact ih h'
    · simp at h

theorem take_length_takeWhile {α} (p : α → Bool) (l : List α) : l.take (l.takeWhile p).length = l.takeWhile p := by
  induction l with
  | nil => rfl
  | cons a as ih =>
    simp only [List.takeWhile_cons]
    split
    · simp [ih]
    · simp

theorem take_takeWhile_succ {α} (p : α → Bool) (l : List α) (d : α) (r : List α)
    (h : l.drop (l.takeWhile p).length = d :: r) :
    l.take ((l.takeWhile p).length + 1) = l.takeWhile p ++ [d] := by
  rw [List.take_add_one, take_length_takeWhile]
  have : l[(l.takeWhile p).length]? = some d := by
    have := congrArg List.head? h
    simpa [List.head?_drop] using this
  simp [this]

theorem countNl_takeWhile {p : Char → Bool} (l : Str) (hp : ∀ c, p c = true → c ≠ '\n') :
    countNl (l.takeWhile p) = 0 :=
  countNl_eq_zero_of_forall fun c hc => hp c (mem_takeWhile hc)

theorem isBlank_ne_nl (c : Char) (h : isBlank c = true) : c ≠ '\n' := by
  intro hc; subst hc; simp [isBlank] at h
theorem isWord_ne_nl (c : Char) (h : isWord c = true) : c ≠ '\n' := by
  intro hc; subst hc; revert h; decide
theorem isIdStart_ne_nl (c : Char) (h : isIdStart c = true) : c ≠ '\n' := by
  intro hc; subst hc; revert h; decide
theorem isDigit_ne_nl (c : Char) (h : isDigit c = true) : c ≠ '\n' := by
  intro hc; subst hc; revert h; decide
theorem isBin_ne_nl (c : Char) (h : isBin c = true) : c ≠ '\n' := by
  intro hc; subst hc; revert h; decide
theorem isOct_ne_nl (c : Char) (h : isOct c = true) : c ≠ '\n' := by
  intro hc; subst hc; revert h; decide
theorem isHex_ne_nl (c : Char) (h : isHex c = true) : c ≠ '\n' := by
  intro hc; subst hc; revert h; decide
theorem notNl_ne_nl (c : Char) (h : notNl c = true) : c ≠ '\n' := by
  intro hc; subst hc; simp [notNl] at h

theorem mWhitespace_nonl {s : Str} {n : Nat} (h : mWhitespace s = some n) : countNl (s.take n) = 0 := by
  simp only [mWhitespace] at h
  split at h
  · simp at h
  · simp at h; subst h
    rw [take_length_takeWhile]; exact countNl_takeWhile _ isBlank_ne_nl

theorem mId_nonl {s : Str} {n : Nat} (h : mId s = some n) : countNl (s.take n) = 0 := by
  obtain ⟨c, cs, rfl, hc, rfl⟩ := mId_spec' h
  rw [Nat.add_comm, List.take_succ_cons, take_length_takeWhile, countNl_cons,
    countNl_takeWhile _ isWord_ne_nl]
  simp [isIdStart_ne_nl c hc]
where
  mId_spec' {s : Str} {n : Nat} (h : mId s = some n) :
      ∃ c cs, s = c :: cs ∧ isIdStart c = true ∧ n = 1 + (cs.takeWhile isWord).length := by
    unfold mId at h
    split at h
    · rename_i c cs
      split at h
      · rename_i hc
        simp at h
        exact ⟨c, cs, rfl, hc, by omega⟩
      · simp at h
    · simp at h

theorem mComment_nonl {s : Str} {n : Nat} (h : mComment s = some n) : countNl (s.take n) = 0 := by
  unfold mComment at h
  split at h
  · rename_i c cs
    split at h
    · rename_i hc
      simp at h; subst h
      have : c = '#' := by simpa using hc
      subst this
      rw [Nat.add_comm, List.take_succ_cons, take_length_takeWhile, countNl_cons,
        countNl_takeWhile _ notNl_ne_nl]
      rfl
    · simp at h
  · simp at h

theorem mLit2_nonl {a b : Char} (ha : a ≠ '\n') (hb : b ≠ '\n') {s : Str} {n : Nat}
    (h : mLit2 a b s = some n) : countNl (s.take n) = 0 := by
  unfold mLit2 at h
  split at h
  · rename_i c d rest
    split at h
    · rename_i hc
      simp at h; subst h
      simp at hc; obtain ⟨rfl, rfl⟩ := hc
      simp [countNl_cons, ha, hb, countNl]
    · simp at h
  · simp at h

theorem take_two_plus {α} (k : Nat) (a b : α) (l : List α) : (a :: b :: l).take (2 + k) = a :: b :: l.take k := by
  rw [show 2 + k = k + 1 + 1 by omega]; rfl

theorem mNumber_nonl {s : Str} {n : Nat} (h : mNumber s = some n) : countNl (s.take n) = 0 := by
  unfold mNumber at h
  split at h
  · rename_i c cs
    dsimp only at h
    have hc : ∀ k, k ≠ 0 → k = (if (c == 'b' || c == 'B') = true then (cs.takeWhile isBin).length
          else if (c == 'o' || c == 'O') = true then (cs.takeWhile isOct).length
          else if (c == 'x' || c == 'X') = true then (cs.takeWhile isHex).length else 0) →
        c ≠ '\n' ∧ countNl (cs.take k) = 0 := by
      intro k hk0 hk
      split at hk
      · rename_i hcb
        refine ⟨fun h => by subst h; simp at hcb, ?_⟩
        rw [hk, take_length_takeWhile]; exact countNl_takeWhile _ isBin_ne_nl
      · split at hk
        · rename_i _ hcb
          refine ⟨fun h => by subst h; simp at hcb, ?_⟩
          rw [hk, take_length_takeWhile]; exact countNl_takeWhile _ isOct_ne_nl
        · split at hk
          · rename_i _ _ hcb
            refine ⟨fun h => by subst h; simp at hcb, ?_⟩
            rw [hk, take_length_takeWhile]; exact countNl_takeWhile _ isHex_ne_nl
          · exact absurd hk hk0
    generalize hK : (if (c == 'b' || c == 'B') = true then (cs.takeWhile isBin).length
          else if (c == 'o' || c == 'O') = true then (cs.takeWhile isOct).length
          else if (c == 'x' || c == 'X') = true then (cs.takeWhile isHex).length else 0) = K at h hc
    split at h
    · simp at h; subst h; simp [countNl_cons, countNl]
    · rename_i hk0
      simp at h; subst h
      obtain ⟨h1, h2⟩ := hc K hk0 rfl
      rw [take_two_plus, countNl_cons, countNl_cons, h2]
      simp [h1]
  · rename_i a as _
    split at h
    · rename_i ha
      simp at h; subst h
      have : a = '0' := by simpa using ha
      subst this; simp [countNl_cons, countNl]
    · split at h
      · rename_i hd
        simp at h; subst h
        rw [Nat.add_comm, List.take_succ_cons, take_length_takeWhile, countNl_cons,
          countNl_takeWhile _ isDigit_ne_nl]
        simp [isDigit_ne_nl a hd]
      · simp at h
  · simp at h

/-- `\\[ \t]*(#.*)?\n` matches text with exactly one newline, at its end -/
theorem mEolCont_nl {s : Str} {n : Nat} (h : mEolCont s = some n) :
    countNl (s.take n) = 1 ∧ lastLineLen (s.take n) = 0 := by
  unfold mEolCont at h
  split at h
  · rename_i c cs
    split at h
    · dsimp only at h
      split at h
      · rename_i d r hdrop
        split at h
        · rename_i hd
          simp at h; subst h
          have hd' : d = '\n' := by simpa using hd
          subst hd'
          have e : (c :: cs).take ((cs.takeWhile isBlank).length + 2) = (c :: cs.takeWhile isBlank) ++ ['\n'] := by
            rw [List.take_succ_cons, take_takeWhile_succ _ _ _ _ hdrop]; rfl
          rw [e]
          have hc : c ≠ '\n' := by intro h; subst h; simp_all
          refine ⟨?_, ?_⟩
          · rw [countNl_append, countNl_cons, countNl_takeWhile _ isBlank_ne_nl]; simp [hc, countNl_cons, countNl]
          · rw [lastLineLen_append_nl _ _ (by decide)]; rfl
        · split at h
          · rename_i hd hd2
            have hd' : d = '#' := by simpa using hd2
            subst hd'
            split at h
            · rename_i e tl hdrop2
              split at h
              · rename_i he
                simp at h; subst h
                have he' : e = '\n' := by simpa using he
                subst he'
                have hc : c ≠ '\n' := by intro h; subst h; simp_all
                -- the matched text: backslash, blanks, '#', comment text, newline
                have hB0 : countNl (cs.takeWhile isBlank) = 0 := countNl_takeWhile _ isBlank_ne_nl
                have hK0 : countNl (r.takeWhile notNl) = 0 := countNl_takeWhile _ notNl_ne_nl
                have e1 : cs = cs.takeWhile isBlank ++ ('#' :: r) := by
                  have := List.take_append_drop (cs.takeWhile isBlank).length cs
                  rw [take_length_takeWhile, hdrop] at this; exact this.symm
                have e2 : r.take ((r.takeWhile notNl).length + 1) = r.takeWhile notNl ++ ['\n'] :=
                  take_takeWhile_succ _ _ _ _ hdrop2
                generalize cs.takeWhile isBlank = B at e1 hB0 ⊢
                generalize r.takeWhile notNl = K at e2 hK0 ⊢
                have e3 : (c :: cs).take (B.length + K.length + 3) = (c :: B ++ '#' :: K) ++ ['\n'] := by
                  rw [e1, show B.length + K.length + 3 = (B.length + ((K.length + 1) + 1)) + 1 by omega,
                    List.take_succ_cons, List.take_append,
                    List.take_of_length_le (by omega : B.length ≤ B.length + (K.length + 1 + 1)),
                    show B.length + (K.length + 1 + 1) - B.length = (K.length + 1) + 1 by omega,
                    List.take_succ_cons, e2]
                  simp
                rw [e3]
                refine ⟨?_, ?_⟩
                · simp only [countNl_append, countNl_cons, hB0, hK0]
                  simp [hc, countNl]
                · rw [lastLineLen_append_nl _ _ (by decide)]; rfl
              · simp at h
            · simp at h
          · simp at h
      · simp at h
    · simp at h
  · simp at h

/-! ### one lexer step -/

def singleEolOk (p : Nat × Tid) : Bool := (p.2 == .eol) == (p.1 == 10)

theorem singleCharTable_eol : singleCharTable.all singleEolOk = true := by decide

theorem lookupSingle_eol {c : Char} {k : Tid} (h : lookupSingle c = some k) : k = .eol ↔ c = '\n' := by
  unfold lookupSingle at h
  simp [Option.map_eq_some_iff] at h
  obtain ⟨a, hf⟩ := h
  have hmem := List.mem_of_find?_eq_some hf
  have hp := List.find?_some hf
  simp at hp
  have := List.all_eq_true.mp singleCharTable_eol _ hmem
  simp only [singleEolOk, beq_iff_eq] at this
  constructor
  · intro hk
    have h10 : a = 10 := by
      have : ((k == Tid.eol) = true) := by simp [hk]
      simp_all
    have hc := Char.ofNat_toNat c
    rw [← hp, h10] at hc; exact hc.symm
  · intro hc
    subst hc
    have h10 : a = 10 := by simpa using hp
    have : (a == 10) = true := by simp [h10]
    simp_all

/-- effect of consuming the text `T` (of length `n`) on the line bookkeeping -/
def LineEff (T : Str) (n : Nat) (st st' : LexSt) : Prop :=
  st'.loc = st.loc + n ∧
  ((countNl T = 0 ∧ st'.lineno = st.lineno ∧ st'.lineStart = st.lineStart) ∨
   (0 < countNl T ∧ st'.lineno = st.lineno + countNl T ∧ st'.lineStart = st.loc + n - lastLineLen T))

def TokPos (t : Token) (n : Nat) (st : LexSt) : Prop :=
  t.lineno = st.lineno ∧ t.colno = st.loc - st.lineStart ∧ t.spanStart = st.loc ∧ t.spanEnd = st.loc + n

theorem lineEff_plain {T : Str} {n : Nat} {st : LexSt} (h : countNl T = 0) :
    LineEff T n st { st with loc := st.loc + n } := ⟨rfl, Or.inl ⟨h, rfl, rfl⟩⟩

theorem lineEff_cond {T : Str} {n : Nat} {st : LexSt} :
    LineEff T n st (if countNl T > 0 then
        { st with loc := st.loc + n, lineno := st.lineno + countNl T, lineStart := st.loc + n - lastLineLen T }
      else { st with loc := st.loc + n }) := by
  split
  · rename_i h; exact ⟨rfl, Or.inr ⟨h, rfl, rfl⟩⟩
  · rename_i h; exact ⟨rfl, Or.inl ⟨by omega, rfl, rfl⟩⟩

theorem quotes_nonl : countNl "'''".toList = 0 := by decide

theorem lineEff_triple {T v : Str} {n : Nat} {st : LexSt} (hT : "'''".toList ++ v ++ "'''".toList = T) :
    LineEff T n st (if countNl v > 0 then
        { st with loc := st.loc + n, lineno := st.lineno + countNl v, lineStart := st.loc + n - lastLineLen v - 3 }
      else { st with loc := st.loc + n }) := by
  have hc : countNl T = countNl v := by
    rw [← hT, countNl_append, countNl_append, quotes_nonl]; omega
  split
  · rename_i h
    refine ⟨rfl, Or.inr ⟨by omega, by simp [hc], ?_⟩⟩
    have : lastLineLen T = lastLineLen v + 3 := by
      rw [← hT, lastLineLen_append_nonl _ _ quotes_nonl, lastLineLen_append_nl _ _ h]; rfl
    simp only [this]; omega
  · rename_i h; exact ⟨rfl, Or.inl ⟨by omega, rfl, rfl⟩⟩

theorem lineEff_ftriple {T v : Str} {n : Nat} {st : LexSt}
    (hT : ['f'] ++ ("'''".toList ++ v ++ "'''".toList) = T) :
    LineEff T n st (if countNl v > 0 then
        { st with loc := st.loc + n, lineno := st.lineno + countNl v, lineStart := st.loc + n - lastLineLen v - 3 }
      else { st with loc := st.loc + n }) := by
  have hc : countNl T = countNl v := by
    rw [← hT, countNl_append, countNl_append, countNl_append, quotes_nonl]
    have : countNl ['f'] = 0 := by decide
    omega
  split
  · rename_i h
    refine ⟨rfl, Or.inr ⟨by omega, by simp [hc], ?_⟩⟩
    have : lastLineLen T = lastLineLen v + 3 := by
      rw [← hT, ← List.append_assoc, ← List.append_assoc, lastLineLen_append_nonl _ _ quotes_nonl,
        lastLineLen_append_nl _ _ h]; rfl
    simp only [this]; omega
  · rename_i h; exact ⟨rfl, Or.inl ⟨by omega, rfl, rfl⟩⟩

theorem lexStep_line {s : Str} {st : LexSt} {t : Token} {st' : LexSt} {n : Nat}
    (h : lexStep s st = .tok t st' n) : TokPos t n st ∧ LineEff (s.take n) n st st' := by
  unfold lexStep at h
  dsimp only at h
  split at h
  · rename_i tid m hm
    have hspec := firstMatch_spec hm
    cases tid <;> simp only [matchSpec] at hspec <;> try (simp at hspec; done)
    case whitespace =>
      simp at h; obtain ⟨rfl, rfl, rfl⟩ := h
      exact ⟨⟨rfl, rfl, rfl, rfl⟩, lineEff_plain (mWhitespace_nonl hspec)⟩
    case id =>
      simp only at h
      split at h
      · simp at h; obtain ⟨rfl, rfl, rfl⟩ := h
        exact ⟨⟨rfl, rfl, rfl, rfl⟩, lineEff_plain (mId_nonl hspec)⟩
      · simp at h; obtain ⟨rfl, rfl, rfl⟩ := h
        exact ⟨⟨rfl, rfl, rfl, rfl⟩, lineEff_plain (mId_nonl hspec)⟩
    case number =>
      simp at h; obtain ⟨rfl, rfl, rfl⟩ := h
      exact ⟨⟨rfl, rfl, rfl, rfl⟩, lineEff_plain (mNumber_nonl hspec)⟩
    case comment =>
      simp at h; obtain ⟨rfl, rfl, rfl⟩ := h
      exact ⟨⟨rfl, rfl, rfl, rfl⟩, lineEff_plain (mComment_nonl hspec)⟩
    case plusassign =>
      simp at h; obtain ⟨rfl, rfl, rfl⟩ := h
      exact ⟨⟨rfl, rfl, rfl, rfl⟩, lineEff_plain (mLit2_nonl (by decide) (by decide) hspec)⟩
    case equal =>
      simp at h; obtain ⟨rfl, rfl, rfl⟩ := h
      exact ⟨⟨rfl, rfl, rfl, rfl⟩, lineEff_plain (mLit2_nonl (by decide) (by decide) hspec)⟩
    case nequal =>
      simp at h; obtain ⟨rfl, rfl, rfl⟩ := h
      exact ⟨⟨rfl, rfl, rfl, rfl⟩, lineEff_plain (mLit2_nonl (by decide) (by decide) hspec)⟩
    case le =>
      simp at h; obtain ⟨rfl, rfl, rfl⟩ := h
      exact ⟨⟨rfl, rfl, rfl, rfl⟩, lineEff_plain (mLit2_nonl (by decide) (by decide) hspec)⟩
    case ge =>
      simp at h; obtain ⟨rfl, rfl, rfl⟩ := h
      exact ⟨⟨rfl, rfl, rfl, rfl⟩, lineEff_plain (mLit2_nonl (by decide) (by decide) hspec)⟩
    case string =>
      simp only at h
      injection h with h1 h2 h3
      subst h1 h2 h3
      exact ⟨⟨rfl, rfl, rfl, rfl⟩, lineEff_cond⟩
    case fstring =>
      simp only at h
      injection h with h1 h2 h3
      subst h1 h2 h3
      exact ⟨⟨rfl, rfl, rfl, rfl⟩, lineEff_cond⟩
    case multilineString =>
      obtain ⟨rest, i, rfl, rfl, h1, h2⟩ := mMultiline_spec hspec
      simp only at h
      injection h with h1' h2' h3'
      subst h1' h2' h3'
      exact ⟨⟨rfl, rfl, rfl, rfl⟩, lineEff_triple (triple_slice h1 h2)⟩
    case multilineFstring =>
      obtain ⟨rest, i, rfl, rfl, h1, h2⟩ := mMultilineF_spec hspec
      simp only at h
      injection h with h1' h2' h3'
      subst h1' h2' h3'
      exact ⟨⟨rfl, rfl, rfl, rfl⟩, lineEff_ftriple (ftriple_slice h1 h2)⟩
    case eolCont =>
      simp at h; obtain ⟨rfl, rfl, rfl⟩ := h
      obtain ⟨c1, c2⟩ := mEolCont_nl hspec
      exact ⟨⟨rfl, rfl, rfl, rfl⟩, rfl, Or.inr ⟨by omega, by simp [c1], by simp [c2]⟩⟩
  · split at h
    · simp at h
    · rename_i c cs _
      split at h
      · simp at h
      · rename_i tid hl
        have heol := lookupSingle_eol hl
        have hT : (c :: cs).take 1 = [c] := rfl
        by_cases hc : c = '\n'
        · have htid := heol.mpr hc
          subst htid; subst hc
          simp only at h
          injection h with h1 h2 h3
          subst h1 h2 h3
          have e1 : countNl (('\n' :: cs).take 1) = 1 := rfl
          have e2 : lastLineLen (('\n' :: cs).take 1) = 0 := rfl
          exact ⟨⟨rfl, rfl, rfl, rfl⟩, rfl, Or.inr ⟨by omega, by rw [e1], by rw [e2]; rfl⟩⟩
        · have hne : tid ≠ .eol := fun h' => hc (heol.mp h')
          have h0 : countNl ((c :: cs).take 1) = 0 := by simp [hT, countNl_cons, hc, countNl]
          repeat' split at h
          all_goals (first
            | (simp at h; done)
            | (exfalso; exact hne rfl)
            | (injection h with h1 h2 h3; subst h1 h2 h3;
               exact ⟨⟨rfl, rfl, rfl, rfl⟩, rfl, Or.inl ⟨h0, rfl, rfl⟩⟩))

/-! ### a match never extends past the input -/

theorem length_takeWhile_le {α} (p : α → Bool) (l : List α) : (l.takeWhile p).length ≤ l.length := by
  induction l with
  | nil => simp
  | cons a as ih => simp only [List.takeWhile_cons]; split <;> simp <;> omega

theorem length_of_drop_cons {α} {l : List α} {k : Nat} {d : α} {r : List α} (h : l.drop k = d :: r) :
    k + 1 + r.length = l.length := by
  have := congrArg List.length h
  simp only [List.length_drop, List.length_cons] at this
  omega

theorem matchSpec_le {t : Tid} {s : Str} {n : Nat} (h : matchSpec t s = some n) : n ≤ s.length := by
  cases t <;> simp only [matchSpec] at h <;> try (simp at h; done)
  · simp only [mWhitespace] at h; split at h <;> simp at h
    subst h; exact length_takeWhile_le _ _
  · obtain ⟨rest, i, rfl, rfl, h1, _⟩ := mMultilineF_spec h; simp; omega
  · obtain ⟨cs, m, rfl, rfl, _, h2, _⟩ := mFstring_spec h; simp; omega
  · obtain ⟨c, cs, rfl, _, rfl⟩ := mId_nonl.mId_spec' h
    have := length_takeWhile_le isWord cs; simp; omega
  · unfold mNumber at h
    split at h
    · rename_i c cs
      dsimp only at h
      have hk : (if (c == 'b' || c == 'B') = true then (cs.takeWhile isBin).length
          else if (c == 'o' || c == 'O') = true then (cs.takeWhile isOct).length
          else if (c == 'x' || c == 'X') = true then (cs.takeWhile isHex).length else 0) ≤ cs.length := by
        split
        · exact length_takeWhile_le _ _
        · split
          · exact length_takeWhile_le _ _
          · split
            · exact length_takeWhile_le _ _
            · omega
      generalize (if (c == 'b' || c == 'B') = true then (cs.takeWhile isBin).length
          else if (c == 'o' || c == 'O') = true then (cs.takeWhile isOct).length
          else if (c == 'x' || c == 'X') = true then (cs.takeWhile isHex).length else 0) = K at h hk
      split at h <;> (simp at h; subst h; simp <;> omega)
    · rename_i a as _
      split at h
      · simp at h; subst h; simp
      · split at h
        · simp at h; subst h
          have := length_takeWhile_le isDigit as; simp; omega
        · simp at h
    · simp at h
  · unfold mEolCont at h
    split at h
    · rename_i c cs
      split at h
      · dsimp only at h
        split at h
        · rename_i d r hdrop
          have l1 := length_of_drop_cons hdrop
          split at h
          · simp at h; subst h; simp; omega
          · split at h
            · split at h
              · rename_i e tl hdrop2
                have l2 := length_of_drop_cons hdrop2
                split at h
                · simp at h; subst h; simp; omega
                · simp at h
              · simp at h
            · simp at h
        · simp at h
      · simp at h
    · simp at h
  · obtain ⟨rest, i, rfl, rfl, h1, _⟩ := mMultiline_spec h; simp; omega
  · unfold mComment at h
    split at h
    · rename_i c cs
      split at h
      · simp at h; subst h
        have := length_takeWhile_le notNl cs; simp; omega
      · simp at h
    · simp at h
  · obtain ⟨cs, m, rfl, rfl, _, h2, _⟩ := mString_spec h; simp; omega
  all_goals (unfold mLit2 at h; split at h <;> (try split at h) <;> simp at h <;> (subst h; simp))

theorem lexStep_le {s : Str} {st : LexSt} {t : Token} {st' : LexSt} {n : Nat}
    (h : lexStep s st = .tok t st' n) : n ≤ s.length := by
  unfold lexStep at h
  dsimp only at h
  split at h
  · rename_i tid m hm
    have := matchSpec_le (firstMatch_spec hm)
    repeat' split at h
    all_goals (simp at h; obtain ⟨_, _, rfl⟩ := h; assumption)
  · repeat' split at h
    all_goals (first
      | (simp at h; done)
      | (simp at h; obtain ⟨_, _, rfl⟩ := h; simp))

/-! ### every token and the lexer's error sit at a position inside the text -/

/-- lexer state after consuming the prefix `pre` -/
def LI (pre : Str) (st : LexSt) : Prop :=
  st.loc = pre.length ∧ st.lineno = countNl pre + 1 ∧ st.lineStart = lineStartOf pre

theorem LI_step {pre T : Str} {n : Nat} {st st' : LexSt} (hn : T.length = n) (hi : LI pre st)
    (he : LineEff T n st st') : LI (pre ++ T) st' := by
  obtain ⟨h1, h2, h3⟩ := hi
  obtain ⟨e1, e2⟩ := he
  refine ⟨by simp [e1, h1, hn], ?_⟩
  rcases e2 with ⟨c0, l0, s0⟩ | ⟨c1, l1, s1⟩
  · exact ⟨by rw [countNl_append, c0, l0, h2], by rw [lineStartOf_append_nonl _ _ c0, s0, h3]⟩
  · exact ⟨by rw [countNl_append, l1, h2]; omega, by rw [lineStartOf_append_nl _ _ c1, s1, h1, hn]⟩

theorem lexGo_pos (fuel : Nat) : ∀ (pre s : Str) (st : LexSt), LI pre st →
    (∀ t ∈ (lexGo fuel s st).toks, InText (pre ++ s) (t.lineno, t.colno) ∧
      InText (pre ++ s) (t.lineno, t.colno + t.spanEnd - t.spanStart)) ∧
    (∀ l c, (lexGo fuel s st).err = some (l, c) → InText (pre ++ s) (l, c)) := by
  induction fuel with
  | zero => intro pre s st _; simp [lexGo]
  | succ k ih =>
    intro pre s st hi
    cases s with
    | nil => simp [lexGo]
    | cons a as =>
      simp only [lexGo]
      obtain ⟨h1, h2, h3⟩ := hi
      have hstart : InText (pre ++ a :: as) (st.lineno, st.loc - st.lineStart) := by
        have := inText_of_prefix pre (a :: as) 0 (by simp)
        rw [h1, h2, h3]; simpa using this
      cases hstep : lexStep (a :: as) st with
      | err l col =>
        refine ⟨by simp, fun l' c' h => ?_⟩
        simp at h; obtain ⟨rfl, rfl⟩ := h
        have : l = st.lineno ∧ col = st.loc - st.lineStart := by
          unfold lexStep at hstep
          dsimp only at hstep
          repeat' split at hstep
          all_goals (first
            | (simp at hstep; done)
            | (simp at hstep; obtain ⟨rfl, rfl⟩ := hstep; exact ⟨rfl, rfl⟩))
        rw [this.1, this.2]; exact hstart
      | tok t st' n =>
        simp only
        have hle := lexStep_le hstep
        obtain ⟨⟨p1, p2, p3, p4⟩, heff⟩ := lexStep_line hstep
        have hlen : ((a :: as).take n).length = n := by
          rw [List.length_take]; exact Nat.min_eq_left hle
        have hi' := LI_step hlen ⟨h1, h2, h3⟩ heff
        obtain ⟨ih1, ih2⟩ := ih (pre ++ (a :: as).take n) ((a :: as).drop n) st' hi'
        have hsplit : pre ++ (a :: as).take n ++ (a :: as).drop n = pre ++ a :: as := by
          rw [List.append_assoc, List.take_append_drop]
        rw [hsplit] at ih1 ih2
        refine ⟨fun x hx => ?_, ih2⟩
        simp only [List.mem_cons] at hx
        rcases hx with rfl | hx
        · refine ⟨by rw [p1, p2]; exact hstart, ?_⟩
          have := inText_of_prefix pre (a :: as) n hle
          rw [p1, p2, p3, p4, h1, h2, h3]
          have e : pre.length - lineStartOf pre + (pre.length + n) - pre.length =
              pre.length - lineStartOf pre + n := by omega
          rw [e]; exact this
        · exact ih1 x hx

/-- every token of `lex s` starts and ends at a position inside `s`; so does the lexer's error -/
theorem lex_pos (s : Str) :
    (∀ t ∈ (lex s).toks, InText s (t.lineno, t.colno) ∧ InText s (t.lineno, t.colno + t.spanEnd - t.spanStart)) ∧
    (∀ l c, (lex s).err = some (l, c) → InText s (l, c)) := by
  have h0 : LI [] {} := ⟨rfl, rfl, rfl⟩
  unfold lex
  split
  · split
    · refine ⟨by simp, fun l c h => ?_⟩
      simp at h; obtain ⟨rfl, rfl⟩ := h
      exact ⟨by simp, by simp [lineOff]⟩
    · simpa using lexGo_pos _ [] _ {} h0
  · simpa using lexGo_pos _ [] _ {} h0

/-- exact offsets: a token's line/column address its `bytespan` start, and the span is as long as its text -/
theorem lexGo_off (fuel : Nat) : ∀ (pre s : Str) (st : LexSt), LI pre st →
    ∀ t ∈ (lexGo fuel s st).toks,
      lineOff (pre ++ s) t.lineno + t.colno = t.spanStart ∧ t.spanEnd = t.spanStart + t.text.length := by
  induction fuel with
  | zero => intro pre s st _; simp [lexGo]
  | succ k ih =>
    intro pre s st hi
    cases s with
    | nil => simp [lexGo]
    | cons a as =>
      simp only [lexGo]
      obtain ⟨h1, h2, h3⟩ := hi
      cases hstep : lexStep (a :: as) st with
      | err l col => simp
      | tok t st' n =>
        simp only
        have hle := lexStep_le hstep
        obtain ⟨⟨p1, p2, p3, p4⟩, heff⟩ := lexStep_line hstep
        have hlen : ((a :: as).take n).length = n := by
          rw [List.length_take]; exact Nat.min_eq_left hle
        have hi' := LI_step hlen ⟨h1, h2, h3⟩ heff
        have ih1 := ih (pre ++ (a :: as).take n) ((a :: as).drop n) st' hi'
        have hsplit : pre ++ (a :: as).take n ++ (a :: as).drop n = pre ++ a :: as := by
          rw [List.append_assoc, List.take_append_drop]
        rw [hsplit] at ih1
        intro x hx
        simp only [List.mem_cons] at hx
        rcases hx with rfl | hx
        · have ht := lexStep_text hstep
          have hls := lineStartOf_le pre
          refine ⟨?_, by rw [p4, p3, ht, hlen]⟩
          rw [p1, p2, p3, h1, h2, h3, lineOff_prefix]; omega
        · exact ih1 x hx

theorem lex_token_offsets (s : Str) : ∀ t ∈ (lex s).toks,
    lineOff s t.lineno + t.colno = t.spanStart ∧ t.spanEnd = t.spanStart + t.text.length := by
  have h0 : LI [] {} := ⟨rfl, rfl, rfl⟩
  unfold lex
  split
  · split
    · simp
    · simpa using lexGo_off _ [] _ {} h0
  · simpa using lexGo_off _ [] _ {} h0

end MesonModel.Lang
